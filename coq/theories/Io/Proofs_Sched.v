(* Proofs about Io/Model_Sched.v (C30). *)
From LanceV Require Import Common.Base Io.Model_Sched.
Local Open Scope N_scope.

(* ---------------------------------------------------------------------------------------- *)
(* F8: the faithful model violates "one buffer per range, exact bytes" outside Dom_C30.      *)
(* ---------------------------------------------------------------------------------------- *)
Definition f16 : bytes := N_seq 0 16.

Lemma request_shape_refuted_empty :
  in_file f16 [(5,5)] = true /\ Known_C30_request_shape 4 100 [(5,5)] = true /\
  submit_request f16 4 100 [(5,5)] = Ok [].
Proof. vm_compute. repeat split. Qed.

Lemma request_shape_refuted_unsorted :
  in_file f16 [(10,12);(0,5)] = true /\ Known_C30_request_shape 2 100 [(10,12);(0,5)] = true /\
  submit_request f16 2 100 [(10,12);(0,5)] = Ok [[10;11]].
Proof. vm_compute. repeat split. Qed.

Lemma request_shape_refuted_overlap_split :
  in_file f16 [(0,3);(0,4)] = true /\ Known_C30_request_shape 0 3 [(0,3);(0,4)] = true /\
  submit_request f16 0 3 [(0,3);(0,4)] = Panic.
Proof. vm_compute. repeat split. Qed.

(* ---------------------------------------------------------------------------------------- *)
(* A. slices of a file                                                                       *)
(* ---------------------------------------------------------------------------------------- *)
Lemma firstn_app_skipn {A} : forall n1 n2 (l : list A),
  firstn n1 l ++ firstn n2 (skipn n1 l) = firstn (n1 + n2) l.
Proof.
  induction n1 as [|n1 IH]; intros n2 l; [reflexivity|].
  destruct l as [|x l]; cbn [firstn skipn Nat.add app].
  - now rewrite firstn_nil.
  - now rewrite IH.
Qed.

Lemma skipn_skipn' {A} : forall a b (l : list A), skipn a (skipn b l) = skipn (b + a) l.
Proof.
  intros a b; revert a; induction b as [|b IH]; intros a l; [reflexivity|].
  destruct l as [|x l]; cbn [skipn Nat.add]; [now rewrite skipn_nil | apply IH].
Qed.

Definition wf_in (f : bytes) (u : range) : Prop := fst u <= snd u /\ snd u <= blen f.

Lemma blen_slice f u : wf_in f u -> blen (slice f u) = snd u - fst u.
Proof.
  intros [H1 H2]. unfold blen, slice in *.
  rewrite firstn_length_le; [lia|]. rewrite skipn_length. lia.
Qed.

Lemma slice_empty f s : slice f (s, s) = [].
Proof. unfold slice; cbn [fst snd]. now rewrite N.sub_diag. Qed.

Lemma slice_app f a b c : a <= b -> b <= c -> c <= blen f ->
  slice f (a, b) ++ slice f (b, c) = slice f (a, c).
Proof.
  intros H1 H2 H3. unfold slice; cbn [fst snd].
  replace (N.to_nat b) with (N.to_nat a + N.to_nat (b - a))%nat by lia.
  rewrite <- skipn_skipn'. rewrite firstn_app_skipn. f_equal. lia.
Qed.

Lemma bytes_slice_slice f u x y : wf_in f u -> x <= y -> y <= snd u - fst u ->
  bytes_slice (slice f u) x y = Ok (slice f (fst u + x, fst u + y)).
Proof.
  intros Hwf Hxy Hy. unfold bytes_slice. rewrite (blen_slice f u Hwf).
  destruct (y <? x) eqn:E1; [lia|]. destruct (snd u - fst u <? y) eqn:E2; [lia|].
  f_equal. unfold slice; cbn [fst snd].
  rewrite skipn_firstn_comm, firstn_firstn, skipn_skipn'.
  f_equal; [lia|]. f_equal. lia.
Qed.

(* ---------------------------------------------------------------------------------------- *)
(* B. The un-coalescing walk.  Invariant (DESIGN.md App. A): the head of the issued list is   *)
(*    at or before the first piece intersecting the next request.                             *)
(* ---------------------------------------------------------------------------------------- *)

(* starting from a piece ending at [c], contiguous pieces reach the offset [e] *)
Fixpoint chain (c : N) (us : list range) (e : N) : Prop :=
  e <= c \/ match us with [] => False | v :: us' => fst v = c /\ chain (snd v) us' e end.

(* request [o] starts inside some piece of [us] (all earlier pieces end before it) and is
   covered from there by contiguous pieces *)
Fixpoint covers (us : list range) (o : range) : Prop :=
  match us with
  | [] => False
  | u :: us' => (fst u <= fst o /\ fst o < snd u /\ chain (snd u) us' (snd o))
                \/ (snd u <= fst o /\ covers us' o)
  end.

(* the same, inside one piece *)
Fixpoint covers1 (us : list range) (o : range) : Prop :=
  match us with
  | [] => False
  | u :: us' => (fst u <= fst o /\ fst o < snd u /\ snd o <= snd u)
                \/ (snd u <= fst o /\ covers1 us' o)
  end.

Fixpoint Inv (us os : list range) : Prop :=
  match os with
  | [] => True
  | o :: os' =>
      (fst o < snd o /\ covers us o /\ Forall (fun o' => fst o <= fst o') os'
       /\ (covers1 us o \/ Forall (fun o' => snd o <= fst o') os'))
      /\ Inv us os'
  end.

Lemma covers_drop u us o : covers (u :: us) o -> snd u <= fst o -> covers us o.
Proof. cbn [covers]. intros [(_ & H & _) | (_ & H)] Hle; [lia | exact H]. Qed.

Lemma covers1_drop u us o : covers1 (u :: us) o -> snd u <= fst o -> covers1 us o.
Proof. cbn [covers1]. intros [(_ & H & _) | (_ & H)] Hle; [lia | exact H]. Qed.

Lemma Inv_drop u us : forall os, Inv (u :: us) os -> Forall (fun o => snd u <= fst o) os -> Inv us os.
Proof.
  induction os as [|o os IH]; intros HI HF; [exact I|].
  inversion HF as [|? ? Ho HF']; subst. destruct HI as ((Hne & Hc & Hs & Hd) & HI').
  split; [|apply IH; assumption].
  repeat split; try assumption.
  - eapply covers_drop; eassumption.
  - destruct Hd as [Hd | Hd]; [left; eapply covers1_drop; eassumption | right; exact Hd].
Qed.

Definition with_b (f : bytes) (us : list range) : list (range * bytes) := map (fun u => (u, slice f u)) us.

Section Walk.
  Variable f : bytes.

  Lemma copy_loop_ok (o : range) : fst o < snd o -> snd o <= blen f ->
    forall us cur c acc,
      Forall (wf_in f) us -> fst o <= c -> c <= snd o ->
      (c < snd o -> snd cur <= c) ->
      chain c us (snd o) -> acc = slice f (fst o, c) ->
      exists rem,
        copy_loop (snd o - fst o) (c - fst o) acc (cur, slice f cur) (with_b f us) = Ok (slice f o, with_b f rem)
        /\ (forall x, In x rem -> In x (cur :: us))
        /\ (forall os', Forall (fun o' => snd o <= fst o') os' -> Inv (cur :: us) os' -> Inv rem os').
  Proof.
    intros Hne Hfile. induction us as [|v us IH]; intros cur c acc Hwf Hoc Hco Hcur Hch Hacc.
    - cbn [chain] in Hch. destruct Hch as [Hch | []].
      assert (c = snd o) by lia; subst c.
      exists [cur]. cbn [copy_loop with_b map].
      destruct (snd o - fst o <? snd o - fst o) eqn:E; [lia|].
      rewrite Hacc. destruct o as [s e]; cbn [fst snd] in *. repeat split; auto.
    - cbn [with_b map copy_loop].
      destruct (c - fst o <? snd o - fst o) eqn:E.
      + assert (Hlt : c < snd o) by lia.
        cbn [chain] in Hch. destruct Hch as [Hch | (Hvs & Hch)]; [lia|].
        apply Forall_cons_iff in Hwf. destruct Hwf as [Hv Hwf'].
        subst c. cbn [fst snd].
        set (take := N.min (snd o - fst o - (fst v - fst o)) (snd v - fst v)).
        assert (Htake : take <= snd v - fst v) by (unfold take; lia).
        rewrite (bytes_slice_slice f v 0 take Hv) by lia.
        cbn [bind].
        destruct Hv as [Hv1 Hv2].
        assert (Hc' : fst o <= fst v + take /\ fst v + take <= snd o) by (unfold take; lia).
        specialize (IH v (fst v + take) (slice f (fst o, fst v) ++ slice f (fst v + 0, fst v + take)) Hwf'
                       (proj1 Hc') (proj2 Hc')).
        destruct IH as (rem & Hrun & Hin & Hinv).
        * intro Hlt'. unfold take in *. lia.
        * destruct (N.eq_dec (fst v + take) (snd v)) as [Heq | Hneq].
          -- rewrite Heq. exact Hch.
          -- destruct us; cbn [chain]; left; unfold take in *; lia.
        * rewrite N.add_0_r. apply slice_app; lia.
        * exists rem. repeat split.
          -- replace (fst v - fst o + take) with (fst v + take - fst o) by lia.
             rewrite Hacc. exact Hrun.
          -- intros x Hx. right. apply Hin. exact Hx.
          -- intros os' HF HI. apply Hinv; [exact HF|].
             apply (Inv_drop cur (v :: us) os' HI).
             eapply Forall_impl; [|exact HF]. cbn beta. intros o' Ho'. specialize (Hcur Hlt). lia.
      + assert (c = snd o) by lia; subst c.
        exists (cur :: v :: us). repeat split; auto.
        rewrite Hacc. destruct o; reflexivity.
  Qed.

  Lemma find_and_take_ok (o : range) : fst o < snd o -> snd o <= blen f ->
    forall us, Forall (wf_in f) us -> covers us o ->
      exists rem,
        find_and_take o (with_b f us) = Ok (Some (slice f o, with_b f rem))
        /\ (forall x, In x rem -> In x us)
        /\ (forall os', Forall (fun o' => fst o <= fst o') os' ->
                        (covers1 us o \/ Forall (fun o' => snd o <= fst o') os') ->
                        Inv us os' -> Inv rem os').
  Proof.
    intros Hne Hfile. induction us as [|u us IH]; intros Hwf Hcov; [destruct Hcov|].
    apply Forall_cons_iff in Hwf. destruct Hwf as [Hu Hwf'].
    cbn [with_b map find_and_take]. unfold is_overlapping.
    cbn [covers] in Hcov. destruct Hcov as [(H1 & H2 & Hch) | (H1 & Hcov)].
    - destruct (fst u <? snd o) eqn:E1; [|lia]. destruct (fst o <? snd u) eqn:E2; [|lia].
      cbn [andb]. unfold sub_chk. destruct (fst o <? fst u) eqn:E3; [lia|]. cbn [bind].
      destruct (snd o <=? snd u) eqn:E4.
      + destruct (snd o <? fst u) eqn:E5; [lia|]. cbn [bind].
        rewrite (bytes_slice_slice f u (fst o - fst u) (snd o - fst u) Hu) by lia. cbn [bind].
        exists (u :: us). repeat split; auto.
        replace (fst u + (fst o - fst u)) with (fst o) by lia.
        replace (fst u + (snd o - fst u)) with (snd o) by lia.
        destruct o; reflexivity.
      + rewrite (blen_slice f u Hu).
        rewrite (bytes_slice_slice f u (fst o - fst u) (snd u - fst u) Hu) by lia. cbn [bind].
        replace (fst u + (fst o - fst u)) with (fst o) by lia.
        replace (fst u + (snd u - fst u)) with (snd u) by (destruct Hu; lia).
        rewrite (blen_slice f (fst o, snd u)) by (destruct Hu; split; cbn [fst snd]; lia).
        cbn [fst snd].
        destruct (copy_loop_ok o Hne Hfile us u (snd u) (slice f (fst o, snd u)) Hwf')
          as (rem & Hrun & Hin & Hinv); try lia; auto.
        exists rem.
        match goal with |- context [bind ?X _] =>
          replace X with (Ok (slice f o, with_b f rem) : outcome (bytes * list (range * bytes)))
            by (symmetry; exact Hrun) end.
        cbn [bind]. repeat split; auto.
        intros os' Hs Hd HI. apply Hinv; [|exact HI].
        destruct Hd as [Hd | Hd]; [|exact Hd].
        cbn [covers1] in Hd. destruct Hd as [(_ & _ & Hd) | (Hd & _)]; lia.
    - destruct (fst o <? snd u) eqn:E2; [lia|]. rewrite andb_false_r.
      destruct (IH Hwf' Hcov) as (rem & Hrun & Hin & Hinv).
      exists rem. split; [exact Hrun|]. split; [intros x Hx; right; apply Hin, Hx|].
      intros os' Hs Hd HI. apply Hinv; [exact Hs | |].
      + destruct Hd as [Hd | Hd]; [left; eapply covers1_drop; eassumption | right; exact Hd].
      + apply (Inv_drop u us os' HI). eapply Forall_impl; [|exact Hs]. cbn beta. intros; lia.
  Qed.

  Theorem walk_ok : forall os us,
    Forall (wf_in f) us -> Forall (fun o => snd o <= blen f) os -> Inv us os ->
    walk os (with_b f us) = Ok (map (slice f) os).
  Proof.
    induction os as [|o os IH]; intros us Hwf Hfile HI; [reflexivity|].
    apply Forall_cons_iff in Hfile. destruct Hfile as [Ho Hfile].
    destruct HI as ((Hne & Hcov & Hs & Hd) & HI).
    destruct (find_and_take_ok o Hne Ho us Hwf Hcov) as (rem & Hrun & Hin & Hinv).
    cbn [walk map]. rewrite Hrun. cbn [bind].
    rewrite (IH rem).
    - reflexivity.
    - rewrite Forall_forall in *. intros x Hx. apply Hwf, Hin, Hx.
    - exact Hfile.
    - apply Hinv; assumption.
  Qed.
End Walk.

(* ---------------------------------------------------------------------------------------- *)
(* C. Coalescing and splitting produce a list of issued ranges that covers every request     *)
(* ---------------------------------------------------------------------------------------- *)
Fixpoint mcovers (ms : list range) (o : range) : Prop :=
  match ms with
  | [] => False
  | m :: ms' => (fst m <= fst o /\ snd o <= snd m) \/ (snd m <= fst o /\ mcovers ms' o)
  end.

Lemma starts_sorted_cons r rs : starts_sorted (r :: rs) = true ->
  Forall (fun r' => fst r <= fst r') rs /\ starts_sorted rs = true.
Proof.
  cbn [starts_sorted]. intro H. apply andb_true_iff in H. destruct H as [H1 H2]. split; [|exact H2].
  rewrite forallb_forall in H1. apply Forall_forall. intros x Hx. specialize (H1 x Hx). lia.
Qed.

Lemma coalesce_go_covers bs : forall rest cur ms,
  coalesce_go bs cur rest = Ok ms ->
  Forall (fun r => fst cur <= fst r) rest -> starts_sorted rest = true ->
  forall o, ((fst cur <= fst o /\ snd o <= snd cur) \/ In o rest) -> mcovers ms o.
Proof.
  induction rest as [|r rest IH]; intros cur ms Hrun Hge Hsort o Ho.
  - cbn [coalesce_go] in Hrun. inversion Hrun; subst. destruct Ho as [Ho | []]. cbn [mcovers]. left; exact Ho.
  - cbn [coalesce_go] in Hrun. unfold is_close_together, add_chk in Hrun.
    destruct (two64 <=? snd cur + bs) eqn:E0; [discriminate|]. cbn [bind] in Hrun.
    apply Forall_cons_iff in Hge. destruct Hge as [Hr Hge].
    destruct (starts_sorted_cons _ _ Hsort) as [Hrr Hsort'].
    destruct (fst r <=? snd cur + bs) eqn:E1.
    + apply (IH _ _ Hrun); cbn [fst snd]; [exact Hge | exact Hsort' |].
      destruct Ho as [[H1 H2] | [Ho | Ho]]; [left; lia | subst o; left; lia | right; exact Ho].
    + destruct (coalesce_go bs r rest) as [tl| |] eqn:Etl; try discriminate. cbn [bind] in Hrun.
      inversion Hrun; subst ms. cbn [mcovers].
      destruct Ho as [Ho | Ho]; [left; exact Ho|]. right. split.
      * destruct Ho as [Ho | Ho]; [subst o; lia|].
        rewrite Forall_forall in Hrr. specialize (Hrr o Ho). lia.
      * apply (IH _ _ Etl Hrr Hsort'). destruct Ho as [Ho | Ho]; [subst o; left; lia | right; exact Ho].
Qed.

Lemma coalesce_go_ends bs B : forall rest cur ms,
  coalesce_go bs cur rest = Ok ms -> snd cur <= B -> Forall (fun r => snd r <= B) rest ->
  Forall (fun m => snd m <= B) ms.
Proof.
  induction rest as [|r rest IH]; intros cur ms Hrun Hc Hr.
  - cbn [coalesce_go] in Hrun. inversion Hrun; subst. constructor; [exact Hc | constructor].
  - cbn [coalesce_go] in Hrun. unfold is_close_together, add_chk in Hrun.
    destruct (two64 <=? snd cur + bs); [discriminate|]. cbn [bind] in Hrun.
    apply Forall_cons_iff in Hr. destruct Hr as [Hr Hr'].
    destruct (fst r <=? snd cur + bs).
    + apply (IH _ _ Hrun); cbn [fst snd]; [lia | exact Hr'].
    + destruct (coalesce_go bs r rest) as [tl| |] eqn:Etl; try discriminate. cbn [bind] in Hrun.
      inversion Hrun; subst ms. constructor; [exact Hc | apply (IH _ _ Etl Hr Hr')].
Qed.

(* ---- pieces of one coalesced range ---- *)
Lemma pieces_chain : forall k start bpr e x tl, (1 <= k)%nat -> x <= e ->
  chain start (pieces k start bpr e ++ tl) x.
Proof.
  induction k as [|k IH]; intros start bpr e x tl Hk Hx; [lia|].
  destruct k as [|k'].
  - cbn [pieces app chain fst snd]. right. split; [reflexivity|]. destruct tl; cbn [chain]; left; exact Hx.
  - change (pieces (S (S k')) start bpr e) with ((start, start + bpr) :: pieces (S k') (start + bpr) bpr e).
    cbn [app chain fst snd]. right. split; [reflexivity|]. apply IH; [lia | exact Hx].
Qed.

Lemma pieces_covers : forall k start bpr e o tl, (1 <= k)%nat ->
  start <= fst o -> fst o < snd o -> snd o <= e -> covers (pieces k start bpr e ++ tl) o.
Proof.
  induction k as [|k IH]; intros start bpr e o tl Hk Hs Hne He; [lia|].
  destruct k as [|k'].
  - cbn [pieces app covers fst snd]. left. repeat split; [exact Hs | lia |].
    destruct tl; cbn [chain]; left; exact He.
  - change (pieces (S (S k')) start bpr e) with ((start, start + bpr) :: pieces (S k') (start + bpr) bpr e).
    cbn [app covers fst snd].
    destruct (N.lt_ge_cases (fst o) (start + bpr)) as [Hlt | Hge].
    + left. repeat split; [exact Hs | exact Hlt |]. apply pieces_chain; [lia | exact He].
    + right. split; [exact Hge|]. apply IH; [lia | exact Hge | exact Hne | exact He].
Qed.

Lemma pieces_ends : forall k start bpr e, start + N.of_nat (k - 1) * bpr <= e ->
  Forall (fun p => snd p <= e) (pieces k start bpr e).
Proof.
  induction k as [|k IH]; intros start bpr e H; [constructor|].
  destruct k as [|k'].
  - cbn [pieces]. constructor; [cbn [snd]; lia | constructor].
  - change (pieces (S (S k')) start bpr e) with ((start, start + bpr) :: pieces (S k') (start + bpr) bpr e).
    replace (N.of_nat (S (S k') - 1)) with (N.of_nat (S k' - 1) + 1) in H by lia.
    constructor; [cbn [snd]; nia | apply IH; nia].
Qed.

Lemma covers_skip_app o : forall pre tl, Forall (fun p => snd p <= fst o) pre -> covers tl o -> covers (pre ++ tl) o.
Proof.
  induction pre as [|p pre IH]; intros tl Hp Hc; [exact Hc|].
  apply Forall_cons_iff in Hp. destruct Hp as [Hp Hp'].
  cbn [app covers]. right. split; [exact Hp | apply IH; assumption].
Qed.

Lemma div_ceil_pos size mx : 0 < size -> 0 < mx -> 1 <= div_ceil size mx.
Proof.
  intros Hs Hm. unfold div_ceil.
  destruct (N.eq_dec (size / mx) 0) as [Hz|Hz].
  - rewrite Hz. apply N.div_small_iff in Hz; [|lia]. rewrite (N.mod_small _ _ Hz).
    destruct (size =? 0) eqn:E; lia.
  - generalize dependent (size / mx). intros q Hq. destruct (size mod mx =? 0); lia.
Qed.

Lemma split_one_spec mx m ps : 0 < mx -> split_one mx m = Ok ps ->
  Forall (fun p => snd p <= snd m) ps /\
  (forall o tl, fst m <= fst o -> fst o < snd o -> snd o <= snd m -> covers (ps ++ tl) o).
Proof.
  intros Hmx Hrun. unfold split_one, r_is_empty in Hrun.
  destruct (fst m <? snd m) eqn:E; cbn [negb] in Hrun.
  - destruct (mx =? 0) eqn:E0; [lia|]. inversion Hrun; subst ps; clear Hrun.
    set (size := snd m - fst m). set (n := div_ceil size mx).
    assert (Hn : 1 <= n) by (apply div_ceil_pos; unfold size; lia).
    assert (Hmul : n * (size / n) <= size) by (apply N.mul_div_le; lia).
    split.
    + apply pieces_ends. replace (N.of_nat (N.to_nat n - 1)) with (n - 1) by lia. unfold size in *. nia.
    + intros o tl H1 H2 H3. apply pieces_covers; [lia | exact H1 | exact H2 | exact H3].
  - inversion Hrun; subst ps. split; [constructor; [lia | constructor]|].
    intros o tl H1 H2 H3. lia.
Qed.

Lemma split_all_covers mx : 0 < mx -> forall ms us o,
  split_all mx ms = Ok us -> fst o < snd o -> mcovers ms o -> covers us o.
Proof.
  intros Hmx. induction ms as [|m ms IH]; intros us o Hrun Hne Hc; [destruct Hc|].
  cbn [split_all] in Hrun.
  destruct (split_one mx m) as [ps| |] eqn:Eps; try discriminate. cbn [bind] in Hrun.
  destruct (split_all mx ms) as [tl| |] eqn:Etl; try discriminate. cbn [bind] in Hrun.
  inversion Hrun; subst us; clear Hrun.
  destruct (split_one_spec mx m ps Hmx Eps) as [Hends Hcov].
  cbn [mcovers] in Hc. destruct Hc as [[H1 H2] | [H1 H2]].
  - apply Hcov; assumption.
  - apply covers_skip_app; [|apply (IH tl o eq_refl Hne H2)].
    eapply Forall_impl; [|exact Hends]. cbn beta. intros; lia.
Qed.

Lemma split_all_ends mx B : 0 < mx -> forall ms us,
  split_all mx ms = Ok us -> Forall (fun m => snd m <= B) ms -> Forall (fun u => snd u <= B) us.
Proof.
  intros Hmx. induction ms as [|m ms IH]; intros us Hrun HB.
  - inversion Hrun; constructor.
  - cbn [split_all] in Hrun.
    destruct (split_one mx m) as [ps| |] eqn:Eps; try discriminate. cbn [bind] in Hrun.
    destruct (split_all mx ms) as [tl| |] eqn:Etl; try discriminate. cbn [bind] in Hrun.
    inversion Hrun; subst us; clear Hrun.
    apply Forall_cons_iff in HB. destruct HB as [Hm HB].
    apply Forall_app. split; [|apply (IH tl eq_refl HB)].
    destruct (split_one_spec mx m ps Hmx Eps) as [Hends _].
    eapply Forall_impl; [|exact Hends]. cbn beta. intros; lia.
Qed.

Lemma sizes_chk_ok : forall us l, sizes_chk us = Ok l -> Forall (fun u => fst u <= snd u) us.
Proof.
  induction us as [|u us IH]; intros l H; [constructor|].
  cbn [sizes_chk fold_right] in H. unfold sub_chk in H at 1.
  destruct (snd u <? fst u) eqn:E; [discriminate|]. cbn [bind] in H.
  fold (sizes_chk us) in H. destruct (sizes_chk us) as [tl| |] eqn:Et; try discriminate.
  constructor; [lia | apply (IH tl eq_refl)].
Qed.

Lemma read_all_ok f : forall us, read_all f no_fail us = Ok (with_b f us).
Proof.
  induction us as [|u us IH]; [reflexivity|].
  cbn [read_all with_b map]. fold (with_b f us). rewrite IH. unfold read_one, no_fail.
  destruct (fst u =? snd u) eqn:E; [|reflexivity].
  destruct u as [s e]; cbn [fst snd] in E. assert (s = e) by lia; subst e. now rewrite slice_empty.
Qed.

(* ---------------------------------------------------------------------------------------- *)
(* D. C30_bytes_exact                                                                        *)
(* ---------------------------------------------------------------------------------------- *)
Lemma single_piece_covers1 o : forall us, single_piece us o = true -> covers1 us o.
Proof.
  induction us as [|u us IH]; cbn [single_piece covers1]; intro H; [discriminate|].
  destruct ((fst u <=? fst o) && (fst o <? snd u)) eqn:E.
  - left. lia.
  - right. apply andb_true_iff in H. destruct H as [H1 H2]. split; [lia | apply IH, H2].
Qed.

Lemma Inv_intro us : forall os,
  (forall o, In o os -> fst o < snd o /\ covers us o) ->
  starts_sorted os = true -> straddle_ok us os = true -> Inv us os.
Proof.
  induction os as [|o os IH]; intros Hall Hsort Hstr; [exact I|].
  destruct (starts_sorted_cons _ _ Hsort) as [Hs Hsort'].
  cbn [straddle_ok] in Hstr. apply andb_true_iff in Hstr. destruct Hstr as [Hd Hstr'].
  cbn [Inv]. split; [|apply IH; [intros x Hx; apply Hall; right; exact Hx | exact Hsort' | exact Hstr']].
  destruct (Hall o (or_introl eq_refl)) as [Hne Hc].
  repeat split; [exact Hne | exact Hc | exact Hs |].
  apply orb_true_iff in Hd. destruct Hd as [Hd | Hd].
  - left. apply single_piece_covers1, Hd.
  - right. rewrite forallb_forall in Hd. apply Forall_forall. intros x Hx. specialize (Hd x Hx). lia.
Qed.

Lemma updated_requests_spec f bs mx rs us :
  0 < mx -> starts_sorted rs = true -> in_file f rs = true ->
  updated_requests bs mx rs = Ok us ->
  Forall (wf_in f) us /\ (forall o, In o rs -> fst o < snd o -> covers us o).
Proof.
  intros Hmx Hsort Hfile Hrun. unfold updated_requests in Hrun.
  destruct (coalesce bs rs) as [ms| |] eqn:Ems; try discriminate. cbn [bind] in Hrun.
  destruct (split_all mx ms) as [us'| |] eqn:Eus; try discriminate. cbn [bind] in Hrun.
  destruct (sizes_chk us') as [l| |] eqn:El; try discriminate. cbn [bind] in Hrun.
  inversion Hrun; subst us'; clear Hrun.
  assert (HB : Forall (fun r => snd r <= blen f) rs).
  { unfold in_file in Hfile. rewrite forallb_forall in Hfile. apply Forall_forall.
    intros x Hx. specialize (Hfile x Hx). lia. }
  destruct rs as [|r rest].
  - cbn [coalesce] in Ems. inversion Ems; subst ms. cbn [split_all] in Eus. inversion Eus; subst us.
    split; [constructor | intros o []].
  - cbn [coalesce] in Ems. destruct (starts_sorted_cons _ _ Hsort) as [Hge Hsort'].
    apply Forall_cons_iff in HB. destruct HB as [HBr HB].
    split.
    + pose proof (coalesce_go_ends bs (blen f) _ _ _ Ems HBr HB) as Hme.
      pose proof (split_all_ends mx (blen f) Hmx _ _ Eus Hme) as Hue.
      pose proof (sizes_chk_ok _ _ El) as Hwf.
      rewrite Forall_forall in *. intros u Hu. split; [apply Hwf, Hu | apply Hue, Hu].
    + intros o Ho Hne. apply (split_all_covers mx Hmx ms us o Eus Hne).
      apply (coalesce_go_covers bs _ _ _ Ems Hge Hsort').
      destruct Ho as [Ho | Ho]; [subst o; left; lia | right; exact Ho].
Qed.

Theorem bytes_exact f bs mx rs :
  in_file f rs = true -> Dom_C30 bs mx rs = true ->
  submit_request f bs mx rs = Ok (map (slice f) rs).
Proof.
  intros Hfile Hdom. unfold Dom_C30 in Hdom.
  repeat (apply andb_true_iff in Hdom; destruct Hdom as [Hdom ?]).
  destruct (updated_requests bs mx rs) as [us| |] eqn:Eus; try discriminate.
  assert (Hmx : 0 < mx) by lia.
  destruct (updated_requests_spec f bs mx rs us Hmx H2 Hfile Eus) as [Hwf Hcov].
  unfold submit_request, submit_request_f. rewrite Eus. cbn [bind].
  change (read_all f (fun _ => false) us) with (read_all f no_fail us).
  rewrite read_all_ok. cbn [bind].
  apply walk_ok; [exact Hwf | |].
  - unfold in_file in Hfile. rewrite forallb_forall in Hfile. apply Forall_forall.
    intros x Hx. specialize (Hfile x Hx). lia.
  - apply Inv_intro; [|assumption|assumption].
    intros o Ho. unfold all_nonempty in H1. rewrite forallb_forall in H1. specialize (H1 o Ho).
    split; [lia | apply Hcov; [exact Ho | lia]].
Qed.

Lemma list_eqb_refl {A} (eqb : A -> A -> bool) : (forall x, eqb x x = true) -> forall l, list_eqb eqb l l = true.
Proof. intros H; induction l; cbn [list_eqb]; [reflexivity | rewrite H, IHl; reflexivity]. Qed.

Lemma exact_result_iff f rs res : exact_result f rs res = true <-> res = Ok (map (slice f) rs).
Proof.
  unfold exact_result. destruct res as [bufs| |]; [|split; discriminate|split; discriminate].
  assert (Hb : forall x y : bytes, bytes_eqb x y = true <-> x = y).
  { apply list_eqb_eq. intros; apply N.eqb_eq. }
  rewrite (list_eqb_eq bytes_eqb Hb). split; [intros ->; reflexivity | intro H; inversion H; reflexivity].
Qed.

(* ---------------------------------------------------------------------------------------- *)
(* E. The simple sufficient condition of DESIGN.md (disjoint, or nothing is split) implies   *)
(*    Dom_C30; in particular no panic there.                                                 *)
(* ---------------------------------------------------------------------------------------- *)
Lemma covers1_single_piece o : forall us, covers1 us o -> single_piece us o = true.
Proof.
  induction us as [|u us IH]; cbn [single_piece covers1]; intro H; [destruct H|].
  destruct H as [(H1 & H2 & H3) | (H1 & H2)].
  - destruct ((fst u <=? fst o) && (fst o <? snd u)) eqn:E; lia.
  - destruct ((fst u <=? fst o) && (fst o <? snd u)) eqn:E; [lia|]. rewrite (IH H2). lia.
Qed.

Lemma coalesce_go_total bs : forall rest cur,
  snd cur + bs < two64 -> Forall (fun r => snd r + bs < two64) rest ->
  fst cur <= snd cur -> Forall (fun r => fst r <= snd r) rest ->
  exists ms, coalesce_go bs cur rest = Ok ms /\ Forall (fun m => fst m <= snd m) ms.
Proof.
  induction rest as [|r rest IH]; intros cur Hc Hr Hwf Hne.
  - exists [cur]. split; [reflexivity | constructor; [exact Hwf | constructor]].
  - apply Forall_cons_iff in Hr. destruct Hr as [Hr Hr'].
    apply Forall_cons_iff in Hne. destruct Hne as [Hne Hne'].
    cbn [coalesce_go]. unfold is_close_together, add_chk.
    destruct (two64 <=? snd cur + bs) eqn:E0; [lia|]. cbn [bind].
    destruct (fst r <=? snd cur + bs) eqn:E1.
    + apply IH; cbn [fst snd]; [lia | exact Hr' | lia | exact Hne'].
    + destruct (IH r Hr Hr' Hne Hne') as (tl & Htl & Hwf'). rewrite Htl. cbn [bind].
      exists (cur :: tl). split; [reflexivity | constructor; assumption].
Qed.

Lemma pieces_wf : forall k start bpr e, start + N.of_nat (k - 1) * bpr <= e ->
  Forall (fun p => fst p <= snd p) (pieces k start bpr e).
Proof.
  induction k as [|k IH]; intros start bpr e H; [constructor|].
  destruct k as [|k'].
  - cbn [pieces]. constructor; [cbn [fst snd]; lia | constructor].
  - change (pieces (S (S k')) start bpr e) with ((start, start + bpr) :: pieces (S k') (start + bpr) bpr e).
    replace (N.of_nat (S (S k') - 1)) with (N.of_nat (S k' - 1) + 1) in H by lia.
    constructor; [cbn [fst snd]; lia | apply IH; nia].
Qed.

Lemma split_all_total mx : 0 < mx -> forall ms, Forall (fun m => fst m <= snd m) ms ->
  exists us, split_all mx ms = Ok us /\ Forall (fun u => fst u <= snd u) us.
Proof.
  intros Hmx. induction ms as [|m ms IH]; intro Hwf; [exists []; split; [reflexivity | constructor]|].
  apply Forall_cons_iff in Hwf. destruct Hwf as [Hm Hwf].
  destruct (IH Hwf) as (tl & Htl & Hwtl). cbn [split_all]. unfold split_one, r_is_empty.
  destruct (fst m <? snd m) eqn:E; cbn [negb].
  - destruct (mx =? 0) eqn:E0; [lia|]. cbn [bind]. rewrite Htl. cbn [bind].
    eexists. split; [reflexivity|]. apply Forall_app. split; [|exact Hwtl].
    set (size := snd m - fst m). set (n := div_ceil size mx).
    assert (Hn : 1 <= n) by (apply div_ceil_pos; unfold size; lia).
    assert (Hmul : n * (size / n) <= size) by (apply N.mul_div_le; lia).
    apply pieces_wf. replace (N.of_nat (N.to_nat n - 1)) with (n - 1) by lia. unfold size in *. nia.
  - cbn [bind]. rewrite Htl. cbn [bind]. eexists. split; [reflexivity|].
    constructor; [exact Hm | exact Hwtl].
Qed.

Lemma sizes_chk_total : forall us, Forall (fun u => fst u <= snd u) us -> exists l, sizes_chk us = Ok l.
Proof.
  induction us as [|u us IH]; intro H; [exists []; reflexivity|].
  apply Forall_cons_iff in H. destruct H as [Hu H]. destruct (IH H) as (l & Hl).
  cbn [sizes_chk fold_right]. fold (sizes_chk us). rewrite Hl. unfold sub_chk.
  destruct (snd u <? fst u) eqn:E; [lia|]. cbn [bind]. eexists; reflexivity.
Qed.

(* no panic: sorted-or-not, any non-empty ranges within u64 are coalesced, split and issued *)
Lemma updated_requests_total bs mx rs :
  0 < mx -> all_nonempty rs = true -> forallb (fun r => snd r + bs <? two64) rs = true ->
  exists us, updated_requests bs mx rs = Ok us.
Proof.
  intros Hmx Hne Hb. unfold updated_requests.
  assert (Hne' : Forall (fun r => fst r <= snd r) rs).
  { unfold all_nonempty in Hne. rewrite forallb_forall in Hne. apply Forall_forall. intros x Hx. specialize (Hne x Hx). lia. }
  assert (Hb' : Forall (fun r => snd r + bs < two64) rs).
  { rewrite forallb_forall in Hb. apply Forall_forall. intros x Hx. specialize (Hb x Hx). lia. }
  assert (Hms : exists ms, coalesce bs rs = Ok ms /\ Forall (fun m => fst m <= snd m) ms).
  { destruct rs as [|r rest]; [exists []; split; [reflexivity | constructor]|].
    apply Forall_cons_iff in Hne'. apply Forall_cons_iff in Hb'.
    apply coalesce_go_total; tauto. }
  destruct Hms as (ms & Hms & Hwm). rewrite Hms. cbn [bind].
  destruct (split_all_total mx Hmx ms Hwm) as (us & Hus & Hwu). rewrite Hus. cbn [bind].
  destruct (sizes_chk_total us Hwu) as (l & Hl). rewrite Hl. cbn [bind]. exists us; reflexivity.
Qed.

Lemma split_all_nosplit mx : 0 < mx -> forall ms,
  forallb (fun m => snd m - fst m <=? mx) ms = true -> split_all mx ms = Ok ms.
Proof.
  intros Hmx. induction ms as [|m ms IH]; intro H; [reflexivity|].
  cbn [forallb] in H. apply andb_true_iff in H. destruct H as [Hm H].
  cbn [split_all]. rewrite (IH H). unfold split_one, r_is_empty.
  destruct (fst m <? snd m) eqn:E; cbn [negb bind]; [|reflexivity].
  destruct (mx =? 0) eqn:E0; [lia|]. cbn [bind].
  assert (Hn : div_ceil (snd m - fst m) mx = 1).
  { unfold div_ceil. destruct (N.eq_dec (snd m - fst m) mx) as [Heq | Hneq].
    - rewrite Heq, N.div_same, N.mod_same by lia. reflexivity.
    - rewrite N.div_small, N.mod_small by lia. destruct (snd m - fst m =? 0) eqn:Ez; lia. }
  rewrite Hn. cbn [N.to_nat Pos.to_nat Pos.iter_op pieces app]. destruct m; reflexivity.
Qed.

Lemma mcovers_covers1 o : fst o < snd o -> forall ms, mcovers ms o -> covers1 ms o.
Proof.
  intros Hne. induction ms as [|m ms IH]; cbn [mcovers covers1]; intro H; [exact H|].
  destruct H as [[H1 H2] | [H1 H2]]; [left; lia | right; split; [exact H1 | apply IH, H2]].
Qed.

Theorem Dom_simple_in_Dom bs mx rs : Dom_C30_simple bs mx rs = true -> Dom_C30 bs mx rs = true.
Proof.
  unfold Dom_C30_simple, Dom_C30. intro H.
  apply andb_true_iff in H. destruct H as [H Hcase].
  apply andb_true_iff in H. destruct H as [H Hb].
  apply andb_true_iff in H. destruct H as [H Hne].
  apply andb_true_iff in H. destruct H as [Hmx Hsort].
  rewrite Hmx, Hsort, Hne, Hb. cbn [andb].
  assert (Hmx' : 0 < mx) by lia.
  destruct (updated_requests_total bs mx rs Hmx' Hne Hb) as (us & Hus). rewrite Hus.
  apply orb_true_iff in Hcase. destruct Hcase as [Hdis | Hns].
  - (* disjoint: every request ends before the later ones start *)
    clear Hus. revert Hdis. clear. induction rs as [|r rs IH]; intro H; [reflexivity|].
    cbn [disjoint_sorted straddle_ok] in *. apply andb_true_iff in H. destruct H as [H1 H2].
    rewrite H1, (IH H2). now rewrite orb_true_r.
  - (* nothing split: every request lies inside one issued range *)
    unfold no_split in Hns. unfold updated_requests in Hus.
    destruct (coalesce bs rs) as [ms| |] eqn:Ems; try discriminate. cbn [bind] in Hus.
    rewrite (split_all_nosplit mx Hmx' ms Hns) in Hus. cbn [bind] in Hus.
    destruct (sizes_chk ms); try discriminate. cbn [bind] in Hus. inversion Hus; subst us; clear Hus.
    assert (Hall : forall o, In o rs -> single_piece ms o = true).
    { intros o Ho. apply covers1_single_piece.
      unfold all_nonempty in Hne. rewrite forallb_forall in Hne. specialize (Hne o Ho).
      apply mcovers_covers1; [lia|].
      destruct rs as [|r rest]; [destruct Ho|]. cbn [coalesce] in Ems.
      destruct (starts_sorted_cons _ _ Hsort) as [Hge Hsort'].
      apply (coalesce_go_covers bs _ _ _ Ems Hge Hsort').
      destruct Ho as [Ho | Ho]; [subst o; left; lia | right; exact Ho]. }
    clear - Hall. induction rs as [|r rs IH]; [reflexivity|].
    cbn [straddle_ok]. rewrite (Hall r (or_introl eq_refl)). cbn [orb andb].
    apply IH. intros o Ho. apply Hall. right; exact Ho.
Qed.

(* ---------------------------------------------------------------------------------------- *)
(* G. The queue: accounting invariants, progress (no deadlock), termination                  *)
(* ---------------------------------------------------------------------------------------- *)
From Coq Require Import Permutation.

Definition cnt {A} (P : A -> bool) (l : list A) : nat := length (filter P l).

Lemma cnt_app {A} (P : A -> bool) l1 l2 : cnt P (l1 ++ l2) = (cnt P l1 + cnt P l2)%nat.
Proof. unfold cnt. now rewrite filter_app, app_length. Qed.

Lemma cnt_cons {A} (P : A -> bool) x l : cnt P (x :: l) = ((if P x then 1 else 0) + cnt P l)%nat.
Proof. unfold cnt. cbn [filter]. destruct (P x); reflexivity. Qed.

Lemma cnt_perm {A} (P : A -> bool) l1 l2 : Permutation l1 l2 -> cnt P l1 = cnt P l2.
Proof.
  induction 1 as [|x l l' _ IH|x y l|l l' l'' _ IH1 _ IH2]; rewrite ?cnt_cons; lia.
Qed.

Lemma cnt_pos_in {A} (P : A -> bool) l : (0 < cnt P l)%nat -> exists x, In x l /\ P x = true.
Proof.
  induction l as [|x l IH]; [cbn; lia|]. rewrite cnt_cons. destruct (P x) eqn:E.
  - intros _. exists x. split; [left; reflexivity | exact E].
  - intro H. destruct (IH H) as (y & Hy & HP). exists y. split; [right; exact Hy | exact HP].
Qed.

Lemma cnt_in_pos {A} (P : A -> bool) l x : In x l -> P x = true -> (0 < cnt P l)%nat.
Proof.
  induction l as [|y l IH]; [intros []|]. intros [-> | Hx] HP; rewrite cnt_cons.
  - rewrite HP. lia.
  - specialize (IH Hx HP). lia.
Qed.

Lemma cnt_remove_nth {A} (P : A -> bool) : forall k l x, nth_error l k = Some x ->
  cnt P l = ((if P x then 1 else 0) + cnt P (remove_nth k l))%nat.
Proof.
  induction k as [|k IH]; intros [|y l] x H; try discriminate; cbn [nth_error] in H.
  - inversion H; subst. cbn [remove_nth]. apply cnt_cons.
  - cbn [remove_nth]. rewrite !cnt_cons. rewrite (IH l x H). lia.
Qed.

Lemma remove_nth_in {A} : forall k (l : list A) y, In y (remove_nth k l) -> In y l.
Proof.
  induction k as [|k IH]; intros [|x l] y H; cbn [remove_nth] in H; try (destruct H; fail).
  - right; exact H.
  - destruct H as [-> | H]; [left; reflexivity | right; apply (IH l y H)].
Qed.

Lemma remove_nth_length {A} : forall k (l : list A) x, nth_error l k = Some x ->
  length l = S (length (remove_nth k l)).
Proof.
  induction k as [|k IH]; intros [|y l] x H; try discriminate; cbn [nth_error remove_nth length] in *.
  - reflexivity.
  - now rewrite (IH l x H).
Qed.

(* occurrences of a priority in priorities_in_flight *)
Definition occ (p : N) (l : list N) : nat := cnt (N.eqb p) l.

Lemma occ_push p q l : occ p (pif_push q l) = ((if N.eqb p q then 1 else 0) + occ p l)%nat.
Proof.
  unfold occ. induction l as [|x l IH]; cbn [pif_push].
  - rewrite cnt_cons. reflexivity.
  - destruct (q <=? x); rewrite !cnt_cons; [reflexivity | rewrite IH; lia].
Qed.

Lemma occ_remove p q l : occ p (pif_remove q l) = (occ p l - (if N.eqb p q && Nat.ltb 0 (occ q l) then 1 else 0))%nat.
Proof.
  unfold occ. induction l as [|x l IH]; cbn [pif_remove].
  - cbn. destruct (N.eqb p q); reflexivity.
  - destruct (N.eqb q x) eqn:E.
    + assert (q = x) by lia; subst x. rewrite !cnt_cons. rewrite N.eqb_refl.
      destruct (Nat.ltb 0 (1 + cnt (N.eqb q) l)) eqn:EL; [|apply Nat.ltb_ge in EL; lia].
      destruct (N.eqb p q) eqn:E2; cbn [andb]; lia.
    + rewrite !cnt_cons, IH, E. cbn [Nat.add].
      destruct (Nat.ltb 0 (cnt (N.eqb q) l)) eqn:EL;
        destruct (N.eqb p x) eqn:E3; destruct (N.eqb p q) eqn:E4; cbn [andb]; try lia.
Qed.

Lemma occ_remove_n p q : forall n l, (n <= occ q l)%nat ->
  occ p (pif_remove_n n q l) = (occ p l - (if N.eqb p q then n else 0))%nat.
Proof.
  induction n as [|n IH]; intros l Hn; cbn [pif_remove_n].
  - destruct (p =? q); lia.
  - rewrite IH.
    + rewrite occ_remove. destruct (p =? q) eqn:E; cbn [andb]; [|lia].
      destruct (0 <? occ q l)%nat eqn:E2; [lia|]. apply Nat.ltb_ge in E2. lia.
    + rewrite occ_remove, N.eqb_refl. cbn [andb]. destruct (0 <? occ q l)%nat eqn:E2; lia.
Qed.

Lemma min_in_flight_occ l p : min_in_flight l = p -> l <> [] -> (0 < occ p l)%nat.
Proof.
  destruct l as [|x l]; [congruence|]. cbn [min_in_flight]. intros -> _.
  unfold occ. rewrite cnt_cons, N.eqb_refl. lia.
Qed.

Definition of_batch (id : N) (t : task) : bool := t_batch t =? id.
Definition sumf (g : batch -> nat) (l : list batch) : nat := fold_right (fun b a => (g b + a)%nat) 0%nat l.
Definition deliv_at (p : N) (b : batch) : nat := if b_prio b =? p then b_deliv b else 0%nat.

Lemma sumf_app g l1 l2 : sumf g (l1 ++ l2) = (sumf g l1 + sumf g l2)%nat.
Proof. induction l1 as [|b l1 IH]; cbn [sumf fold_right app]; [reflexivity|]. fold (sumf g (l1 ++ l2)) (sumf g l1). lia. Qed.

Lemma sumf_remove_nth g : forall k l x, nth_error l k = Some x -> sumf g l = (g x + sumf g (remove_nth k l))%nat.
Proof.
  induction k as [|k IH]; intros [|y l] x H; try discriminate; cbn [nth_error] in H.
  - inversion H; subst. reflexivity.
  - cbn [remove_nth sumf fold_right]. fold (sumf g l) (sumf g (remove_nth k l)). rewrite (IH l x H). lia.
Qed.

Lemma sumf_in_le g l x : In x l -> (g x <= sumf g l)%nat.
Proof.
  induction l as [|y l IH]; [intros []|]. cbn [sumf fold_right]. fold (sumf g l).
  intros [-> | H]; [lia | specialize (IH H); lia].
Qed.

Lemma sumf_pos_in g l : (0 < sumf g l)%nat -> exists x, In x l /\ (0 < g x)%nat.
Proof.
  induction l as [|y l IH]; cbn [sumf fold_right]; [lia|]. fold (sumf g l). intro H.
  destruct (Nat.eq_dec (g y) 0) as [Hz | Hz].
  - destruct IH as (x & Hx & Hg); [lia|]. exists x. split; [right; exact Hx | exact Hg].
  - exists y. split; [left; reflexivity | lia].
Qed.

(* upd_batch with an update that keeps the id *)
Lemma upd_batch_ids id h bs : (forall b, b_id (h b) = b_id b) -> map b_id (upd_batch id h bs) = map b_id bs.
Proof.
  intro Hh. unfold upd_batch. rewrite map_map. apply map_ext. intro b. destruct (b_id b =? id); [apply Hh | reflexivity].
Qed.

Lemma upd_batch_in id h bs b' : In b' (upd_batch id h bs) ->
  exists b, In b bs /\ b' = (if b_id b =? id then h b else b).
Proof. unfold upd_batch. rewrite in_map_iff. intros (b & Hb & Hin). exists b. split; [exact Hin | symmetry; exact Hb]. Qed.

Lemma upd_batch_in' id h bs b : In b bs -> In (if b_id b =? id then h b else b) (upd_batch id h bs).
Proof. intro H. unfold upd_batch. apply in_map_iff. exists b. split; [reflexivity | exact H]. Qed.

Lemma upd_batch_notin id h bs : ~ In id (map b_id bs) -> upd_batch id h bs = bs.
Proof.
  induction bs as [|b bs IH]; intro H; [reflexivity|]. cbn [upd_batch map] in *.
  destruct (b_id b =? id) eqn:E; [exfalso; apply H; left; lia|].
  f_equal. apply IH. intro Hin. apply H. right. exact Hin.
Qed.

Lemma sumf_upd g id h : forall bs b, NoDup (map b_id bs) -> In b bs -> b_id b = id ->
  (sumf g (upd_batch id h bs) + g b = sumf g bs + g (h b))%nat.
Proof.
  induction bs as [|x bs IH]; intros b Hnd Hin Hid; [destruct Hin|].
  cbn [map] in Hnd. inversion Hnd as [|? ? Hnotin Hnd']; subst.
  cbn [upd_batch map sumf fold_right]. fold (upd_batch (b_id b) h bs). fold (sumf g (upd_batch (b_id b) h bs)) (sumf g bs).
  destruct Hin as [-> | Hin].
  - rewrite N.eqb_refl. rewrite (upd_batch_notin _ h bs Hnotin). lia.
  - destruct (b_id x =? b_id b) eqn:E.
    + exfalso. apply Hnotin. assert (b_id x = b_id b) by lia. rewrite H. apply in_map. exact Hin.
    + specialize (IH b Hnd' Hin eq_refl). lia.
Qed.

Lemma sumf_upd_same g id h bs : (forall b, g (h b) = g b) -> sumf g (upd_batch id h bs) = sumf g bs.
Proof.
  intro Hh. induction bs as [|x bs IH]; [reflexivity|].
  cbn [upd_batch map sumf fold_right]. fold (upd_batch id h bs). fold (sumf g (upd_batch id h bs)) (sumf g bs).
  rewrite IH. destruct (b_id x =? id); [rewrite Hh|]; reflexivity.
Qed.

Lemma in_remove_nth {A} : forall k (l : list A) x y, nth_error l k = Some x -> In y l -> y = x \/ In y (remove_nth k l).
Proof.
  induction k as [|k IH]; intros [|z l] x y H Hin; try discriminate; cbn [nth_error remove_nth] in *.
  - inversion H; subst. destruct Hin as [-> | Hin]; [left; reflexivity | right; exact Hin].
  - destruct Hin as [-> | Hin]; [right; left; reflexivity|].
    destruct (IH l x y H Hin) as [-> | H']; [left; reflexivity | right; right; exact H'].
Qed.

Lemma map_remove_nth {A B} (g : A -> B) : forall k l, map g (remove_nth k l) = remove_nth k (map g l).
Proof. induction k as [|k IH]; intros [|x l]; cbn [remove_nth map]; try reflexivity. now rewrite IH. Qed.

Lemma NoDup_remove_nth {A} : forall k (l : list A), NoDup l -> NoDup (remove_nth k l).
Proof.
  induction k as [|k IH]; intros [|x l] H; cbn [remove_nth]; try exact H; inversion H; subst; [assumption|].
  constructor; [|apply IH; assumption]. intro Hin. apply remove_nth_in in Hin. contradiction.
Qed.

Lemma nth_error_remove_nth_notin {A} : forall k (l : list A) x, NoDup l -> nth_error l k = Some x -> ~ In x (remove_nth k l).
Proof.
  induction k as [|k IH]; intros [|y l] x Hnd H; try discriminate; cbn [nth_error remove_nth] in *; inversion Hnd; subst.
  - inversion H; subst. assumption.
  - intros [-> | Hin]; [apply nth_error_In in H; contradiction | apply (IH l x); assumption].
Qed.

Lemma NoDup_app_intro_single {A} (l : list A) x : NoDup l -> ~ In x l -> NoDup (l ++ [x]).
Proof.
  induction l as [|y l IH]; intros Hnd Hx; cbn [app]; [constructor; [intros [] | constructor]|].
  inversion Hnd; subst. constructor.
  - intro Hin. apply in_app_or in Hin. destruct Hin as [Hin | [-> | []]]; [contradiction | apply Hx; left; reflexivity].
  - apply IH; [assumption | intro Hin; apply Hx; right; exact Hin].
Qed.

Section QueueProofs.
  (* BinaryHeap::peek/pop: any tie-breaking among tasks of minimal priority *)
  Variable pick : list task -> option (task * list task).
  Hypothesis pick_some : forall l, l <> [] -> exists t rest, pick l = Some (t, rest).
  Hypothesis pick_perm : forall l t rest, pick l = Some (t, rest) -> Permutation l (t :: rest).
  Hypothesis pick_min : forall l t rest, pick l = Some (t, rest) -> forall t', In t' l -> t_prio t <= t_prio t'.
  Variable cap : N.                       (* io_capacity = object_store.io_parallelism() *)
  Hypothesis cap_pos : 0 < cap.

  Definition pend_of (id : N) (s : sys) : nat := cnt (of_batch id) (q_pending (s_q s)).
  Definition run_of (id : N) (s : sys) : nat := cnt (of_batch id) (s_running s).

  (* accounting invariant while the scheduler is alive *)
  Record Open (s : sys) : Prop := {
    o_notdone : q_done (s_q s) = false;
    o_iops : q_iops (s_q s) + N.of_nat (length (s_running s)) = cap;
    o_ids : NoDup (map b_id (s_batches s));
    o_fresh : Forall (fun b => b_id b < s_next s) (s_batches s);
    o_tasks : forall t, In t (q_pending (s_q s) ++ s_running s) ->
              exists b, In b (s_batches s) /\ b_id b = t_batch t /\ b_prio b = t_prio t;
    o_counts : Forall (fun b => b_nreq b = (pend_of (b_id b) s + run_of (b_id b) s + b_fin b)%nat
                                /\ b_deliv b = (run_of (b_id b) s + b_fin b)%nat) (s_batches s);
    o_flight : forall p, occ p (q_inflight (s_q s)) = sumf (deliv_at p) (s_batches s);
    o_prio : Forall (fun t => t_prio t <= u128_max) (q_pending (s_q s));
    o_nocancel : s_cancelled s = 0%nat }.

  (* after ScanScheduler::drop *)
  Record Closed (s : sys) : Prop := {
    c_done : q_done (s_q s) = true;
    c_pending : q_pending (s_q s) = [];
    c_ids : NoDup (map b_id (s_batches s));
    c_tasks : forall t, In t (s_running s) -> exists b, In b (s_batches s) /\ b_id b = t_batch t;
    c_counts : Forall (fun b => b_nreq b = (run_of (b_id b) s + b_fin b)%nat) (s_batches s);
    c_iops : q_iops (s_q s) + N.of_nat (length (s_running s)) = cap + N.of_nat (s_cancelled s) }.

  Lemma Open_init buf : Open (sys_new cap buf).
  Proof.
    constructor; cbn; try reflexivity; try constructor; try lia; try (intros t []).
  Qed.

  Lemma fold_push prio id : forall sizes q,
    let q' := fold_left (fun q sz => q_push q (mk_task prio sz id)) sizes q in
    q_pending q' = q_pending q ++ map (fun sz => mk_task prio sz id) sizes
    /\ q_iops q' = q_iops q /\ q_bytes q' = q_bytes q /\ q_inflight q' = q_inflight q /\ q_done q' = q_done q.
  Proof.
    induction sizes as [|sz sizes IH]; intro q; cbn [fold_left map].
    - rewrite app_nil_r. repeat split.
    - destruct (IH (q_push q (mk_task prio sz id))) as (H1 & H2 & H3 & H4 & H5).
      cbn zeta in *. rewrite H1, H2, H3, H4, H5. cbn [q_push q_pending q_iops q_bytes q_inflight q_done].
      rewrite <- app_assoc. repeat split.
  Qed.

  Lemma cnt_new_tasks prio id i sizes :
    cnt (of_batch i) (map (fun sz => mk_task prio sz id) sizes) = if id =? i then length sizes else 0%nat.
  Proof.
    induction sizes as [|sz sizes IH]; cbn [map]; [destruct (id =? i); reflexivity|].
    rewrite cnt_cons, IH. unfold of_batch. cbn [t_batch]. destruct (id =? i); cbn [length]; lia.
  Qed.

  Lemma no_task_of_fresh s t : Open s -> In t (q_pending (s_q s) ++ s_running s) -> t_batch t < s_next s.
  Proof.
    intros HO Ht. destruct (o_tasks s HO t Ht) as (b & Hb & Hid & _).
    pose proof (o_fresh s HO) as Hf. rewrite Forall_forall in Hf. specialize (Hf b Hb). lia.
  Qed.

  Lemma cnt_zero_fresh s : Open s ->
    cnt (of_batch (s_next s)) (q_pending (s_q s)) = 0%nat /\ cnt (of_batch (s_next s)) (s_running s) = 0%nat.
  Proof.
    intro HO. split.
    - destruct (cnt (of_batch (s_next s)) (q_pending (s_q s))) eqn:E; [reflexivity|].
      destruct (cnt_pos_in (of_batch (s_next s)) (q_pending (s_q s))) as (t & Ht & HP); [lia|].
      pose proof (no_task_of_fresh s t HO (in_or_app _ _ _ (or_introl Ht))). unfold of_batch in HP. lia.
    - destruct (cnt (of_batch (s_next s)) (s_running s)) eqn:E; [reflexivity|].
      destruct (cnt_pos_in (of_batch (s_next s)) (s_running s)) as (t & Ht & HP); [lia|].
      pose proof (no_task_of_fresh s t HO (in_or_app _ _ _ (or_intror Ht))). unfold of_batch in HP. lia.
  Qed.

  Lemma step_submit_open s prio sizes s' : Open s -> step pick s (EvSubmit prio sizes) = Some s' -> Open s'.
  Proof.
    intros HO Hst. cbn [step] in Hst. rewrite (o_notdone s HO) in Hst. cbn [orb] in Hst.
    destruct (u128_max <? prio) eqn:Eprio; [discriminate|]. inversion Hst; subst s'; clear Hst.
    destruct (fold_push prio (s_next s) sizes (s_q s)) as (Hp & Hi & Hby & Hf & Hd). cbn zeta in *.
    destruct (cnt_zero_fresh s HO) as [Hz1 Hz2].
    constructor; cbn [s_q s_running s_batches s_next s_cancelled].
    - rewrite Hd. apply (o_notdone s HO).
    - rewrite Hi. apply (o_iops s HO).
    - rewrite map_app. cbn [map b_id]. apply NoDup_app_intro_single; [apply (o_ids s HO)|].
      intro Hin. apply in_map_iff in Hin. destruct Hin as (b & Hb1 & Hb2).
      pose proof (o_fresh s HO) as Hfr. rewrite Forall_forall in Hfr. specialize (Hfr b Hb2). lia.
    - apply Forall_app. split.
      + eapply Forall_impl; [|apply (o_fresh s HO)]. cbn beta. intros; lia.
      + constructor; [cbn [b_id]; lia | constructor].
    - intros t Ht. rewrite Hp in Ht. rewrite <- app_assoc in Ht.
      apply in_app_or in Ht. destruct Ht as [Ht | Ht].
      + destruct (o_tasks s HO t (in_or_app _ _ _ (or_introl Ht))) as (b & Hb1 & Hb2).
        exists b. split; [apply in_or_app; left; exact Hb1 | exact Hb2].
      + apply in_app_or in Ht. destruct Ht as [Ht | Ht].
        * apply in_map_iff in Ht. destruct Ht as (sz & <- & _).
          eexists. split; [apply in_or_app; right; left; reflexivity | split; reflexivity].
        * destruct (o_tasks s HO t (in_or_app _ _ _ (or_intror Ht))) as (b & Hb1 & Hb2).
          exists b. split; [apply in_or_app; left; exact Hb1 | exact Hb2].
    - apply Forall_app. split.
      + pose proof (o_counts s HO) as Hc. pose proof (o_fresh s HO) as Hfr.
        rewrite Forall_forall in *. intros b Hb. specialize (Hc b Hb). specialize (Hfr b Hb).
        unfold pend_of, run_of in *. cbn [s_q s_running]. rewrite Hp, cnt_app, cnt_new_tasks.
        destruct (s_next s =? b_id b) eqn:E; [lia|]. lia.
      + constructor; [|constructor]. unfold pend_of, run_of. cbn [s_q s_running b_id b_nreq b_fin b_deliv].
        rewrite Hp, cnt_app, cnt_new_tasks, N.eqb_refl, Hz1, Hz2. lia.
    - intro p. rewrite Hf, sumf_app. cbn [sumf fold_right]. unfold deliv_at at 2. cbn [b_prio b_deliv].
      rewrite (o_flight s HO p). destruct (prio =? p); lia.
    - rewrite Hp. apply Forall_app. split; [apply (o_prio s HO)|].
      apply Forall_forall. intros t Ht. apply in_map_iff in Ht. destruct Ht as (sz & <- & _). cbn [t_prio]. lia.
    - apply (o_nocancel s HO).
  Qed.
  Lemma next_task_inv q t q' : next_task pick q = Some (t, q') ->
    exists rest, pick (q_pending q) = Some (t, rest) /\ can_deliver q t = true /\
      q' = mk_q (q_iops q - 1) (q_bytes q - as_i64 (t_bytes t))%Z rest (pif_push (t_prio t) (q_inflight q)) (q_done q).
  Proof.
    unfold next_task. destruct (pick (q_pending q)) as [[t0 rest]|]; [|discriminate].
    destruct (can_deliver q t0) eqn:E; [|discriminate]. intro H. inversion H; subst. exists rest. repeat split. exact E.
  Qed.

  Lemma can_deliver_iops q t : can_deliver q t = true -> 1 <= q_iops q.
  Proof. unfold can_deliver. destruct (q_iops q =? 0) eqn:E; [discriminate | lia]. Qed.

  Lemma step_deliver_open s s' : Open s -> step pick s EvDeliver = Some s' -> Open s'.
  Proof.
    intros HO Hst. cbn [step] in Hst.
    destruct (next_task pick (s_q s)) as [[t q']|] eqn:En; [|discriminate].
    inversion Hst; subst s'; clear Hst.
    destruct (next_task_inv _ _ _ En) as (rest & Hpick & Hcan & Hq'). subst q'.
    pose proof (pick_perm _ _ _ Hpick) as Hperm.
    pose proof (can_deliver_iops _ _ Hcan) as Hio.
    assert (Ht : In t (q_pending (s_q s) ++ s_running s)).
    { apply in_or_app. left. eapply Permutation_in; [apply Permutation_sym; exact Hperm | left; reflexivity]. }
    destruct (o_tasks s HO t Ht) as (bt & Hbt & Hbid & Hbprio).
    set (h := fun b => mk_batch (b_id b) (b_prio b) (b_nreq b) (S (b_deliv b)) (b_fin b) (b_bytes b) (b_err b)).
    assert (Hcnt : forall i, cnt (of_batch i) (q_pending (s_q s)) = ((if of_batch i t then 1 else 0) + cnt (of_batch i) rest)%nat).
    { intro i. rewrite (cnt_perm _ _ _ Hperm). apply cnt_cons. }
    constructor; cbn [s_q s_running s_batches s_next s_cancelled q_done q_iops q_pending q_inflight].
    - apply (o_notdone s HO).
    - pose proof (o_iops s HO). cbn [length]. lia.
    - rewrite upd_batch_ids; [apply (o_ids s HO) | reflexivity].
    - pose proof (o_fresh s HO) as Hf. rewrite Forall_forall in *. intros b' Hb'.
      apply upd_batch_in in Hb'. destruct Hb' as (b & Hb & ->). specialize (Hf b Hb).
      destruct (b_id b =? t_batch t); exact Hf.
    - intros t' Ht'.
      assert (Ht'' : In t' (q_pending (s_q s) ++ s_running s)).
      { apply in_app_or in Ht'. apply in_or_app. destruct Ht' as [H | [<- | H]].
        - left. eapply Permutation_in; [apply Permutation_sym; exact Hperm | right; exact H].
        - left. eapply Permutation_in; [apply Permutation_sym; exact Hperm | left; reflexivity].
        - right. exact H. }
      destruct (o_tasks s HO t' Ht'') as (b & Hb & Hid & Hpr).
      exists (if b_id b =? t_batch t then h b else b). split; [apply upd_batch_in'; exact Hb|].
      destruct (b_id b =? t_batch t); split; assumption.
    - pose proof (o_counts s HO) as Hc. rewrite Forall_forall in *. intros b' Hb'.
      apply upd_batch_in in Hb'. destruct Hb' as (b & Hb & ->). specialize (Hc b Hb).
      unfold pend_of, run_of in *. cbn [s_q s_running q_pending].
      destruct (b_id b =? t_batch t) eqn:E.
      + unfold h. cbn [b_id b_nreq b_deliv b_fin]. rewrite cnt_cons. rewrite (Hcnt (b_id b)) in Hc.
        unfold of_batch in *. rewrite N.eqb_sym in E. rewrite E in *. lia.
      + rewrite cnt_cons. rewrite (Hcnt (b_id b)) in Hc.
        unfold of_batch in *. rewrite N.eqb_sym in E. rewrite E in *. lia.
    - intro p. rewrite occ_push, (o_flight s HO p).
      pose proof (sumf_upd (deliv_at p) (t_batch t) h (s_batches s) bt (o_ids s HO) Hbt Hbid) as Hs.
      assert (H1 : deliv_at p bt = if t_prio t =? p then b_deliv bt else 0%nat) by (unfold deliv_at; now rewrite Hbprio).
      assert (H2 : deliv_at p (h bt) = if t_prio t =? p then S (b_deliv bt) else 0%nat)
        by (unfold deliv_at, h; cbn [b_prio b_deliv]; now rewrite Hbprio).
      rewrite H1, H2 in Hs. rewrite (N.eqb_sym p (t_prio t)). destruct (t_prio t =? p); lia.
    - pose proof (o_prio s HO) as Hpr. rewrite Forall_forall in *. intros t' Ht'. apply Hpr.
      eapply Permutation_in; [apply Permutation_sym; exact Hperm | right; exact Ht'].
    - apply (o_nocancel s HO).
  Qed.

  Lemma step_complete_open s k s' : Open s -> step pick s (EvComplete k) = Some s' -> Open s'.
  Proof.
    intros HO Hst. cbn [step] in Hst.
    destruct (nth_error (s_running s) k) as [t|] eqn:En; [|discriminate].
    inversion Hst; subst s'; clear Hst.
    assert (Ht : In t (q_pending (s_q s) ++ s_running s)) by (apply in_or_app; right; eapply nth_error_In; exact En).
    destruct (o_tasks s HO t Ht) as (bt & Hbt & Hbid & Hbprio).
    unfold finish_task.
    set (h := fun b => mk_batch (b_id b) (b_prio b) (b_nreq b) (b_deliv b) (S (b_fin b)) (b_bytes b + t_bytes t) (b_err b || false)).
    constructor; cbn [s_q s_running s_batches s_next s_cancelled on_iop_complete q_done q_iops q_pending q_inflight].
    - apply (o_notdone s HO).
    - pose proof (o_iops s HO). rewrite (remove_nth_length _ _ _ En) in H. lia.
    - rewrite upd_batch_ids; [apply (o_ids s HO) | reflexivity].
    - pose proof (o_fresh s HO) as Hf. rewrite Forall_forall in *. intros b' Hb'.
      apply upd_batch_in in Hb'. destruct Hb' as (b & Hb & ->). specialize (Hf b Hb).
      destruct (b_id b =? t_batch t); exact Hf.
    - intros t' Ht'.
      assert (Ht'' : In t' (q_pending (s_q s) ++ s_running s)).
      { apply in_app_or in Ht'. apply in_or_app. destruct Ht' as [H | H]; [left; exact H | right; eapply remove_nth_in; exact H]. }
      destruct (o_tasks s HO t' Ht'') as (b & Hb & Hid & Hpr).
      exists (if b_id b =? t_batch t then h b else b). split; [apply upd_batch_in'; exact Hb|].
      destruct (b_id b =? t_batch t); split; assumption.
    - pose proof (o_counts s HO) as Hc. rewrite Forall_forall in *. intros b' Hb'.
      apply upd_batch_in in Hb'. destruct Hb' as (b & Hb & ->). specialize (Hc b Hb).
      unfold pend_of, run_of in *. cbn [s_q s_running q_pending on_iop_complete].
      rewrite (cnt_remove_nth (of_batch (b_id b)) k _ t En) in Hc.
      destruct (b_id b =? t_batch t) eqn:E.
      + unfold h. cbn [b_id b_nreq b_deliv b_fin]. unfold of_batch in *. rewrite N.eqb_sym in E. rewrite E in *. lia.
      + unfold of_batch in *. rewrite N.eqb_sym in E. rewrite E in *. lia.
    - intro p. rewrite (o_flight s HO p). symmetry. apply sumf_upd_same. intro b. reflexivity.
    - apply (o_prio s HO).
    - apply (o_nocancel s HO).
  Qed.

  Lemma step_consume_open s k s' : Open s -> step pick s (EvConsume k) = Some s' -> Open s'.
  Proof.
    intros HO Hst. cbn [step] in Hst.
    destruct (nth_error (s_batches s) k) as [b|] eqn:En; [|discriminate].
    destruct (b_finished b) eqn:Efin; [|discriminate].
    inversion Hst; subst s'; clear Hst.
    unfold b_finished in Efin. apply Nat.eqb_eq in Efin.
    pose proof (nth_error_In _ _ En) as Hb.
    pose proof (o_counts s HO) as Hc. rewrite Forall_forall in Hc. pose proof (Hc b Hb) as [Hc1 Hc2].
    assert (Hp0 : pend_of (b_id b) s = 0%nat) by lia. assert (Hr0 : run_of (b_id b) s = 0%nat) by lia.
    assert (Hdel : b_deliv b = b_nreq b) by lia.
    constructor; cbn [s_q s_running s_batches s_next s_cancelled on_bytes_consumed q_done q_iops q_pending q_inflight].
    - apply (o_notdone s HO).
    - apply (o_iops s HO).
    - rewrite map_remove_nth. apply NoDup_remove_nth. apply (o_ids s HO).
    - pose proof (o_fresh s HO) as Hf. rewrite Forall_forall in *. intros b' Hb'. apply Hf. eapply remove_nth_in; exact Hb'.
    - intros t Ht. destruct (o_tasks s HO t Ht) as (bt & Hbt & Hid & Hpr).
      exists bt. split; [|split; assumption].
      destruct (in_remove_nth k _ b bt En Hbt) as [-> | H]; [|exact H].
      exfalso. assert (Hof : of_batch (b_id b) t = true) by (unfold of_batch; rewrite <- Hid; apply N.eqb_refl).
      apply in_app_or in Ht. destruct Ht as [Ht | Ht].
      + pose proof (cnt_in_pos _ _ t Ht Hof) as Hpos. unfold pend_of in Hp0. lia.
      + pose proof (cnt_in_pos _ _ t Ht Hof) as Hpos. unfold run_of in Hr0. lia.
    - rewrite Forall_forall. intros b' Hb'. apply (Hc b'). eapply remove_nth_in; exact Hb'.
    - intro p.
      pose proof (sumf_remove_nth (deliv_at p) k _ b En) as Hs.
      pose proof (sumf_in_le (deliv_at (b_prio b)) _ b Hb) as Hle.
      rewrite <- (o_flight s HO (b_prio b)) in Hle. unfold deliv_at in Hle at 1. rewrite N.eqb_refl in Hle.
      rewrite occ_remove_n by lia. rewrite (o_flight s HO p), Hs.
      unfold deliv_at at 1. rewrite (N.eqb_sym p (b_prio b)). destruct (b_prio b =? p); lia.
    - apply (o_prio s HO).
    - apply (o_nocancel s HO).
  Qed.

  (* close(): every pending task is cancelled; its when_done runs with an error *)
  Definition cancel1 (b : batch) (t : task) : batch :=
    if b_id b =? t_batch t
    then mk_batch (b_id b) (b_prio b) (b_nreq b) (b_deliv b) (S (b_fin b)) (b_bytes b + t_bytes t) (b_err b || true)
    else b.

  Lemma fold_finish_map : forall ts bs,
    fold_left (fun bs t => finish_task true t bs) ts bs = map (fun b => fold_left cancel1 ts b) bs.
  Proof.
    induction ts as [|t ts IH]; intro bs; cbn [fold_left]; [now rewrite map_id|].
    rewrite IH. unfold finish_task, upd_batch. rewrite map_map. apply map_ext. intro b.
    cbn [fold_left]. f_equal.
  Qed.

  Lemma fold_cancel1_spec : forall ts b,
    let b' := fold_left cancel1 ts b in
    b_id b' = b_id b /\ b_nreq b' = b_nreq b /\ b_fin b' = (b_fin b + cnt (of_batch (b_id b)) ts)%nat
    /\ ((0 < cnt (of_batch (b_id b)) ts)%nat -> b_err b' = true) /\ (b_err b = true -> b_err b' = true).
  Proof.
    induction ts as [|t ts IH]; intro b; cbn [fold_left]; cbn zeta.
    - cbn. repeat split; auto; lia.
    - specialize (IH (cancel1 b t)). cbn zeta in IH. destruct IH as (H1 & H2 & H3 & H4 & H5).
      rewrite cnt_cons. unfold of_batch at 1 3. unfold cancel1 in *.
      rewrite (N.eqb_sym (t_batch t) (b_id b)).
      destruct (b_id b =? t_batch t) eqn:E; cbn [b_id b_nreq b_fin b_err] in *.
      + rewrite H1, H2, H3. repeat split; try lia.
        * intros _. apply H5. apply orb_true_r.
        * intros Hb. apply H5. rewrite Hb. reflexivity.
      + rewrite H1, H2, H3. repeat split; try lia; assumption.
  Qed.

  Lemma fold_iops_complete {A} : forall (ts : list A) q,
    let q' := fold_left (fun q _ => on_iop_complete q) ts q in
    q_iops q' = q_iops q + N.of_nat (length ts) /\ q_pending q' = q_pending q /\ q_done q' = q_done q.
  Proof.
    induction ts as [|t ts IH]; intro q; cbn [fold_left length]; cbn zeta; [repeat split; lia|].
    destruct (IH (on_iop_complete q)) as (H1 & H2 & H3). cbn zeta in *. rewrite H1, H2, H3.
    cbn [on_iop_complete q_iops q_pending q_done]. repeat split. lia.
  Qed.

  Lemma step_close_closed s s' : Open s -> step pick s EvClose = Some s' ->
    Closed s' /\
    (* C30_close_cancels: nothing stays pending; every batch that had a pending task reports an error *)
    q_pending (s_q s') = [] /\
    (forall b', In b' (s_batches s') ->
       exists b, In b (s_batches s) /\ b_id b' = b_id b /\ b_fin b' = (b_fin b + pend_of (b_id b) s)%nat
                 /\ ((0 < pend_of (b_id b) s)%nat -> b_err b' = true)).
  Proof.
    intros HO Hst. cbn [step] in Hst. rewrite (o_notdone s HO) in Hst. unfold q_close in Hst.
    inversion Hst; subst s'; clear Hst.
    set (ts := q_pending (s_q s)).
    destruct (fold_iops_complete ts (mk_q (q_iops (s_q s)) (q_bytes (s_q s)) [] (q_inflight (s_q s)) true)) as (Hi & Hp & Hd).
    cbn zeta in *. cbn [q_iops q_pending q_done] in *.
    assert (Hb' : forall b', In b' (fold_left (fun bs t => finish_task true t bs) ts (s_batches s)) ->
                  exists b, In b (s_batches s) /\ b' = fold_left cancel1 ts b).
    { intros b' H. rewrite fold_finish_map in H. apply in_map_iff in H. destruct H as (b & <- & Hb). exists b. split; [exact Hb | reflexivity]. }
    split; [|split].
    - constructor; cbn [s_q s_running s_batches s_next s_cancelled].
      + exact Hd.
      + exact Hp.
      + rewrite fold_finish_map, map_map.
        rewrite (map_ext _ b_id); [apply (o_ids s HO)|]. intro b. apply (fold_cancel1_spec ts b).
      + intros t Ht. destruct (o_tasks s HO t (in_or_app _ _ _ (or_intror Ht))) as (b & Hb & Hid & _).
        exists (fold_left cancel1 ts b). split.
        * rewrite fold_finish_map. apply in_map. exact Hb.
        * destruct (fold_cancel1_spec ts b) as (H1 & _). cbn zeta in H1. rewrite H1. exact Hid.
      + pose proof (o_counts s HO) as Hc. rewrite Forall_forall in *. intros b' Hin.
        destruct (Hb' b' Hin) as (b & Hb & ->). destruct (Hc b Hb) as [Hc1 _].
        destruct (fold_cancel1_spec ts b) as (H1 & H2 & H3 & _). cbn zeta in *.
        rewrite H1, H2, H3. unfold run_of, pend_of in *. cbn [s_running]. fold ts in Hc1. lia.
      + rewrite Hi. pose proof (o_iops s HO). rewrite (o_nocancel s HO). lia.
    - cbn [s_q]. exact Hp.
    - intros b' Hin. destruct (Hb' b' Hin) as (b & Hb & ->). exists b.
      destruct (fold_cancel1_spec ts b) as (H1 & H2 & H3 & H4 & _). cbn zeta in *.
      unfold pend_of. fold ts. repeat split; assumption.
  Qed.

  Lemma pick_nil : pick [] = None.
  Proof.
    destruct (pick []) as [[t rest]|] eqn:E; [|reflexivity].
    apply pick_perm in E. apply Permutation_nil in E. discriminate.
  Qed.

  Lemma step_closed s e s' : Closed s -> step pick s e = Some s' -> Closed s'.
  Proof.
    intros HC Hst. destruct e as [prio sizes| |k|k|]; cbn [step] in Hst.
    - rewrite (c_done s HC) in Hst. cbn [orb] in Hst. discriminate.
    - unfold next_task in Hst. rewrite (c_pending s HC), pick_nil in Hst. discriminate.
    - destruct (nth_error (s_running s) k) as [t|] eqn:En; [|discriminate].
      inversion Hst; subst s'; clear Hst. unfold finish_task.
      set (h := fun b => mk_batch (b_id b) (b_prio b) (b_nreq b) (b_deliv b) (S (b_fin b)) (b_bytes b + t_bytes t) (b_err b || false)).
      constructor; cbn [s_q s_running s_batches s_next s_cancelled on_iop_complete q_done q_iops q_pending].
      + apply (c_done s HC).
      + apply (c_pending s HC).
      + rewrite upd_batch_ids; [apply (c_ids s HC) | reflexivity].
      + intros t' Ht'. destruct (c_tasks s HC t' (remove_nth_in _ _ _ Ht')) as (b & Hb & Hid).
        exists (if b_id b =? t_batch t then h b else b). split; [apply upd_batch_in'; exact Hb|].
        destruct (b_id b =? t_batch t); exact Hid.
      + pose proof (c_counts s HC) as Hc. rewrite Forall_forall in *. intros b' Hb'.
        apply upd_batch_in in Hb'. destruct Hb' as (b & Hb & ->). specialize (Hc b Hb).
        unfold run_of in *. cbn [s_running].
        rewrite (cnt_remove_nth (of_batch (b_id b)) k _ t En) in Hc.
        destruct (b_id b =? t_batch t) eqn:E; unfold of_batch in *; rewrite N.eqb_sym in E; rewrite E in *;
          [unfold h; cbn [b_id b_nreq b_fin]|]; lia.
      + pose proof (c_iops s HC). rewrite (remove_nth_length _ _ _ En) in H. lia.
    - destruct (nth_error (s_batches s) k) as [b|] eqn:En; [|discriminate].
      destruct (b_finished b) eqn:Efin; [|discriminate].
      inversion Hst; subst s'; clear Hst.
      unfold b_finished in Efin. apply Nat.eqb_eq in Efin.
      pose proof (nth_error_In _ _ En) as Hb.
      pose proof (c_counts s HC) as Hc. rewrite Forall_forall in Hc. pose proof (Hc b Hb) as Hc1.
      constructor; cbn [s_q s_running s_batches s_next s_cancelled on_bytes_consumed q_done q_iops q_pending].
      + apply (c_done s HC).
      + apply (c_pending s HC).
      + rewrite map_remove_nth. apply NoDup_remove_nth. apply (c_ids s HC).
      + intros t Ht. destruct (c_tasks s HC t Ht) as (bt & Hbt & Hid). exists bt. split; [|exact Hid].
        destruct (in_remove_nth k _ b bt En Hbt) as [-> | H]; [|exact H].
        exfalso. assert (Hof : of_batch (b_id b) t = true) by (unfold of_batch; rewrite <- Hid; apply N.eqb_refl).
        pose proof (cnt_in_pos _ _ t Ht Hof) as Hpos. unfold run_of in Hc1. lia.
      + rewrite Forall_forall. intros b' Hb'. apply (Hc b'). eapply remove_nth_in; exact Hb'.
      + apply (c_iops s HC).
    - rewrite (c_done s HC) in Hst. discriminate.
  Qed.

  Definition Good (s : sys) : Prop := Open s \/ Closed s.

  Lemma step_good s e s' : Good s -> step pick s e = Some s' -> Good s'.
  Proof.
    intros [HO | HC] Hst; [|right; eapply step_closed; eassumption].
    destruct e as [prio sizes| |k|k|].
    - left. eapply step_submit_open; eassumption.
    - left. eapply step_deliver_open; eassumption.
    - left. eapply step_complete_open; eassumption.
    - left. eapply step_consume_open; eassumption.
    - right. eapply step_close_closed; eassumption.
  Qed.

  Theorem reachable_good buf : forall es s, run pick (sys_new cap buf) es = Some s -> Good s.
  Proof.
    assert (H : forall es s0 s, Good s0 -> run pick s0 es = Some s -> Good s).
    { induction es as [|e es IH]; intros s0 s HG Hrun; cbn [run] in Hrun.
      - inversion Hrun; subst; exact HG.
      - destruct (step pick s0 e) as [s1|] eqn:E; [|discriminate]. eapply IH; [eapply step_good; eassumption | exact Hrun]. }
    intros es s. apply H. left. apply Open_init.
  Qed.

  Lemma batch_by_id l a b : NoDup (map b_id l) -> In a l -> In b l -> b_id a = b_id b -> a = b.
  Proof.
    induction l as [|x l IH]; intros Hnd Ha Hb Hid; [destruct Ha|].
    cbn [map] in Hnd. inversion Hnd as [|? ? Hnot Hnd']; subst.
    destruct Ha as [-> | Ha]; destruct Hb as [-> | Hb]; try reflexivity.
    - exfalso. apply Hnot. rewrite Hid. apply in_map. exact Hb.
    - exfalso. apply Hnot. rewrite <- Hid. apply in_map. exact Ha.
    - apply IH; assumption.
  Qed.

  Definition internal (e : event) : Prop :=
    match e with EvDeliver | EvComplete _ | EvConsume _ => True | _ => False end.

  (* the priority bypass: with an iop slot free, a task at or below every in-flight priority is
     admitted whatever the byte budget says; in particular when nothing is in flight *)
  Lemma bypass q t : 1 <= q_iops q -> t_prio t <= min_in_flight (q_inflight q) -> can_deliver q t = true.
  Proof.
    intros H1 H2. unfold can_deliver. destruct (q_iops q =? 0) eqn:E; [lia|].
    destruct (t_prio t <=? min_in_flight (q_inflight q)) eqn:E2; [reflexivity | lia].
  Qed.

  Theorem progress_open s : Open s -> s_batches s <> [] ->
    exists e s', internal e /\ step pick s e = Some s'.
  Proof.
    intros HO Hne.
    destruct (s_running s) as [|t0 run] eqn:Erun.
    2:{ exists (EvComplete 0). eexists. split; [exact I|]. cbn [step]. rewrite Erun. cbn [nth_error]. reflexivity. }
    destruct (existsb b_finished (s_batches s)) eqn:Efin.
    { apply existsb_exists in Efin. destruct Efin as (b & Hb & Hf).
      destruct (In_nth_error _ _ Hb) as (k & Hk).
      exists (EvConsume k). eexists. split; [exact I|]. cbn [step]. rewrite Hk, Hf. reflexivity. }
    assert (Hunf : forall b, In b (s_batches s) -> b_fin b <> b_nreq b).
    { intros b Hb Heq. assert (existsb b_finished (s_batches s) = true); [|congruence].
      apply existsb_exists. exists b. split; [exact Hb|]. unfold b_finished. apply Nat.eqb_eq. exact Heq. }
    pose proof (o_counts s HO) as Hc. rewrite Forall_forall in Hc.
    assert (Hr0 : forall i, run_of i s = 0%nat) by (intro i; unfold run_of; rewrite Erun; reflexivity).
    assert (Hpend : forall b, In b (s_batches s) -> (0 < pend_of (b_id b) s)%nat).
    { intros b Hb. destruct (Hc b Hb) as [H1 _]. specialize (Hunf b Hb). rewrite Hr0 in H1. lia. }
    destruct (s_batches s) as [|b0 bs] eqn:Ebs; [congruence|].
    assert (Hpne : q_pending (s_q s) <> []).
    { intro Hnil. specialize (Hpend b0 (or_introl eq_refl)). unfold pend_of in Hpend. rewrite Hnil in Hpend. cbn in Hpend. lia. }
    destruct (pick_some _ Hpne) as (h & rest & Hpick).
    assert (Hio : 1 <= q_iops (s_q s)) by (pose proof (o_iops s HO) as Hi; rewrite Erun in Hi; cbn [length] in Hi; lia).
    assert (Hcan : can_deliver (s_q s) h = true).
    { apply bypass; [exact Hio|].
      destruct (q_inflight (s_q s)) as [|p infl] eqn:Einf.
      - cbn [min_in_flight]. pose proof (o_prio s HO) as Hpr. rewrite Forall_forall in Hpr. apply Hpr.
        eapply Permutation_in; [apply Permutation_sym; apply (pick_perm _ _ _ Hpick) | left; reflexivity].
      - cbn [min_in_flight]. destruct (N.le_gt_cases (t_prio h) p) as [Hle | Hgt]; [exact Hle|]. exfalso.
        assert (Hocc : (0 < occ p (q_inflight (s_q s)))%nat).
        { rewrite Einf. unfold occ. rewrite cnt_cons, N.eqb_refl. lia. }
        rewrite (o_flight s HO p), Ebs in Hocc.
        destruct (sumf_pos_in _ _ Hocc) as (b & Hb & Hd).
        unfold deliv_at in Hd. destruct (b_prio b =? p) eqn:Ep; [|lia].
        rewrite <- Ebs in *. specialize (Hpend b Hb).
        destruct (cnt_pos_in _ _ Hpend) as (t & Ht & Hof). unfold of_batch in Hof.
        destruct (o_tasks s HO t (in_or_app _ _ _ (or_introl Ht))) as (b2 & Hb2 & Hid2 & Hpr2).
        assert (b2 = b) by (apply (batch_by_id (s_batches s)); [apply (o_ids s HO) | assumption | assumption | lia]).
        subst b2. pose proof (pick_min _ _ _ Hpick t Ht). lia. }
    exists EvDeliver. eexists. split; [exact I|]. cbn [step]. unfold next_task. rewrite Hpick, Hcan. reflexivity.
  Qed.

  Theorem progress_closed s : Closed s -> s_batches s <> [] ->
    exists e s', internal e /\ step pick s e = Some s'.
  Proof.
    intros HC Hne.
    destruct (s_running s) as [|t0 run] eqn:Erun.
    2:{ exists (EvComplete 0). eexists. split; [exact I|]. cbn [step]. rewrite Erun. cbn [nth_error]. reflexivity. }
    destruct (s_batches s) as [|b0 bs] eqn:Ebs; [congruence|].
    pose proof (c_counts s HC) as Hc. rewrite Ebs in Hc. apply Forall_cons_iff in Hc. destruct Hc as [Hc _].
    unfold run_of in Hc. rewrite Erun in Hc. cbn in Hc.
    exists (EvConsume 0). eexists. split; [exact I|]. cbn [step]. rewrite Ebs. cbn [nth_error].
    unfold b_finished. replace (Nat.eqb (b_fin b0) (b_nreq b0)) with true by (symmetry; apply Nat.eqb_eq; lia). reflexivity.
  Qed.

  (* every internal step strictly decreases this measure: runs without new submissions are finite *)
  Definition measure (s : sys) : nat :=
    (2 * length (q_pending (s_q s)) + length (s_running s) + length (s_batches s))%nat.

  Lemma upd_batch_length id h bs : length (upd_batch id h bs) = length bs.
  Proof. unfold upd_batch. apply map_length. Qed.

  Lemma step_measure s e s' : internal e -> step pick s e = Some s' -> (measure s' < measure s)%nat.
  Proof.
    intros Hint Hst. destruct e as [prio sizes| |k|k|]; try destruct Hint; cbn [step] in Hst.
    - destruct (next_task pick (s_q s)) as [[t q']|] eqn:En; [|discriminate]. inversion Hst; subst s'; clear Hst.
      destruct (next_task_inv _ _ _ En) as (rest & Hpick & _ & ->).
      pose proof (Permutation_length (pick_perm _ _ _ Hpick)) as Hl. cbn [length] in Hl.
      unfold measure. cbn [s_q s_running s_batches q_pending length]. rewrite upd_batch_length. lia.
    - destruct (nth_error (s_running s) k) as [t|] eqn:En; [|discriminate]. inversion Hst; subst s'; clear Hst.
      unfold measure, finish_task. cbn [s_q s_running s_batches q_pending on_iop_complete].
      rewrite upd_batch_length, (remove_nth_length _ _ _ En). lia.
    - destruct (nth_error (s_batches s) k) as [b|] eqn:En; [|discriminate].
      destruct (b_finished b); [|discriminate]. inversion Hst; subst s'; clear Hst.
      unfold measure. cbn [s_q s_running s_batches q_pending on_bytes_consumed].
      rewrite (remove_nth_length _ _ _ En). lia.
  Qed.

  Theorem run_bounded : forall es s s', Forall internal es -> run pick s es = Some s' ->
    (length es + measure s' <= measure s)%nat.
  Proof.
    induction es as [|e es IH]; intros s s' Hint Hrun; cbn [run] in Hrun.
    - inversion Hrun; subst. cbn [length]. lia.
    - apply Forall_cons_iff in Hint. destruct Hint as [He Hint].
      destruct (step pick s e) as [s1|] eqn:E; [|discriminate].
      pose proof (step_measure _ _ _ He E). specialize (IH _ _ Hint Hrun). cbn [length]. lia.
  Qed.

End QueueProofs.

(* the executable heap used by the correspondence is one admissible tie-breaking *)
Lemma min_prio_spec : forall l m, min_prio l = Some m ->
  (forall t, In t l -> m <= t_prio t) /\ exists t, In t l /\ t_prio t = m.
Proof.
  induction l as [|x l IH]; intros m H; cbn [min_prio] in H; [discriminate|].
  destruct (min_prio l) as [m'|] eqn:E.
  - inversion H; subst m; clear H. destruct (IH m' eq_refl) as [H1 (t & Ht & Hp)]. split.
    + intros t' [<- | Ht']; [lia | specialize (H1 t' Ht'); lia].
    + destruct (N.le_gt_cases (t_prio x) m').
      * exists x. split; [left; reflexivity | lia].
      * exists t. split; [right; exact Ht | lia].
  - inversion H; subst m; clear H. destruct l; [|cbn [min_prio] in E; destruct (min_prio l); discriminate].
    split; [intros t' [<- | []]; lia | exists x; split; [left; reflexivity | reflexivity]].
Qed.

Lemma take_prio_spec p : forall l, (exists t, In t l /\ t_prio t = p) ->
  exists t rest, take_prio p l = Some (t, rest) /\ t_prio t = p /\ Permutation l (t :: rest).
Proof.
  induction l as [|x l IH]; intros (t & Ht & Hp); [destruct Ht|]. cbn [take_prio].
  destruct (t_prio x =? p) eqn:E.
  - exists x, l. repeat split; [lia | apply Permutation_refl].
  - destruct Ht as [-> | Ht]; [lia|]. destruct (IH (ex_intro _ t (conj Ht Hp))) as (t' & rest & H1 & H2 & H3).
    rewrite H1. exists t', (x :: rest). repeat split; [exact H2|].
    eapply Permutation_trans; [apply perm_skip; exact H3 | apply perm_swap].
Qed.

Lemma pick_leftmost_ok :
  (forall l, l <> [] -> exists t rest, pick_leftmost l = Some (t, rest)) /\
  (forall l t rest, pick_leftmost l = Some (t, rest) -> Permutation l (t :: rest)) /\
  (forall l t rest, pick_leftmost l = Some (t, rest) -> forall t', In t' l -> t_prio t <= t_prio t').
Proof.
  assert (H : forall l t rest, pick_leftmost l = Some (t, rest) ->
              Permutation l (t :: rest) /\ forall t', In t' l -> t_prio t <= t_prio t').
  { intros l t rest Hp. unfold pick_leftmost in Hp. destruct (min_prio l) as [m|] eqn:E; [|discriminate].
    destruct (min_prio_spec l m E) as [Hmin Hex].
    destruct (take_prio_spec m l Hex) as (t' & rest' & H1 & H2 & H3). rewrite H1 in Hp. injection Hp as E1 E2.
    rewrite <- E1, <- E2. split; [exact H3 | intros t'' Ht''; rewrite H2; apply Hmin; exact Ht'']. }
  split; [|split].
  - intros l Hne. unfold pick_leftmost. destruct (min_prio l) as [m|] eqn:E.
    + destruct (min_prio_spec l m E) as [_ Hex]. destruct (take_prio_spec m l Hex) as (t & rest & H1 & _). eauto.
    + destruct l as [|x l]; [congruence|]. cbn [min_prio] in E. destruct (min_prio l); discriminate.
  - intros l t rest Hp. apply (H l t rest Hp).
  - intros l t rest Hp. apply (H l t rest Hp).
Qed.

(* ---------------------------------------------------------------------------------------- *)
(* H. Packaged statements for Props/C30.v                                                    *)
(* ---------------------------------------------------------------------------------------- *)
(* what the BinaryHeap guarantees, whatever its internal tie-breaking *)
Definition heap_spec (pick : list task -> option (task * list task)) : Prop :=
  (forall l, l <> [] -> exists t rest, pick l = Some (t, rest)) /\
  (forall l t rest, pick l = Some (t, rest) -> Permutation l (t :: rest)) /\
  (forall l t rest, pick l = Some (t, rest) -> forall t', In t' l -> t_prio t <= t_prio t').

Definition reachable pick cap buf (s : sys) : Prop := exists es, run pick (sys_new cap buf) es = Some s.
Definition enabled pick (s : sys) (e : event) : Prop := exists s', step pick s e = Some s'.

Theorem accounting pick cap buf s : heap_spec pick -> 0 < cap -> reachable pick cap buf s ->
  (q_done (s_q s) = false -> Open cap s) /\ (q_done (s_q s) = true -> Closed cap s).
Proof.
  intros (H1 & H2 & H3) Hc (es & Hrun).
  destruct (reachable_good pick H1 H2 H3 cap Hc buf es s Hrun) as [HO | HC]; split; intro Hd.
  - exact HO.
  - rewrite (o_notdone cap s HO) in Hd. discriminate.
  - rewrite (c_done cap s HC) in Hd. discriminate.
  - exact HC.
Qed.

Theorem no_deadlock pick cap buf s : heap_spec pick -> 0 < cap -> reachable pick cap buf s ->
  s_batches s <> [] -> exists e, internal e /\ enabled pick s e.
Proof.
  intros (H1 & H2 & H3) Hc (es & Hrun) Hne.
  destruct (reachable_good pick H1 H2 H3 cap Hc buf es s Hrun) as [HO | HC].
  - destruct (progress_open pick H1 H2 H3 cap Hc s HO Hne) as (e & s' & Hi & Hs). exists e. split; [exact Hi | exists s'; exact Hs].
  - destruct (progress_closed pick cap Hc s HC Hne) as (e & s' & Hi & Hs). exists e. split; [exact Hi | exists s'; exact Hs].
Qed.

Theorem all_complete pick cap buf s : heap_spec pick -> 0 < cap -> reachable pick cap buf s ->
  (forall es s', Forall internal es -> run pick s es = Some s' -> (length es <= measure s)%nat) /\
  (forall es s', Forall internal es -> run pick s es = Some s' ->
     (forall e, internal e -> ~ enabled pick s' e) -> s_batches s' = []).
Proof.
  intros Hh Hc Hreach. pose proof Hh as (H1 & H2 & H3). split.
  - intros es s' Hint Hrun. pose proof (run_bounded pick H1 H2 H3 cap Hc es s s' Hint Hrun). lia.
  - intros es s' Hint Hrun Hstuck.
    destruct (s_batches s') as [|b bs] eqn:E; [reflexivity|]. exfalso.
    assert (Hreach' : reachable pick cap buf s').
    { destruct Hreach as (es0 & Hrun0). exists (es0 ++ es).
      clear - Hrun0 Hrun. revert Hrun0. generalize (sys_new cap buf). induction es0 as [|e es0 IH]; intros s0 H0; cbn [run app] in *.
      - inversion H0; subst. exact Hrun.
      - destruct (step pick s0 e); [apply IH; exact H0 | discriminate]. }
    destruct (no_deadlock pick cap buf s' Hh Hc Hreach') as (e & Hi & He); [rewrite E; discriminate|].
    apply (Hstuck e Hi He).
Qed.

Theorem close_cancels pick cap buf s s' : heap_spec pick -> 0 < cap -> reachable pick cap buf s ->
  step pick s EvClose = Some s' ->
  q_pending (s_q s') = [] /\
  (forall b', In b' (s_batches s') ->
     exists b, In b (s_batches s) /\ b_id b' = b_id b /\ b_fin b' = (b_fin b + pend_of (b_id b) s)%nat
               /\ ((0 < pend_of (b_id b) s)%nat -> b_err b' = true)).
Proof.
  intros Hh Hc Hreach Hst. pose proof Hh as (H1 & H2 & H3).
  assert (Hd : q_done (s_q s) = false).
  { cbn [step] in Hst. destruct (q_done (s_q s)); [discriminate | reflexivity]. }
  destruct (accounting pick cap buf s Hh Hc Hreach) as [HO _].
  destruct (step_close_closed pick H1 H2 H3 cap Hc s s' (HO Hd) Hst) as (_ & Hp & Hb). split; assumption.
Qed.

Theorem priority_bypass pick (q : qstate) (t : task) rest :
  pick (q_pending q) = Some (t, rest) -> 1 <= q_iops q -> t_prio t <= min_in_flight (q_inflight q) ->
  exists q', next_task pick q = Some (t, q').
Proof.
  intros Hp H1 H2. unfold next_task. rewrite Hp. unfold can_deliver.
  destruct (q_iops q =? 0) eqn:E; [lia|].
  destruct (t_prio t <=? min_in_flight (q_inflight q)) eqn:E2; [|lia]. eexists; reflexivity.
Qed.

Lemma heap_spec_leftmost : heap_spec pick_leftmost.
Proof. exact pick_leftmost_ok. Qed.

(* ---------------------------------------------------------------------------------------- *)
(* F. LanceEncodingsIo: chunking and reassembly                                              *)
(* ---------------------------------------------------------------------------------------- *)
Lemma pieces_concat f : forall k start bpr e, (1 <= k)%nat -> start + N.of_nat (k - 1) * bpr <= e -> e <= blen f ->
  concat (map (slice f) (pieces k start bpr e)) = slice f (start, e).
Proof.
  induction k as [|k IH]; intros start bpr e Hk H He; [lia|].
  destruct k as [|k'].
  - cbn [pieces map concat]. apply app_nil_r.
  - change (pieces (S (S k')) start bpr e) with ((start, start + bpr) :: pieces (S k') (start + bpr) bpr e).
    replace (N.of_nat (S (S k') - 1)) with (N.of_nat (S k' - 1) + 1) in H by lia.
    cbn [map concat]. rewrite IH by (try lia; nia). apply slice_app; [lia | nia | exact He].
Qed.

Lemma pieces_length : forall k start bpr e, length (pieces k start bpr e) = k.
Proof.
  induction k as [|k IH]; intros; [reflexivity|]. destruct k as [|k']; [reflexivity|].
  change (pieces (S (S k')) start bpr e) with ((start, start + bpr) :: pieces (S k') (start + bpr) bpr e).
  cbn [length]. now rewrite IH.
Qed.

Lemma chunk_one_spec f chunk r p : snd r <= blen f -> chunk_one chunk r = Ok p ->
  (1 <= length p)%nat /\ concat (map (slice f) p) = slice f r /\ Forall (fun c => snd c <= snd r) p
  /\ (length p = 1%nat -> p = [r]).
Proof.
  intros Hf Hrun. unfold chunk_one, sub_chk in Hrun.
  destruct (snd r <? fst r) eqn:E0; [discriminate|]. cbn [bind] in Hrun.
  destruct (chunk <? snd r - fst r) eqn:E1.
  - destruct (chunk =? 0) eqn:E2; [discriminate|]. inversion Hrun; subst p; clear Hrun.
    set (size := snd r - fst r) in *. set (n := div_ceil size chunk).
    assert (Hn : 1 <= n) by (apply div_ceil_pos; lia).
    assert (Hmul : n * (size / n) <= size) by (apply N.mul_div_le; lia).
    assert (Hk : fst r + N.of_nat (N.to_nat n - 1) * (size / n) <= snd r).
    { replace (N.of_nat (N.to_nat n - 1)) with (n - 1) by lia. unfold size in *. nia. }
    rewrite pieces_length. repeat split.
    + lia.
    + rewrite pieces_concat by (try lia; assumption). destruct r; reflexivity.
    + apply pieces_ends. exact Hk.
    + intro H1. rewrite H1. cbn [pieces]. destruct r; reflexivity.
  - inversion Hrun; subst p. cbn [length map concat]. repeat split; [lia | apply app_nil_r | constructor; [lia | constructor]].
Qed.

Definition zres (f : bytes) (tagged : list (range * N)) : list (bytes * N) :=
  map (fun p => (slice f (fst p), snd p)) tagged.

Lemma gather_app i z1 z2 : gather i (z1 ++ z2) = gather i z1 ++ gather i z2.
Proof. unfold gather. now rewrite filter_app, map_app, concat_app. Qed.

Lemma gather_group f i idx p :
  gather i (zres f (map (fun c => (c, idx)) p)) = if idx =? i then concat (map (slice f) p) else [].
Proof.
  unfold gather, zres. induction p as [|c p IH]; cbn [map filter snd fst]; [destruct (idx =? i); reflexivity|].
  destruct (idx =? i) eqn:E; cbn [map concat fst]; rewrite IH; reflexivity.
Qed.

Lemma in_N_seq : forall len start i, In i (N_seq start len) -> start <= i.
Proof.
  induction len as [|len IH]; intros start i H; [destruct H|]. cbn [N_seq] in H.
  destruct H as [<- | H]; [lia | specialize (IH _ _ H); lia].
Qed.

Lemma chunk_all_spec f chunk : forall rs idx tagged,
  Forall (fun r => snd r <= blen f) rs -> chunk_all chunk idx rs = Ok tagged ->
  (length rs <= length tagged)%nat /\
  (length tagged = length rs -> map fst tagged = rs) /\
  Forall (fun c => snd c <= blen f) (map fst tagged) /\
  (forall i, i < idx -> gather i (zres f tagged) = []) /\
  map (fun i => gather i (zres f tagged)) (N_seq idx (length rs)) = map (slice f) rs.
Proof.
  induction rs as [|r rs IH]; intros idx tagged Hf Hrun; cbn [chunk_all] in Hrun.
  - inversion Hrun; subst tagged. cbn. repeat split; auto.
  - apply Forall_cons_iff in Hf. destruct Hf as [Hr Hf].
    destruct (chunk_one chunk r) as [p| |] eqn:Ep; try discriminate. cbn [bind] in Hrun.
    destruct (chunk_all chunk (idx + 1) rs) as [tl| |] eqn:Etl; try discriminate. cbn [bind] in Hrun.
    inversion Hrun; subst tagged; clear Hrun.
    destruct (chunk_one_spec f chunk r p Hr Ep) as (Hp1 & Hp2 & Hp3 & Hp4).
    destruct (IH (idx + 1) tl Hf Etl) as (H1 & H2 & H3 & H4 & H5).
    rewrite app_length, map_length. cbn [length].
    split; [lia|]. split; [|split; [|split]].
    + intro Hlen. assert (length p = 1%nat) by lia. assert (length tl = length rs) by lia.
      rewrite map_app, map_map. cbn [fst]. rewrite map_id, (Hp4 H), (H2 H0). reflexivity.
    + rewrite map_app, map_map. cbn [fst]. rewrite map_id. apply Forall_app. split; [|exact H3].
      eapply Forall_impl; [|exact Hp3]. cbn beta. intros; lia.
    + intros i Hi. unfold zres. rewrite map_app. fold (zres f (map (fun c => (c, idx)) p)) (zres f tl).
      rewrite gather_app, gather_group. destruct (idx =? i) eqn:E; [lia|]. rewrite H4 by lia. reflexivity.
    + cbn [N_seq map]. unfold zres. rewrite map_app. fold (zres f (map (fun c => (c, idx)) p)) (zres f tl).
      f_equal.
      * rewrite gather_app, gather_group, N.eqb_refl, Hp2, H4 by lia. apply app_nil_r.
      * rewrite <- H5. apply map_ext_in. intros i Hi. apply in_N_seq in Hi.
        rewrite gather_app, gather_group. destruct (idx =? i) eqn:E; [lia | reflexivity].
Qed.

Lemma combine_zres f : forall tagged,
  combine (map (slice f) (map fst tagged)) (map snd tagged) = zres f tagged.
Proof. induction tagged as [|x l IH]; cbn [map combine zres]; [reflexivity|]. fold (zres f l). now rewrite IH. Qed.

Theorem encodings_io_exact f bs mx chunk rs tagged :
  in_file f rs = true -> chunk_all chunk 0 rs = Ok tagged -> Dom_C30 bs mx (map fst tagged) = true ->
  encodings_io_submit f bs mx chunk rs = Ok (map (slice f) rs).
Proof.
  intros Hfile Hch Hdom.
  assert (Hf : Forall (fun r => snd r <= blen f) rs).
  { unfold in_file in Hfile. rewrite forallb_forall in Hfile. apply Forall_forall. intros x Hx. specialize (Hfile x Hx). lia. }
  destruct (chunk_all_spec f chunk rs 0 tagged Hf Hch) as (H1 & H2 & H3 & _ & H5).
  unfold encodings_io_submit. rewrite Hch. cbn [bind].
  rewrite bytes_exact; [|unfold in_file; apply forallb_forall; rewrite Forall_forall in H3; intros x Hx; specialize (H3 x Hx); lia | exact Hdom].
  cbn [bind]. f_equal. unfold reassemble. rewrite !map_length.
  destruct (Nat.eqb (length tagged) (length rs)) eqn:E.
  - apply Nat.eqb_eq in E. rewrite (H2 E). reflexivity.
  - rewrite <- H5. rewrite combine_zres. reflexivity.
Qed.

(* a failing store read turns the whole request into Err; it never yields wrong bytes *)
Lemma read_all_fail f fail : forall us, read_all f fail us = Ok (with_b f us) \/ read_all f fail us = Err.
Proof.
  induction us as [|u us IH]; [left; reflexivity|]. cbn [read_all with_b map]. fold (with_b f us).
  unfold read_one. destruct (fst u =? snd u) eqn:E.
  - destruct u as [s e]; cbn [fst snd] in E. assert (s = e) by lia; subst e. rewrite slice_empty.
    destruct IH as [-> | ->]; [left | right]; reflexivity.
  - destruct (fail u); destruct IH as [-> | ->]; auto.
Qed.

Theorem bytes_exact_or_err f fail bs mx rs :
  in_file f rs = true -> Dom_C30 bs mx rs = true ->
  submit_request_f f fail bs mx rs = Ok (map (slice f) rs) \/ submit_request_f f fail bs mx rs = Err.
Proof.
  intros Hfile Hdom. pose proof (bytes_exact f bs mx rs Hfile Hdom) as Hex.
  unfold submit_request, submit_request_f in *.
  destruct (updated_requests bs mx rs) as [us| |]; try discriminate. cbn [bind] in *.
  change (read_all f (fun _ => false) us) with (read_all f no_fail us) in Hex. rewrite read_all_ok in Hex. cbn [bind] in Hex.
  destruct (read_all_fail f fail us) as [-> | ->]; cbn [bind]; [left; exact Hex | right; reflexivity].
Qed.
