(* Proofs about Io/Model_Chunker.v (C41; reusable by C11). *)
From LanceV Require Import Common.Base Io.Model_Chunker.

Section ChunkerProofs.
Context {A : Type}.
Notation batch := (list A).
Notation item := (Model_Chunker.item A).

(* ------------------------------------------------------------------ generic list facts *)
Lemma rows_of_concat (bs : list batch) : rows_of bs = length (concat bs).
Proof.
  unfold rows_of, num_rows. induction bs as [|b bs IH]; cbn [map list_sum concat]; [reflexivity|].
  rewrite app_length, IH. reflexivity.
Qed.

Lemma rows_of_app (xs ys : list batch) : rows_of (xs ++ ys) = rows_of xs + rows_of ys.
Proof. rewrite !rows_of_concat, concat_app, app_length. reflexivity. Qed.

Lemma rows_of_cons (b : batch) bs : rows_of (b :: bs) = length b + rows_of bs.
Proof. reflexivity. Qed.

Lemma skipn_app_le (i : nat) (l1 l2 : list A) : i <= length l1 -> skipn i (l1 ++ l2) = skipn i l1 ++ l2.
Proof.
  intro H. rewrite skipn_app. replace (i - length l1) with 0 by lia. reflexivity.
Qed.

Lemma firstn_app_le (n : nat) (l1 l2 : list A) : n <= length l1 -> firstn n (l1 ++ l2) = firstn n l1.
Proof.
  intro H. rewrite firstn_app. replace (n - length l1) with 0 by lia. cbn [firstn]. apply app_nil_r.
Qed.

Lemma firstn_app_ge (n : nat) (l1 l2 : list A) : length l1 <= n -> firstn n (l1 ++ l2) = l1 ++ firstn (n - length l1) l2.
Proof. intro H. rewrite firstn_app. rewrite firstn_all2 by lia. reflexivity. Qed.

Lemma skipn_app_ge (n : nat) (l1 l2 : list A) : length l1 <= n -> skipn n (l1 ++ l2) = skipn (n - length l1) l2.
Proof. intro H. rewrite skipn_app. rewrite skipn_all2 by lia. reflexivity. Qed.

Lemma slice_ok (b : batch) off len : off + len <= length b -> slice b off len = Ok (firstn len (skipn off b)).
Proof.
  intro H. unfold slice, num_rows. destruct (length b <? off + len) eqn:E; [apply Nat.ltb_lt in E; lia | reflexivity].
Qed.

Lemma slice_tail (b : batch) off : off <= length b -> slice b off (length b - off) = Ok (skipn off b).
Proof.
  intro H. rewrite slice_ok by lia. f_equal. apply firstn_all2. rewrite skipn_length. lia.
Qed.

Lemma length_zero_nil (l : list A) : length l = 0 -> l = [].
Proof. destruct l; [reflexivity | discriminate]. Qed.

(* ------------------------------------------------------------------ exact chunking, as a relation *)
(* [chunks_of n R out]: out is R cut at every n rows *)
Inductive chunks_of (n : nat) : list A -> list batch -> Prop :=
| co_nil : chunks_of n [] []
| co_cons R out : R <> [] -> chunks_of n (skipn n R) out -> chunks_of n R (firstn n R :: out).

Lemma chunks_of_concat n R out : chunks_of n R out -> concat out = R.
Proof.
  induction 1 as [|R out HR Hc IH]; [reflexivity|]. cbn [concat]. rewrite IH. apply firstn_skipn.
Qed.

Lemma chunks_of_nonempty n R out : 0 < n -> chunks_of n R out -> Forall (fun c => c <> []) out.
Proof.
  intros Hn. induction 1 as [|R out HR Hc IH]; constructor; [|exact IH].
  destruct R as [|x R]; [congruence|]. destruct n; [lia|]. cbn [firstn]. discriminate.
Qed.

Lemma chunks_of_le n R out : chunks_of n R out -> Forall (fun c => length c <= n) out.
Proof.
  induction 1 as [|R out HR Hc IH]; constructor; [|exact IH]. rewrite firstn_length. lia.
Qed.

Lemma chunks_of_exact n R out : chunks_of n R out ->
  forall pre c post, out = pre ++ c :: post -> post <> [] -> length c = n.
Proof.
  induction 1 as [|R out HR Hc IH]; intros pre c post E Hp.
  - destruct pre; discriminate.
  - destruct pre as [|p pre]; cbn [app] in E; injection E as E1 E2.
    + subst c out. rewrite firstn_length.
      destruct (Nat.le_gt_cases n (length R)) as [Hle|Hgt]; [lia|].
      rewrite skipn_all2 in Hc by lia. inversion Hc; subst; congruence.
    + eapply IH; eauto.
Qed.

(* out-of-fuel marker / values / errors of an output stream *)
Definition ovals {X} (l : list (oitem X)) : list X :=
  flat_map (fun x => match x with OVal v => [v] | _ => [] end) l.
Definition oerrs {X} (l : list (oitem X)) : nat :=
  length (filter (fun x => match x with OErr => true | _ => false end) l).
Definition no_fuel {X} (l : list (oitem X)) : Prop := ~ In OFuel l.
Fixpoint ierrs (inner : list item) : nat :=
  match inner with [] => 0 | IErr :: r => S (ierrs r) | IBatch _ :: r => ierrs r end.

Lemma ovals_cons_val {X} (v : X) l : ovals (OVal v :: l) = v :: ovals l.
Proof. reflexivity. Qed.
Lemma ovals_cons_err {X} (l : list (oitem X)) : ovals (OErr :: l) = ovals l.
Proof. reflexivity. Qed.
Lemma oerrs_cons_val {X} (v : X) l : oerrs (OVal v :: l) = oerrs l.
Proof. reflexivity. Qed.
Lemma oerrs_cons_err {X} (l : list (oitem X)) : oerrs (OErr :: l) = S (oerrs l).
Proof. reflexivity. Qed.
Lemma no_fuel_cons_val {X} (v : X) l : no_fuel l -> no_fuel (OVal v :: l).
Proof. intros H [E|E]; [discriminate | exact (H E)]. Qed.
Lemma no_fuel_cons_err {X} (l : list (oitem X)) : no_fuel l -> no_fuel (OErr :: l).
Proof. intros H [E|E]; [discriminate | exact (H E)]. Qed.
Lemma no_fuel_nil {X} : @no_fuel X [].
Proof. intros []. Qed.

Lemma ierrs_le_length (inner : list item) : ierrs inner <= length inner.
Proof. induction inner as [|[b|] r IH]; cbn [ierrs length]; lia. Qed.

(* ------------------------------------------------------------------ StrictBatchSizeStream *)
Definition res_rows (r : option batch) : batch := match r with Some b => b | None => [] end.
Definition sdata (r : option batch) (inner : list item) : list A := res_rows r ++ concat (oks inner).

Lemma strict_poll_spec (n : nat) (Hn : 0 < n) : forall (inner : list item) (res : option batch),
  exists r res' inner', strict_poll n res inner = Ok (r, res', inner') /\
    match r with
    | Some (OVal c) =>
        c = firstn n (sdata res inner) /\ sdata res inner <> [] /\
        sdata res' inner' = skipn n (sdata res inner) /\ ierrs inner' = ierrs inner /\
        length inner' <= length inner
    | Some OErr => sdata res' inner' = sdata res inner /\ S (ierrs inner') = ierrs inner /\ length inner' < length inner
    | Some OFuel => False
    | None => sdata res inner = [] /\ ierrs inner = 0 /\ res' = None /\ inner' = []
    end.
Proof.
  induction inner as [|it inner IH]; intro res.
  - (* inner exhausted *)
    cbn [strict_poll]. destruct res as [r|]; cbn [num_rows].
    + destruct (n <=? length r) eqn:E.
      * apply Nat.leb_le in E. rewrite slice_ok by lia. cbn [obind skipn]. rewrite slice_tail by lia. cbn [obind].
        eexists _, _, _. split; [reflexivity|]. unfold sdata; cbn [res_rows oks concat]. rewrite !app_nil_r.
        repeat split; try lia. destruct r; [cbn in E; lia | discriminate].
      * apply Nat.leb_gt in E. destruct (0 <? length r) eqn:E0.
        -- eexists _, _, _. split; [reflexivity|]. unfold sdata; cbn [res_rows oks concat]. rewrite !app_nil_r.
           apply Nat.ltb_lt in E0.
           repeat split; try lia.
           ++ symmetry; apply firstn_all2; lia.
           ++ destruct r; [cbn in E0; lia | discriminate].
           ++ symmetry; apply skipn_all2; lia.
        -- apply Nat.ltb_ge in E0. eexists _, _, _. split; [reflexivity|]. unfold sdata; cbn [res_rows oks concat].
           rewrite app_nil_r. repeat split. apply length_zero_nil; lia.
    + eexists _, _, _. split; [reflexivity|]. repeat split.
  - cbn [strict_poll].
    destruct res as [r|]; cbn [num_rows].
    + destruct (n <=? length r) eqn:E.
      * apply Nat.leb_le in E. rewrite slice_ok by lia. cbn [obind skipn]. rewrite slice_tail by lia. cbn [obind].
        eexists _, _, _. split; [reflexivity|]. unfold sdata; cbn [res_rows].
        repeat split; try lia.
        -- symmetry; apply firstn_app_le; lia.
        -- destruct r; [cbn in E; lia | discriminate].
        -- symmetry; apply skipn_app_le; lia.
      * apply Nat.leb_gt in E. destruct it as [b|].
        -- destruct (n <=? length (r ++ b)) eqn:E2.
           ++ apply Nat.leb_le in E2. rewrite slice_ok by lia. cbn [obind skipn]. rewrite slice_tail by lia. cbn [obind].
              eexists _, _, _. split; [reflexivity|]. unfold sdata; cbn [res_rows oks concat].
              rewrite app_assoc.
              repeat split; try (cbn [length ierrs]; lia).
              ** symmetry; apply firstn_app_le; lia.
              ** destruct (r ++ b); [cbn in E2; lia | discriminate].
              ** rewrite skipn_app_le by lia.
                 destruct (0 <? length (skipn n (r ++ b))) eqn:E3; cbn [res_rows]; [reflexivity|].
                 apply Nat.ltb_ge in E3. rewrite (length_zero_nil (skipn n (r ++ b))) by lia. reflexivity.
           ++ destruct (IH (Some (r ++ b))) as (q & res' & inner' & Hq & Hs). rewrite Hq.
              eexists _, _, _. split; [reflexivity|].
              assert (Hd : sdata (Some (r ++ b)) inner = sdata (Some r) (IBatch b :: inner)).
              { unfold sdata; cbn [res_rows oks concat]. rewrite app_assoc. reflexivity. }
              rewrite Hd in Hs. destruct q as [[c| |]|]; cbn [ierrs length]; intuition lia.
        -- eexists _, _, _. split; [reflexivity|]. unfold sdata; cbn [res_rows oks ierrs length]. repeat split; lia.
    + destruct it as [b|].
      * destruct (n <=? length b) eqn:E2.
        -- apply Nat.leb_le in E2. rewrite slice_ok by lia. cbn [obind skipn]. rewrite slice_tail by lia. cbn [obind].
           eexists _, _, _. split; [reflexivity|]. unfold sdata; cbn [res_rows oks concat app].
           repeat split; try (cbn [length ierrs]; lia).
           ++ symmetry; apply firstn_app_le; lia.
           ++ destruct b; [cbn in E2; lia | discriminate].
           ++ rewrite skipn_app_le by lia.
              destruct (0 <? length (skipn n b)) eqn:E3; cbn [res_rows]; [reflexivity|].
              apply Nat.ltb_ge in E3. rewrite (length_zero_nil (skipn n b)) by lia. reflexivity.
        -- destruct (IH (Some b)) as (q & res' & inner' & Hq & Hs). rewrite Hq.
           eexists _, _, _. split; [reflexivity|].
           assert (Hd : sdata (Some b) inner = sdata None (IBatch b :: inner)) by reflexivity.
           rewrite Hd in Hs. destruct q as [[c| |]|]; cbn [ierrs length]; intuition lia.
      * eexists _, _, _. split; [reflexivity|]. unfold sdata; cbn [res_rows oks ierrs length]. repeat split; lia.
Qed.

Lemma strict_unfold_spec (n : nat) (Hn : 0 < n) : forall fuel res inner,
  length (sdata res inner) + length inner + 2 <= fuel ->
  exists out, strict_unfold fuel n res inner = Ok out /\ no_fuel out /\
    chunks_of n (sdata res inner) (ovals out) /\ oerrs out = ierrs inner.
Proof.
  induction fuel as [|fuel IH]; intros res inner Hf; [lia|].
  cbn [strict_unfold].
  destruct (strict_poll_spec n Hn inner res) as (r & res' & inner' & Hp & Hs). rewrite Hp. cbn [obind].
  destruct r as [[c| |]|].
  - destruct Hs as (Hc & Hne & Hd & He & Hl).
    assert (Hlen : length (sdata res' inner') < length (sdata res inner)).
    { rewrite Hd, skipn_length. destruct (sdata res inner); [congruence|]. cbn [length]. lia. }
    destruct (IH res' inner') as (out & Ho & Hnf & Hch & Her); [lia|].
    rewrite Ho. cbn [omap]. eexists. split; [reflexivity|]. split; [apply no_fuel_cons_val; exact Hnf|].
    split.
    + rewrite ovals_cons_val, Hc. constructor; [exact Hne|]. rewrite <- Hd. exact Hch.
    + rewrite oerrs_cons_val. lia.
  - destruct Hs as (Hd & He & Hl).
    destruct (IH res' inner') as (out & Ho & Hnf & Hch & Her); [rewrite Hd; lia|].
    rewrite Ho. cbn [omap]. eexists. split; [reflexivity|]. split; [apply no_fuel_cons_err; exact Hnf|].
    split.
    + rewrite ovals_cons_err, <- Hd. exact Hch.
    + rewrite oerrs_cons_err. lia.
  - destruct Hs.
  - destruct Hs as (Hd & He & _ & _). eexists. split; [reflexivity|]. split; [apply no_fuel_nil|].
    split; [rewrite Hd; constructor | cbn; lia].
Qed.

Theorem strict_stream_correct (n : nat) (inner : list item) : 0 < n ->
  exists out, strict_stream n inner = Ok out /\ no_fuel out /\
    chunks_of n (concat (oks inner)) (ovals out) /\ oerrs out = ierrs inner.
Proof.
  intro Hn. unfold strict_stream.
  destruct (strict_unfold_spec n Hn (rows_of (oks inner) + length inner + 2) None inner) as (out & H).
  - unfold sdata; cbn [res_rows app]. rewrite rows_of_concat. lia.
  - exists out. exact H.
Qed.

End ChunkerProofs.
