(* Proofs about Io/Model_Chunker.v (C41; reusable by C11). *)
From LanceV Require Import Common.Base Io.Model_Chunker.

Section ChunkerProofs.
Context {A : Type}.
Notation batch := (Model_Chunker.batch A).
Notation item := (Model_Chunker.item A).

(* ------------------------------------------------------------------ generic list facts *)
Lemma rows_of_cons (b : batch) bs : rows_of (b :: bs) = length b + rows_of bs.
Proof. reflexivity. Qed.

Lemma rows_of_concat (bs : list batch) : rows_of bs = length (concat bs).
Proof.
  induction bs as [|b bs IH]; [reflexivity|].
  rewrite rows_of_cons, IH. cbn [concat]. rewrite app_length. reflexivity.
Qed.

Lemma rows_of_app (xs ys : list batch) : rows_of (xs ++ ys) = rows_of xs + rows_of ys.
Proof. rewrite !rows_of_concat, concat_app, app_length. reflexivity. Qed.

Lemma skipn_app_le (i : nat) (l1 l2 : list A) : i <= length l1 -> skipn i (l1 ++ l2) = skipn i l1 ++ l2.
Proof.
  intro H. rewrite skipn_app. replace (i - length l1) with 0 by lia. reflexivity.
Qed.

Lemma firstn_app_le (n : nat) (l1 l2 : list A) : n <= length l1 -> firstn n (l1 ++ l2) = firstn n l1.
Proof.
  intro H. rewrite firstn_app. replace (n - length l1) with 0 by lia. cbn [firstn]. apply app_nil_r.
Qed.

Lemma firstn_app_ge (n : nat) (l1 l2 : list A) : length l1 <= n -> firstn n (l1 ++ l2) = l1 ++ firstn (n - length l1) l2.
Proof. intro H. rewrite firstn_app. rewrite firstn_all2 by lia. reflexivity. Qed.

Lemma skipn_app_ge (n : nat) (l1 l2 : list A) : length l1 <= n -> skipn n (l1 ++ l2) = skipn (n - length l1) l2.
Proof. intro H. rewrite skipn_app. rewrite skipn_all2 by lia. reflexivity. Qed.

Lemma skipn_add (a c : nat) (l : list A) : skipn (a + c) l = skipn c (skipn a l).
Proof.
  revert l; induction a as [|a IH]; intro l; [reflexivity|].
  destruct l as [|x l]; [cbn [Nat.add skipn]; rewrite skipn_nil; reflexivity|]. cbn [Nat.add skipn]. apply IH.
Qed.

Lemma slice_ok (b : batch) off len : off + len <= length b -> slice b off len = Ok (firstn len (skipn off b)).
Proof.
  intro H. unfold slice, num_rows. destruct (length b <? off + len) eqn:E; [apply Nat.ltb_lt in E; lia | reflexivity].
Qed.

Lemma slice_tail (b : batch) off : off <= length b -> slice b off (length b - off) = Ok (skipn off b).
Proof.
  intro H. rewrite slice_ok by lia. f_equal. apply firstn_all2. rewrite skipn_length. lia.
Qed.

Lemma length_zero_nil (l : list A) : length l = 0 -> l = [].
Proof. destruct l; [reflexivity | discriminate]. Qed.

(* ------------------------------------------------------------------ exact chunking, as a relation *)
(* [chunks_of n R out]: out is R cut at every n rows *)
Inductive chunks_of (n : nat) : list A -> list batch -> Prop :=
| co_nil : chunks_of n [] []
| co_cons R out : R <> [] -> chunks_of n (skipn n R) out -> chunks_of n R (firstn n R :: out).

Lemma chunks_of_concat n R out : chunks_of n R out -> concat out = R.
Proof.
  induction 1 as [|R out HR Hc IH]; [reflexivity|]. cbn [concat]. rewrite IH. apply firstn_skipn.
Qed.

Lemma chunks_of_nonempty n R out : 0 < n -> chunks_of n R out -> Forall (fun c => c <> []) out.
Proof.
  intros Hn. induction 1 as [|R out HR Hc IH]; constructor; [|exact IH].
  destruct R as [|x R]; [congruence|]. destruct n; [lia|]. cbn [firstn]. discriminate.
Qed.

Lemma chunks_of_le n R out : chunks_of n R out -> Forall (fun c => length c <= n) out.
Proof.
  induction 1 as [|R out HR Hc IH]; constructor; [|exact IH]. rewrite firstn_length. lia.
Qed.

Lemma chunks_of_exact n R out : chunks_of n R out ->
  forall pre c post, out = pre ++ c :: post -> post <> [] -> length c = n.
Proof.
  induction 1 as [|R out HR Hc IH]; intros pre c post E Hp.
  - destruct pre; discriminate.
  - destruct pre as [|p pre]; cbn [app] in E; injection E as E1 E2.
    + subst c out. rewrite firstn_length.
      destruct (Nat.le_gt_cases n (length R)) as [Hle|Hgt]; [lia|].
      rewrite skipn_all2 in Hc by lia. inversion Hc; subst; congruence.
    + eapply IH; eauto.
Qed.

Lemma chunks_of_exact_chunks (n : nat) (R : list A) flat : 0 < n -> chunks_of n R flat -> exact_chunks n R flat.
Proof.
  intros Hn H. split; [exact (chunks_of_concat n R flat H)|]. split.
  - pose proof (chunks_of_nonempty n R flat Hn H) as H1. pose proof (chunks_of_le n R flat H) as H2.
    rewrite Forall_forall in *. intros c Hc. split; [apply H1 | apply H2]; exact Hc.
  - exact (chunks_of_exact n R flat H).
Qed.


(* out-of-fuel marker / values / errors of an output stream *)
Definition ovals {X} (l : list (oitem X)) : list X :=
  flat_map (fun x => match x with OVal v => [v] | _ => [] end) l.
Definition oerrs {X} (l : list (oitem X)) : nat :=
  length (filter (fun x => match x with OErr => true | _ => false end) l).
Definition no_fuel {X} (l : list (oitem X)) : Prop := ~ In OFuel l.
Fixpoint ierrs (inner : list item) : nat :=
  match inner with [] => 0 | IErr :: r => S (ierrs r) | IBatch _ :: r => ierrs r end.

Lemma ovals_cons_val {X} (v : X) l : ovals (OVal v :: l) = v :: ovals l.
Proof. reflexivity. Qed.
Lemma ovals_cons_err {X} (l : list (oitem X)) : ovals (OErr :: l) = ovals l.
Proof. reflexivity. Qed.
Lemma oerrs_cons_val {X} (v : X) l : oerrs (OVal v :: l) = oerrs l.
Proof. reflexivity. Qed.
Lemma oerrs_cons_err {X} (l : list (oitem X)) : oerrs (OErr :: l) = S (oerrs l).
Proof. reflexivity. Qed.
Lemma no_fuel_cons_val {X} (v : X) l : no_fuel l -> no_fuel (OVal v :: l).
Proof. intros H [E|E]; [discriminate | exact (H E)]. Qed.
Lemma no_fuel_cons_err {X} (l : list (oitem X)) : no_fuel l -> no_fuel (OErr :: l).
Proof. intros H [E|E]; [discriminate | exact (H E)]. Qed.
Lemma no_fuel_nil {X} : @no_fuel X [].
Proof. intros []. Qed.

Lemma ierrs_le_length (inner : list item) : ierrs inner <= length inner.
Proof. induction inner as [|[b|] r IH]; cbn [ierrs length]; lia. Qed.

(* ------------------------------------------------------------------ StrictBatchSizeStream *)
Definition res_rows (r : option batch) : batch := match r with Some b => b | None => [] end.
Definition sdata (r : option batch) (inner : list item) : list A := res_rows r ++ concat (oks inner).

Lemma strict_poll_spec (n : nat) (Hn : 0 < n) : forall (inner : list item) (res : option batch),
  exists r res' inner', strict_poll n res inner = Ok (r, res', inner') /\
    match r with
    | Some (OVal c) =>
        c = firstn n (sdata res inner) /\ sdata res inner <> [] /\
        sdata res' inner' = skipn n (sdata res inner) /\ ierrs inner' = ierrs inner /\
        length inner' <= length inner
    | Some OErr => sdata res' inner' = sdata res inner /\ S (ierrs inner') = ierrs inner /\ length inner' < length inner
    | Some OFuel => False
    | None => sdata res inner = [] /\ ierrs inner = 0 /\ res' = None /\ inner' = []
    end.
Proof.
  induction inner as [|it inner IH]; intro res.
  - (* inner exhausted *)
    cbn [strict_poll]. destruct res as [r|]; unfold num_rows.
    + destruct (n <=? length r) eqn:E.
      * apply Nat.leb_le in E. rewrite slice_ok by lia. cbn [obind skipn]. rewrite slice_tail by lia. cbn [obind].
        eexists _, _, _. split; [reflexivity|]. unfold sdata; cbn [res_rows oks concat]. rewrite !app_nil_r.
        repeat split; try lia. destruct r; [cbn in E; lia | discriminate].
      * apply Nat.leb_gt in E. destruct (0 <? length r) eqn:E0.
        -- eexists _, _, _. split; [reflexivity|]. unfold sdata; cbn [res_rows oks concat]. rewrite !app_nil_r.
           apply Nat.ltb_lt in E0.
           repeat split; try lia.
           ++ symmetry; apply firstn_all2; lia.
           ++ destruct r; [cbn in E0; lia | discriminate].
           ++ symmetry; apply skipn_all2; lia.
        -- apply Nat.ltb_ge in E0. eexists _, _, _. split; [reflexivity|]. unfold sdata; cbn [res_rows oks concat].
           rewrite app_nil_r. repeat split. apply length_zero_nil; lia.
    + eexists _, _, _. split; [reflexivity|]. repeat split.
  - cbn [strict_poll].
    destruct res as [r|]; unfold num_rows.
    + destruct (n <=? length r) eqn:E.
      * apply Nat.leb_le in E. rewrite slice_ok by lia. cbn [obind skipn]. rewrite slice_tail by lia. cbn [obind].
        eexists _, _, _. split; [reflexivity|]. unfold sdata; cbn [res_rows].
        repeat split; try lia.
        -- symmetry; apply firstn_app_le; lia.
        -- destruct r; [cbn in E; lia | discriminate].
        -- symmetry; apply skipn_app_le; lia.
      * apply Nat.leb_gt in E. destruct it as [b|].
        -- destruct (n <=? length (r ++ b)) eqn:E2.
           ++ apply Nat.leb_le in E2. rewrite slice_ok by lia. cbn [obind skipn]. rewrite slice_tail by lia. cbn [obind].
              eexists _, _, _. split; [reflexivity|]. unfold sdata; cbn [res_rows oks concat].
              rewrite app_assoc.
              repeat split; try (cbn [length ierrs]; lia).
              ** symmetry; apply firstn_app_le; lia.
              ** destruct (r ++ b); [cbn in E2; lia | discriminate].
              ** rewrite (skipn_app_le n (r ++ b)) by lia.
                 destruct (0 <? length (skipn n (r ++ b))) eqn:E3; cbn [res_rows]; [reflexivity|].
                 apply Nat.ltb_ge in E3. rewrite (length_zero_nil (skipn n (r ++ b))) by lia. reflexivity.
           ++ destruct (IH (Some (r ++ b))) as (q & res' & inner' & Hq & Hs).
              exists q, res', inner'. split; [exact Hq|].
              assert (Hd : sdata (Some (r ++ b)) inner = sdata (Some r) (IBatch b :: inner)).
              { unfold sdata; cbn [res_rows oks concat]. rewrite app_assoc. reflexivity. }
              rewrite Hd in Hs. destruct q as [[c| |]|]; cbn [ierrs length]; intuition lia.
        -- eexists _, _, _. split; [reflexivity|]. unfold sdata; cbn [res_rows oks ierrs length]. repeat split; lia.
    + destruct it as [b|].
      * destruct (n <=? length b) eqn:E2.
        -- apply Nat.leb_le in E2. rewrite slice_ok by lia. cbn [obind skipn]. rewrite slice_tail by lia. cbn [obind].
           eexists _, _, _. split; [reflexivity|]. unfold sdata; cbn [res_rows oks concat app].
           repeat split; try (cbn [length ierrs]; lia).
           ++ symmetry; apply firstn_app_le; lia.
           ++ destruct b; [cbn in E2; lia | discriminate].
           ++ rewrite skipn_app_le by lia.
              destruct (0 <? length (skipn n b)) eqn:E3; cbn [res_rows]; [reflexivity|].
              apply Nat.ltb_ge in E3. rewrite (length_zero_nil (skipn n b)) by lia. reflexivity.
        -- destruct (IH (Some b)) as (q & res' & inner' & Hq & Hs).
           exists q, res', inner'. split; [exact Hq|].
           assert (Hd : sdata (Some b) inner = sdata None (IBatch b :: inner)) by reflexivity.
           rewrite Hd in Hs. destruct q as [[c| |]|]; cbn [ierrs length]; intuition lia.
      * eexists _, _, _. split; [reflexivity|]. unfold sdata; cbn [res_rows oks ierrs length]. repeat split; lia.
Qed.

Lemma strict_unfold_spec (n : nat) (Hn : 0 < n) : forall fuel res inner,
  length (sdata res inner) + length inner + 2 <= fuel ->
  exists out, strict_unfold fuel n res inner = Ok out /\ no_fuel out /\
    chunks_of n (sdata res inner) (ovals out) /\ oerrs out = ierrs inner.
Proof.
  induction fuel as [|fuel IH]; intros res inner Hf; [lia|].
  cbn [strict_unfold].
  destruct (strict_poll_spec n Hn inner res) as (r & res' & inner' & Hp & Hs). rewrite Hp. cbn [obind].
  destruct r as [[c| |]|].
  - destruct Hs as (Hc & Hne & Hd & He & Hl).
    assert (Hlen : length (sdata res' inner') < length (sdata res inner)).
    { rewrite Hd, skipn_length. destruct (sdata res inner); [congruence|]. cbn [length]. lia. }
    destruct (IH res' inner') as (out & Ho & Hnf & Hch & Her); [lia|].
    rewrite Ho. cbn [omap]. eexists. split; [reflexivity|]. split; [apply no_fuel_cons_val; exact Hnf|].
    split.
    + rewrite ovals_cons_val, Hc. constructor; [exact Hne|]. rewrite <- Hd. exact Hch.
    + rewrite oerrs_cons_val. lia.
  - destruct Hs as (Hd & He & Hl).
    destruct (IH res' inner') as (out & Ho & Hnf & Hch & Her); [rewrite Hd; lia|].
    rewrite Ho. cbn [omap]. eexists. split; [reflexivity|]. split; [apply no_fuel_cons_err; exact Hnf|].
    split.
    + rewrite ovals_cons_err, <- Hd. exact Hch.
    + rewrite oerrs_cons_err. lia.
  - destruct Hs.
  - destruct Hs as (Hd & He & _ & _). eexists. split; [reflexivity|]. split; [apply no_fuel_nil|].
    split; [rewrite Hd; constructor | cbn; lia].
Qed.

Theorem strict_stream_correct (n : nat) (inner : list item) : 0 < n ->
  exists out, strict_stream n inner = Ok out /\ no_fuel out /\
    chunks_of n (concat (oks inner)) (ovals out) /\ oerrs out = ierrs inner.
Proof.
  intro Hn. unfold strict_stream.
  destruct (strict_unfold_spec n Hn (rows_of (oks inner) + length inner + 2) None inner) as (out & H).
  - unfold sdata; cbn [res_rows app]. rewrite rows_of_concat. lia.
  - exists out. exact H.
Qed.

(* ------------------------------------------------------------------ BatchReaderChunker *)
(* the offset [i] points into the first buffered batch *)
Definition ck_wf (buffered : list batch) (i : nat) : Prop :=
  i = 0 \/ exists b rest, buffered = b :: rest /\ i < length b.

(* rows still to be delivered from the buffer *)
Definition bdata (buffered : list batch) (i : nat) : list A := skipn i (concat buffered).

Lemma ck_wf_le buffered i : ck_wf buffered i -> i <= rows_of buffered.
Proof.
  intros [->|(b & rest & -> & H)]; [lia|]. rewrite rows_of_cons. lia.
Qed.

Lemma bdata_length buffered i : length (bdata buffered i) = rows_of buffered - i.
Proof. unfold bdata. rewrite skipn_length, rows_of_concat. reflexivity. Qed.

Lemma ck_wf_snoc buffered i b : ck_wf buffered i -> ck_wf (buffered ++ [b]) i.
Proof.
  intros [->|(b0 & rest & -> & H)]; [left; reflexivity|]. right. exists b0, (rest ++ [b]). split; [reflexivity | exact H].
Qed.

Lemma bdata_snoc buffered i b : ck_wf buffered i -> bdata (buffered ++ [b]) i = bdata buffered i ++ b.
Proof.
  intro H. unfold bdata. rewrite concat_app. cbn [concat]. rewrite app_nil_r.
  apply skipn_app_le. rewrite <- rows_of_concat. apply ck_wf_le; exact H.
Qed.

Lemma fill_buffer_spec (n : nat) : forall (inner : list item) buffered i, ck_wf buffered i ->
  exists fr inner' buffered', fill_buffer n inner buffered i = Ok (fr, inner', buffered') /\
    ck_wf buffered' i /\
    bdata buffered' i ++ concat (oks inner') = bdata buffered i ++ concat (oks inner) /\
    length inner' <= length inner /\
    match fr with
    | FillOk => ierrs inner' = ierrs inner /\ (n <= length (bdata buffered' i) \/ inner' = [])
    | FillErr => S (ierrs inner') = ierrs inner /\ length inner' < length inner
    end.
Proof.
  induction inner as [|it inner IH]; intros buffered i Hwf.
  - cbn [fill_buffer]. unfold buffered_len.
    pose proof (ck_wf_le _ _ Hwf) as Hle.
    destruct (rows_of buffered <? i) eqn:E; [apply Nat.ltb_lt in E; lia|].
    destruct (rows_of buffered - i <? n) eqn:E2.
    + eexists _, _, _. split; [reflexivity|]. repeat split; auto.
    + apply Nat.ltb_ge in E2. eexists _, _, _. split; [reflexivity|]. repeat split; auto.
  - cbn [fill_buffer]. unfold buffered_len.
    pose proof (ck_wf_le _ _ Hwf) as Hle.
    destruct (rows_of buffered <? i) eqn:E; [apply Nat.ltb_lt in E; lia|].
    destruct (rows_of buffered - i <? n) eqn:E2.
    + destruct it as [b|].
      * destruct (IH (buffered ++ [b]) i (ck_wf_snoc _ _ b Hwf)) as (fr & inner' & buffered' & Hf & Hwf' & Hd & Hl & Hr).
        exists fr, inner', buffered'. split; [exact Hf|]. split; [exact Hwf'|].
        split; [rewrite Hd, bdata_snoc by exact Hwf; cbn [oks concat]; rewrite app_assoc; reflexivity|].
        split; [cbn [length]; lia|].
        destruct fr; cbn [ierrs length]; intuition lia.
      * eexists _, _, _. split; [reflexivity|]. split; [exact Hwf|]. cbn [oks ierrs length]. repeat split; lia.
    + apply Nat.ltb_ge in E2. eexists _, _, _. split; [reflexivity|]. split; [exact Hwf|].
      repeat split; auto. left. rewrite bdata_length. exact E2.
Qed.

Lemma collect_spec (n : nat) : forall buffered i collected acc, ck_wf buffered i -> collected <= n ->
  exists pieces buffered' i', collect n buffered i collected acc = Ok (acc ++ pieces, buffered', i') /\
    ck_wf buffered' i' /\
    concat pieces = firstn (n - collected) (bdata buffered i) /\
    bdata buffered' i' = skipn (n - collected) (bdata buffered i) /\
    Forall (fun p => p <> []) pieces.
Proof.
  induction buffered as [|b rest IH]; intros i collected acc Hwf Hc.
  - cbn [collect]. exists [], [], i. rewrite app_nil_r.
    split; [destruct (collected <? n); reflexivity|]. split; [exact Hwf|].
    unfold bdata; cbn [concat]. rewrite skipn_nil, firstn_nil, skipn_nil. repeat split. constructor.
  - cbn [collect]. destruct (collected <? n) eqn:E.
    2:{ apply Nat.ltb_ge in E. exists [], (b :: rest), i. rewrite app_nil_r. split; [reflexivity|].
        split; [exact Hwf|]. replace (n - collected) with 0 by lia. cbn [firstn skipn]. repeat split. constructor. }
    apply Nat.ltb_lt in E. unfold num_rows.
    destruct (length b =? 0) eqn:E0.
    + apply Nat.eqb_eq in E0. apply length_zero_nil in E0. subst b.
      assert (Hi : i = 0). { destruct Hwf as [->|(b0 & r0 & Eq & Hlt)]; [reflexivity|]. injection Eq as <- _. cbn in Hlt. lia. }
      subst i. destruct (IH 0 collected acc (or_introl eq_refl) Hc) as (pieces & buffered' & i' & Hcol & Hwf' & Hp & Hd & Hne).
      exists pieces, buffered', i'. split; [exact Hcol|]. split; [exact Hwf'|].
      unfold bdata in *. cbn [concat app]. auto.
    + apply Nat.eqb_neq in E0.
      assert (Hi : i < length b).
      { destruct Hwf as [->|(b0 & r0 & Eq & Hlt)]; [lia|]. injection Eq as <- _. exact Hlt. }
      destruct (length b <? i) eqn:E1; [apply Nat.ltb_lt in E1; lia|].
      assert (Hbd : bdata (b :: rest) i = skipn i b ++ concat rest).
      { unfold bdata. cbn [concat]. apply skipn_app_le. lia. }
      assert (Hsl : length (skipn i b) = length b - i) by apply skipn_length.
      destruct (Nat.min (length b - i) (n - collected) =? length b - i) eqn:E2.
      * apply Nat.eqb_eq in E2.
        match goal with |- context [obind ?x _] => replace x with (@Ok batch (skipn i b)) end.
        2:{ destruct (i =? 0) eqn:Ei; [apply Nat.eqb_eq in Ei; subst i; reflexivity|].
            rewrite slice_ok by lia. f_equal. symmetry. apply firstn_all2. lia. }
        cbn [obind].
        destruct (IH 0 (collected + Nat.min (length b - i) (n - collected)) (acc ++ [skipn i b]) (or_introl eq_refl))
          as (pieces & buffered' & i' & Hcol & Hwf' & Hp & Hd & Hne); [lia|].
        exists (skipn i b :: pieces), buffered', i'.
        split; [etransitivity; [exact Hcol|]; rewrite <- app_assoc; reflexivity|]. split; [exact Hwf'|].
        rewrite Hbd. change (bdata rest 0) with (concat rest) in Hp, Hd.
        split; [|split].
        -- cbn [concat]. rewrite Hp, firstn_app_ge by lia. do 2 f_equal. lia.
        -- rewrite Hd, skipn_app_ge by lia. f_equal. lia.
        -- constructor; [|exact Hne]. intro Hnil. rewrite Hnil in Hsl. cbn in Hsl. lia.
      * apply Nat.eqb_neq in E2.
        assert (Htake : Nat.min (length b - i) (n - collected) = n - collected) by lia.
        rewrite Htake. rewrite slice_ok by lia. cbn [obind].
        destruct (collected + (n - collected) <? n) eqn:E3; [apply Nat.ltb_lt in E3; lia|].
        exists [firstn (n - collected) (skipn i b)], (b :: rest), (i + (n - collected)).
        split; [reflexivity|].
        split; [right; exists b, rest; split; [reflexivity | lia]|].
        rewrite Hbd. split; [|split].
        -- cbn [concat]. rewrite app_nil_r. symmetry. apply firstn_app_le. lia.
        -- unfold bdata. cbn [concat]. rewrite <- (skipn_app_le i b (concat rest)) by lia.
           rewrite skipn_add. reflexivity.
        -- constructor; [|constructor]. intro Hnil.
           assert (Hl : length (firstn (n - collected) (skipn i b)) = n - collected) by (rewrite firstn_length; lia).
           rewrite Hnil in Hl. cbn in Hl. lia.
Qed.

Definition ck_data (st : chunker A) : list A :=
  bdata (ck_buffered st) (ck_i st) ++ concat (oks (ck_inner st)).
Definition ck_ok (st : chunker A) : Prop := ck_wf (ck_buffered st) (ck_i st).

Lemma concat_nil_nonempty (ps : list batch) : Forall (fun p => p <> []) ps -> concat ps = [] -> ps = [].
Proof.
  intros HF Hc. destruct ps as [|p ps]; [reflexivity|]. inversion HF; subst.
  cbn [concat] in Hc. apply app_eq_nil in Hc. tauto.
Qed.

Lemma chunker_next_spec (n : nat) (Hn : 0 < n) (st : chunker A) : ck_ok st ->
  exists r st', chunker_next n st = Ok (r, st') /\ ck_ok st' /\
    match r with
    | NextChunk c =>
        ck_data st <> [] /\ concat c = firstn n (ck_data st) /\ Forall (fun p => p <> []) c /\
        ck_data st' = skipn n (ck_data st) /\ ierrs (ck_inner st') = ierrs (ck_inner st)
    | NextErr => ck_data st' = ck_data st /\ S (ierrs (ck_inner st')) = ierrs (ck_inner st)
    | NextNone => ck_data st = [] /\ ierrs (ck_inner st) = 0
    end.
Proof.
  intro Hok. unfold chunker_next.
  destruct (fill_buffer_spec n (ck_inner st) (ck_buffered st) (ck_i st) Hok)
    as (fr & inner' & buffered' & Hf & Hwf' & Hd & Hl & Hr).
  rewrite Hf. cbn [obind]. destruct fr.
  - destruct Hr as (He & Hfull).
    destruct (collect_spec n buffered' (ck_i st) 0 [] Hwf' (Nat.le_0_l n)) as (pieces & b2 & i2 & Hcol & Hwf2 & Hp & Hd2 & Hne).
    rewrite Hcol. cbn [obind app]. rewrite Nat.sub_0_r in Hp, Hd2.
    assert (Hfirst : concat pieces = firstn n (ck_data st)).
    { unfold ck_data. rewrite <- Hd, Hp. destruct Hfull as [Hge| ->].
      - symmetry. apply firstn_app_le. exact Hge.
      - cbn [oks concat]. rewrite app_nil_r. reflexivity. }
    assert (Hrest : bdata b2 i2 ++ concat (oks inner') = skipn n (ck_data st)).
    { unfold ck_data. rewrite <- Hd, Hd2. destruct Hfull as [Hge| ->].
      - symmetry. apply skipn_app_le. exact Hge.
      - cbn [oks concat]. rewrite !app_nil_r. reflexivity. }
    destruct pieces as [|p ps].
    + eexists _, _. split; [reflexivity|]. split; [exact Hwf2|].
      cbn [concat] in Hfirst. symmetry in Hfirst.
      assert (Hnil : ck_data st = []).
      { destruct (ck_data st) as [|x l]; [reflexivity|]. destruct n; [lia|]. discriminate. }
      split; [exact Hnil|]. rewrite <- He.
      unfold ck_data in Hnil. rewrite <- Hd in Hnil. apply app_eq_nil in Hnil as [Hb Hi'].
      destruct Hfull as [Hge| ->]; [rewrite Hb in Hge; cbn in Hge; lia | reflexivity].
    + eexists _, _. split; [reflexivity|]. split; [exact Hwf2|].
      split; [|split; [exact Hfirst | split; [exact Hne | split; [exact Hrest | exact He]]]].
      intro Hnil. rewrite Hnil, firstn_nil in Hfirst. inversion Hne as [|? ? Hp0 _]; subst.
      cbn [concat] in Hfirst. apply app_eq_nil in Hfirst. tauto.
  - destruct Hr as (He & Hlt). eexists _, _. split; [reflexivity|]. split; [exact Hwf'|].
    split; [exact Hd | exact He].
Qed.

Lemma chunk_unfold_spec (n : nat) (Hn : 0 < n) : forall fuel (st : chunker A), ck_ok st ->
  length (ck_data st) + ierrs (ck_inner st) + 1 <= fuel ->
  exists out, chunk_unfold fuel n st = Ok out /\ no_fuel out /\
    chunks_of n (ck_data st) (map (@concat A) (ovals out)) /\
    Forall (Forall (fun p => p <> [])) (ovals out) /\
    oerrs out = ierrs (ck_inner st).
Proof.
  induction fuel as [|fuel IH]; intros st Hok Hf; [lia|].
  cbn [chunk_unfold].
  destruct (chunker_next_spec n Hn st Hok) as (r & st' & Hnx & Hok' & Hs). rewrite Hnx. cbn [obind].
  destruct r as [|c|].
  - destruct Hs as (Hd & He). eexists. split; [reflexivity|]. split; [apply no_fuel_nil|].
    rewrite Hd. cbn. repeat split; [constructor | constructor | lia].
  - destruct Hs as (Hne & Hc & HF & Hd & He).
    assert (Hlen : length (ck_data st') < length (ck_data st)).
    { rewrite Hd, skipn_length. destruct (ck_data st); [congruence|]. cbn [length]. lia. }
    destruct (IH st' Hok') as (out & Ho & Hnf & Hch & HFF & Her); [lia|].
    rewrite Ho. cbn [omap]. eexists. split; [reflexivity|]. split; [apply no_fuel_cons_val; exact Hnf|].
    rewrite ovals_cons_val, oerrs_cons_val. cbn [map]. split; [|split; [constructor; assumption | lia]].
    rewrite Hc. constructor; [exact Hne|]. rewrite <- Hd. exact Hch.
  - destruct Hs as (Hd & He).
    destruct (IH st' Hok') as (out & Ho & Hnf & Hch & HFF & Her); [rewrite Hd; lia|].
    rewrite Ho. cbn [omap]. eexists. split; [reflexivity|]. split; [apply no_fuel_cons_err; exact Hnf|].
    rewrite ovals_cons_err, oerrs_cons_err. split; [rewrite <- Hd; exact Hch | split; [exact HFF | lia]].
Qed.

Theorem chunk_stream_correct (n : nat) (inner : list item) : 0 < n ->
  exists out, chunk_stream n inner = Ok out /\ no_fuel out /\
    chunks_of n (concat (oks inner)) (map (@concat A) (ovals out)) /\
    Forall (Forall (fun p => p <> [])) (ovals out) /\
    oerrs out = ierrs inner.
Proof.
  intro Hn. unfold chunk_stream.
  destruct (chunk_unfold_spec n Hn (chunk_fuel inner) {| ck_inner := inner; ck_buffered := []; ck_i := 0 |}) as (out & H).
  - left; reflexivity.
  - unfold ck_data, bdata, chunk_fuel; cbn [ck_inner ck_buffered ck_i concat skipn app].
    rewrite rows_of_concat. pose proof (ierrs_le_length inner). lia.
  - exists out. exact H.
Qed.

Lemma ovals_map_concat_item (l : list (oitem (list batch))) :
  ovals (map concat_item l) = map (@concat A) (ovals l).
Proof.
  induction l as [|[c| |] l IH]; cbn [map concat_item]; [reflexivity | | exact IH | exact IH].
  rewrite !ovals_cons_val. cbn [map]. f_equal. exact IH.
Qed.

Lemma oerrs_map_concat_item (l : list (oitem (list batch))) : oerrs (map concat_item l) = oerrs l.
Proof.
  induction l as [|[c| |] l IH]; cbn [map concat_item]; [reflexivity | | | exact IH].
  - rewrite !oerrs_cons_val. exact IH.
  - rewrite !oerrs_cons_err. f_equal. exact IH.
Qed.

Lemma no_fuel_map_concat_item (l : list (oitem (list batch))) : no_fuel l -> no_fuel (map concat_item l).
Proof.
  unfold no_fuel. intros H Hin. apply in_map_iff in Hin as (x & Hx & Hin). destruct x; try discriminate. exact (H Hin).
Qed.

Theorem chunk_concat_stream_correct (n : nat) (inner : list item) : 0 < n ->
  exists out, chunk_concat_stream n inner = Ok out /\ no_fuel out /\
    chunks_of n (concat (oks inner)) (ovals out) /\ oerrs out = ierrs inner.
Proof.
  intro Hn. unfold chunk_concat_stream.
  destruct (chunk_stream_correct n inner Hn) as (out & Ho & Hnf & Hch & _ & He). rewrite Ho. cbn [omap].
  eexists. split; [reflexivity|]. split; [apply no_fuel_map_concat_item; exact Hnf|].
  rewrite ovals_map_concat_item, oerrs_map_concat_item. split; assumption.
Qed.

(* ------------------------------------------------------------------ break_stream *)
Lemma ovals_app {X} (l1 l2 : list (oitem X)) : ovals (l1 ++ l2) = ovals l1 ++ ovals l2.
Proof. unfold ovals. apply flat_map_app. Qed.
Lemma ovals_map_OVal {X} (l : list X) : ovals (map OVal l) = l.
Proof. induction l as [|x l IH]; [reflexivity|]. cbn [map]. rewrite ovals_cons_val, IH. reflexivity. Qed.
Lemma oerrs_app {X} (l1 l2 : list (oitem X)) : oerrs (l1 ++ l2) = oerrs l1 + oerrs l2.
Proof. unfold oerrs. rewrite filter_app, app_length. reflexivity. Qed.
Lemma oerrs_map_OVal {X} (l : list X) : oerrs (map OVal l) = 0.
Proof. induction l as [|x l IH]; [reflexivity|]. cbn [map]. rewrite oerrs_cons_val. exact IH. Qed.
Lemma no_fuel_app {X} (l1 l2 : list (oitem X)) : no_fuel l1 -> no_fuel l2 -> no_fuel (l1 ++ l2).
Proof. unfold no_fuel. intros H1 H2 Hin. apply in_app_or in Hin. tauto. Qed.
Lemma no_fuel_map_OVal {X} (l : list X) : no_fuel (map OVal l).
Proof. unfold no_fuel. intro Hin. apply in_map_iff in Hin as (x & Hx & _). discriminate. Qed.

(* the pieces cut from ONE input batch whose first row has absolute offset [off]:
   none empty, none crosses a multiple of [max], and every piece but the last ends on a multiple *)
Fixpoint pieces_ok (max off : nat) (ps : list batch) : Prop :=
  match ps with
  | [] => True
  | p :: rest => p <> [] /\ off mod max + length p <= max /\
                 (rest <> [] -> (off + length p) mod max = 0) /\
                 pieces_ok max (off + length p) rest
  end.

Fixpoint groups_ok (max off : nat) (gs : list (list batch)) : Prop :=
  match gs with
  | [] => True
  | g :: rest => pieces_ok max off g /\ groups_ok max (off + length (concat g)) rest
  end.

Lemma mod_complete (max off : nat) : 0 < max -> (off + (max - off mod max)) mod max = 0.
Proof.
  intro H. pose proof (Nat.mod_upper_bound off max ltac:(lia)) as Hb.
  rewrite (Nat.div_mod off max) at 1 by lia.
  replace (max * (off / max) + off mod max + (max - off mod max)) with ((off / max + 1) * max) by lia.
  apply Nat.mod_mul. lia.
Qed.

Lemma bs_unfold_spec (max : nat) (Hmax : 0 < max) : forall fuel (b : batch) (off : nat),
  length b + 2 <= fuel ->
  exists ps, bs_unfold fuel {| bs_max := max; bs_seen := off mod max; bs_remaining := length b; bs_batch := Some b |}
             = Ok (map OVal ps) /\ concat ps = b /\ pieces_ok max off ps.
Proof.
  induction fuel as [|fuel IH]; intros b off Hf; [lia|].
  cbn [bs_unfold]. unfold bs_next. cbn [bs_max bs_seen bs_remaining bs_batch].
  pose proof (Nat.mod_upper_bound off max ltac:(lia)) as Hb.
  destruct (length b =? 0) eqn:E0.
  - apply Nat.eqb_eq in E0. apply length_zero_nil in E0. subst b. exists []. cbn. auto.
  - apply Nat.eqb_neq in E0.
    destruct (length b + off mod max <=? max) eqn:E1.
    + apply Nat.leb_le in E1. destruct (max =? 0) eqn:Em; [apply Nat.eqb_eq in Em; lia|].
      cbn [obind]. destruct fuel as [|fuel]; [lia|]. cbn [bs_unfold]. unfold bs_next. cbn [bs_remaining Nat.eqb obind omap].
      exists [b]. cbn [map concat]. rewrite app_nil_r. split; [reflexivity|]. split; [reflexivity|].
      cbn [pieces_ok]. repeat split; try lia; [intro Hn; subst b; cbn in E0; lia | congruence].
    + apply Nat.leb_gt in E1.
      destruct (max <? off mod max) eqn:E2; [apply Nat.ltb_lt in E2; lia|].
      destruct (length b <? max - off mod max) eqn:E3; [apply Nat.ltb_lt in E3; lia|].
      rewrite slice_ok by (cbn [Nat.add]; lia). cbn [obind skipn]. unfold num_rows.
      destruct (length b <? max - off mod max) eqn:E4; [discriminate|].
      rewrite slice_tail by lia. cbn [obind].
      set (emit := max - off mod max) in *.
      destruct (IH (skipn emit b) (off + emit)) as (ps & Hu & Hc & Hp).
      { rewrite skipn_length. lia. }
      assert (Hz : (off + emit) mod max = 0) by (apply mod_complete; lia).
      rewrite Hz, skipn_length in Hu. rewrite Hu. cbn [omap].
      exists (firstn emit b :: ps). cbn [map concat]. split; [reflexivity|]. split; [rewrite Hc; apply firstn_skipn|].
      assert (Hl : length (firstn emit b) = emit) by (rewrite firstn_length; lia).
      cbn [pieces_ok]. rewrite Hl. repeat split; try lia; [|exact Hp].
      intro Hn. rewrite Hn in Hl. cbn in Hl. lia.
Qed.

Lemma break_loop_spec (max : nat) (Hmax : 0 < max) : forall (inner : list item) (off : nat),
  exists out groups, break_loop max (off mod max) inner = Ok out /\ no_fuel out /\
    oerrs out = ierrs inner /\ ovals out = concat groups /\
    Forall2 (fun g b => concat g = b) groups (oks inner) /\ groups_ok max off groups.
Proof.
  induction inner as [|[b|] inner IH]; intro off.
  - exists [], []. cbn. repeat split; [apply no_fuel_nil | constructor].
  - cbn [break_loop]. destruct (max =? 0) eqn:Em; [apply Nat.eqb_eq in Em; lia|].
    unfold num_rows.
    destruct (bs_unfold_spec max Hmax (length b + 2) b off (Nat.le_refl _)) as (ps & Hu & Hc & Hp).
    rewrite Hu. cbn [obind].
    rewrite Nat.add_mod_idemp_l by lia.
    destruct (IH (off + length b)) as (out & groups & Ho & Hnf & He & Hv & HF & Hg).
    rewrite Ho. cbn [omap].
    exists (map OVal ps ++ out), (ps :: groups).
    split; [reflexivity|]. split; [apply no_fuel_app; [apply no_fuel_map_OVal | exact Hnf]|].
    split; [rewrite oerrs_app, oerrs_map_OVal; cbn [ierrs]; lia|].
    split; [rewrite ovals_app, ovals_map_OVal, Hv; reflexivity|].
    split; [cbn [oks]; constructor; assumption|].
    cbn [groups_ok]. rewrite Hc. split; assumption.
  - cbn [break_loop]. destruct (IH off) as (out & groups & Ho & Hnf & He & Hv & HF & Hg).
    rewrite Ho. cbn [omap]. exists (OErr :: out), groups.
    split; [reflexivity|]. split; [apply no_fuel_cons_err; exact Hnf|].
    rewrite oerrs_cons_err, ovals_cons_err. cbn [ierrs oks]. repeat split; auto.
Qed.

Theorem break_stream_correct (max : nat) (inner : list item) : 0 < max ->
  exists out groups, break_stream max inner = Ok out /\ no_fuel out /\
    oerrs out = ierrs inner /\ ovals out = concat groups /\
    Forall2 (fun g b => concat g = b) groups (oks inner) /\ groups_ok max 0 groups.
Proof.
  intro Hmax. unfold break_stream.
  destruct (break_loop_spec max Hmax inner 0) as (out & groups & H).
  rewrite Nat.mod_0_l in H by lia. exists out, groups. exact H.
Qed.

Lemma break_stream_zero_panics (b : batch) (inner : list item) :
  break_stream 0 (IBatch b :: inner) = Panic.
Proof. reflexivity. Qed.

(* ---- consequences in terms of the flat output *)
Fixpoint flat_ok (max off : nat) (ps : list batch) : Prop :=
  match ps with
  | [] => True
  | p :: r => p <> [] /\ off mod max + length p <= max /\ flat_ok max (off + length p) r
  end.

Lemma pieces_flat max : forall g off rest,
  pieces_ok max off g -> flat_ok max (off + length (concat g)) rest -> flat_ok max off (g ++ rest).
Proof.
  induction g as [|p g IH]; intros off rest Hp Hr.
  - cbn [concat length app] in *. rewrite Nat.add_0_r in Hr. exact Hr.
  - cbn [pieces_ok] in Hp. destruct Hp as (Hne & Hw & _ & Hp). cbn [app flat_ok]. split; [exact Hne|]. split; [exact Hw|].
    apply IH; [exact Hp|]. cbn [concat] in Hr. rewrite app_length in Hr. rewrite <- Nat.add_assoc. exact Hr.
Qed.

Lemma groups_flat max : forall gs off, groups_ok max off gs -> flat_ok max off (concat gs).
Proof.
  induction gs as [|g gs IH]; intros off H; [exact I|].
  cbn [groups_ok] in H. destruct H as (Hp & Hg). cbn [concat]. apply pieces_flat; [exact Hp | apply IH; exact Hg].
Qed.

Lemma flat_ok_split max : forall pre off p post,
  flat_ok max off (pre ++ p :: post) -> p <> [] /\ (off + length (concat pre)) mod max + length p <= max.
Proof.
  induction pre as [|q pre IH]; intros off p post H.
  - cbn [app flat_ok concat length] in *. rewrite Nat.add_0_r. tauto.
  - cbn [app flat_ok] in H. destruct H as (_ & _ & H). apply IH in H.
    cbn [concat]. rewrite app_length, Nat.add_assoc. exact H.
Qed.

(* every multiple of max up to the total is a boundary between two output batches *)
Lemma flat_ok_boundary max (Hmax : 0 < max) : forall ps off t,
  flat_ok max off ps -> t mod max = 0 -> off <= t <= off + length (concat ps) ->
  exists pre post, ps = pre ++ post /\ off + length (concat pre) = t.
Proof.
  induction ps as [|p r IH]; intros off t H Ht Hr.
  - cbn [concat length] in Hr. exists [], []. split; [reflexivity|]. cbn. lia.
  - destruct (Nat.eq_dec t off) as [->|Hne].
    + exists [], (p :: r). split; [reflexivity|]. cbn. lia.
    + cbn [flat_ok] in H. destruct H as (Hp & Hw & H).
      cbn [concat] in Hr. rewrite app_length in Hr.
      assert (Hge : off + length p <= t).
      { apply Nat.mod_divides in Ht; [|lia]. destruct Ht as (q & ->).
        pose proof (Nat.div_mod off max ltac:(lia)) as Hdm.
        pose proof (Nat.mod_upper_bound off max ltac:(lia)) as Hb.
        assert (Hq : off / max < q).
        { apply Nat.lt_nge. intro Hle.
          assert (max * q <= max * (off / max)) by (apply Nat.mul_le_mono_l; exact Hle). lia. }
        assert (max * (off / max + 1) <= max * q) by (apply Nat.mul_le_mono_l; lia). lia. }
      destruct (IH (off + length p) t H Ht) as (pre & post & -> & Hl); [lia|].
      exists (p :: pre), post. split; [reflexivity|]. cbn [concat]. rewrite app_length. lia.
Qed.

Lemma Forall2_concat_map (gs : list (list batch)) (bs : list batch) :
  Forall2 (fun g b => concat g = b) gs bs -> concat (concat gs) = concat bs.
Proof.
  induction 1 as [|g b gs bs Hg HF IH]; [reflexivity|]. cbn [concat]. rewrite concat_app, IH, Hg. reflexivity.
Qed.

Theorem break_stream_flat (max : nat) (inner : list item) : 0 < max ->
  exists out, break_stream max inner = Ok out /\ no_fuel out /\ oerrs out = ierrs inner /\
    concat (ovals out) = concat (oks inner) /\
    (forall pre p post, ovals out = pre ++ p :: post ->
       p <> [] /\ length (concat pre) mod max + length p <= max) /\
    (forall k, k * max <= length (concat (ovals out)) ->
       exists pre post, ovals out = pre ++ post /\ length (concat pre) = k * max).
Proof.
  intro Hmax. destruct (break_stream_correct max inner Hmax) as (out & groups & Ho & Hnf & He & Hv & HF & Hg).
  exists out. split; [exact Ho|]. split; [exact Hnf|]. split; [exact He|].
  pose proof (groups_flat max groups 0 Hg) as Hfl. rewrite <- Hv in Hfl.
  split; [rewrite Hv; apply Forall2_concat_map; exact HF|]. split.
  - intros pre p post E. rewrite E in Hfl. apply flat_ok_split in Hfl. exact Hfl.
  - intros k Hk. destruct (flat_ok_boundary max Hmax (ovals out) 0 (k * max) Hfl) as (pre & post & E & Hl).
    + apply Nat.mod_mul. lia.
    + lia.
    + exists pre, post. split; [exact E | exact Hl].
Qed.

End ChunkerProofs.
