(* Model of rust/lance-io/src/object_writer.rs (ObjectWriter: poll_tasks / poll_write / poll_flush /
   poll_shutdown / abort / Drop) together with the object-store side it talks to (put, put_multipart,
   MultipartUpload::{put_part, complete, abort}).  Executable definitions only.

   The writer is a poll-driven state machine; every future it holds (create upload, put_part, single
   put, complete) is resolved by an explicit environment event, so a trace (list of events) fixes one
   schedule: which poll happens when, which part upload finishes when and how (ok / error /
   "connection reset by peer"), whether create / put / complete succeed.

   Byte strings are abstract (record [bstr]): the writer only measures, appends and takes prefixes.
   Instance [bs_list A] (lists) is the one the theorems are about; instance [bs_len] (lengths only) is
   the one the correspondence evaluates, because the real buffers are >= 5 MiB.

   Store semantics (hypothesis of the property, see Props/C31.v): put and complete take effect
   atomically at their completion event; the position of a part in the assembled object is fixed by
   the ORDER OF put_part CALLS (object_store's contract "upload the next part"; true of InMemory,
   LocalFileSystem, S3/GCS/Azure part numbering and the OpenDAL adapter); a part whose upload failed
   is not part of the object. *)
From LanceV Require Import Common.Base.
Local Open Scope N_scope.

(* ------------------------------------------------------------------------------------------ *)
(* 1. Configuration and the buffer-capacity rule                                              *)
(* ------------------------------------------------------------------------------------------ *)

(* initial_upload_size(), INITIAL_UPLOAD_STEP, max_upload_parallelism(), max_conn_reset_retries(),
   ObjectStore::use_constant_size_upload_parts *)
Record cfg := { c_init : N; c_step : N; c_maxpar : N; c_maxretry : N; c_const : bool }.

(* next_part_buffer: capacity of the buffer that replaces the one cut as part [part_idx] *)
Definition new_capacity (c : cfg) (part_idx : N) : N :=
  if c_const c then c_init c
  else N.max (c_init c) ((part_idx / 100 + 1) * c_step c).

(* capacity of the buffer that becomes part i: part 0 is the initial buffer *)
Definition capof (c : cfg) (i : N) : N :=
  if i =? 0 then c_init c else new_capacity c (i - 1).

(* ------------------------------------------------------------------------------------------ *)
(* 2. Byte strings                                                                            *)
(* ------------------------------------------------------------------------------------------ *)

Record bstr (B : Type) := {
  bs_len : B -> N;
  bs_app : B -> B -> B;
  bs_empty : B;
  bs_take : N -> B -> B;          (* &buf[..n], n <= len *)
  bs_drop : N -> B -> B           (* &buf[n..] (used by the caller's write_all loop only) *)
}.
Arguments bs_len {B}. Arguments bs_app {B}. Arguments bs_empty {B}. Arguments bs_take {B}. Arguments bs_drop {B}.

Definition bs_list (A : Type) : bstr (list A) :=
  {| bs_len := fun l => N.of_nat (length l); bs_app := @app A; bs_empty := [];
     bs_take := fun n l => firstn (N.to_nat n) l; bs_drop := fun n l => skipn (N.to_nat n) l |}.

Definition bs_size : bstr N :=
  {| bs_len := fun n => n; bs_app := N.add; bs_empty := 0;
     bs_take := fun n l => N.min n l; bs_drop := fun n l => l - n |}.

(* ------------------------------------------------------------------------------------------ *)
(* 3. State                                                                                   *)
(* ------------------------------------------------------------------------------------------ *)

Inductive gate := GPending | GOk | GErr.                 (* a store future: unresolved / Ok / Err *)
Inductive fres := ROk | RErrOther | RErrReset.           (* how a put_part future resolves *)

(* result of one poll_* call (PNone: the event was not a poll) *)
Inductive pollres := PReady (k : N) | PPending | PError | PPanicked | PFuel | PNone.

Section Model.
Variable B : Type.
Variable A : bstr B.

(* a future in the JoinSet: the store call it belongs to, the part_idx and buffer kept for a retry *)
Record task := { t_call : nat; t_idx : N; t_data : B }.

Inductive phase :=
| Started
| Creating (g : gate)                 (* CreatingUpload *)
| InProgress (part_idx : N)
| PuttingSingle (d : B) (g : gate)
| Completing (g : gate)
| Done
| Closed.                             (* after abort() / drop; the Rust value is Done(default) *)

Record state := {
  ph : phase;
  poisoned : bool;                    (* a poll returned Err: only abort/drop are in the model's domain *)
  shut : bool;                        (* poll_shutdown has been called *)
  buf : B;
  cap : N;                            (* buffer.capacity() *)
  cursor : N;
  resets : N;                         (* connection_resets *)
  running : list task;                (* spawned, not finished *)
  ready : list (task * fres);         (* finished, not yet seen by poll_join_next; completion order *)
  (* ---- store side ---- *)
  calls : list B;                     (* payloads of the put_part calls, in call order *)
  failed : list nat;                  (* indices of calls whose upload failed *)
  n_create : N;                       (* put_multipart calls *)
  put_data : option B;                (* payload of the single put call *)
  n_complete : N;
  n_abort : N;
  obj : option B                      (* the object visible at the destination *)
}.

Definition init_state (c : cfg) : state :=
  {| ph := Started; poisoned := false; shut := false; buf := bs_empty A; cap := c_init c; cursor := 0;
     resets := 0; running := []; ready := []; calls := []; failed := []; n_create := 0;
     put_data := None; n_complete := 0; n_abort := 0; obj := None |}.

Definition set_ph (s : state) (x : phase) : state :=
  {| ph := x; poisoned := poisoned s; shut := shut s; buf := buf s; cap := cap s; cursor := cursor s;
     resets := resets s; running := running s; ready := ready s; calls := calls s; failed := failed s;
     n_create := n_create s; put_data := put_data s; n_complete := n_complete s; n_abort := n_abort s;
     obj := obj s |}.
Definition set_poisoned (s : state) : state :=
  {| ph := ph s; poisoned := true; shut := shut s; buf := buf s; cap := cap s; cursor := cursor s;
     resets := resets s; running := running s; ready := ready s; calls := calls s; failed := failed s;
     n_create := n_create s; put_data := put_data s; n_complete := n_complete s; n_abort := n_abort s;
     obj := obj s |}.
Definition set_shut (s : state) : state :=
  {| ph := ph s; poisoned := poisoned s; shut := true; buf := buf s; cap := cap s; cursor := cursor s;
     resets := resets s; running := running s; ready := ready s; calls := calls s; failed := failed s;
     n_create := n_create s; put_data := put_data s; n_complete := n_complete s; n_abort := n_abort s;
     obj := obj s |}.
(* buffer, capacity and cursor together *)
Definition set_buf (s : state) (b : B) (cp cu : N) : state :=
  {| ph := ph s; poisoned := poisoned s; shut := shut s; buf := b; cap := cp; cursor := cu;
     resets := resets s; running := running s; ready := ready s; calls := calls s; failed := failed s;
     n_create := n_create s; put_data := put_data s; n_complete := n_complete s; n_abort := n_abort s;
     obj := obj s |}.
Definition set_resets (s : state) (x : N) : state :=
  {| ph := ph s; poisoned := poisoned s; shut := shut s; buf := buf s; cap := cap s; cursor := cursor s;
     resets := x; running := running s; ready := ready s; calls := calls s; failed := failed s;
     n_create := n_create s; put_data := put_data s; n_complete := n_complete s; n_abort := n_abort s;
     obj := obj s |}.
(* the JoinSet and the store's record of part uploads *)
Definition set_tasks (s : state) (ru : list task) (re : list (task * fres)) (cl : list B) (fl : list nat) : state :=
  {| ph := ph s; poisoned := poisoned s; shut := shut s; buf := buf s; cap := cap s; cursor := cursor s;
     resets := resets s; running := ru; ready := re; calls := cl; failed := fl;
     n_create := n_create s; put_data := put_data s; n_complete := n_complete s; n_abort := n_abort s;
     obj := obj s |}.
Definition set_store (s : state) (nc : N) (pd : option B) (ncm nab : N) (o : option B) : state :=
  {| ph := ph s; poisoned := poisoned s; shut := shut s; buf := buf s; cap := cap s; cursor := cursor s;
     resets := resets s; running := running s; ready := ready s; calls := calls s; failed := failed s;
     n_create := nc; put_data := pd; n_complete := ncm; n_abort := nab; obj := o |}.

(* futures.len(): every task not yet joined, finished or not *)
Definition nfut (s : state) : N := N.of_nat (length (running s) + length (ready s)).

(* Self::put_part + futures.spawn: the store's put_part is CALLED here (its position in the object is
   fixed now), the returned future joins the set *)
Definition spawn (s : state) (d : B) (idx : N) : state :=
  set_tasks s (running s ++ [{| t_call := length (calls s); t_idx := idx; t_data := d |}]) (ready s)
            (calls s ++ [d]) (failed s).

(* ------------------------------------------------------------------------------------------ *)
(* 4. poll_tasks                                                                              *)
(* ------------------------------------------------------------------------------------------ *)

(* `while let Poll::Ready(Some(res)) = futures.poll_join_next(cx)`: [q] = results not yet looked at.
   false = the function returned Err (the remaining results stay in the set). *)
Fixpoint drain (c : cfg) (q : list (task * fres)) (s : state) : state * bool :=
  match q with
  | [] => (set_tasks s (running s) [] (calls s) (failed s), true)
  | (t, r) :: q' =>
      match r with
      | ROk => drain c q' s
      | RErrReset =>
          if resets s <? c_maxretry c
          then drain c q' (spawn (set_resets s (resets s + 1)) (t_data t) (t_idx t))   (* resubmit *)
          else (set_tasks s (running s) q' (calls s) (failed s), false)
      | RErrOther => (set_tasks s (running s) q' (calls s) (failed s), false)
      end
  end.

Inductive tres := TOk (s : state) | TErr (s : state) | TFuel.

Fixpoint poll_tasks (fuel : nat) (c : cfg) (s : state) : tres :=
  match fuel with
  | O => TFuel
  | S f =>
      match ph s with
      | Started | Done | Closed => TOk s
      | Creating GOk =>
          (* next_part_buffer(buffer, 0) ; spawn(put_part(data, 0)) ; InProgress { part_idx: 1 } *)
          let data := buf s in
          let s1 := set_ph (set_buf s (bs_empty A) (new_capacity c 0) (cursor s)) (InProgress 1) in
          poll_tasks f c (spawn s1 data 0)
      | Creating GErr => TErr s
      | Creating GPending => TOk s
      | InProgress _ =>
          let '(s1, ok) := drain c (ready s) s in if ok then TOk s1 else TErr s1
      | PuttingSingle _ GOk | Completing GOk => poll_tasks f c (set_ph s Done)
      | PuttingSingle _ GErr | Completing GErr => TErr s
      | PuttingSingle _ GPending | Completing GPending => TOk s
      end
  end.

Definition tasks_fuel : nat := 3.

(* ------------------------------------------------------------------------------------------ *)
(* 5. poll_write / poll_flush / poll_shutdown                                                 *)
(* ------------------------------------------------------------------------------------------ *)

Definition poll_write (c : cfg) (s : state) (d : B) : state * pollres :=
  match poll_tasks tasks_fuel c s with
  | TFuel => (s, PFuel)
  | TErr s1 => (set_poisoned s1, PError)
  | TOk s1 =>
      let remaining := cap s1 - bs_len A (buf s1) in
      let k := N.min remaining (bs_len A d) in
      let s2 := set_buf s1 (bs_app A (buf s1) (bs_take A k d)) (cap s1) (cursor s1 + k) in
      let r3 : outcome state :=
        if cap s2 =? bs_len A (buf s2) then
          match ph s2 with
          | Started => Ok (set_store (set_ph s2 (Creating GPending)) (n_create s2 + 1) (put_data s2)
                                     (n_complete s2) (n_abort s2) (obj s2))
          | InProgress pidx =>
              if nfut s2 <? c_maxpar c then
                if pidx + 1 <? 65536                      (* part_idx: u16, `*part_idx += 1` *)
                then Ok (spawn (set_ph (set_buf s2 (bs_empty A) (new_capacity c pidx) (cursor s2))
                                       (InProgress (pidx + 1))) (buf s2) pidx)
                else Panic
              else Ok s2
          | _ => Ok s2
          end
        else Ok s2 in
      match r3 with
      | Ok s3 =>
          match poll_tasks tasks_fuel c s3 with
          | TFuel => (s3, PFuel)
          | TErr s4 => (set_poisoned s4, PError)
          | TOk s4 => (s4, if k =? 0 then PPending else PReady k)
          end
      | _ => (set_poisoned s2, PPanicked)      (* the writer unwinds; like an error, only drop may follow *)
      end
  end.

Definition poll_flush (c : cfg) (s : state) : state * pollres :=
  match poll_tasks tasks_fuel c s with
  | TFuel => (s, PFuel)
  | TErr s1 => (set_poisoned s1, PError)
  | TOk s1 =>
      match ph s1 with
      | Started | Done | Closed => (s1, PReady 0)
      | Creating _ | Completing _ | PuttingSingle _ _ => (s1, PPending)
      | InProgress _ => (s1, if nfut s1 =? 0 then PReady 0 else PPending)
      end
  end.

Fixpoint shutdown_loop (fuel : nat) (c : cfg) (s : state) : state * pollres :=
  match fuel with
  | O => (s, PFuel)
  | S f =>
      match poll_tasks tasks_fuel c s with
      | TFuel => (s, PFuel)
      | TErr s1 => (set_poisoned s1, PError)
      | TOk s1 =>
          match ph s1 with
          | Done | Closed => (s1, PReady 0)
          | Creating _ | PuttingSingle _ _ | Completing _ => (s1, PPending)
          | Started =>
              (* mem::take(buffer) ; started_to_putting_single ; loop (the put is called at the next poll) *)
              shutdown_loop f c
                (set_store (set_ph (set_buf s1 (bs_empty A) 0 (cursor s1)) (PuttingSingle (buf s1) GPending))
                           (n_create s1) (Some (buf s1)) (n_complete s1) (n_abort s1) (obj s1))
          | InProgress pidx =>
              if negb (bs_len A (buf s1) =? 0) && (nfut s1 <? c_maxpar c) then
                (* flush final batch, part_idx is not advanced; continue *)
                shutdown_loop f c (spawn (set_buf s1 (bs_empty A) 0 (cursor s1)) (buf s1) pidx)
              else if nfut s1 =? 0 then
                (* in_progress_to_completing ; loop *)
                shutdown_loop f c
                  (set_store (set_ph s1 (Completing GPending)) (n_create s1) (put_data s1)
                             (n_complete s1 + 1) (n_abort s1) (obj s1))
              else (s1, PPending)
          end
      end
  end.

Definition shutdown_fuel : nat := 4.
Definition poll_shutdown (c : cfg) (s : state) : state * pollres :=
  shutdown_loop shutdown_fuel c (set_shut s).

(* ------------------------------------------------------------------------------------------ *)
(* 6. The store: assembling the object, resolving futures                                     *)
(* ------------------------------------------------------------------------------------------ *)

(* parts in call order, without the failed ones *)
Fixpoint assemble_from (i : nat) (cl : list B) (fl : list nat) : B :=
  match cl with
  | [] => bs_empty A
  | d :: cl' => if existsb (Nat.eqb i) fl then assemble_from (S i) cl' fl
                else bs_app A d (assemble_from (S i) cl' fl)
  end.
Definition assemble (s : state) : B := assemble_from 0 (calls s) (failed s).

(* take the running task of store call [k] out of the list *)
Fixpoint take_task (k : nat) (l : list task) : option (task * list task) :=
  match l with
  | [] => None
  | t :: l' => if Nat.eqb (t_call t) k then Some (t, l')
               else match take_task k l' with
                    | Some (t', r) => Some (t', t :: r)
                    | None => None
                    end
  end.

Inductive event :=
| EvWrite (d : B)                     (* one poll_write call *)
| EvFlush                             (* one poll_flush call *)
| EvShutdown                          (* one poll_shutdown call *)
| EvCreate (ok : bool)                (* store: put_multipart resolves *)
| EvFinish (call : nat) (r : fres)    (* store: the upload of put_part call #call resolves *)
| EvPut (ok : bool)                   (* store: the single put resolves; visible iff ok *)
| EvComplete (ok : bool)              (* store: complete resolves; visible iff ok *)
| EvAbort (ok : bool)                 (* ObjectWriter::abort().await; ok = whether the store's abort succeeded *)
| EvDrop (ok : bool).                 (* drop(writer) and the spawned abort has run *)

Definition close (s : state) : state :=
  let s1 := match ph s with
            | InProgress _ => set_store s (n_create s) (put_data s) (n_complete s) (n_abort s + 1) (obj s)
            | _ => s
            end in
  (* the JoinSet is dropped with the state: its tasks are cancelled *)
  set_tasks (set_ph s1 Closed) [] [] (calls s1) (failed s1).

(* None: the event is outside the model's domain in this state *)
Definition step (c : cfg) (s : state) (e : event) : option (state * pollres) :=
  match e with
  | EvWrite d =>
      if poisoned s || shut s then None
      else match ph s with Closed => None | _ => Some (poll_write c s d) end
  | EvFlush =>
      if poisoned s || shut s then None
      else match ph s with Closed => None | _ => Some (poll_flush c s) end
  | EvShutdown =>
      if poisoned s then None
      else match ph s with Closed => None | _ => Some (poll_shutdown c s) end
  | EvCreate ok =>
      match ph s with
      | Creating GPending => Some (set_ph s (Creating (if ok then GOk else GErr)), PNone)
      | _ => None
      end
  | EvFinish k r =>
      match take_task k (running s) with
      | Some (t, rest) =>
          Some (set_tasks s rest (ready s ++ [(t, r)]) (calls s)
                          (match r with ROk => failed s | _ => failed s ++ [k] end), PNone)
      | None => None
      end
  | EvPut ok =>
      match ph s with
      | PuttingSingle d GPending =>
          if ok then Some (set_store (set_ph s (PuttingSingle d GOk)) (n_create s) (put_data s)
                                     (n_complete s) (n_abort s) (Some d), PNone)
          else Some (set_ph s (PuttingSingle d GErr), PNone)
      | _ => None
      end
  | EvComplete ok =>
      match ph s with
      | Completing GPending =>
          if ok then Some (set_store (set_ph s (Completing GOk)) (n_create s) (put_data s)
                                     (n_complete s) (n_abort s) (Some (assemble s)), PNone)
          else Some (set_ph s (Completing GErr), PNone)
      | _ => None
      end
  | EvAbort _ | EvDrop _ =>
      match ph s with Closed => None | _ => Some (close s, PNone) end
  end.

Fixpoint run (c : cfg) (s : state) (tr : list event) : option (state * list pollres) :=
  match tr with
  | [] => Some (s, [])
  | e :: tr' =>
      match step c s e with
      | None => None
      | Some (s1, r) =>
          match run c s1 tr' with
          | None => None
          | Some (s2, rs) => Some (s2, r :: rs)
          end
      end
  end.

End Model.

Arguments Started {B}. Arguments Creating {B}. Arguments InProgress {B}. Arguments PuttingSingle {B}.
Arguments Completing {B}. Arguments Done {B}. Arguments Closed {B}.
Arguments EvWrite {B}. Arguments EvFlush {B}. Arguments EvShutdown {B}. Arguments EvCreate {B}.
Arguments EvFinish {B}. Arguments EvPut {B}. Arguments EvComplete {B}. Arguments EvAbort {B}. Arguments EvDrop {B}.
Arguments ph {B}. Arguments poisoned {B}. Arguments shut {B}. Arguments buf {B}. Arguments cap {B}.
Arguments cursor {B}. Arguments resets {B}. Arguments running {B}. Arguments ready {B}. Arguments calls {B}.
Arguments failed {B}. Arguments n_create {B}. Arguments put_data {B}. Arguments n_complete {B}.
Arguments n_abort {B}. Arguments obj {B}.
Arguments t_call {B}. Arguments t_idx {B}. Arguments t_data {B}.

(* ------------------------------------------------------------------------------------------ *)
(* 7. The part sizes a fault-free write of [total] bytes must produce (closed form)           *)
(* ------------------------------------------------------------------------------------------ *)

(* greedy chunking by the capacity rule; the last part may be short; fuel = an upper bound on the
   number of parts; None = fuel exhausted *)
Fixpoint chunks (fuel : nat) (c : cfg) (i : N) (r : N) : option (list N) :=
  if r =? 0 then Some []
  else match fuel with
       | O => None
       | S f => if r <=? capof c i then Some [r]
                else match chunks f c (i + 1) (r - capof c i) with
                     | Some l => Some (capof c i :: l)
                     | None => None
                     end
       end.

(* (size of the single put, sizes of the parts): below the initial capacity one put and no upload *)
Definition expected_parts (c : cfg) (total : N) : option (option N * list N) :=
  if total <? c_init c then Some (Some total, [])
  else match chunks (S (N.to_nat (total / c_init c))) c 0 total with
       | Some l => Some (None, l)
       | None => None
       end.

(* ------------------------------------------------------------------------------------------ *)
(* 8. Correspondence checkers (lengths-only instance)                                         *)
(* ------------------------------------------------------------------------------------------ *)

(* events as printed by the harness: (tag, a, b)
   0 write a bytes | 1 flush | 2 shutdown | 3 create ok=a | 4 finish call a with result b (0 ok, 1 error,
   2 connection reset) | 5 put ok=a | 6 complete ok=a | 7 abort ok=a | 8 drop ok=a *)
Definition ev_code := (N * N * N)%type.
Definition decode_ev (e : ev_code) : option (event N) :=
  let '(tag, a, b) := e in
  match tag with
  | 0 => Some (EvWrite a)
  | 1 => Some EvFlush
  | 2 => Some EvShutdown
  | 3 => Some (EvCreate (negb (a =? 0)))
  | 4 => match b with
         | 0 => Some (EvFinish (N.to_nat a) ROk)
         | 1 => Some (EvFinish (N.to_nat a) RErrOther)
         | 2 => Some (EvFinish (N.to_nat a) RErrReset)
         | _ => None
         end
  | 5 => Some (EvPut (negb (a =? 0)))
  | 6 => Some (EvComplete (negb (a =? 0)))
  | 7 => Some (EvAbort (negb (a =? 0)))
  | 8 => Some (EvDrop (negb (a =? 0)))
  | _ => None
  end.

(* what the harness records after every event:
   (result code, value), cursor, in-flight part uploads, sizes of ALL put_part calls so far,
   (put_multipart calls, complete calls, abort calls), single put size, visible object size.
   result code: 0 ready(value) | 1 pending | 2 error | 3 panic | 5 not a poll *)
Definition obs := (N * N * N * N * list N * (N * N * N) * option N * option N)%type.

Definition res_code (r : pollres) : N * N :=
  match r with
  | PReady k => (0, k) | PPending => (1, 0) | PError => (2, 0) | PPanicked => (3, 0)
  | PFuel => (4, 0) | PNone => (5, 0)
  end.

Definition observe (s : state N) (r : pollres) : obs :=
  (fst (res_code r), snd (res_code r), cursor s, N.of_nat (length (running s)), calls s,
   (n_create s, n_complete s, n_abort s), put_data s, obj s).

Definition obs_eqb (x y : obs) : bool :=
  let '(a1, a2, a3, a4, a5, (a6, a7, a8), a9, a10) := x in
  let '(b1, b2, b3, b4, b5, (b6, b7, b8), b9, b10) := y in
  (a1 =? b1) && (a2 =? b2) && (a3 =? b3) && (a4 =? b4) && list_eqb N.eqb a5 b5 &&
  (a6 =? b6) && (a7 =? b7) && (a8 =? b8) && option_eqb N.eqb a9 b9 && option_eqb N.eqb a10 b10.

(* run the model over the trace, comparing the observation after every event; every event must be
   inside the model's domain *)
Fixpoint chk_steps (c : cfg) (s : state N) (tr : list ev_code) (os : list obs) : bool :=
  match tr, os with
  | [], [] => true
  | e :: tr', o :: os' =>
      match decode_ev e with
      | None => false
      | Some ev =>
          match step N bs_size c s ev with
          | None => false
          | Some (s1, r) => obs_eqb (observe s1 r) o && chk_steps c s1 tr' os'
          end
      end
  | _, _ => false
  end.

(* input: ((init, step, maxpar, maxretry, const), events); output: one observation per event *)
Definition cfg_code := (N * N * N * N * bool)%type.
Definition decode_cfg (x : cfg_code) : cfg :=
  let '(a, b, c, d, e) := x in {| c_init := a; c_step := b; c_maxpar := c; c_maxretry := d; c_const := e |}.

Definition chk_trace (i : cfg_code * list ev_code) (o : list obs) : bool :=
  chk_steps (decode_cfg (fst i)) (init_state N bs_size (decode_cfg (fst i))) (snd i) o.

(* end-to-end arm: a fault-free write of [total] bytes through write_all + shutdown produced a single
   put of that size, or these part sizes *)
Definition chk_parts (i : cfg_code * N) (o : option N * list N) : bool :=
  match expected_parts (decode_cfg (fst i)) (snd i) with
  | Some (p, l) => option_eqb N.eqb p (fst o) && list_eqb N.eqb l (snd o)
  | None => false
  end.
