(* Proofs about Io/Model_Spill.v (C41): every reader of a replay spill receives exactly the written
   sequence, whatever the schedule and the memory limit. *)
From LanceV Require Import Common.Base Io.Model_Spill.

Section SpillProofs.
Context {B : Type}.
Variable ipc : B -> B.
Hypothesis ipc_id : forall b, ipc b = b.   (* Arrow IPC stream writer + reader return the batch written *)

Notation spill := (Model_Spill.spill B).
Notation event := (Model_Spill.event B).
Notation obs := (Model_Spill.obs B).
Notation robs := (Model_Spill.robs B).
Notation run := (Model_Spill.run ipc).
Notation step := (Model_Spill.step ipc).
Notation rstep := (Model_Spill.rstep ipc).
Notation rsteps := (Model_Spill.rsteps ipc).
Notation reader_read := (Model_Spill.reader_read ipc).

(* ------------------------------------------------------------------ list facts *)
Lemma firstn_snoc_nth (W : list B) k b : nth_error W k = Some b -> firstn (S k) W = firstn k W ++ [b].
Proof.
  revert k; induction W as [|x W IH]; intros [|k] H; try discriminate.
  - injection H as ->. reflexivity.
  - cbn [nth_error] in H. cbn [firstn app]. f_equal. apply IH. exact H.
Qed.

Lemma firstn_app_short (W X : list B) k : k <= length W -> firstn k (W ++ X) = firstn k W.
Proof. intro H. rewrite firstn_app. replace (k - length W) with 0 by lia. cbn [firstn]. apply app_nil_r. Qed.

Lemma nth_error_firstn_eq (fl W : list B) n k : firstn n fl = W -> k < n -> nth_error fl k = nth_error W k.
Proof.
  intros <- Hk. revert fl k Hk; induction n as [|n IH]; intros fl k Hk; [lia|].
  destruct fl as [|x fl]; [destruct k; reflexivity|]. destruct k as [|k]; [reflexivity|].
  cbn [firstn nth_error]. apply IH. lia.
Qed.

Lemma nth_error_replace_nth {X} (l : list X) j x k :
  nth_error (replace_nth j x l) k = if k =? j then (if j <? length l then Some x else None) else nth_error l k.
Proof.
  revert j k; induction l as [|h t IH]; intros j k.
  - destruct j; cbn [replace_nth length]; (destruct (k =? _); destruct k; reflexivity).
  - destruct j as [|j]; destruct k as [|k]; cbn [replace_nth nth_error length]; try reflexivity.
    rewrite IH. cbn [Nat.eqb]. destruct (k =? j); [|reflexivity].
    change (S j <? S (length t)) with (j <? length t). reflexivity.
Qed.

Lemma Forall_replace_nth {X} (P : X -> Prop) (l : list X) j x : Forall P l -> P x -> Forall P (replace_nth j x l).
Proof.
  intros HF Hx. revert j; induction HF as [|h t Hh Ht IH]; intro j; destruct j; cbn [replace_nth]; constructor; auto.
Qed.

(* ------------------------------------------------------------------ invariants *)
(* what the published status (and the file it points to) shows is exactly W *)
Definition vis_ok (st : spill) (W : list B) : Prop :=
  ws_error (sp_status st) = true \/
  match ws_loc (sp_status st) with
  | LBuffered bs => bs = W
  | LSpilled n => n = length W /\
      exists fl, sp_file st = Some fl /\ firstn n fl = W /\ (ws_finished (sp_status st) = true -> length fl = n)
  end.

Definition sp_or_err (s : wstatus B) : Prop := ws_error s = true \/ exists n, ws_loc s = LSpilled n.

(* a live reader that has opened the file sits right after the batches it has delivered, and the
   published status is (and stays) "spilled" or "error" *)
Definition reader_ok (s : wstatus B) (W : list B) (r : reader) : Prop :=
  rd_read r <= length W /\
  (rd_done r = false ->
     match rd_cursor r with
     | None => True
     | Some (pos, fin) => pos = rd_read r /\ fin = false /\ sp_or_err s
     end).

(* between two sender calls the sender state agrees with what is published *)
Definition sender_ok (st : spill) (W : list B) : Prop :=
  match sp_state st with
  | SBuffering bs => bs = W /\ sp_file st = None /\ sp_status st = status_of (SBuffering W)
  | SSpilling n => n = length W /\ sp_file st = Some W /\ sp_status st = status_of (SSpilling n)
  | SFinished _ _ => True
  | SErrored => True
  end.

Definition Inv (st : spill) (W : list B) : Prop :=
  vis_ok st W /\ sender_ok st W /\ Forall (reader_ok (sp_status st) W) (sp_readers st).

Definition same_core (a b : spill) : Prop :=
  sp_limit a = sp_limit b /\ sp_state a = sp_state b /\ sp_status a = sp_status b /\
  sp_file a = sp_file b /\ sp_alive a = sp_alive b.

Lemma same_core_refl a : same_core a a.
Proof. repeat split. Qed.
Lemma same_core_trans a b c : same_core a b -> same_core b c -> same_core a c.
Proof. unfold same_core. intuition congruence. Qed.
Lemma vis_ok_core a b W : same_core a b -> vis_ok a W -> vis_ok b W.
Proof. unfold same_core, vis_ok. intros (_ & _ & -> & -> & _) H. exact H. Qed.

Lemma reader_ok_mono s s' W X r : (sp_or_err s -> sp_or_err s') -> reader_ok s W r -> reader_ok s' (W ++ X) r.
Proof.
  unfold reader_ok. rewrite app_length. intros Hs (H1 & H2). split; [lia|].
  intro Hd. specialize (H2 Hd). destruct (rd_cursor r) as [[pos fin]|]; [|exact I]. intuition.
Qed.

Lemma skip_read_ok (fl : list B) : forall k p, p + k <= length fl -> skip_read ipc k fl (p, false) = (p + k, false).
Proof.
  induction k as [|k IH]; intros p H; cbn [skip_read]; [f_equal; lia|].
  unfold file_read. destruct (nth_error fl p) eqn:E.
  - cbn [snd]. rewrite IH by lia. f_equal. lia.
  - apply nth_error_None in E. lia.
Qed.

(* ------------------------------------------------------------------ one reader poll *)
Lemma reader_read_spec (st : spill) (W : list B) (r : reader) :
  vis_ok st W -> reader_ok (sp_status st) W r ->
  let '(o, r') := reader_read st r in
  reader_ok (sp_status st) W r' /\
  match o with
  | OBatch b => nth_error W (rd_read r) = Some b /\ rd_read r' = S (rd_read r) /\ rd_done r' = false
  | _ => rd_read r' = rd_read r
  end.
Proof.
  intros Hvis (Hle & Hcur). unfold Model_Spill.reader_read.
  destruct (rd_done r) eqn:Ed; [split; [split; [exact Hle | rewrite Ed; discriminate] | reflexivity]|].
  specialize (Hcur eq_refl).
  destruct (negb (ws_error (sp_status st) || ws_finished (sp_status st) || (rd_read r <? batches_written (sp_status st)))) eqn:Ew.
  { destruct (sp_alive st); (split; [split; cbn [rd_read rd_finish rd_done]; [exact Hle | try discriminate; rewrite Ed; intros _; exact Hcur] | reflexivity]). }
  destruct (ws_error (sp_status st)) eqn:Ee.
  { split; [split; cbn [rd_read rd_finish rd_done]; [exact Hle | discriminate] | reflexivity]. }
  destruct Hvis as [Hvis|Hvis]; [congruence|].
  cbn [orb] in Ew. apply negb_false_iff in Ew.
  unfold batches_written in Ew.
  destruct (ws_loc (sp_status st)) as [bs|n] eqn:El.
  - subst bs.
    assert (Hnc : rd_cursor r = None).
    { destruct (rd_cursor r) as [[pos fin]|]; [|reflexivity]. destruct Hcur as (_ & _ & [He|(m & Hm)]); congruence. }
    destruct (nth_error W (rd_read r)) as [b|] eqn:En.
    + split; [split; cbn [rd_read rd_cursor rd_done]; [|intros _; rewrite Hnc; exact I] | split; [reflexivity | split; reflexivity]].
      assert (rd_read r < length W) by (apply nth_error_Some; congruence). lia.
    + split; [split; cbn [rd_read rd_finish rd_done]; [exact Hle | discriminate] | reflexivity].
  - destruct Hvis as (Hn & fl & Hfile & Hfirst & Hfin). rewrite Hfile.
    assert (Hcurs : match rd_cursor r with Some c => c | None => skip_read ipc (rd_read r) fl (0, false) end = (rd_read r, false)).
    { destruct (rd_cursor r) as [[pos fin]|].
      - destruct Hcur as (-> & -> & _). reflexivity.
      - rewrite skip_read_ok; [reflexivity|]. cbn [Nat.add].
        assert (length (firstn n fl) = length W) by (rewrite Hfirst; reflexivity). rewrite firstn_length in H. lia. }
    rewrite Hcurs. unfold file_read.
    destruct (nth_error fl (rd_read r)) as [b|] eqn:En.
    + rewrite ipc_id.
      assert (Hlt : rd_read r < n).
      { destruct (ws_finished (sp_status st)) eqn:Ef.
        - specialize (Hfin eq_refl). assert (rd_read r < length fl) by (apply nth_error_Some; congruence). lia.
        - cbn [orb] in Ew. apply Nat.ltb_lt in Ew. exact Ew. }
      rewrite (nth_error_firstn_eq fl W n (rd_read r) Hfirst Hlt) in En.
      split; [split; cbn [rd_read rd_cursor rd_done]; [lia | intros _; split; [reflexivity | split; [reflexivity | right; exists n; exact El]]] | split; [exact En | split; reflexivity]].
    + split; [split; cbn [rd_read rd_cursor rd_done]; [exact Hle | discriminate] | reflexivity].
Qed.

(* progress: what a poll of a live reader returns, in terms of W only *)
Lemma reader_read_live (st : spill) (W : list B) (r : reader) :
  vis_ok st W -> reader_ok (sp_status st) W r -> rd_done r = false -> ws_error (sp_status st) = false ->
  fst (reader_read st r) =
    match nth_error W (rd_read r) with
    | Some b => OBatch b
    | None => if ws_finished (sp_status st) then OEnd
              else if sp_alive st then OPending else OErrR REDropped
    end.
Proof.
  intros Hvis (Hle & Hcur) Hd He. specialize (Hcur Hd). unfold Model_Spill.reader_read. rewrite Hd, He. cbn [orb].
  destruct Hvis as [Hvis|Hvis]; [congruence|].
  unfold batches_written.
  destruct (ws_loc (sp_status st)) as [bs|n] eqn:El.
  - subst bs. destruct (nth_error W (rd_read r)) as [b|] eqn:En.
    + assert (Hlt : rd_read r < length W) by (apply nth_error_Some; congruence).
      apply Nat.ltb_lt in Hlt. rewrite Hlt, orb_true_r. reflexivity.
    + apply nth_error_None in En. assert (Hge : (rd_read r <? length W) = false) by (apply Nat.ltb_ge; lia).
      rewrite Hge, orb_false_r. destruct (ws_finished (sp_status st)); cbn [negb]; [reflexivity|].
      destruct (sp_alive st); reflexivity.
  - destruct Hvis as (Hn & fl & Hfile & Hfirst & Hfin). rewrite Hfile.
    assert (Hnl : n <= length fl).
    { assert (length (firstn n fl) = length W) by (rewrite Hfirst; reflexivity). rewrite firstn_length in H. lia. }
    assert (Hcurs : match rd_cursor r with Some c => c | None => skip_read ipc (rd_read r) fl (0, false) end = (rd_read r, false)).
    { destruct (rd_cursor r) as [[pos fin]|].
      - destruct Hcur as (-> & -> & _). reflexivity.
      - rewrite skip_read_ok; [reflexivity|]. cbn [Nat.add]. lia. }
    destruct (nth_error W (rd_read r)) as [b|] eqn:En.
    + assert (Hlt : rd_read r < n) by (subst n; apply nth_error_Some; congruence).
      assert (Hlt' := Hlt). apply Nat.ltb_lt in Hlt'. rewrite Hlt', orb_true_r. cbn [negb].
      rewrite Hcurs. unfold file_read.
      rewrite (nth_error_firstn_eq fl W n (rd_read r) Hfirst Hlt), En, ipc_id. reflexivity.
    + apply nth_error_None in En. assert (Hge : (rd_read r <? n) = false) by (apply Nat.ltb_ge; lia).
      rewrite Hge, orb_false_r. destruct (ws_finished (sp_status st)) eqn:Ef; cbn [negb].
      * rewrite Hcurs. unfold file_read. specialize (Hfin eq_refl).
        assert (Hnone : nth_error fl (rd_read r) = None) by (apply nth_error_None; lia).
        rewrite Hnone. reflexivity.
      * destruct (sp_alive st); reflexivity.
Qed.

(* ------------------------------------------------------------------ reader events *)
Lemma nread_set_readers (st : spill) rs k :
  nread (set_readers st rs) k = match nth_error rs k with Some r => rd_read r | None => 0 end.
Proof. reflexivity. Qed.

Lemma nread_readers (a b : spill) k : sp_readers a = sp_readers b -> nread a k = nread b k.
Proof. unfold nread. intros ->. reflexivity. Qed.

Lemma rstep_inv (st : spill) (W : list B) (e : revent) :
  vis_ok st W -> Forall (reader_ok (sp_status st) W) (sp_readers st) ->
  let '(st', o) := rstep st e in
  same_core st st' /\ Forall (reader_ok (sp_status st) W) (sp_readers st') /\
  forall k, firstn (nread st' k) W = firstn (nread st k) W ++ rdelivered k [e] [o].
Proof.
  intros Hvis HF. destruct e as [|j]; cbn [Model_Spill.rstep].
  - split; [repeat split|]. split.
    + cbn [set_readers sp_readers]. apply Forall_app. split; [exact HF|]. constructor; [|constructor].
      split; cbn [rd_read rd_done rd_cursor]; [lia | intros _; exact I].
    + intro k. cbn [rdelivered]. rewrite app_nil_r. rewrite nread_set_readers. unfold nread.
      destruct (Nat.lt_ge_cases k (length (sp_readers st))) as [Hlt|Hge].
      * rewrite nth_error_app1 by exact Hlt. reflexivity.
      * rewrite nth_error_app2 by exact Hge.
        assert (Hn : nth_error (sp_readers st) k = None) by (apply nth_error_None; exact Hge). rewrite Hn.
        destruct (k - length (sp_readers st)) as [|d]; cbn [nth_error rd_read]; [reflexivity|].
        destruct d; reflexivity.
  - destruct (nth_error (sp_readers st) j) as [r|] eqn:Ej.
    + assert (Hr : reader_ok (sp_status st) W r). { rewrite Forall_forall in HF. apply HF. eapply nth_error_In; exact Ej. }
      pose proof (reader_read_spec st W r Hvis Hr) as Hspec.
      destruct (reader_read st r) as [o r'] eqn:Er. destruct Hspec as (Hr' & Ho).
      split; [repeat split|]. split.
      * cbn [set_readers sp_readers]. apply Forall_replace_nth; assumption.
      * intro k. rewrite nread_set_readers, nth_error_replace_nth. unfold nread.
        assert (Hjl : j < length (sp_readers st)) by (apply nth_error_Some; congruence).
        apply Nat.ltb_lt in Hjl. rewrite Hjl.
        destruct (k =? j) eqn:Ekj.
        -- apply Nat.eqb_eq in Ekj. subst k. rewrite Ej.
           destruct o; cbn [rdelivered]; try (rewrite Ho, app_nil_r; reflexivity).
           destruct Ho as (Hn & -> & _). rewrite Nat.eqb_refl. apply firstn_snoc_nth. exact Hn.
        -- assert (Hjk : (j =? k) = false) by (rewrite Nat.eqb_sym; exact Ekj).
           destruct o; cbn [rdelivered]; rewrite ?Hjk, app_nil_r; reflexivity.
    + split; [repeat split|]. split; [exact HF|]. intro k. cbn [rdelivered]. rewrite app_nil_r. reflexivity.
Qed.

Lemma rdelivered_cons k e (o : robs) es os : rdelivered k (e :: es) (o :: os) = rdelivered k [e] [o] ++ rdelivered k es os.
Proof.
  destruct e as [|j]; [reflexivity|]. destruct o; try reflexivity. cbn [rdelivered]. destruct (j =? k); reflexivity.
Qed.

Lemma rsteps_inv (W : list B) : forall (es : list revent) (st : spill),
  vis_ok st W -> Forall (reader_ok (sp_status st) W) (sp_readers st) ->
  let '(st', os) := rsteps st es in
  same_core st st' /\ Forall (reader_ok (sp_status st) W) (sp_readers st') /\
  forall k, firstn (nread st' k) W = firstn (nread st k) W ++ rdelivered k es os.
Proof.
  induction es as [|e es IH]; intros st Hvis HF; cbn [Model_Spill.rsteps].
  - split; [apply same_core_refl|]. split; [exact HF|]. intro k. cbn [rdelivered]. rewrite app_nil_r. reflexivity.
  - pose proof (rstep_inv st W e Hvis HF) as H1. destruct (rstep st e) as [st1 o].
    destruct H1 as (Hc1 & HF1 & Hd1).
    assert (Hst : sp_status st = sp_status st1) by (destruct Hc1 as (_ & _ & H & _); exact H).
    rewrite Hst in HF1.
    pose proof (IH st1 (vis_ok_core _ _ _ Hc1 Hvis) HF1) as H2. destruct (rsteps st1 es) as [st2 os].
    destruct H2 as (Hc2 & HF2 & Hd2).
    split; [eapply same_core_trans; eassumption|]. split; [rewrite Hst; exact HF2|].
    intro k. rewrite Hd2, Hd1, <- app_assoc. f_equal. symmetry. apply rdelivered_cons.
Qed.

(* ------------------------------------------------------------------ one event *)
Lemma nread_le (st : spill) s W k : Forall (reader_ok s W) (sp_readers st) -> nread st k <= length W.
Proof.
  intro HF. unfold nread. destruct (nth_error (sp_readers st) k) as [r|] eqn:E; [|lia].
  rewrite Forall_forall in HF. apply (HF r). eapply nth_error_In; exact E.
Qed.

Lemma Forall_reader_mono s s' W X rs : (sp_or_err s -> sp_or_err s') ->
  Forall (reader_ok s W) rs -> Forall (reader_ok s' (W ++ X)) rs.
Proof. intros Hs H. eapply Forall_impl; [|exact H]. intros r. apply reader_ok_mono. exact Hs. Qed.

Lemma Forall_reader_status s s' W rs : (sp_or_err s -> sp_or_err s') ->
  Forall (reader_ok s W) rs -> Forall (reader_ok s' W) rs.
Proof.
  intros Hs H. apply (Forall_reader_mono s s' W [] rs Hs) in H. rewrite app_nil_r in H. exact H.
Qed.

Lemma not_sp_or_err_buffering (bs : list B) : ~ sp_or_err (status_of (SBuffering bs)).
Proof. intros [H|(n & H)]; discriminate. Qed.

Lemma step_inv (st : spill) (W : list B) (e : event) :
  Inv st W ->
  let '(st', o) := step st e in
  Inv st' (W ++ ev_written e o) /\
  forall k, firstn (nread st' k) (W ++ ev_written e o) = firstn (nread st k) W ++ ev_delivered k e o.
Proof.
  intros (Hvis & Hsnd & HF).
  destruct e as [b total awaited during|awaited during| | |re]; cbn [Model_Spill.step].
  - (* write *)
    destruct (sp_alive st) eqn:Ea; cbn [negb].
    2:{ cbn [ev_written ev_delivered]. rewrite !app_nil_r. split; [repeat split; assumption | intro k; rewrite !app_nil_r; reflexivity]. }
    destruct st as [limit state status file alive readers]. cbn [sp_alive] in Ea. subst alive.
    unfold sender_ok in Hsnd. cbn [sp_state sp_file sp_status] in Hsnd. cbn [sp_readers sp_status] in HF.
    unfold write_begin. cbn [sp_state sp_limit].
    destruct state as [bs|n|ob n|].
    + destruct Hsnd as (-> & -> & ->).
      destruct (limit <? total)%N.
      * (* first spill *)
        unfold set_state, set_file; cbn [sp_limit sp_state sp_status sp_file sp_alive sp_readers].
        destruct awaited.
        { set (st1 := {| sp_limit := limit; sp_state := SSpilling (S (length W)); sp_status := status_of (SBuffering W);
                         sp_file := Some (W ++ [b]); sp_alive := true; sp_readers := readers |}).
          assert (Hv1 : vis_ok st1 W) by (right; reflexivity).
          pose proof (rsteps_inv W during st1 Hv1 HF) as H2. destruct (rsteps st1 during) as [st2 os].
          destruct H2 as ((Hl & Hs & Hst & Hfl & Hal) & HF2 & Hd2).
          cbn [sp_limit sp_state sp_status sp_file sp_alive st1] in Hl, Hs, Hst, Hfl, Hal, HF2.
          cbn [ev_written ev_delivered].
          split.
          - split; [|split].
            + right. cbn [publish sp_status sp_file]. rewrite <- Hs, <- Hfl. cbn [status_of ws_loc ws_finished].
              split; [rewrite app_length; cbn; lia|]. exists (W ++ [b]). split; [reflexivity|].
              split; [|discriminate]. apply firstn_all2. rewrite app_length. cbn. lia.
            + unfold sender_ok. cbn [publish sp_state sp_file sp_status]. rewrite <- Hs, <- Hfl.
              split; [rewrite app_length; cbn; lia|]. split; [reflexivity|]. f_equal.
            + cbn [publish sp_readers sp_status]. eapply Forall_reader_mono; [|exact HF2].
              intro Hx. exfalso. exact (not_sp_or_err_buffering _ Hx).
          - intro k. rewrite (nread_readers (publish st2) st2 k eq_refl).
            rewrite firstn_app_short by (eapply nread_le; exact HF2). rewrite Hd2. reflexivity. }
        { unfold publish; cbn [sp_limit sp_state sp_status sp_file sp_alive sp_readers].
          set (st1 := {| sp_limit := limit; sp_state := SSpilling (S (length W)); sp_status := status_of (SSpilling (S (length W)));
                         sp_file := Some (W ++ [b]); sp_alive := true; sp_readers := readers |}).
          assert (Hv1 : vis_ok st1 (W ++ [b])).
          { right. unfold st1; cbn [sp_status sp_file status_of ws_loc ws_finished]. split; [rewrite app_length; cbn; lia|]. exists (W ++ [b]). split; [reflexivity|].
            split; [|discriminate]. apply firstn_all2. rewrite app_length. cbn. lia. }
          assert (HF1 : Forall (reader_ok (sp_status st1) (W ++ [b])) (sp_readers st1)).
          { unfold st1; cbn [sp_status sp_readers]. eapply Forall_reader_mono; [|exact HF].
            intro Hx. exfalso. exact (not_sp_or_err_buffering _ Hx). }
          pose proof (rsteps_inv (W ++ [b]) during st1 Hv1 HF1) as H2. destruct (rsteps st1 during) as [st2 os].
          destruct H2 as ((Hl & Hs & Hst & Hfl & Hal) & HF2 & Hd2).
          cbn [sp_limit sp_state sp_status sp_file sp_alive st1] in Hl, Hs, Hst, Hfl, Hal, HF2.
          cbn [ev_written ev_delivered].
          split.
          - split; [|split].
            + eapply vis_ok_core; [|exact Hv1]. repeat split; assumption.
            + unfold sender_ok. rewrite <- Hs, <- Hfl, <- Hst.
              split; [rewrite app_length; cbn; lia|]. split; reflexivity.
            + rewrite <- Hst. exact HF2.
          - intro k. rewrite Hd2. f_equal.
            rewrite (nread_readers st1 {| sp_limit := limit; sp_state := SBuffering W; sp_status := status_of (SBuffering W); sp_file := None; sp_alive := true; sp_readers := readers |} k eq_refl).
            apply firstn_app_short. eapply nread_le. exact HF. }
      * (* stays in memory *)
        unfold set_state, publish; cbn [sp_limit sp_state sp_status sp_file sp_alive sp_readers].
        set (st1 := {| sp_limit := limit; sp_state := SBuffering (W ++ [b]); sp_status := status_of (SBuffering (W ++ [b]));
                       sp_file := None; sp_alive := true; sp_readers := readers |}).
        assert (Hv1 : vis_ok st1 (W ++ [b])) by (right; reflexivity).
        assert (HF1 : Forall (reader_ok (sp_status st1) (W ++ [b])) (sp_readers st1)).
        { unfold st1; cbn [sp_status sp_readers]. eapply Forall_reader_mono; [|exact HF].
          intro Hx. exfalso. exact (not_sp_or_err_buffering _ Hx). }
        pose proof (rsteps_inv (W ++ [b]) during st1 Hv1 HF1) as H2.
        destruct (rsteps st1 during) as [st2 os].
        destruct H2 as ((Hl & Hs & Hst & Hfl & Hal) & HF2 & Hd2).
        cbn [sp_limit sp_state sp_status sp_file sp_alive st1] in Hl, Hs, Hst, Hfl, Hal, HF2.
        cbn [ev_written ev_delivered].
        split.
        -- split; [|split].
           ++ right. rewrite <- Hst. reflexivity.
           ++ unfold sender_ok. rewrite <- Hs, <- Hfl, <- Hst. repeat split.
           ++ rewrite <- Hst. exact HF2.
        -- intro k. rewrite Hd2. f_equal.
           rewrite (nread_readers st1 {| sp_limit := limit; sp_state := SBuffering W; sp_status := status_of (SBuffering W); sp_file := None; sp_alive := true; sp_readers := readers |} k eq_refl).
           apply firstn_app_short. eapply nread_le. exact HF.
    + (* already spilling *)
      destruct Hsnd as (-> & -> & ->).
      unfold set_state, set_file; cbn [sp_limit sp_state sp_status sp_file sp_alive sp_readers].
      destruct awaited.
      { set (st1 := {| sp_limit := limit; sp_state := SSpilling (S (length W)); sp_status := status_of (SSpilling (length W));
                       sp_file := Some (W ++ [b]); sp_alive := true; sp_readers := readers |}).
        assert (Hv1 : vis_ok st1 W).
        { right. cbn. split; [reflexivity|]. exists (W ++ [b]). split; [reflexivity|]. split; [|discriminate].
          rewrite firstn_app_short by lia. apply firstn_all. }
        pose proof (rsteps_inv W during st1 Hv1 HF) as H2. destruct (rsteps st1 during) as [st2 os].
        destruct H2 as ((Hl & Hs & Hst & Hfl & Hal) & HF2 & Hd2).
        cbn [sp_limit sp_state sp_status sp_file sp_alive st1] in Hl, Hs, Hst, Hfl, Hal, HF2.
        cbn [ev_written ev_delivered].
        split.
        - split; [|split].
          + right. cbn [publish sp_status sp_file]. rewrite <- Hs, <- Hfl. cbn [status_of ws_loc ws_finished].
            split; [rewrite app_length; cbn; lia|]. exists (W ++ [b]). split; [reflexivity|].
            split; [|discriminate]. apply firstn_all2. rewrite app_length. cbn. lia.
          + unfold sender_ok. cbn [publish sp_state sp_file sp_status]. rewrite <- Hs, <- Hfl.
            split; [rewrite app_length; cbn; lia|]. split; [reflexivity|]. f_equal.
          + cbn [publish sp_readers sp_status]. rewrite <- Hs. eapply Forall_reader_mono; [|exact HF2].
            intros _. right. eexists. reflexivity.
        - intro k. rewrite (nread_readers (publish st2) st2 k eq_refl).
          rewrite firstn_app_short by (eapply nread_le; exact HF2). rewrite Hd2. reflexivity. }
      { unfold publish; cbn [sp_limit sp_state sp_status sp_file sp_alive sp_readers].
        set (st1 := {| sp_limit := limit; sp_state := SSpilling (S (length W)); sp_status := status_of (SSpilling (S (length W)));
                       sp_file := Some (W ++ [b]); sp_alive := true; sp_readers := readers |}).
        assert (Hv1 : vis_ok st1 (W ++ [b])).
        { right. unfold st1; cbn [sp_status sp_file status_of ws_loc ws_finished]. split; [rewrite app_length; cbn; lia|]. exists (W ++ [b]). split; [reflexivity|].
          split; [|discriminate]. apply firstn_all2. rewrite app_length. cbn. lia. }
        assert (HF1 : Forall (reader_ok (sp_status st1) (W ++ [b])) (sp_readers st1)).
        { unfold st1; cbn [sp_status sp_readers]. eapply Forall_reader_mono; [|exact HF].
          intros _. right. eexists. reflexivity. }
        pose proof (rsteps_inv (W ++ [b]) during st1 Hv1 HF1) as H2. destruct (rsteps st1 during) as [st2 os].
        destruct H2 as ((Hl & Hs & Hst & Hfl & Hal) & HF2 & Hd2).
        cbn [sp_limit sp_state sp_status sp_file sp_alive st1] in Hl, Hs, Hst, Hfl, Hal, HF2.
        cbn [ev_written ev_delivered].
        split.
        - split; [|split].
          + eapply vis_ok_core; [|exact Hv1]. repeat split; assumption.
          + unfold sender_ok. rewrite <- Hs, <- Hfl, <- Hst.
            split; [rewrite app_length; cbn; lia|]. split; reflexivity.
          + rewrite <- Hst. exact HF2.
        - intro k. rewrite Hd2. f_equal.
          rewrite (nread_readers st1 {| sp_limit := limit; sp_state := SSpilling (length W); sp_status := status_of (SSpilling (length W)); sp_file := Some W; sp_alive := true; sp_readers := readers |} k eq_refl).
          apply firstn_app_short. eapply nread_le. exact HF. }
    + (* finished: Err *)
      set (st1 := {| sp_limit := limit; sp_state := SFinished ob n; sp_status := status; sp_file := file; sp_alive := true; sp_readers := readers |}) in *.
      pose proof (rsteps_inv W during st1 Hvis HF) as H2. destruct (rsteps st1 during) as [st2 os].
      destruct H2 as (Hc & HF2 & Hd2). cbn [ev_written ev_delivered]. rewrite !app_nil_r.
      split; [|intro k; rewrite ?app_nil_r; apply Hd2]. split; [eapply vis_ok_core; eassumption|].
      destruct Hc as (_ & Hs & Hst & _). split; [unfold sender_ok; rewrite <- Hs; exact I | rewrite <- Hst; exact HF2].
    + set (st1 := {| sp_limit := limit; sp_state := SErrored; sp_status := status; sp_file := file; sp_alive := true; sp_readers := readers |}) in *.
      pose proof (rsteps_inv W during st1 Hvis HF) as H2. destruct (rsteps st1 during) as [st2 os].
      destruct H2 as (Hc & HF2 & Hd2). cbn [ev_written ev_delivered]. rewrite !app_nil_r.
      split; [|intro k; rewrite ?app_nil_r; apply Hd2]. split; [eapply vis_ok_core; eassumption|].
      destruct Hc as (_ & Hs & Hst & _). split; [unfold sender_ok; rewrite <- Hs; exact I | rewrite <- Hst; exact HF2].
  - (* finish *)
    destruct (sp_alive st) eqn:Ea; cbn [negb].
    2:{ cbn [ev_written ev_delivered]. rewrite !app_nil_r. split; [repeat split; assumption | intro k; rewrite !app_nil_r; reflexivity]. }
    destruct st as [limit state status file alive readers]. cbn [sp_alive] in Ea. subst alive.
    unfold sender_ok in Hsnd. cbn [sp_state sp_file sp_status] in Hsnd. cbn [sp_readers sp_status] in HF.
    unfold finish_begin. cbn [sp_state].
    destruct state as [bs|n|ob n|].
    + destruct Hsnd as (-> & -> & ->).
      unfold set_state, publish; cbn [sp_limit sp_state sp_status sp_file sp_alive sp_readers].
      set (st1 := {| sp_limit := limit; sp_state := SFinished (Some W) (length W); sp_status := status_of (SFinished (Some W) (length W));
                     sp_file := None; sp_alive := true; sp_readers := readers |}).
      assert (Hv1 : vis_ok st1 W) by (right; reflexivity).
      assert (HF1 : Forall (reader_ok (sp_status st1) W) (sp_readers st1)).
      { unfold st1; cbn [sp_status sp_readers]. eapply Forall_reader_status; [|exact HF].
        intro Hx. exfalso. exact (not_sp_or_err_buffering _ Hx). }
      pose proof (rsteps_inv W during st1 Hv1 HF1) as H2. destruct (rsteps st1 during) as [st2 os].
      destruct H2 as (Hc & HF2 & Hd2). cbn [ev_written ev_delivered]. rewrite !app_nil_r.
      split; [|intro k; rewrite ?app_nil_r; apply Hd2]. split; [eapply vis_ok_core; eassumption|].
      destruct Hc as (_ & Hs & Hst & _). split; [unfold sender_ok; rewrite <- Hs; exact I | rewrite <- Hst; exact HF2].
    + destruct Hsnd as (-> & -> & ->).
      unfold set_state; cbn [sp_limit sp_state sp_status sp_file sp_alive sp_readers].
      destruct awaited.
      { set (st1 := {| sp_limit := limit; sp_state := SFinished None 0; sp_status := status_of (SSpilling (length W));
                       sp_file := Some W; sp_alive := true; sp_readers := readers |}).
        assert (Hv1 : vis_ok st1 W).
        { right. cbn. split; [reflexivity|]. exists W. split; [reflexivity|]. split; [apply firstn_all | discriminate]. }
        pose proof (rsteps_inv W during st1 Hv1 HF) as H2. destruct (rsteps st1 during) as [st2 os].
        destruct H2 as ((Hl & Hs & Hst & Hfl & Hal) & HF2 & Hd2).
        cbn [sp_limit sp_state sp_status sp_file sp_alive st1] in Hl, Hs, Hst, Hfl, Hal, HF2.
        cbn [ev_written ev_delivered]. rewrite !app_nil_r.
        split; [|intro k; rewrite ?app_nil_r; exact (Hd2 k)].
        split; [|split; [exact I|]].
        - right. cbn [publish sp_status sp_file sp_state]. rewrite <- Hfl. cbn [status_of ws_loc ws_finished].
          split; [reflexivity|]. exists W. split; [reflexivity|]. split; [apply firstn_all | reflexivity].
        - cbn [publish sp_readers sp_status sp_state]. eapply Forall_reader_status; [|exact HF2].
          intros _. right. eexists. reflexivity. }
      { unfold publish; cbn [sp_limit sp_state sp_status sp_file sp_alive sp_readers].
        set (st1 := {| sp_limit := limit; sp_state := SFinished None (length W); sp_status := status_of (SFinished None (length W));
                       sp_file := Some W; sp_alive := true; sp_readers := readers |}).
        assert (Hv1 : vis_ok st1 W).
        { right. cbn. split; [reflexivity|]. exists W. split; [reflexivity|]. split; [apply firstn_all | reflexivity]. }
        assert (HF1 : Forall (reader_ok (sp_status st1) W) (sp_readers st1)).
        { unfold st1; cbn [sp_status sp_readers]. eapply Forall_reader_status; [|exact HF].
          intros _. right. eexists. reflexivity. }
        pose proof (rsteps_inv W during st1 Hv1 HF1) as H2. destruct (rsteps st1 during) as [st2 os].
        destruct H2 as (Hc & HF2 & Hd2). cbn [ev_written ev_delivered]. rewrite !app_nil_r.
        split; [|intro k; rewrite ?app_nil_r; apply Hd2]. split; [eapply vis_ok_core; eassumption|].
        destruct Hc as (_ & Hs & Hst & _). split; [unfold sender_ok; rewrite <- Hs; exact I | rewrite <- Hst; exact HF2]. }
    + unfold set_state; cbn [sp_limit sp_state sp_status sp_file sp_alive sp_readers].
      set (st1 := {| sp_limit := limit; sp_state := SFinished None 0; sp_status := status; sp_file := file; sp_alive := true; sp_readers := readers |}).
      assert (Hv1 : vis_ok st1 W) by exact Hvis.
      pose proof (rsteps_inv W during st1 Hv1 HF) as H2. destruct (rsteps st1 during) as [st2 os].
      destruct H2 as (Hc & HF2 & Hd2). cbn [ev_written ev_delivered]. rewrite !app_nil_r.
      split; [|intro k; rewrite ?app_nil_r; apply Hd2]. split; [eapply vis_ok_core; eassumption|].
      destruct Hc as (_ & Hs & Hst & _). split; [unfold sender_ok; rewrite <- Hs; exact I | rewrite <- Hst; exact HF2].
    + unfold set_state; cbn [sp_limit sp_state sp_status sp_file sp_alive sp_readers].
      set (st1 := {| sp_limit := limit; sp_state := SFinished None 0; sp_status := status; sp_file := file; sp_alive := true; sp_readers := readers |}).
      assert (Hv1 : vis_ok st1 W) by exact Hvis.
      pose proof (rsteps_inv W during st1 Hv1 HF) as H2. destruct (rsteps st1 during) as [st2 os].
      destruct H2 as (Hc & HF2 & Hd2). cbn [ev_written ev_delivered]. rewrite !app_nil_r.
      split; [|intro k; rewrite ?app_nil_r; apply Hd2]. split; [eapply vis_ok_core; eassumption|].
      destruct Hc as (_ & Hs & Hst & _). split; [unfold sender_ok; rewrite <- Hs; exact I | rewrite <- Hst; exact HF2].
  - (* send_error *)
    cbn [ev_written ev_delivered]. rewrite !app_nil_r.
    destruct (sp_alive st); cbn [negb]; (split; [|intro k; rewrite !app_nil_r; reflexivity]); [|repeat split; assumption].
    split; [left; reflexivity|]. split; [exact I|].
    cbn [publish set_state sp_readers sp_status sp_state]. eapply Forall_reader_status; [|exact HF].
    intros _. left. reflexivity.
  - (* drop *)
    cbn [ev_written ev_delivered]. rewrite !app_nil_r. split; [|intro k; rewrite !app_nil_r; reflexivity].
    split; [exact Hvis|]. split; [exact Hsnd | exact HF].
  - (* reader event *)
    pose proof (rstep_inv st W re Hvis HF) as H1. destruct (rstep st re) as [st1 o].
    destruct H1 as (Hc & HF1 & Hd1). cbn [ev_written ev_delivered]. rewrite app_nil_r.
    split; [|intro k; rewrite ?app_nil_r; apply Hd1]. split; [eapply vis_ok_core; eassumption|].
    destruct Hc as (_ & Hs & Hst & Hfl & _).
    split; [unfold sender_ok; rewrite <- Hs, <- Hst, <- Hfl; exact Hsnd | rewrite <- Hst; exact HF1].
Qed.

(* ------------------------------------------------------------------ whole schedules *)
Lemma Inv_init (limit : N) : Inv (init limit) [].
Proof.
  split; [right; reflexivity|]. split; [repeat split | constructor].
Qed.

Lemma run_inv : forall (es : list event) (st : spill) (W : list B), Inv st W ->
  let '(st', os) := run st es in
  Inv st' (W ++ written es os) /\
  forall k, firstn (nread st' k) (W ++ written es os) = firstn (nread st k) W ++ delivered k es os.
Proof.
  induction es as [|e es IH]; intros st W HI; cbn [Model_Spill.run].
  - cbn [written delivered]. rewrite !app_nil_r. split; [exact HI|]. intro k. rewrite !app_nil_r. reflexivity.
  - pose proof (step_inv st W e HI) as H1. destruct (step st e) as [st1 o]. destruct H1 as (HI1 & Hd1).
    pose proof (IH st1 _ HI1) as H2. destruct (run st1 es) as [st2 os]. destruct H2 as (HI2 & Hd2).
    cbn [written delivered]. rewrite app_assoc. split; [exact HI2|].
    intro k. rewrite Hd2, Hd1, app_assoc. reflexivity.
Qed.

(* T1: at every moment, under every schedule and memory limit, what reader k has received is
   exactly the first [batches_read] batches of what was written - no loss, duplication or reordering *)
Theorem replay_prefix (limit : N) (es : list event) (k : nat) :
  let '(st, os) := run (init limit) es in
  delivered k es os = firstn (nread st k) (written es os) /\ nread st k <= length (written es os).
Proof.
  pose proof (run_inv es (init limit) [] (Inv_init limit)) as H. destruct (run (init limit) es) as [st os].
  destruct H as (HI & Hd). cbn [app] in HI, Hd. split.
  - specialize (Hd k). rewrite Hd, firstn_nil. reflexivity.
  - destruct HI as (_ & _ & HF). eapply nread_le. exact HF.
Qed.

(* T2: what the next poll of a live reader returns in any reachable state *)
Theorem replay_poll (limit : N) (es : list event) :
  let '(st, os) := run (init limit) es in
  forall k r, nth_error (sp_readers st) k = Some r -> rd_done r = false -> ws_error (sp_status st) = false ->
    fst (reader_read st r) =
      match nth_error (written es os) (rd_read r) with
      | Some b => OBatch b
      | None => if ws_finished (sp_status st) then OEnd
                else if sp_alive st then OPending else OErrR REDropped
      end.
Proof.
  pose proof (run_inv es (init limit) [] (Inv_init limit)) as H. destruct (run (init limit) es) as [st os].
  destruct H as ((Hvis & _ & HF) & _). cbn [app] in Hvis, HF.
  intros k r Hk Hd He. apply reader_read_live; try assumption.
  rewrite Forall_forall in HF. apply HF. eapply nth_error_In; exact Hk.
Qed.

(* ---- status vs. trace: finished / error flags are exactly "finish returned Ok" / "an error was sent" *)
Definition is_finish_ok (o : obs) : bool := match o with OFinish SOk _ => true | _ => false end.
Definition is_sent (o : obs) : bool := match o with OSent => true | _ => false end.

Lemma rstep_core (st : spill) (e : revent) : same_core st (fst (rstep st e)).
Proof.
  destruct e as [|j]; cbn [Model_Spill.rstep]; [repeat split|].
  destruct (nth_error (sp_readers st) j) as [r|]; [|repeat split].
  destruct (reader_read st r). repeat split.
Qed.

Lemma rsteps_core : forall (es : list revent) (st : spill), same_core st (fst (rsteps st es)).
Proof.
  induction es as [|e es IH]; intro st; cbn [Model_Spill.rsteps]; [apply same_core_refl|].
  pose proof (rstep_core st e) as H1. destruct (rstep st e) as [st1 o]. cbn [fst] in H1.
  pose proof (IH st1) as H2. destruct (rsteps st1 es) as [st2 os]. cbn [fst] in *.
  eapply same_core_trans; eassumption.
Qed.

Definition TInv (st : spill) (f s : bool) : Prop :=
  ws_error (sp_status st) = s /\ ws_finished (sp_status st) = f || s /\
  match sp_state st with
  | SBuffering _ | SSpilling _ => f = false /\ s = false
  | _ => True
  end.

Ltac tinv_during during :=
  match goal with |- context [Model_Spill.rsteps ipc ?x during] =>
    let Hc := fresh "Hc" in
    pose proof (rsteps_core during x) as Hc; destruct (Model_Spill.rsteps ipc x during) as [st2 os];
    cbn [fst] in Hc; destruct Hc as (_ & Hs & Hst & _);
    unfold publish, set_state, set_file in *;
    cbn [sp_state sp_status sp_limit sp_file sp_alive sp_readers] in *
  end.

Ltac tinv_close :=
  cbn [is_finish_ok is_sent]; unfold TInv, publish, set_state;
  cbn [sp_state sp_status sp_limit sp_file sp_alive sp_readers];
  repeat match goal with H : _ = sp_state _ |- _ => rewrite <- H; clear H end;
  repeat match goal with H : _ = sp_status _ |- _ => rewrite <- H; clear H end;
  cbn [status_of ws_error ws_finished ws_loc orb]; rewrite ?orb_false_r, ?orb_true_r;
  repeat split; try assumption; try reflexivity.

Lemma step_tinv (st : spill) (e : event) (f s : bool) : TInv st f s ->
  let '(st', o) := step st e in TInv st' (f || is_finish_ok o) (s || is_sent o).
Proof.
  intros (He & Hf & Hst0).
  destruct e as [b total awaited during|awaited during| | |re]; cbn [Model_Spill.step].
  - destruct (sp_alive st); cbn [negb]; [|cbn [is_finish_ok is_sent]; rewrite !orb_false_r; repeat split; assumption].
    destruct st as [limit state status file alive readers]. cbn [sp_status sp_state] in *.
    unfold write_begin. cbn [sp_state sp_limit].
    destruct state as [bs|n|ob n|].
    + destruct Hst0 as (-> & ->). destruct (limit <? total)%N; [destruct awaited|]; tinv_during during; tinv_close.
    + destruct Hst0 as (-> & ->). destruct awaited; tinv_during during; tinv_close.
    + tinv_during during; tinv_close.
    + tinv_during during; tinv_close.
  - destruct (sp_alive st); cbn [negb]; [|cbn [is_finish_ok is_sent]; rewrite !orb_false_r; repeat split; assumption].
    destruct st as [limit state status file alive readers]. cbn [sp_status sp_state] in *.
    unfold finish_begin. cbn [sp_state].
    destruct state as [bs|n|ob n|].
    + destruct Hst0 as (-> & ->). tinv_during during; tinv_close.
    + destruct Hst0 as (-> & ->). destruct awaited; tinv_during during; tinv_close.
    + tinv_during during; tinv_close.
    + tinv_during during; tinv_close.
  - destruct (sp_alive st); cbn [negb].
    + tinv_close.
    + cbn [is_finish_ok is_sent]. rewrite !orb_false_r. repeat split; assumption.
  - cbn [is_finish_ok is_sent]. rewrite !orb_false_r. repeat split; assumption.
  - pose proof (rstep_core st re) as Hc. destruct (rstep st re) as [st1 o]. cbn [fst] in Hc.
    destruct Hc as (_ & Hs & Hst2 & _). cbn [is_finish_ok is_sent]. rewrite !orb_false_r.
    unfold TInv. rewrite <- Hs, <- Hst2. repeat split; assumption.
Qed.

Lemma run_tinv : forall (es : list event) (st : spill) (f s : bool), TInv st f s ->
  let '(st', os) := run st es in TInv st' (f || existsb is_finish_ok os) (s || existsb is_sent os).
Proof.
  induction es as [|e es IH]; intros st f s HT; cbn [Model_Spill.run].
  - cbn [existsb]. rewrite !orb_false_r. exact HT.
  - pose proof (step_tinv st e f s HT) as H1. destruct (step st e) as [st1 o].
    pose proof (IH st1 _ _ H1) as H2. destruct (run st1 es) as [st2 os].
    cbn [existsb]. rewrite !orb_assoc. exact H2.
Qed.

Lemma status_flags (limit : N) (es : list event) :
  let '(st, os) := run (init limit) es in
  ws_error (sp_status st) = existsb is_sent os /\
  ws_finished (sp_status st) = existsb is_finish_ok os || existsb is_sent os.
Proof.
  pose proof (run_tinv es (init limit) false false) as H.
  destruct (run (init limit) es) as [st os]. cbn [orb] in H.
  destruct H as (H1 & H2 & _); [repeat split | split; assumption].
Qed.

(* ---- T3: draining a reader of a finished spill *)
Lemma skipn_nth_cons (W : list B) m b : nth_error W m = Some b -> skipn m W = b :: skipn (S m) W.
Proof.
  revert m; induction W as [|x W IH]; intros [|m] H; try discriminate.
  - injection H as ->. reflexivity.
  - cbn [nth_error] in H. cbn [skipn]. apply IH. exact H.
Qed.

Lemma drain_reader : forall (d : nat) (st : spill) (W : list B) (k : nat) (r : reader),
  vis_ok st W -> Forall (reader_ok (sp_status st) W) (sp_readers st) ->
  ws_finished (sp_status st) = true -> ws_error (sp_status st) = false ->
  nth_error (sp_readers st) k = Some r -> rd_done r = false -> length W - rd_read r = d ->
  snd (run st (repeat (ERead (RPoll k)) (S d))) =
    map (fun b => ORead (OBatch b)) (skipn (rd_read r) W) ++ [ORead OEnd].
Proof.
  induction d as [|d IH]; intros st W k r Hvis HF Hfin Herr Hk Hd Hlen.
  - assert (Hr : reader_ok (sp_status st) W r). { rewrite Forall_forall in HF. apply HF. eapply nth_error_In; exact Hk. }
    assert (Hm : rd_read r = length W) by (destruct Hr as (Hle & _); lia).
    cbn [repeat Model_Spill.run Model_Spill.step Model_Spill.rstep]. rewrite Hk.
    pose proof (reader_read_live st W r Hvis Hr Hd Herr) as Hl.
    destruct (reader_read st r) as [o r']. cbn [fst snd] in *.
    assert (Hn : nth_error W (rd_read r) = None) by (apply nth_error_None; lia).
    rewrite Hn, Hfin in Hl. subst o. rewrite Hm, skipn_all. reflexivity.
  - assert (Hr : reader_ok (sp_status st) W r). { rewrite Forall_forall in HF. apply HF. eapply nth_error_In; exact Hk. }
    assert (Hlt : rd_read r < length W) by lia.
    destruct (nth_error W (rd_read r)) as [b|] eqn:En; [|apply nth_error_None in En; lia].
    change (repeat (ERead (RPoll k)) (S (S d))) with (ERead (RPoll k) :: repeat (@ERead B (RPoll k)) (S d)).
    cbn [Model_Spill.run Model_Spill.step Model_Spill.rstep]. rewrite Hk.
    pose proof (reader_read_live st W r Hvis Hr Hd Herr) as Hl.
    pose proof (reader_read_spec st W r Hvis Hr) as Hs.
    destruct (reader_read st r) as [o r']. cbn [fst] in Hl. rewrite En in Hl. subst o.
    destruct Hs as (Hr' & _ & Hrd & Hdone).
    set (st1 := set_readers st (replace_nth k r' (sp_readers st))).
    assert (Hk1 : nth_error (sp_readers st1) k = Some r').
    { cbn [st1 set_readers sp_readers]. rewrite nth_error_replace_nth, Nat.eqb_refl.
      assert (Hkl : k < length (sp_readers st)) by (apply nth_error_Some; congruence).
      apply Nat.ltb_lt in Hkl. rewrite Hkl. reflexivity. }
    specialize (IH st1 W k r').
    assert (Hrun : snd (run st1 (repeat (ERead (RPoll k)) (S d))) =
                   map (fun b => ORead (OBatch b)) (skipn (rd_read r') W) ++ [ORead OEnd]).
    { apply IH; try assumption.
      - cbn [st1 set_readers sp_readers sp_status]. apply Forall_replace_nth; assumption.
      - lia. }
    destruct (run st1 (repeat (ERead (RPoll k)) (S d))) as [st2 os]. cbn [snd] in *.
    rewrite Hrun, (skipn_nth_cons W _ b En), Hrd. reflexivity.
Qed.

(* after any schedule in which finish succeeded and no error was sent, a reader opened NOW and polled
   |W|+1 times yields exactly the written batches, in order, then the end of the stream *)
Theorem replay_new_reader (limit : N) (es : list event) :
  let '(st, os) := run (init limit) es in
  existsb is_finish_ok os = true -> existsb is_sent os = false ->
  snd (run st (ERead ROpen :: repeat (ERead (RPoll (length (sp_readers st)))) (S (length (written es os))))) =
    ORead OOpened :: map (fun b => ORead (OBatch b)) (written es os) ++ [ORead OEnd].
Proof.
  pose proof (run_inv es (init limit) [] (Inv_init limit)) as H.
  pose proof (status_flags limit es) as Hfl.
  destruct (run (init limit) es) as [st os]. destruct H as ((Hvis & _ & HF) & _). destruct Hfl as (He & Hf).
  cbn [app] in Hvis, HF. intros Hfin Hns. rewrite Hns in He. rewrite Hfin in Hf. cbn [orb] in Hf.
  set (W := written es os) in *.
  match goal with |- context [ERead ROpen :: ?l] => set (polls := l) end.
  cbn [Model_Spill.run Model_Spill.step Model_Spill.rstep].
  set (r0 := {| rd_read := 0; rd_cursor := None; rd_done := false |}).
  set (st1 := set_readers st (sp_readers st ++ [r0])).
  assert (Hd : snd (run st1 polls) = map (fun b => ORead (OBatch b)) (skipn (rd_read r0) W) ++ [ORead OEnd]).
  { apply (drain_reader (length W) st1 W (length (sp_readers st)) r0); try assumption.
    - unfold st1, r0; cbn [set_readers sp_readers sp_status]. apply Forall_app. split; [exact HF|].
      constructor; [|constructor]. split; cbn [rd_read rd_done rd_cursor]; [lia | intros _; exact I].
    - unfold st1; cbn [set_readers sp_readers]. rewrite nth_error_app2 by apply Nat.le_refl. rewrite Nat.sub_diag. reflexivity.
    - reflexivity.
    - unfold r0; cbn [rd_read]. lia. }
  destruct (run st1 polls) as [st2 os2]. cbn [snd] in *. rewrite Hd. reflexivity.
Qed.

(* a live reader of a finished, error-free spill - whenever it was opened and whatever it has read so
   far - yields exactly the remaining written batches and then the end; with what it received
   before, that is the whole written sequence *)
Theorem replay_drain (limit : N) (es : list event) :
  let '(st, os) := run (init limit) es in
  existsb is_finish_ok os = true -> existsb is_sent os = false ->
  forall k r, nth_error (sp_readers st) k = Some r -> rd_done r = false ->
    snd (run st (repeat (ERead (RPoll k)) (S (length (written es os) - rd_read r)))) =
      map (fun b => ORead (OBatch b)) (skipn (rd_read r) (written es os)) ++ [ORead OEnd] /\
    delivered k es os ++ skipn (rd_read r) (written es os) = written es os.
Proof.
  pose proof (run_inv es (init limit) [] (Inv_init limit)) as H.
  pose proof (status_flags limit es) as Hfl.
  pose proof (replay_prefix limit es) as Hpre.
  destruct (run (init limit) es) as [st os]. destruct H as ((Hvis & _ & HF) & _). destruct Hfl as (He & Hf).
  cbn [app] in Hvis, HF. intros Hfin Hns k r Hk Hd. rewrite Hns in He. rewrite Hfin in Hf. cbn [orb] in Hf.
  split.
  - apply (drain_reader _ st (written es os) k r); try assumption. reflexivity.
  - destruct (Hpre k) as (Hp & _). rewrite Hp. unfold nread. rewrite Hk. apply firstn_skipn.
Qed.

End SpillProofs.
