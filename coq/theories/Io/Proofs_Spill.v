(* Proofs about Io/Model_Spill.v (C41): every reader of a replay spill receives exactly the written
   sequence, whatever the schedule and the memory limit. *)
From LanceV Require Import Common.Base Io.Model_Spill.

Section SpillProofs.
Context {B : Type}.
Variable ipc : B -> B.
Hypothesis ipc_id : forall b, ipc b = b.   (* Arrow IPC stream writer + reader return the batch written *)

Notation spill := (Model_Spill.spill B).
Notation event := (Model_Spill.event B).
Notation obs := (Model_Spill.obs B).
Notation robs := (Model_Spill.robs B).
Notation run := (Model_Spill.run ipc).
Notation step := (Model_Spill.step ipc).
Notation rstep := (Model_Spill.rstep ipc).
Notation rsteps := (Model_Spill.rsteps ipc).
Notation reader_read := (Model_Spill.reader_read ipc).

(* ------------------------------------------------------------------ list facts *)
Lemma firstn_snoc_nth (W : list B) k b : nth_error W k = Some b -> firstn (S k) W = firstn k W ++ [b].
Proof.
  revert k; induction W as [|x W IH]; intros [|k] H; try discriminate.
  - injection H as ->. reflexivity.
  - cbn [nth_error] in H. cbn [firstn app]. f_equal. apply IH. exact H.
Qed.

Lemma firstn_app_short (W X : list B) k : k <= length W -> firstn k (W ++ X) = firstn k W.
Proof. intro H. rewrite firstn_app. replace (k - length W) with 0 by lia. cbn [firstn]. apply app_nil_r. Qed.

Lemma nth_error_firstn_eq (fl W : list B) n k : firstn n fl = W -> k < n -> nth_error fl k = nth_error W k.
Proof.
  intros <- Hk. revert fl k Hk; induction n as [|n IH]; intros fl k Hk; [lia|].
  destruct fl as [|x fl]; [destruct k; reflexivity|]. destruct k as [|k]; [reflexivity|].
  cbn [firstn nth_error]. apply IH. lia.
Qed.

Lemma nth_error_replace_nth {X} (l : list X) j x k :
  nth_error (replace_nth j x l) k = if k =? j then (if j <? length l then Some x else None) else nth_error l k.
Proof.
  revert j k; induction l as [|h t IH]; intros j k.
  - destruct j; cbn [replace_nth length]; (destruct (k =? _); destruct k; reflexivity).
  - destruct j as [|j]; destruct k as [|k]; cbn [replace_nth nth_error length]; try reflexivity.
    rewrite IH. cbn [Nat.eqb]. destruct (k =? j); [|reflexivity].
    change (S j <? S (length t)) with (j <? length t). reflexivity.
Qed.

Lemma Forall_replace_nth {X} (P : X -> Prop) (l : list X) j x : Forall P l -> P x -> Forall P (replace_nth j x l).
Proof.
  intros HF Hx. revert j; induction HF as [|h t Hh Ht IH]; intro j; destruct j; cbn [replace_nth]; constructor; auto.
Qed.

(* ------------------------------------------------------------------ invariants *)
(* what the published status (and the file it points to) shows is exactly W *)
Definition vis_ok (st : spill) (W : list B) : Prop :=
  ws_error (sp_status st) = true \/
  match ws_loc (sp_status st) with
  | LBuffered bs => bs = W
  | LSpilled n => n = length W /\
      exists fl, sp_file st = Some fl /\ firstn n fl = W /\ (ws_finished (sp_status st) = true -> length fl = n)
  end.

Definition reader_ok (W : list B) (r : reader) : Prop :=
  rd_read r <= length W /\
  (rd_done r = false ->
     match rd_cursor r with
     | None => True
     | Some (pos, fin) => pos = rd_read r /\ fin = false
     end).

(* between two sender calls the sender state agrees with what is published *)
Definition sender_ok (st : spill) (W : list B) : Prop :=
  match sp_state st with
  | SBuffering bs => bs = W /\ sp_file st = None /\ sp_status st = status_of (SBuffering W)
  | SSpilling n => n = length W /\ sp_file st = Some W /\ sp_status st = status_of (SSpilling B n)
  | SFinished _ _ => True
  | SErrored => True
  end.

Definition Inv (st : spill) (W : list B) : Prop :=
  vis_ok st W /\ sender_ok st W /\ Forall (reader_ok W) (sp_readers st).

Definition same_core (a b : spill) : Prop :=
  sp_limit a = sp_limit b /\ sp_state a = sp_state b /\ sp_status a = sp_status b /\
  sp_file a = sp_file b /\ sp_alive a = sp_alive b.

Lemma same_core_refl a : same_core a a.
Proof. repeat split. Qed.
Lemma same_core_trans a b c : same_core a b -> same_core b c -> same_core a c.
Proof. unfold same_core. intuition congruence. Qed.
Lemma vis_ok_core a b W : same_core a b -> vis_ok a W -> vis_ok b W.
Proof. unfold same_core, vis_ok. intros (_ & _ & -> & -> & _) H. exact H. Qed.

Lemma reader_ok_mono W X r : reader_ok W r -> reader_ok (W ++ X) r.
Proof. unfold reader_ok. rewrite app_length. intros (H1 & H2). split; [lia | exact H2]. Qed.

Lemma skip_read_ok (fl : list B) : forall k p, p + k <= length fl -> skip_read ipc k fl (p, false) = (p + k, false).
Proof.
  induction k as [|k IH]; intros p H; cbn [skip_read]; [f_equal; lia|].
  unfold file_read. destruct (nth_error fl p) eqn:E.
  - cbn [snd]. rewrite IH by lia. f_equal. lia.
  - apply nth_error_None in E. lia.
Qed.

(* ------------------------------------------------------------------ one reader poll *)
Lemma reader_read_spec (st : spill) (W : list B) (r : reader) :
  vis_ok st W -> reader_ok W r ->
  let '(o, r') := reader_read st r in
  reader_ok W r' /\
  match o with
  | OBatch b => nth_error W (rd_read r) = Some b /\ rd_read r' = S (rd_read r)
  | _ => rd_read r' = rd_read r
  end.
Proof.
  intros Hvis (Hle & Hcur). unfold Model_Spill.reader_read.
  destruct (rd_done r) eqn:Ed; [split; [split; [exact Hle | rewrite Ed; discriminate] | reflexivity]|].
  specialize (Hcur eq_refl).
  destruct (negb (ws_error (sp_status st) || ws_finished (sp_status st) || (rd_read r <? batches_written (sp_status st)))) eqn:Ew.
  { destruct (sp_alive st); (split; [split; cbn [rd_read rd_finish rd_done]; [exact Hle | try discriminate; rewrite Ed; intros _; exact Hcur] | reflexivity]). }
  destruct (ws_error (sp_status st)) eqn:Ee.
  { split; [split; cbn [rd_read rd_finish rd_done]; [exact Hle | discriminate] | reflexivity]. }
  destruct Hvis as [Hvis|Hvis]; [congruence|].
  cbn [orb] in Ew. apply negb_false_iff in Ew.
  unfold batches_written in Ew.
  destruct (ws_loc (sp_status st)) as [bs|n] eqn:El.
  - subst bs. destruct (nth_error W (rd_read r)) as [b|] eqn:En.
    + split; [split; cbn [rd_read rd_cursor rd_done]; [|intros _; exact Hcur] | split; [reflexivity | reflexivity]].
      assert (rd_read r < length W) by (apply nth_error_Some; congruence). lia.
    + split; [split; cbn [rd_read rd_finish rd_done]; [exact Hle | discriminate] | reflexivity].
  - destruct Hvis as (Hn & fl & Hfile & Hfirst & Hfin). rewrite Hfile.
    assert (Hcurs : match rd_cursor r with Some c => c | None => skip_read ipc (rd_read r) fl (0, false) end = (rd_read r, false)).
    { destruct (rd_cursor r) as [[pos fin]|].
      - destruct Hcur as (-> & ->). reflexivity.
      - rewrite skip_read_ok; [reflexivity|]. cbn [Nat.add].
        assert (length (firstn n fl) = length W) by (rewrite Hfirst; reflexivity). rewrite firstn_length in H. lia. }
    rewrite Hcurs. unfold file_read.
    destruct (nth_error fl (rd_read r)) as [b|] eqn:En.
    + rewrite ipc_id.
      assert (Hlt : rd_read r < n).
      { destruct (ws_finished (sp_status st)) eqn:Ef.
        - specialize (Hfin eq_refl). assert (rd_read r < length fl) by (apply nth_error_Some; congruence). lia.
        - cbn [orb] in Ew. apply Nat.ltb_lt in Ew. exact Ew. }
      rewrite (nth_error_firstn_eq fl W n (rd_read r) Hfirst Hlt) in En.
      split; [split; cbn [rd_read rd_cursor rd_done]; [lia | intros _; split; reflexivity] | split; [exact En | reflexivity]].
    + split; [split; cbn [rd_read rd_cursor rd_done]; [exact Hle | discriminate] | reflexivity].
Qed.

(* progress: what a poll of a live reader returns, in terms of W only *)
Lemma reader_read_live (st : spill) (W : list B) (r : reader) :
  vis_ok st W -> reader_ok W r -> rd_done r = false -> ws_error (sp_status st) = false ->
  fst (reader_read st r) =
    match nth_error W (rd_read r) with
    | Some b => OBatch b
    | None => if ws_finished (sp_status st) then OEnd
              else if sp_alive st then OPending else OErrR REDropped
    end.
Proof.
  intros Hvis (Hle & Hcur) Hd He. specialize (Hcur Hd). unfold Model_Spill.reader_read. rewrite Hd, He. cbn [orb].
  destruct Hvis as [Hvis|Hvis]; [congruence|].
  unfold batches_written.
  destruct (ws_loc (sp_status st)) as [bs|n] eqn:El.
  - subst bs. destruct (nth_error W (rd_read r)) as [b|] eqn:En.
    + assert (Hlt : rd_read r < length W) by (apply nth_error_Some; congruence).
      apply Nat.ltb_lt in Hlt. rewrite Hlt, orb_true_r. reflexivity.
    + apply nth_error_None in En. assert (Hge : (rd_read r <? length W) = false) by (apply Nat.ltb_ge; lia).
      rewrite Hge, orb_false_r. destruct (ws_finished (sp_status st)); cbn [negb]; [reflexivity|].
      destruct (sp_alive st); reflexivity.
  - destruct Hvis as (Hn & fl & Hfile & Hfirst & Hfin). rewrite Hfile.
    assert (Hnl : n <= length fl).
    { assert (length (firstn n fl) = length W) by (rewrite Hfirst; reflexivity). rewrite firstn_length in H. lia. }
    assert (Hcurs : match rd_cursor r with Some c => c | None => skip_read ipc (rd_read r) fl (0, false) end = (rd_read r, false)).
    { destruct (rd_cursor r) as [[pos fin]|].
      - destruct Hcur as (-> & ->). reflexivity.
      - rewrite skip_read_ok; [reflexivity|]. cbn [Nat.add]. lia. }
    destruct (nth_error W (rd_read r)) as [b|] eqn:En.
    + assert (Hlt : rd_read r < n) by (subst n; apply nth_error_Some; congruence).
      assert (Hlt' := Hlt). apply Nat.ltb_lt in Hlt'. rewrite Hlt', orb_true_r. cbn [negb].
      rewrite Hcurs. unfold file_read.
      rewrite (nth_error_firstn_eq fl W n (rd_read r) Hfirst Hlt), En, ipc_id. reflexivity.
    + apply nth_error_None in En. assert (Hge : (rd_read r <? n) = false) by (apply Nat.ltb_ge; lia).
      rewrite Hge, orb_false_r. destruct (ws_finished (sp_status st)) eqn:Ef; cbn [negb].
      * rewrite Hcurs. unfold file_read. specialize (Hfin eq_refl).
        assert (Hnone : nth_error fl (rd_read r) = None) by (apply nth_error_None; lia).
        rewrite Hnone. reflexivity.
      * destruct (sp_alive st); reflexivity.
Qed.

(* ------------------------------------------------------------------ reader events *)
Lemma nread_set_readers (st : spill) rs k :
  nread (set_readers st rs) k = match nth_error rs k with Some r => rd_read r | None => 0 end.
Proof. reflexivity. Qed.

Lemma rstep_inv (st : spill) (W : list B) (e : revent) :
  vis_ok st W -> Forall (reader_ok W) (sp_readers st) ->
  let '(st', o) := rstep st e in
  same_core st st' /\ Forall (reader_ok W) (sp_readers st') /\
  forall k, firstn (nread st' k) W = firstn (nread st k) W ++ rdelivered k [e] [o].
Proof.
  intros Hvis HF. destruct e as [|j]; cbn [Model_Spill.rstep].
  - split; [repeat split|]. split.
    + cbn [set_readers sp_readers]. apply Forall_app. split; [exact HF|]. constructor; [|constructor].
      split; cbn [rd_read rd_done rd_cursor]; [lia | intros _; exact I].
    + intro k. cbn [rdelivered]. rewrite app_nil_r. rewrite nread_set_readers. unfold nread.
      destruct (Nat.lt_ge_cases k (length (sp_readers st))) as [Hlt|Hge].
      * rewrite nth_error_app1 by exact Hlt. reflexivity.
      * rewrite nth_error_app2 by exact Hge.
        assert (Hn : nth_error (sp_readers st) k = None) by (apply nth_error_None; exact Hge). rewrite Hn.
        destruct (k - length (sp_readers st)) as [|d]; cbn [nth_error rd_read]; [reflexivity|].
        destruct d; reflexivity.
  - destruct (nth_error (sp_readers st) j) as [r|] eqn:Ej.
    + assert (Hr : reader_ok W r). { rewrite Forall_forall in HF. apply HF. eapply nth_error_In; exact Ej. }
      pose proof (reader_read_spec st W r Hvis Hr) as Hspec.
      destruct (reader_read st r) as [o r'] eqn:Er. destruct Hspec as (Hr' & Ho).
      split; [repeat split|]. split.
      * cbn [set_readers sp_readers]. apply Forall_replace_nth; assumption.
      * intro k. rewrite nread_set_readers, nth_error_replace_nth. unfold nread.
        assert (Hjl : j < length (sp_readers st)) by (apply nth_error_Some; congruence).
        apply Nat.ltb_lt in Hjl. rewrite Hjl.
        destruct (k =? j) eqn:Ekj.
        -- apply Nat.eqb_eq in Ekj. subst k. rewrite Ej.
           destruct o; cbn [rdelivered]; try (rewrite Ho, app_nil_r; reflexivity).
           destruct Ho as (Hn & ->). rewrite Nat.eqb_refl. apply firstn_snoc_nth. exact Hn.
        -- assert (Hjk : (j =? k) = false) by (rewrite Nat.eqb_sym; exact Ekj).
           destruct o; cbn [rdelivered]; rewrite ?Hjk, app_nil_r; reflexivity.
    + split; [repeat split|]. split; [exact HF|]. intro k. cbn [rdelivered]. rewrite app_nil_r. reflexivity.
Qed.

Lemma rdelivered_cons k e o es os : rdelivered k (e :: es) (o :: os) = rdelivered k [e] [o] ++ rdelivered k es os.
Proof.
  destruct e as [|j]; [reflexivity|]. destruct o; try reflexivity. cbn [rdelivered]. destruct (j =? k); reflexivity.
Qed.

Lemma rsteps_inv (W : list B) : forall (es : list revent) (st : spill),
  vis_ok st W -> Forall (reader_ok W) (sp_readers st) ->
  let '(st', os) := rsteps st es in
  same_core st st' /\ Forall (reader_ok W) (sp_readers st') /\
  forall k, firstn (nread st' k) W = firstn (nread st k) W ++ rdelivered k es os.
Proof.
  induction es as [|e es IH]; intros st Hvis HF; cbn [Model_Spill.rsteps].
  - split; [apply same_core_refl|]. split; [exact HF|]. intro k. cbn [rdelivered]. rewrite app_nil_r. reflexivity.
  - pose proof (rstep_inv st W e Hvis HF) as H1. destruct (rstep st e) as [st1 o].
    destruct H1 as (Hc1 & HF1 & Hd1).
    pose proof (IH st1 (vis_ok_core _ _ _ Hc1 Hvis) HF1) as H2. destruct (rsteps st1 es) as [st2 os].
    destruct H2 as (Hc2 & HF2 & Hd2).
    split; [eapply same_core_trans; eassumption|]. split; [exact HF2|].
    intro k. rewrite Hd2, Hd1, rdelivered_cons, app_assoc. reflexivity.
Qed.

(* ------------------------------------------------------------------ one event *)
Lemma nread_le (st : spill) W k : Forall (reader_ok W) (sp_readers st) -> nread st k <= length W.
Proof.
  intro HF. unfold nread. destruct (nth_error (sp_readers st) k) as [r|] eqn:E; [|lia].
  rewrite Forall_forall in HF. apply (HF r). eapply nth_error_In; exact E.
Qed.

Lemma Forall_reader_mono W X rs : Forall (reader_ok W) rs -> Forall (reader_ok (W ++ X)) rs.
Proof. intro H. eapply Forall_impl; [|exact H]. intros r. apply reader_ok_mono. Qed.

Lemma step_inv (st : spill) (W : list B) (e : event) :
  Inv st W ->
  let '(st', o) := step st e in
  Inv st' (W ++ ev_written e o) /\
  forall k, firstn (nread st' k) (W ++ ev_written e o) = firstn (nread st k) W ++ ev_delivered k e o.
Proof.
  intros (Hvis & Hsnd & HF).
  destruct e as [b total during|during| | |re]; cbn [Model_Spill.step].
  - (* write *)
    destruct (sp_alive st) eqn:Ea; cbn [negb].
    2:{ cbn [ev_written ev_delivered]. rewrite !app_nil_r. split; [repeat split; assumption | reflexivity]. }
    destruct st as [limit state status file alive readers]. cbn [sp_alive] in Ea. subst alive.
    unfold sender_ok in Hsnd. cbn [sp_state sp_file sp_status] in Hsnd. cbn [sp_readers] in HF.
    unfold write_begin. cbn [sp_state sp_limit].
    destruct state as [bs|n|ob n|].
    + destruct Hsnd as (-> & -> & ->).
      destruct (limit <? total)%N.
      * (* first spill *)
        cbn [set_state set_file sp_limit sp_state sp_status sp_file sp_alive sp_readers].
        set (st1 := {| sp_limit := limit; sp_state := SSpilling B (S (length W)); sp_status := status_of (SBuffering W);
                       sp_file := Some (W ++ [b]); sp_alive := true; sp_readers := readers |}).
        assert (Hv1 : vis_ok st1 W) by (right; reflexivity).
        pose proof (rsteps_inv W during st1 Hv1 HF) as H2. destruct (rsteps st1 during) as [st2 os].
        destruct H2 as ((Hl & Hs & Hst & Hfl & Hal) & HF2 & Hd2).
        cbn [sp_limit sp_state sp_status sp_file sp_alive st1] in Hl, Hs, Hst, Hfl, Hal.
        cbn [ev_written ev_delivered].
        split.
        -- split; [|split].
           ++ right. cbn [publish sp_status sp_file]. rewrite <- Hs, <- Hfl. cbn [status_of ws_loc ws_finished].
              split; [rewrite app_length; cbn; lia|]. exists (W ++ [b]). split; [reflexivity|].
              split; [|discriminate]. apply firstn_all2. rewrite app_length. cbn. lia.
           ++ unfold sender_ok. cbn [publish sp_state sp_file sp_status]. rewrite <- Hs, <- Hfl.
              split; [rewrite app_length; cbn; lia|]. split; [reflexivity|]. f_equal.
           ++ cbn [publish sp_readers]. apply Forall_reader_mono. exact HF2.
        -- intro k. change (nread (publish st2) k) with (nread st2 k).
           rewrite firstn_app_short by (apply nread_le; exact HF2). rewrite Hd2. reflexivity.
      * (* stays in memory *)
        cbn [set_state publish sp_limit sp_state sp_status sp_file sp_alive sp_readers].
        set (st1 := {| sp_limit := limit; sp_state := SBuffering (W ++ [b]); sp_status := status_of (SBuffering (W ++ [b]));
                       sp_file := None; sp_alive := true; sp_readers := readers |}).
        assert (Hv1 : vis_ok st1 (W ++ [b])) by (right; reflexivity).
        pose proof (rsteps_inv (W ++ [b]) during st1 Hv1 (Forall_reader_mono _ _ _ HF)) as H2.
        destruct (rsteps st1 during) as [st2 os].
        destruct H2 as ((Hl & Hs & Hst & Hfl & Hal) & HF2 & Hd2).
        cbn [sp_limit sp_state sp_status sp_file sp_alive st1] in Hl, Hs, Hst, Hfl, Hal.
        cbn [ev_written ev_delivered].
        split.
        -- split; [|split].
           ++ right. rewrite <- Hst. reflexivity.
           ++ unfold sender_ok. rewrite <- Hs, <- Hfl, <- Hst. repeat split.
           ++ exact HF2.
        -- intro k. rewrite Hd2. f_equal. change (nread st1 k) with (nread {| sp_limit := limit; sp_state := SBuffering W; sp_status := status_of (SBuffering W); sp_file := None; sp_alive := true; sp_readers := readers |} k).
           apply firstn_app_short. apply nread_le. exact HF.
    + (* already spilling *)
      destruct Hsnd as (-> & -> & ->).
      cbn [set_state set_file sp_limit sp_state sp_status sp_file sp_alive sp_readers].
      set (st1 := {| sp_limit := limit; sp_state := SSpilling B (S (length W)); sp_status := status_of (SSpilling B (length W));
                     sp_file := Some (W ++ [b]); sp_alive := true; sp_readers := readers |}).
      assert (Hv1 : vis_ok st1 W).
      { right. cbn. split; [reflexivity|]. exists (W ++ [b]). split; [reflexivity|]. split; [|discriminate].
        rewrite firstn_app_short by lia. apply firstn_all. }
      pose proof (rsteps_inv W during st1 Hv1 HF) as H2. destruct (rsteps st1 during) as [st2 os].
      destruct H2 as ((Hl & Hs & Hst & Hfl & Hal) & HF2 & Hd2).
      cbn [sp_limit sp_state sp_status sp_file sp_alive st1] in Hl, Hs, Hst, Hfl, Hal.
      cbn [ev_written ev_delivered].
      split.
      * split; [|split].
        -- right. cbn [publish sp_status sp_file]. rewrite <- Hs, <- Hfl. cbn [status_of ws_loc ws_finished].
           split; [rewrite app_length; cbn; lia|]. exists (W ++ [b]). split; [reflexivity|].
           split; [|discriminate]. apply firstn_all2. rewrite app_length. cbn. lia.
        -- unfold sender_ok. cbn [publish sp_state sp_file sp_status]. rewrite <- Hs, <- Hfl.
           split; [rewrite app_length; cbn; lia|]. split; [reflexivity|]. f_equal.
        -- cbn [publish sp_readers]. apply Forall_reader_mono. exact HF2.
      * intro k. change (nread (publish st2) k) with (nread st2 k).
        rewrite firstn_app_short by (apply nread_le; exact HF2). rewrite Hd2. reflexivity.
    + (* finished: Err *)
      set (st1 := {| sp_limit := limit; sp_state := SFinished ob n; sp_status := status; sp_file := file; sp_alive := true; sp_readers := readers |}) in *.
      pose proof (rsteps_inv W during st1 Hvis HF) as H2. destruct (rsteps st1 during) as [st2 os].
      destruct H2 as (Hc & HF2 & Hd2). cbn [ev_written ev_delivered]. rewrite !app_nil_r.
      split; [|exact Hd2]. split; [eapply vis_ok_core; eassumption|]. split; [|exact HF2].
      unfold sender_ok. destruct Hc as (_ & <- & _). exact I.
    + set (st1 := {| sp_limit := limit; sp_state := SErrored B; sp_status := status; sp_file := file; sp_alive := true; sp_readers := readers |}) in *.
      pose proof (rsteps_inv W during st1 Hvis HF) as H2. destruct (rsteps st1 during) as [st2 os].
      destruct H2 as (Hc & HF2 & Hd2). cbn [ev_written ev_delivered]. rewrite !app_nil_r.
      split; [|exact Hd2]. split; [eapply vis_ok_core; eassumption|]. split; [|exact HF2].
      unfold sender_ok. destruct Hc as (_ & <- & _). exact I.
  - (* finish *)
    destruct (sp_alive st) eqn:Ea; cbn [negb].
    2:{ cbn [ev_written ev_delivered]. rewrite !app_nil_r. split; [repeat split; assumption | reflexivity]. }
    destruct st as [limit state status file alive readers]. cbn [sp_alive] in Ea. subst alive.
    unfold sender_ok in Hsnd. cbn [sp_state sp_file sp_status] in Hsnd. cbn [sp_readers] in HF.
    unfold finish_begin. cbn [sp_state]. cbn [ev_written]. rewrite app_nil_r.
    destruct state as [bs|n|ob n|].
    + destruct Hsnd as (-> & -> & ->).
      cbn [set_state publish sp_limit sp_state sp_status sp_file sp_alive sp_readers].
      set (st1 := {| sp_limit := limit; sp_state := SFinished (Some W) (length W); sp_status := status_of (SFinished (Some W) (length W));
                     sp_file := None; sp_alive := true; sp_readers := readers |}).
      assert (Hv1 : vis_ok st1 W) by (right; reflexivity).
      pose proof (rsteps_inv W during st1 Hv1 HF) as H2. destruct (rsteps st1 during) as [st2 os].
      destruct H2 as (Hc & HF2 & Hd2). cbn [ev_delivered].
      split; [|exact Hd2]. split; [eapply vis_ok_core; eassumption|]. split; [|exact HF2].
      unfold sender_ok. destruct Hc as (_ & <- & _). exact I.
    + destruct Hsnd as (-> & -> & ->).
      cbn [set_state sp_limit sp_state sp_status sp_file sp_alive sp_readers].
      set (st1 := {| sp_limit := limit; sp_state := SFinished None 0; sp_status := status_of (SSpilling B (length W));
                     sp_file := Some W; sp_alive := true; sp_readers := readers |}).
      assert (Hv1 : vis_ok st1 W).
      { right. cbn. split; [reflexivity|]. exists W. split; [reflexivity|]. split; [apply firstn_all | discriminate]. }
      pose proof (rsteps_inv W during st1 Hv1 HF) as H2. destruct (rsteps st1 during) as [st2 os].
      destruct H2 as ((Hl & Hs & Hst & Hfl & Hal) & HF2 & Hd2).
      cbn [sp_limit sp_state sp_status sp_file sp_alive st1] in Hl, Hs, Hst, Hfl, Hal.
      cbn [ev_delivered].
      split; [|intro k; change (nread (publish (set_state st2 (SFinished None (length W)))) k) with (nread st2 k); apply Hd2].
      split; [|split; [exact I | exact HF2]].
      right. cbn [publish set_state sp_status sp_file sp_state]. rewrite <- Hfl. cbn [status_of ws_loc ws_finished].
      split; [reflexivity|]. exists W. split; [reflexivity|]. split; [apply firstn_all | reflexivity].
    + cbn [set_state sp_limit sp_state sp_status sp_file sp_alive sp_readers].
      set (st1 := {| sp_limit := limit; sp_state := SFinished None 0; sp_status := status; sp_file := file; sp_alive := true; sp_readers := readers |}).
      assert (Hv1 : vis_ok st1 W) by exact Hvis.
      pose proof (rsteps_inv W during st1 Hv1 HF) as H2. destruct (rsteps st1 during) as [st2 os].
      destruct H2 as (Hc & HF2 & Hd2). cbn [ev_delivered].
      split; [|exact Hd2]. split; [eapply vis_ok_core; eassumption|]. split; [|exact HF2].
      unfold sender_ok. destruct Hc as (_ & <- & _). exact I.
    + cbn [set_state sp_limit sp_state sp_status sp_file sp_alive sp_readers].
      set (st1 := {| sp_limit := limit; sp_state := SFinished None 0; sp_status := status; sp_file := file; sp_alive := true; sp_readers := readers |}).
      assert (Hv1 : vis_ok st1 W) by exact Hvis.
      pose proof (rsteps_inv W during st1 Hv1 HF) as H2. destruct (rsteps st1 during) as [st2 os].
      destruct H2 as (Hc & HF2 & Hd2). cbn [ev_delivered].
      split; [|exact Hd2]. split; [eapply vis_ok_core; eassumption|]. split; [|exact HF2].
      unfold sender_ok. destruct Hc as (_ & <- & _). exact I.
  - (* send_error *)
    cbn [ev_written ev_delivered]. rewrite !app_nil_r.
    destruct (sp_alive st); cbn [negb]; (split; [|reflexivity]); [|repeat split; assumption].
    split; [left; reflexivity|]. split; [exact I | exact HF].
  - (* drop *)
    cbn [ev_written ev_delivered]. rewrite !app_nil_r. split; [|reflexivity].
    split; [exact Hvis|]. split; [exact Hsnd | exact HF].
  - (* reader event *)
    pose proof (rstep_inv st W re Hvis HF) as H1. destruct (rstep st re) as [st1 o].
    destruct H1 as (Hc & HF1 & Hd1). cbn [ev_written ev_delivered]. rewrite app_nil_r.
    split; [|exact Hd1]. split; [eapply vis_ok_core; eassumption|]. split; [|exact HF1].
    unfold sender_ok. destruct Hc as (_ & <- & <- & <- & _). exact Hsnd.
Qed.

End SpillProofs.
