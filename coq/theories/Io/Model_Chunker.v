(* Model of rust/lance-datafusion/src/chunker.rs (C41; imported by C11).
   Executable definitions only.

   A RecordBatch is modelled by the list of its rows ([list A], rows opaque); [num_rows] is
   [length]; [RecordBatch::slice(off,len)] is [firstn len (skipn off b)] and panics when
   [off + len > num_rows] (arrow asserts this).  The inner stream is a finite list of items
   [IBatch b | IErr] (Some(Ok b) | Some(Err e)) followed by None for ever.

   usize arithmetic: every subtraction that can underflow and the [% max_rows] that can divide by
   zero are modelled as [Panic].  Row counts are lengths, hence [nat]; the sums of row counts are
   assumed to fit a usize (sum of rows of a stream < 2^64) - additions are not checked. *)
From LanceV Require Import Common.Base.

Definition obind {X Y} (x : outcome X) (f : X -> outcome Y) : outcome Y :=
  match x with Ok a => f a | Err => Err | Panic => Panic end.
Definition omap {X Y} (f : X -> Y) (x : outcome X) : outcome Y :=
  match x with Ok a => Ok (f a) | Err => Err | Panic => Panic end.

(* what a modelled output stream yields: a value, an Err(..) item, or the out-of-fuel marker of the
   model's unfold loops (excluded by the theorems for every input in the domain) *)
Inductive oitem (X : Type) : Type := OVal (x : X) | OErr | OFuel.
Arguments OVal {X} x.
Arguments OErr {X}.
Arguments OFuel {X}.

Section Chunker.
Context {A : Type}.

Definition batch := list A.
Inductive item := IBatch (b : batch) | IErr.

Definition num_rows (b : batch) : nat := length b.

Definition slice (b : batch) (off len : nat) : outcome batch :=
  if num_rows b <? off + len then Panic else Ok (firstn len (skipn off b)).

(* the Ok batches of an input stream, in order *)
Fixpoint oks (inner : list item) : list batch :=
  match inner with
  | [] => []
  | IBatch b :: r => b :: oks r
  | IErr :: r => oks r
  end.

Definition rows_of (bs : list batch) : nat := list_sum (map num_rows bs).

(* ------------------------------------------------------------------ BatchReaderChunker *)

(* buffered_len: buffer_total - self.i *)
Definition buffered_len (buffered : list batch) (i : nat) : outcome nat :=
  let total := rows_of buffered in
  if total <? i then Panic else Ok (total - i).

Inductive fill_result := FillOk | FillErr.

(* fill_buffer: `while self.buffered_len() < self.output_size { match inner.next() ... }` *)
Fixpoint fill_buffer (n : nat) (inner : list item) (buffered : list batch) (i : nat) {struct inner}
  : outcome (fill_result * list item * list batch) :=
  match buffered_len buffered i with
  | Ok len =>
      if len <? n then
        match inner with
        | IBatch b :: rest => fill_buffer n rest (buffered ++ [b]) i
        | IErr :: rest => Ok (FillErr, rest, buffered)
        | [] => Ok (FillOk, [], buffered)          (* None => break *)
        end
      else Ok (FillOk, inner, buffered)
  | Err => Err
  | Panic => Panic
  end.

(* the `while rows_collected < self.output_size` loop of next().  Returns (batches, buffered, i).
   The only iteration that does not shorten `buffered` is the push_front one; after it the loop test
   is evaluated once more, explicitly, and a (never taken) re-entry is reported as Panic. *)
Fixpoint collect (n : nat) (buffered : list batch) (i collected : nat) (acc : list batch) {struct buffered}
  : outcome (list batch * list batch * nat) :=
  if collected <? n then
    match buffered with
    | [] => Ok (acc, [], i)                                   (* pop_front = None => break *)
    | b :: rest =>
        if num_rows b =? 0 then collect n rest i collected acc (* skip empty batch: continue *)
        else if num_rows b <? i then Panic                     (* num_rows - self.i underflows *)
        else
          let rows_remaining_in_batch := num_rows b - i in
          (* output_size - rows_collected cannot underflow: collected < n here *)
          let rows_to_take := Nat.min rows_remaining_in_batch (n - collected) in
          if rows_to_take =? rows_remaining_in_batch then
            obind (if i =? 0 then Ok b else slice b i rows_to_take) (fun out =>
            collect n rest 0 (collected + rows_to_take) (acc ++ [out]))
          else
            obind (slice b i rows_to_take) (fun out =>
            let i' := i + rows_to_take in
            let collected' := collected + rows_to_take in
            (* push_front(batch); loop test again *)
            if collected' <? n then Panic
            else Ok (acc ++ [out], b :: rest, i'))
    end
  else Ok (acc, buffered, i).

Record chunker := { ck_inner : list item; ck_buffered : list batch; ck_i : nat }.

Inductive next_result := NextNone | NextChunk (c : list batch) | NextErr.

Definition chunker_next (n : nat) (st : chunker) : outcome (next_result * chunker) :=
  obind (fill_buffer n (ck_inner st) (ck_buffered st) (ck_i st)) (fun '(fr, inner, buffered) =>
  match fr with
  | FillErr => Ok (NextErr, {| ck_inner := inner; ck_buffered := buffered; ck_i := ck_i st |})
  | FillOk =>
      obind (collect n buffered (ck_i st) 0 []) (fun '(batches, buffered', i') =>
      let st' := {| ck_inner := inner; ck_buffered := buffered'; ck_i := i' |} in
      match batches with
      | [] => Ok (NextNone, st')
      | _ :: _ => Ok (NextChunk batches, st')
      end)
  end).

(* chunk_stream: unfold(chunker, next).fuse() *)
Fixpoint chunk_unfold (fuel : nat) (n : nat) (st : chunker) : outcome (list (oitem (list batch))) :=
  match fuel with
  | O => Ok [OFuel]
  | S f =>
      obind (chunker_next n st) (fun '(r, st') =>
      match r with
      | NextNone => Ok []
      | NextChunk c => omap (cons (OVal c)) (chunk_unfold f n st')
      | NextErr => omap (cons OErr) (chunk_unfold f n st')
      end)
  end.

Definition chunk_fuel (inner : list item) : nat := rows_of (oks inner) + length inner + 1.

Definition chunk_stream (n : nat) (inner : list item) : outcome (list (oitem (list batch))) :=
  chunk_unfold (chunk_fuel inner) n {| ck_inner := inner; ck_buffered := []; ck_i := 0 |}.

(* chunk_concat_stream: concat_batches over every chunk *)
Definition concat_item (x : oitem (list batch)) : oitem batch :=
  match x with OVal c => OVal (concat c) | OErr => OErr | OFuel => OFuel end.
Definition chunk_concat_stream (n : nat) (inner : list item) : outcome (list (oitem batch)) :=
  omap (map concat_item) (chunk_stream n inner).

(* ------------------------------------------------------------------ break_stream *)

Record bstate := { bs_max : nat; bs_seen : nat; bs_remaining : nat; bs_batch : option batch }.

(* BreakStreamState::next *)
Definition bs_next (s : bstate) : outcome (option (batch * bstate)) :=
  if bs_remaining s =? 0 then Ok None
  else if bs_remaining s + bs_seen s <=? bs_max s then
    if bs_max s =? 0 then Panic                                  (* % 0 *)
    else match bs_batch s with
         | None => Panic                                         (* take().unwrap() *)
         | Some b => Ok (Some (b, {| bs_max := bs_max s;
                                     bs_seen := (bs_seen s + bs_remaining s) mod bs_max s;
                                     bs_remaining := 0; bs_batch := None |}))
         end
  else
    if bs_max s <? bs_seen s then Panic                          (* max_rows - rows_seen *)
    else
      let rows_to_emit := bs_max s - bs_seen s in
      if bs_remaining s <? rows_to_emit then Panic               (* rows_remaining -= rows_to_emit *)
      else match bs_batch s with
           | None => Panic
           | Some b =>
               obind (slice b 0 rows_to_emit) (fun next =>
               if num_rows b <? rows_to_emit then Panic          (* num_rows - rows_to_emit *)
               else obind (slice b rows_to_emit (num_rows b - rows_to_emit)) (fun rest =>
               Ok (Some (next, {| bs_max := bs_max s; bs_seen := 0;
                                  bs_remaining := bs_remaining s - rows_to_emit;
                                  bs_batch := Some rest |}))))
           end.

(* futures::stream::unfold(state, next) *)
Fixpoint bs_unfold (fuel : nat) (s : bstate) : outcome (list (oitem batch)) :=
  match fuel with
  | O => Ok [OFuel]
  | S f =>
      obind (bs_next s) (fun r =>
      match r with
      | None => Ok []
      | Some (b, s') => omap (cons (OVal b)) (bs_unfold f s')
      end)
  end.

(* break_stream: map_ok(closure).try_flatten(); `rows_already_seen` is the closure's captured counter *)
Fixpoint break_loop (max seen : nat) (inner : list item) : outcome (list (oitem batch)) :=
  match inner with
  | [] => Ok []
  | IErr :: rest => omap (cons OErr) (break_loop max seen rest)
  | IBatch b :: rest =>
      let st := {| bs_max := max; bs_seen := seen; bs_remaining := num_rows b; bs_batch := Some b |} in
      if max =? 0 then Panic                                     (* (seen + remaining) % max_rows *)
      else
        let seen' := (seen + num_rows b) mod max in
        obind (bs_unfold (num_rows b + 2) st) (fun pieces =>
        omap (app pieces) (break_loop max seen' rest))
  end.

Definition break_stream (max : nat) (inner : list item) : outcome (list (oitem batch)) :=
  break_loop max 0 inner.

(* ------------------------------------------------------------------ StrictBatchSizeStream *)

(* one poll_next: returns (item or None, residual, inner) *)
Fixpoint strict_poll (n : nat) (residual : option batch) (inner : list item) {struct inner}
  : outcome (option (oitem batch) * option batch * list item) :=
  let split_residual :=
    match residual with
    | Some r => if n <=? num_rows r then true else false
    | None => false
    end in
  if split_residual then
    match residual with
    | Some r =>
        obind (slice r 0 n) (fun chunk =>
        obind (slice r n (num_rows r - n)) (fun new_residual =>
        Ok (Some (OVal chunk), Some new_residual, inner)))
    | None => Panic
    end
  else
    match inner with
    | IBatch b :: rest =>
        let current := match residual with Some r => r ++ b | None => b end in
        if n <=? num_rows current then
          obind (slice current 0 n) (fun chunk =>
          obind (slice current n (num_rows current - n)) (fun new_residual =>
          Ok (Some (OVal chunk), (if 0 <? num_rows new_residual then Some new_residual else None), rest)))
        else strict_poll n (Some current) rest                   (* continue *)
    | IErr :: rest => Ok (Some OErr, residual, rest)
    | [] =>
        Ok (match residual with
            | Some r => if 0 <? num_rows r then Some (OVal r) else None
            | None => None
            end, None, [])
    end.

Fixpoint strict_unfold (fuel n : nat) (residual : option batch) (inner : list item)
  : outcome (list (oitem batch)) :=
  match fuel with
  | O => Ok [OFuel]
  | S f =>
      obind (strict_poll n residual inner) (fun '(r, residual', inner') =>
      match r with
      | None => Ok []
      | Some x => omap (cons x) (strict_unfold f n residual' inner')
      end)
  end.

Definition strict_stream (n : nat) (inner : list item) : outcome (list (oitem batch)) :=
  strict_unfold (rows_of (oks inner) + length inner + 2) n None inner.

End Chunker.

Arguments batch A : clear implicits.
Arguments item A : clear implicits.
Arguments chunker A : clear implicits.
Arguments bstate A : clear implicits.

(* ------------------------------------------------------------------ abstract specification.
   "re-sliced into chunks of exactly n rows except the last, none empty, nothing lost": [flat] are the
   output chunks (each flattened to its rows) of the data [R] *)
Definition exact_chunks {A} (n : nat) (R : list A) (flat : list (list A)) : Prop :=
  concat flat = R /\
  Forall (fun c => c <> [] /\ length c <= n) flat /\
  (forall pre c post, flat = pre ++ c :: post -> post <> [] -> length c = n).

(* ------------------------------------------------------------------ correspondence checkers.
   Input : (size parameter, inner stream) with rows = N values; an inner item is Some rows | None (Err).
   Output: what the real stream yielded, or Panic. *)
Definition items_of (l : list (option (list N))) : list (item N) :=
  map (fun x => match x with Some b => IBatch b | None => IErr end) l.

Definition rows_eqb : list N -> list N -> bool := list_eqb N.eqb.

Definition oitem_eqb {X} (eqb : X -> X -> bool) (m : oitem X) (o : option X) : bool :=
  match m, o with
  | OVal a, Some b => eqb a b
  | OErr, None => true
  | _, _ => false
  end.

Fixpoint olist_eqb {X} (eqb : X -> X -> bool) (m : list (oitem X)) (o : list (option X)) : bool :=
  match m, o with
  | [], [] => true
  | a :: m', b :: o' => oitem_eqb eqb a b && olist_eqb eqb m' o'
  | _, _ => false
  end.

Definition out_eqb {X Y} (eqb : X -> Y -> bool) (m : outcome X) (o : outcome Y) : bool :=
  match m, o with
  | Ok a, Ok b => eqb a b
  | Err, Err => true
  | Panic, Panic => true
  | _, _ => false
  end.

Definition chk_chunk_stream (i : N * list (option (list N))) (o : outcome (list (option (list (list N))))) : bool :=
  out_eqb (olist_eqb (list_eqb rows_eqb)) (chunk_stream (N.to_nat (fst i)) (items_of (snd i))) o.

Definition chk_chunk_concat (i : N * list (option (list N))) (o : outcome (list (option (list N)))) : bool :=
  out_eqb (olist_eqb rows_eqb) (chunk_concat_stream (N.to_nat (fst i)) (items_of (snd i))) o.

Definition chk_break_stream (i : N * list (option (list N))) (o : outcome (list (option (list N)))) : bool :=
  out_eqb (olist_eqb rows_eqb) (break_stream (N.to_nat (fst i)) (items_of (snd i))) o.

Definition chk_strict_stream (i : N * list (option (list N))) (o : outcome (list (option (list N)))) : bool :=
  out_eqb (olist_eqb rows_eqb) (strict_stream (N.to_nat (fst i)) (items_of (snd i))) o.

(* the Rust unit test test_chunkers: batches of 10, 5, 13, 0 rows, size 10 *)
Definition ut_batches : list (option (list N)) :=
  [Some [0;1;2;3;4;5;6;7;8;9]%N; Some [0;1;2;3;4]%N; Some [0;1;2;3;4;5;6;7;8;9;10;11;12]%N; Some []].
