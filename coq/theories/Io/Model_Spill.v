(* Model of rust/lance-datafusion/src/spill.rs (C41): create_replay_spill, SpillSender
   (write / send_error / finish), SpillReceiver::read and SpillReader.  Executable definitions only.

   Batches are opaque ([B]).  The spill file is the list of batches flushed to it so far; what a
   StreamReader decodes from a written batch [b] is [ipc b] (external: Arrow IPC writer + reader).
   The tokio watch channel is the field [sp_status]: a reader observes the last status published
   with send_replace.  MemoryAccumulator is external: every write event carries the accumulator's
   total after `record_batch` (an arbitrary number as far as this model is concerned).
   File system calls are assumed not to fail except opening a file that was never created.

   A write / finish that awaits file I/O is not atomic: the harness polls the call's future once,
   runs the reader events listed in [during], then awaits the future.  The flag [awaited] records
   whether that first poll returned Pending (a scheduling fact: the blocking file task may already
   have completed): if so the [during] events run after the call's file effects and before it
   publishes the new status, otherwise they run after the whole call.  When the call does not await
   at all (batch kept in memory, or an error return) the [during] events simply run after it. *)
From LanceV Require Import Common.Base.

Section Spill.
Context {B : Type}.
Variable ipc : B -> B.

(* ---- sender *)
Inductive sstate :=
| SBuffering (batches : list B)
| SSpilling (batches_written : nat)
| SFinished (batches : option (list B)) (batches_written : nat)
| SErrored.

Inductive dataloc := LBuffered (batches : list B) | LSpilled (batches_written : nat).
Record wstatus := { ws_error : bool; ws_finished : bool; ws_loc : dataloc }.

(* impl From<&SpillState> for WriteStatus *)
Definition status_of (s : sstate) : wstatus :=
  match s with
  | SBuffering batches => {| ws_error := false; ws_finished := false; ws_loc := LBuffered batches |}
  | SSpilling n => {| ws_error := false; ws_finished := false; ws_loc := LSpilled n |}
  | SFinished (Some batches) _ => {| ws_error := false; ws_finished := true; ws_loc := LBuffered batches |}
  | SFinished None n => {| ws_error := false; ws_finished := true; ws_loc := LSpilled n |}
  | SErrored => {| ws_error := true; ws_finished := true; ws_loc := LBuffered [] |}
  end.

Definition batches_written (s : wstatus) : nat :=
  match ws_loc s with LBuffered batches => length batches | LSpilled n => n end.

(* ---- readers *)
(* rd_cursor: None = SpillReaderState::Buffered; Some (pos, finished) = an open StreamReader that has
   consumed [pos] batches; [finished] is StreamReader's sticky end-of-stream flag. *)
Record reader := { rd_read : nat; rd_cursor : option (nat * bool); rd_done : bool }.

Record spill := {
  sp_limit : N;
  sp_state : sstate;
  sp_status : wstatus;              (* value of the watch channel *)
  sp_file : option (list B);        (* None: the spill file does not exist *)
  sp_alive : bool;                  (* the SpillSender has not been dropped *)
  sp_readers : list reader }.

Definition set_state (st : spill) (s : sstate) : spill :=
  {| sp_limit := sp_limit st; sp_state := s; sp_status := sp_status st; sp_file := sp_file st;
     sp_alive := sp_alive st; sp_readers := sp_readers st |}.
Definition set_file (st : spill) (f : option (list B)) : spill :=
  {| sp_limit := sp_limit st; sp_state := sp_state st; sp_status := sp_status st; sp_file := f;
     sp_alive := sp_alive st; sp_readers := sp_readers st |}.
Definition set_readers (st : spill) (rs : list reader) : spill :=
  {| sp_limit := sp_limit st; sp_state := sp_state st; sp_status := sp_status st; sp_file := sp_file st;
     sp_alive := sp_alive st; sp_readers := rs |}.
Definition set_alive (st : spill) (a : bool) : spill :=
  {| sp_limit := sp_limit st; sp_state := sp_state st; sp_status := sp_status st; sp_file := sp_file st;
     sp_alive := a; sp_readers := sp_readers st |}.
(* status_sender.send_replace(WriteStatus::from(&self.state)) *)
Definition publish (st : spill) : spill :=
  {| sp_limit := sp_limit st; sp_state := sp_state st; sp_status := status_of (sp_state st);
     sp_file := sp_file st; sp_alive := sp_alive st; sp_readers := sp_readers st |}.

Definition init (limit : N) : spill :=
  {| sp_limit := limit; sp_state := SBuffering []; sp_status := status_of (SBuffering []);
     sp_file := None; sp_alive := true; sp_readers := [] |}.

Inductive rerr := RESent | REDropped | REIo.
Inductive revent := ROpen | RPoll (r : nat).
Inductive robs := OOpened | OPending | OBatch (b : B) | OEnd | OErrR (e : rerr) | ONoReader.

(* AsyncStreamReader::read on an open reader *)
Definition file_read (fl : list B) (cur : nat * bool) : option B * (nat * bool) :=
  let '(pos, fin) := cur in
  if fin then (None, cur)
  else match nth_error fl pos with
       | Some b => (Some (ipc b), (S pos, false))
       | None => (None, (pos, true))                (* EOF or end-of-stream marker *)
       end.

(* `for _ in 0..self.batches_read { reader.read().await?; }` *)
Fixpoint skip_read (k : nat) (fl : list B) (cur : nat * bool) : nat * bool :=
  match k with
  | O => cur
  | S k' => skip_read k' fl (snd (file_read fl cur))
  end.

Definition rd_finish (r : reader) : reader :=
  {| rd_read := rd_read r; rd_cursor := rd_cursor r; rd_done := true |}.

(* one `stream.next()` driven until it yields or blocks: SpillReader::read under try_unfold *)
Definition reader_read (st : spill) (r : reader) : robs * reader :=
  if rd_done r then (OEnd, r)                        (* a terminated try_unfold yields None *)
  else
    let s := sp_status st in
    (* wait_for(|status| error.is_some() || finished || batches_written() > batches_read) *)
    if negb (ws_error s || ws_finished s || (rd_read r <? batches_written s)) then
      if sp_alive st then (OPending, r) else (OErrR REDropped, rd_finish r)
    else if ws_error s then (OErrR RESent, rd_finish r)
    else
      match ws_loc s with
      | LBuffered batches =>
          match nth_error batches (rd_read r) with   (* if batches_read < batches.len() *)
          | Some b => (OBatch b, {| rd_read := S (rd_read r); rd_cursor := rd_cursor r; rd_done := false |})
          | None => (OEnd, rd_finish r)
          end
      | LSpilled _ =>
          match sp_file st with
          | None => (OErrR REIo, rd_finish r)        (* File::open fails *)
          | Some fl =>
              (* get_reader *)
              let cur := match rd_cursor r with
                         | Some c => c
                         | None => skip_read (rd_read r) fl (0, false)
                         end in
              let '(ob, cur') := file_read fl cur in
              match ob with
              | Some b => (OBatch b, {| rd_read := S (rd_read r); rd_cursor := Some cur'; rd_done := false |})
              | None => (OEnd, {| rd_read := rd_read r; rd_cursor := Some cur'; rd_done := true |})
              end
          end
      end.

Fixpoint replace_nth {X} (k : nat) (x : X) (l : list X) : list X :=
  match l, k with
  | [], _ => []
  | _ :: t, O => x :: t
  | h :: t, S k' => h :: replace_nth k' x t
  end.

Definition rstep (st : spill) (e : revent) : spill * robs :=
  match e with
  | ROpen => (set_readers st (sp_readers st ++ [{| rd_read := 0; rd_cursor := None; rd_done := false |}]), OOpened)
  | RPoll k =>
      match nth_error (sp_readers st) k with
      | None => (st, ONoReader)
      | Some r => let '(o, r') := reader_read st r in (set_readers st (replace_nth k r' (sp_readers st)), o)
      end
  end.

Fixpoint rsteps (st : spill) (es : list revent) : spill * list robs :=
  match es with
  | [] => (st, [])
  | e :: es' => let '(st1, o) := rstep st e in let '(st2, os) := rsteps st1 es' in (st2, o :: os)
  end.

(* ---- sender calls *)
(* WEIo: a file system error; never produced by the model (file I/O assumed reliable) *)
Inductive werr := WEFinished | WEErrored | WEIo.
Inductive sres := SOk | SErr (e : werr).

(* write up to (excluding) the final send_replace when it awaits file I/O: returns None then *)
Definition write_begin (st : spill) (b : B) (total : N) : spill * option sres :=
  match sp_state st with
  | SFinished _ _ => (st, Some (SErr WEFinished))
  | SErrored => (st, Some (SErr WEErrored))
  | SBuffering batches =>
      if (sp_limit st <? total)%N then
        (* AsyncStreamWriter::open (creates/truncates), write the drained batches, then this one *)
        (set_state (set_file st (Some (batches ++ [b]))) (SSpilling (S (length batches))), None)
      else
        (publish (set_state st (SBuffering (batches ++ [b]))), Some SOk)
  | SSpilling n =>
      let fl := match sp_file st with Some fl => fl | None => [] end in
      (set_state (set_file st (Some (fl ++ [b]))) (SSpilling (S n)), None)
  end.

(* finish up to the await of writer.finish(): returns the batches_written it holds then *)
Definition finish_begin (st : spill) : spill * (sres + nat) :=
  match sp_state st with
  | SBuffering batches =>
      (publish (set_state st (SFinished (Some batches) (length batches))), inl SOk)
  | SSpilling n => (set_state st (SFinished None 0), inr n)        (* tmp_state while awaiting *)
  | SFinished _ _ => (set_state st (SFinished None 0), inl (SErr WEFinished))   (* tmp_state stays *)
  | SErrored => (set_state st (SFinished None 0), inl (SErr WEErrored))
  end.

Inductive event :=
| EWrite (b : B) (total : N) (awaited : bool) (during : list revent)
| EFinish (awaited : bool) (during : list revent)
| ESendError
| EDrop
| ERead (e : revent).

Inductive obs :=
| OWrite (r : sres) (file_exists : bool) (during : list robs)
| OFinish (r : sres) (during : list robs)
| OSent
| ODropped
| OGone                           (* a sender call after the sender was dropped: not executable *)
| ORead (o : robs).

Definition file_exists (st : spill) : bool := match sp_file st with Some _ => true | None => false end.

Definition step (st : spill) (e : event) : spill * obs :=
  match e with
  | ERead re => let '(st', o) := rstep st re in (st', ORead o)
  | EWrite b total awaited during =>
      if negb (sp_alive st) then (st, OGone)
      else
        let '(st1, r) := write_begin st b total in
        match r with
        | Some res => let '(st2, os) := rsteps st1 during in (st2, OWrite res (file_exists st2) os)
        | None =>
            if awaited then
              let '(st2, os) := rsteps st1 during in
              let st3 := publish st2 in (st3, OWrite SOk (file_exists st3) os)
            else
              let '(st2, os) := rsteps (publish st1) during in (st2, OWrite SOk (file_exists st2) os)
        end
  | EFinish awaited during =>
      if negb (sp_alive st) then (st, OGone)
      else
        let '(st1, r) := finish_begin st in
        match r with
        | inl res => let '(st2, os) := rsteps st1 during in (st2, OFinish res os)
        | inr n =>
            if awaited then
              let '(st2, os) := rsteps st1 during in
              (publish (set_state st2 (SFinished None n)), OFinish SOk os)
            else
              let '(st2, os) := rsteps (publish (set_state st1 (SFinished None n))) during in
              (st2, OFinish SOk os)
        end
  | ESendError =>
      if negb (sp_alive st) then (st, OGone)
      else (publish (set_state st SErrored), OSent)
  | EDrop => (set_alive st false, ODropped)
  end.

Fixpoint run (st : spill) (es : list event) : spill * list obs :=
  match es with
  | [] => (st, [])
  | e :: es' => let '(st1, o) := step st e in let '(st2, os) := run st1 es' in (st2, o :: os)
  end.

(* ---- specification vocabulary: what a trace (schedule + observations) wrote and delivered *)
(* the batch of a write that returned Ok *)
Definition ev_written (e : event) (o : obs) : list B :=
  match e, o with
  | EWrite b _ _ _, OWrite SOk _ _ => [b]
  | _, _ => []
  end.
Fixpoint written (es : list event) (os : list obs) : list B :=
  match es, os with
  | e :: es', o :: os' => ev_written e o ++ written es' os'
  | _, _ => []
  end.
(* the batches reader k's stream yielded *)
Fixpoint rdelivered (k : nat) (es : list revent) (os : list robs) : list B :=
  match es, os with
  | RPoll j :: es', OBatch b :: os' => if j =? k then b :: rdelivered k es' os' else rdelivered k es' os'
  | _ :: es', _ :: os' => rdelivered k es' os'
  | _, _ => []
  end.
Definition ev_delivered (k : nat) (e : event) (o : obs) : list B :=
  match e, o with
  | ERead re, ORead ro => rdelivered k [re] [ro]
  | EWrite _ _ _ d, OWrite _ _ os => rdelivered k d os
  | EFinish _ d, OFinish _ os => rdelivered k d os
  | _, _ => []
  end.
Fixpoint delivered (k : nat) (es : list event) (os : list obs) : list B :=
  match es, os with
  | e :: es', o :: os' => ev_delivered k e o ++ delivered k es' os'
  | _, _ => []
  end.
(* SpillReader::batches_read of reader k (0 when there is no such reader) *)
Definition nread (st : spill) (k : nat) : nat :=
  match nth_error (sp_readers st) k with Some r => rd_read r | None => 0 end.

End Spill.

Arguments sstate B : clear implicits.
Arguments dataloc B : clear implicits.
Arguments wstatus B : clear implicits.
Arguments spill B : clear implicits.
Arguments robs B : clear implicits.
Arguments event B : clear implicits.
Arguments obs B : clear implicits.

(* ------------------------------------------------------------------ correspondence checker *)
Definition rerr_eqb (a b : rerr) : bool :=
  match a, b with RESent, RESent | REDropped, REDropped | REIo, REIo => true | _, _ => false end.

Definition robs_eqb {B} (eqb : B -> B -> bool) (a b : robs B) : bool :=
  match a, b with
  | OOpened, OOpened | OPending, OPending | OEnd, OEnd | ONoReader, ONoReader => true
  | OBatch x, OBatch y => eqb x y
  | OErrR x, OErrR y => rerr_eqb x y
  | _, _ => false
  end.

Definition sres_eqb (a b : sres) : bool :=
  match a, b with
  | SOk, SOk => true
  | SErr WEFinished, SErr WEFinished | SErr WEErrored, SErr WEErrored | SErr WEIo, SErr WEIo => true
  | _, _ => false
  end.

Definition obs_eqb {B} (eqb : B -> B -> bool) (a b : obs B) : bool :=
  match a, b with
  | OWrite r f d, OWrite r' f' d' => sres_eqb r r' && Bool.eqb f f' && list_eqb (robs_eqb eqb) d d'
  | OFinish r d, OFinish r' d' => sres_eqb r r' && list_eqb (robs_eqb eqb) d d'
  | OSent, OSent | ODropped, ODropped | OGone, OGone => true
  | ORead x, ORead y => robs_eqb eqb x y
  | _, _ => false
  end.

(* input: memory limit and the scripted schedule (batches = their rows); output: what the real
   SpillSender / streams returned, event by event.  IPC round trip taken as the identity. *)
Definition chk_spill (i : N * list (event (list N))) (o : list (obs (list N))) : bool :=
  list_eqb (obs_eqb (list_eqb N.eqb)) (snd (run (fun b => b) (init (fst i)) (snd i))) o.
