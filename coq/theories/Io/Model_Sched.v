(* Model of rust/lance-io/src/scheduler.rs (FileScheduler::submit_request, ScanScheduler batch
   assembly, IoQueueState) and rust/lance-file/src/io.rs (LanceEncodingsIo::submit_request).
   Executable definitions only.  Debug-build semantics: u64/usize overflow, underflow, index out
   of bounds, Bytes::slice assertion and division by zero are [Panic]. *)
From LanceV Require Import Common.Base.
Local Open Scope N_scope.

(* ------------------------------------------------------------------------------------------ *)
(* 1. Ranges, files, Bytes                                                                    *)
(* ------------------------------------------------------------------------------------------ *)

(* Range<u64> = (start, end).  start > end is representable in Rust (an "empty" range). *)
Definition range := (N * N)%type.
Definition bytes := list N.

Definition r_is_empty (r : range) : bool := negb (fst r <? snd r).   (* Range::is_empty *)
Definition blen (b : bytes) : N := N.of_nat (length b).

(* the file's bytes for [s, e) -- the specification side of the property *)
Definition slice (f : bytes) (r : range) : bytes :=
  firstn (N.to_nat (snd r - fst r)) (skipn (N.to_nat (fst r)) f).

(* Bytes::slice(a..b): asserts a <= b and b <= len *)
Definition bytes_slice (b : bytes) (a e : N) : outcome bytes :=
  if e <? a then Panic else if blen b <? e then Panic
  else Ok (firstn (N.to_nat (e - a)) (skipn (N.to_nat a) b)).

(* checked u64 arithmetic *)
Definition sub_chk (a b : N) : outcome N := if a <? b then Panic else Ok (a - b).
Definition add_chk (a b : N) : outcome N := if two64 <=? a + b then Panic else Ok (a + b).

Definition bind {A B} (x : outcome A) (k : A -> outcome B) : outcome B :=
  match x with Ok a => k a | Err => Err | Panic => Panic end.
Notation "'do' x <- e ;; k" := (bind e (fun x => k)) (at level 200, x ident, e at level 100, k at level 200).

(* ------------------------------------------------------------------------------------------ *)
(* 2. FileScheduler::submit_request, synchronous part                                         *)
(* ------------------------------------------------------------------------------------------ *)

(* range2.start <= range1.end + block_size  (the addition is checked in debug builds) *)
Definition is_close_together (r1 r2 : range) (bs : N) : outcome bool :=
  do lim <- add_chk (snd r1) bs ;; Ok (fst r2 <=? lim).

Definition is_overlapping (r1 r2 : range) : bool := (fst r1 <? snd r2) && (fst r2 <? snd r1).

(* the coalescing loop: [cur] is curr_interval, [rest] the requests not yet looked at *)
Fixpoint coalesce_go (bs : N) (cur : range) (rest : list range) : outcome (list range) :=
  match rest with
  | [] => Ok [cur]
  | r :: rest' =>
      do c <- is_close_together cur r bs ;;
      if c then coalesce_go bs (fst cur, N.max (snd cur) (snd r)) rest'
      else do tl <- coalesce_go bs r rest' ;; Ok (cur :: tl)
  end.

Definition coalesce (bs : N) (rs : list range) : outcome (list range) :=
  match rs with [] => Ok [] | r :: rest => coalesce_go bs r rest end.

Definition div_ceil (a b : N) : N := a / b + (if a mod b =? 0 then 0 else 1).

(* for i in 0..num_requests: [k] iterations left, [start] = req.start + i * bytes_per_request *)
Fixpoint pieces (k : nat) (start bpr e : N) : list range :=
  match k with
  | O => []
  | S O => [(start, e)]
  | S k' => (start, start + bpr) :: pieces k' (start + bpr) bpr e
  end.

Definition split_one (mx : N) (r : range) : outcome (list range) :=
  if r_is_empty r then Ok [r]
  else if mx =? 0 then Panic                       (* div_ceil by zero *)
  else
    let size := snd r - fst r in
    let n := div_ceil size mx in
    let bpr := size / n in
    Ok (pieces (N.to_nat n) (fst r) bpr (snd r)).

Fixpoint split_all (mx : N) (ms : list range) : outcome (list range) :=
  match ms with
  | [] => Ok []
  | m :: ms' => do p <- split_one mx m ;; do tl <- split_all mx ms' ;; Ok (p ++ tl)
  end.

(* StatsCollector::record_request / do_submit_request compute r.end - r.start for every issued
   range; an "empty" range with start > end underflows. *)
Definition sizes_chk (us : list range) : outcome (list N) :=
  fold_right (fun u acc => do n <- sub_chk (snd u) (fst u) ;; do tl <- acc ;; Ok (n :: tl)) (Ok []) us.

(* updated_requests *)
Definition updated_requests (bs mx : N) (rs : list range) : outcome (list range) :=
  do merged <- coalesce bs rs ;;
  do upd <- split_all mx merged ;;
  do _s <- sizes_chk upd ;;
  Ok upd.

(* ------------------------------------------------------------------------------------------ *)
(* 3. ScanScheduler::submit_request: one buffer per issued range (MutableBatch)               *)
(* ------------------------------------------------------------------------------------------ *)

(* IoTask::run: start == end gives Bytes::new() without touching the reader; otherwise
   reader.get_range.  The reader is modelled as returning the file's bytes (ranges inside the
   file; anything else is outside the model's domain, see [in_file]). [fail] marks reads for
   which the store returns an error: the batch then resolves to Err. *)
Definition read_one (f : bytes) (fail : range -> bool) (u : range) : outcome bytes :=
  if fst u =? snd u then Ok [] else if fail u then Err else Ok (slice f u).

Fixpoint read_all (f : bytes) (fail : range -> bool) (us : list range) : outcome (list (range * bytes)) :=
  match us with
  | [] => Ok []
  | u :: us' =>
      (* every task runs; an error is kept and reported when the batch is dropped *)
      match read_one f fail u, read_all f fail us' with
      | Ok b, Ok tl => Ok ((u, b) :: tl)
      | Panic, _ | _, Panic => Panic
      | _, _ => Err
      end
  end.

(* ------------------------------------------------------------------------------------------ *)
(* 4. FileScheduler::submit_request, the un-coalescing walk                                   *)
(* ------------------------------------------------------------------------------------------ *)

(* inner `while copy_offset < orig_size`: [cur] = updated_requests[updated_index] (with its
   buffer), [us] = the entries after it.  Returns the merged buffer and the list starting at the
   new updated_index. *)
Fixpoint copy_loop (orig_size copy_offset : N) (acc : bytes) (cur : range * bytes)
         (us : list (range * bytes)) : outcome (bytes * list (range * bytes)) :=
  if copy_offset <? orig_size then
    match us with
    | [] => Panic                                   (* updated_requests[updated_index] out of bounds *)
    | nx :: us' =>
        let take := N.min (orig_size - copy_offset) (snd (fst nx) - fst (fst nx)) in
        do piece <- bytes_slice (snd nx) 0 take ;;
        copy_loop orig_size (copy_offset + take) (acc ++ piece) nx us'
    end
  else Ok (acc, cur :: us).

(* one request range [o] against the current position: skips non-overlapping issued ranges;
   returns None when the issued ranges run out (the outer while ends) *)
Fixpoint find_and_take (o : range) (us : list (range * bytes))
  : outcome (option (bytes * list (range * bytes))) :=
  match us with
  | [] => Ok None
  | (u, ub) :: us' =>
      if is_overlapping u o then
        do start <- sub_chk (fst o) (fst u) ;;              (* orig_range.start - byte_offset *)
        if snd o <=? snd u then
          do e <- sub_chk (snd o) (fst u) ;;
          do b <- bytes_slice ub start e ;;
          Ok (Some (b, us))
        else
          let orig_size := snd o - fst o in
          do first <- bytes_slice ub start (blen ub) ;;     (* slice(start..) *)
          do r <- copy_loop orig_size (blen first) first (u, ub) us' ;;
          Ok (Some r)
      else find_and_take o us'
  end.

Fixpoint walk (os : list range) (us : list (range * bytes)) : outcome (list bytes) :=
  match os with
  | [] => Ok []
  | o :: os' =>
      do r <- find_and_take o us ;;
      match r with
      | None => Ok []
      | Some (b, us1) => do tl <- walk os' us1 ;; Ok (b :: tl)
      end
  end.

(* The whole of FileScheduler::submit_request on file [f], block size [bs], max iop size [mx]. *)
Definition submit_request_f (f : bytes) (fail : range -> bool) (bs mx : N) (rs : list range)
  : outcome (list bytes) :=
  do upd <- updated_requests bs mx rs ;;
  do bufs <- read_all f fail upd ;;
  walk rs bufs.

Definition no_fail (_ : range) : bool := false.
Definition submit_request (f : bytes) (bs mx : N) (rs : list range) : outcome (list bytes) :=
  submit_request_f f no_fail bs mx rs.

(* ------------------------------------------------------------------------------------------ *)
(* 5. LanceEncodingsIo::submit_request (rust/lance-file/src/io.rs): chunk, submit, reassemble  *)
(* ------------------------------------------------------------------------------------------ *)

(* one input range -> its chunks (each tagged with the index of the range it came from) *)
Definition chunk_one (chunk : N) (r : range) : outcome (list range) :=
  do size <- sub_chk (snd r) (fst r) ;;
  if chunk <? size then
    if chunk =? 0 then Panic
    else
      let n := div_ceil size chunk in
      let csz := size / n in
      Ok (pieces (N.to_nat n) (fst r) csz (snd r))
  else Ok [r].

Fixpoint chunk_all (chunk : N) (idx : N) (rs : list range) : outcome (list (range * N)) :=
  match rs with
  | [] => Ok []
  | r :: rs' =>
      do p <- chunk_one chunk r ;;
      do tl <- chunk_all chunk (idx + 1) rs' ;;
      Ok (map (fun c => (c, idx)) p ++ tl)
  end.

(* results[orig_idx].push(split_result) over zip(split_results, split_indices), then concat *)
Definition gather (idx : N) (res : list (bytes * N)) : bytes :=
  concat (map fst (filter (fun p => snd p =? idx) res)).

Fixpoint N_seq (start : N) (len : nat) : list N :=
  match len with O => [] | S l => start :: N_seq (start + 1) l end.

Definition reassemble (nranges : nat) (split_results : list bytes) (split_indices : list N) : list bytes :=
  if Nat.eqb (length split_results) nranges then split_results       (* fast path *)
  else
    let z := combine split_results split_indices in
    map (fun i => gather i z) (N_seq 0 nranges).

Definition encodings_io_submit (f : bytes) (bs mx chunk : N) (rs : list range) : outcome (list bytes) :=
  do tagged <- chunk_all chunk 0 rs ;;
  do res <- submit_request f bs mx (map fst tagged) ;;
  Ok (reassemble (length rs) res (map snd tagged)).

(* ------------------------------------------------------------------------------------------ *)
(* 6. Domain of the bytes-exact theorem and the known-finding class                           *)
(* ------------------------------------------------------------------------------------------ *)

Definition in_file (f : bytes) (rs : list range) : bool := forallb (fun r => snd r <=? blen f) rs.

Fixpoint starts_sorted (rs : list range) : bool :=
  match rs with
  | [] => true
  | r :: rs' => forallb (fun r' => fst r <=? fst r') rs' && starts_sorted rs'
  end.

Definition all_nonempty (rs : list range) : bool := forallb (fun r => fst r <? snd r) rs.

(* [o] lies inside a single issued range of [us] (position found as the walk finds it) *)
Fixpoint single_piece (us : list range) (o : range) : bool :=
  match us with
  | [] => false
  | u :: us' =>
      if (fst u <=? fst o) && (fst o <? snd u) then snd o <=? snd u
      else (snd u <=? fst o) && single_piece us' o
  end.

(* every request that straddles a split point ends before all later requests start *)
Fixpoint straddle_ok (us : list range) (rs : list range) : bool :=
  match rs with
  | [] => true
  | r :: rs' => (single_piece us r || forallb (fun r' => snd r <=? fst r') rs') && straddle_ok us rs'
  end.

(* The domain on which C30_bytes_exact is proved.  u64: every bound (plus block size) fits. *)
Definition Dom_C30 (bs mx : N) (rs : list range) : bool :=
  (0 <? mx) && starts_sorted rs && all_nonempty rs
  && forallb (fun r => snd r + bs <? two64) rs
  && match updated_requests bs mx rs with
     | Ok us => straddle_ok us rs
     | _ => false
     end.

(* the class of finding F8: everything outside the proved domain *)
Definition Known_C30_request_shape (bs mx : N) (rs : list range) : bool := negb (Dom_C30 bs mx rs).

(* the simpler sufficient condition of DESIGN.md: disjoint, or nothing is split *)
Fixpoint disjoint_sorted (rs : list range) : bool :=
  match rs with
  | [] => true
  | r :: rs' => forallb (fun r' => snd r <=? fst r') rs' && disjoint_sorted rs'
  end.

Definition no_split (bs mx : N) (rs : list range) : bool :=
  match coalesce bs rs with
  | Ok ms => forallb (fun m => snd m - fst m <=? mx) ms
  | _ => false
  end.

Definition Dom_C30_simple (bs mx : N) (rs : list range) : bool :=
  (0 <? mx) && starts_sorted rs && all_nonempty rs
  && forallb (fun r => snd r + bs <? two64) rs
  && (disjoint_sorted rs || no_split bs mx rs).

(* the property itself, as a boolean on a model result *)
Definition bytes_eqb : bytes -> bytes -> bool := list_eqb N.eqb.
Definition exact_result (f : bytes) (rs : list range) (res : outcome (list bytes)) : bool :=
  match res with
  | Ok bufs => list_eqb bytes_eqb bufs (map (slice f) rs)
  | _ => false
  end.

(* ------------------------------------------------------------------------------------------ *)
(* 7. IoQueueState / IoQueue and the life cycle of a batch of I/O tasks                        *)
(* ------------------------------------------------------------------------------------------ *)

(* IoTask as the queue sees it: priority (u128), num_bytes, and (ghost) the batch it belongs to *)
Record task := mk_task { t_prio : N; t_bytes : N; t_batch : N }.

Record qstate := mk_q {
  q_iops : N;                 (* iops_avail : u32 *)
  q_bytes : Z;                (* bytes_avail : i64, may dip below 0 *)
  q_pending : list task;      (* pending_requests (BinaryHeap, min-priority first) *)
  q_inflight : list N;        (* priorities_in_flight.in_flight, kept sorted *)
  q_done : bool }.            (* done_scheduling *)

Definition u128_max : N := 340282366920938463463374607431768211455.
Definition as_i64 (n : N) : Z :=                       (* `x as i64` for a u64 *)
  if n <? 9223372036854775808 then Z.of_N n else (Z.of_N n - 18446744073709551616)%Z.

Definition q_new (io_capacity buffer : N) : qstate := mk_q io_capacity (as_i64 buffer) [] [] false.

Definition min_in_flight (l : list N) : N := match l with [] => u128_max | p :: _ => p end.

(* PrioritiesInFlight::push: binary search, insert at the position found: a sorted insert *)
Fixpoint pif_push (p : N) (l : list N) : list N :=
  match l with
  | [] => [p]
  | x :: l' => if p <=? x then p :: l else x :: pif_push p l'
  end.
(* PrioritiesInFlight::remove: binary search, remove one occurrence if found *)
Fixpoint pif_remove (p : N) (l : list N) : list N :=
  match l with
  | [] => []
  | x :: l' => if p =? x then l' else x :: pif_remove p l'
  end.
Fixpoint pif_remove_n (n : nat) (p : N) (l : list N) : list N :=
  match n with O => l | S n' => pif_remove_n n' p (pif_remove p l) end.

(* One admissible BinaryHeap: the leftmost task of minimal priority (ties are heap-internal in
   Rust; the theorems are proved for every tie-breaking, see Proofs_Sched.Queue) *)
Fixpoint min_prio (l : list task) : option N :=
  match l with
  | [] => None
  | t :: l' => match min_prio l' with None => Some (t_prio t) | Some m => Some (N.min (t_prio t) m) end
  end.
Fixpoint take_prio (p : N) (l : list task) : option (task * list task) :=
  match l with
  | [] => None
  | t :: l' => if t_prio t =? p then Some (t, l')
               else match take_prio p l' with Some (x, r) => Some (x, t :: r) | None => None end
  end.
Definition pick_leftmost (l : list task) : option (task * list task) :=
  match min_prio l with None => None | Some p => take_prio p l end.

Section Queue.
  (* peek/pop of the BinaryHeap: some task of minimal priority and the remaining tasks *)
  Variable pick : list task -> option (task * list task).

  Definition can_deliver (q : qstate) (t : task) : bool :=
    if q_iops q =? 0 then false
    else if t_prio t <=? min_in_flight (q_inflight q) then true
    else if (q_bytes q <? as_i64 (t_bytes t))%Z then false
    else true.

  Definition next_task (q : qstate) : option (task * qstate) :=
    match pick (q_pending q) with
    | None => None
    | Some (t, rest) =>
        if can_deliver q t then
          Some (t, mk_q (q_iops q - 1) (q_bytes q - as_i64 (t_bytes t))%Z rest
                        (pif_push (t_prio t) (q_inflight q)) (q_done q))
        else None
    end.

  Definition q_push (q : qstate) (t : task) : qstate :=
    mk_q (q_iops q) (q_bytes q) (q_pending q ++ [t]) (q_inflight q) (q_done q).
  Definition on_iop_complete (q : qstate) : qstate :=
    mk_q (q_iops q + 1) (q_bytes q) (q_pending q) (q_inflight q) (q_done q).
  Definition on_bytes_consumed (q : qstate) (nbytes prio : N) (num_reqs : nat) : qstate :=
    mk_q (q_iops q) (q_bytes q + as_i64 nbytes)%Z (q_pending q)
         (pif_remove_n num_reqs prio (q_inflight q)) (q_done q).
  (* close: returns the cancelled tasks *)
  Definition q_close (q : qstate) : qstate * list task :=
    (mk_q (q_iops q) (q_bytes q) [] (q_inflight q) true, q_pending q).

  (* A batch = one ScanScheduler::submit_request: MutableBatch + the oneshot response. *)
  Record batch := mk_batch {
    b_id : N; b_prio : N;
    b_nreq : nat;          (* num_reqs *)
    b_deliv : nat;         (* ghost: tasks handed to the I/O loop so far *)
    b_fin : nat;           (* tasks whose when_done ran (completed or cancelled) *)
    b_bytes : N;           (* MutableBatch.num_bytes *)
    b_err : bool }.        (* err.is_some() *)

  Record sys := mk_sys {
    s_q : qstate;
    s_running : list task;     (* popped by the I/O loop, reader.get_range not finished *)
    s_batches : list batch;    (* submitted, response not yet consumed *)
    s_next : N;                (* ghost: next batch id *)
    s_cancelled : nat }.       (* ghost: tasks cancelled by close *)

  Definition sys_new (cap buf : N) : sys := mk_sys (q_new cap buf) [] [] 0 0.

  Inductive event :=
  | EvSubmit (prio : N) (sizes : list N)   (* do_submit_request: one task per issued range *)
  | EvDeliver                              (* IoQueue::pop succeeds, task spawned *)
  | EvComplete (k : nat)                   (* the k-th running read finishes *)
  | EvConsume (k : nat)                    (* the future of the k-th batch is polled after completion *)
  | EvClose.                               (* ScanScheduler dropped *)

  Definition upd_batch (id : N) (g : batch -> batch) (bs : list batch) : list batch :=
    map (fun b => if b_id b =? id then g b else b) bs.

  Definition b_finished (b : batch) : bool := Nat.eqb (b_fin b) (b_nreq b).

  Fixpoint remove_nth {A} (k : nat) (l : list A) : list A :=
    match l, k with
    | [], _ => []
    | _ :: l', O => l'
    | x :: l', S k' => x :: remove_nth k' l'
    end.

  (* when_done of a task: on_iop_complete, then deliver_data into the batch *)
  Definition finish_task (err : bool) (t : task) (bs : list batch) : list batch :=
    upd_batch (t_batch t)
      (fun b => mk_batch (b_id b) (b_prio b) (b_nreq b) (b_deliv b) (S (b_fin b))
                         (b_bytes b + t_bytes t) (b_err b || err)) bs.

  Definition step (s : sys) (e : event) : option sys :=
    match e with
    | EvSubmit prio sizes =>
        if q_done (s_q s) || (u128_max <? prio) then None      (* priority is a u128 *)
        else
          let id := s_next s in
          let q' := fold_left (fun q sz => q_push q (mk_task prio sz id)) sizes (s_q s) in
          Some (mk_sys q' (s_running s)
                       (s_batches s ++ [mk_batch id prio (length sizes) 0 0 0 false])
                       (id + 1) (s_cancelled s))
    | EvDeliver =>
        match next_task (s_q s) with
        | None => None
        | Some (t, q') =>
            Some (mk_sys q' (t :: s_running s)
                         (upd_batch (t_batch t)
                            (fun b => mk_batch (b_id b) (b_prio b) (b_nreq b) (S (b_deliv b)) (b_fin b)
                                               (b_bytes b) (b_err b)) (s_batches s))
                         (s_next s) (s_cancelled s))
        end
    | EvComplete k =>
        match nth_error (s_running s) k with
        | None => None
        | Some t =>
            Some (mk_sys (on_iop_complete (s_q s)) (remove_nth k (s_running s))
                         (finish_task false t (s_batches s)) (s_next s) (s_cancelled s))
        end
    | EvConsume k =>
        match nth_error (s_batches s) k with
        | None => None
        | Some b =>
            if b_finished b then
              Some (mk_sys (on_bytes_consumed (s_q s) (b_bytes b) (b_prio b) (b_nreq b))
                           (s_running s) (remove_nth k (s_batches s)) (s_next s) (s_cancelled s))
            else None
        end
    | EvClose =>
        if q_done (s_q s) then None
        else
          let '(q', cancelled) := q_close (s_q s) in
          Some (mk_sys (fold_left (fun q _ => on_iop_complete q) cancelled q') (s_running s)
                       (fold_left (fun bs t => finish_task true t bs) cancelled (s_batches s))
                       (s_next s) (s_cancelled s + length cancelled)%nat)
    end.

  Fixpoint run (s : sys) (es : list event) : option sys :=
    match es with
    | [] => Some s
    | e :: es' => match step s e with Some s' => run s' es' | None => None end
    end.
End Queue.

(* ------------------------------------------------------------------------------------------ *)
(* 8. Correspondence checkers (second argument = what the implementation did)                 *)
(* ------------------------------------------------------------------------------------------ *)

(* the harness writes files whose byte at offset i is (i * a + b) mod 256 *)
Definition gen_file (len a b : N) : bytes := map (fun i => (i * a + b) mod 256) (N_seq 0 (N.to_nat len)).

Definition range_leb (x y : range) : bool :=
  (fst x <? fst y) || ((fst x =? fst y) && (snd x <=? snd y)).
Fixpoint range_insert (x : range) (l : list range) : list range :=
  match l with [] => [x] | y :: l' => if range_leb x y then x :: l else y :: range_insert x l' end.
Definition range_sort (l : list range) : list range := fold_right range_insert [] l.
Definition range_eqb (x y : range) : bool := (fst x =? fst y) && (snd x =? snd y).

Definition obytes_eqb : outcome (list bytes) -> outcome (list bytes) -> bool :=
  outcome_eqb (list_eqb bytes_eqb).

(* a read fails iff it covers the poisoned offset *)
Definition fail_at (p : option N) (u : range) : bool :=
  match p with None => false | Some x => (fst u <=? x) && (x <? snd u) end.

(* FileScheduler::submit_request(ranges).await on file (len,a,b), store block size bs, max iop mx *)
Definition chk_submit (i : (N * N * N) * (N * N * option N) * list range) (o : outcome (list bytes)) : bool :=
  let '((len, a, b), (bs, mx, poison), rs) := i in
  obytes_eqb (submit_request_f (gen_file len a b) (fail_at poison) bs mx rs) o.

(* what reached the store: the non-empty issued ranges (sorted), and stats() = (iops, bytes_read) *)
Definition chk_issued (i : (N * N) * list range) (o : list range * (N * N)) : bool :=
  let '((bs, mx), rs) := i in
  let '(reads, (iops, nbytes)) := o in
  match updated_requests bs mx rs with
  | Ok us =>
      list_eqb range_eqb (range_sort (filter (fun u => negb (fst u =? snd u)) us)) reads
      && (N.of_nat (length us) =? iops)
      && (fold_right (fun u acc => snd u - fst u + acc) 0 us =? nbytes)
  | _ => false
  end.

(* LanceEncodingsIo::submit_request with read_chunk_size = chunk *)
Definition chk_encio (i : (N * N * N) * (N * N * N) * list range) (o : outcome (list bytes)) : bool :=
  let '((len, a, b), (bs, mx, chunk), rs) := i in
  obytes_eqb (encodings_io_submit (gen_file len a b) bs mx chunk rs) o.

(* the harness evaluates the class predicate in Rust; it must be the predicate of the theorem *)
Definition chk_class (i : (N * N) * list range) (o : bool) : bool :=
  let '((bs, mx), rs) := i in Bool.eqb (Known_C30_request_shape bs mx rs) o.

(* ------------------------------------------------------------------------------------------ *)
(* 9. Scripted queue correspondence: the harness drives the real ScanScheduler over a gated    *)
(*    store; after every action the I/O loop runs to quiescence (deliver while possible).      *)
(* ------------------------------------------------------------------------------------------ *)
Inductive qev :=
| QSubmit (prio : N) (rs : list range)   (* FileScheduler::submit_request(rs, prio), future kept un-polled *)
| QComplete (batch size : N)             (* the gate releases a held read of that batch and size *)
| QConsume (batch : N)                   (* poll the future of that batch once *)
| QClose.                                (* drop every handle of the scheduler *)

(* observation: the reads held at the gate as (batch, size), sorted; and for QConsume the poll
   result 0 = Pending, 1 = Ready(Ok), 2 = Ready(Err); 3 for the other events *)
Definition qobs := (list (N * N) * N)%type.

Fixpoint saturate (fuel : nat) (s : sys) : sys :=
  match fuel with
  | O => s
  | S fuel' => match step pick_leftmost s EvDeliver with Some s' => saturate fuel' s' | None => s end
  end.
Definition settle (s : sys) : sys := saturate (S (length (q_pending (s_q s)))) s.

Fixpoint find_idx {A} (p : A -> bool) (l : list A) : option nat :=
  match l with
  | [] => None
  | x :: l' => if p x then Some O else option_map S (find_idx p l')
  end.

Definition nn_leb (x y : N * N) : bool := (fst x <? fst y) || ((fst x =? fst y) && (snd x <=? snd y)).
Fixpoint nn_insert (x : N * N) (l : list (N * N)) : list (N * N) :=
  match l with [] => [x] | y :: l' => if nn_leb x y then x :: l else y :: nn_insert x l' end.
Definition running_obs (s : sys) : list (N * N) :=
  fold_right nn_insert [] (map (fun t => (t_batch t, t_bytes t)) (s_running s)).

(* one scripted action; None = the script is not executable on the model (a disagreement) *)
Definition qstep (bs mx : N) (s : sys) (e : qev) : option (sys * qobs) :=
  match e with
  | QSubmit prio rs =>
      match updated_requests bs mx rs with
      | Ok us =>
          match step pick_leftmost s (EvSubmit prio (map (fun u => snd u - fst u) us)) with
          | Some s1 => let s2 := settle s1 in Some (s2, (running_obs s2, 3))
          | None => None
          end
      | _ => None
      end
  | QComplete b sz =>
      match find_idx (fun t => (t_batch t =? b) && (t_bytes t =? sz)) (s_running s) with
      | Some k =>
          match step pick_leftmost s (EvComplete k) with
          | Some s1 => let s2 := settle s1 in Some (s2, (running_obs s2, 3))
          | None => None
          end
      | None => None
      end
  | QConsume b =>
      match find_idx (fun x => b_id x =? b) (s_batches s) with
      | Some k =>
          match nth_error (s_batches s) k with
          | Some x =>
              if b_finished x then
                match step pick_leftmost s (EvConsume k) with
                | Some s1 => let s2 := settle s1 in Some (s2, (running_obs s2, if b_err x then 2 else 1))
                | None => None
                end
              else Some (s, (running_obs s, 0))
          | None => None
          end
      | None => None
      end
  | QClose =>
      match step pick_leftmost s EvClose with
      | Some s1 => let s2 := settle s1 in Some (s2, (running_obs s2, 3))
      | None => None
      end
  end.

Fixpoint qrun (bs mx : N) (s : sys) (es : list qev) : option (list qobs) :=
  match es with
  | [] => Some []
  | e :: es' =>
      match qstep bs mx s e with
      | Some (s', o) => match qrun bs mx s' es' with Some os => Some (o :: os) | None => None end
      | None => None
      end
  end.

Definition qobs_eqb (x y : qobs) : bool :=
  list_eqb (fun a b => (fst a =? fst b) && (snd a =? snd b)) (fst x) (fst y) && (snd x =? snd y).

(* input: ((io_capacity, io_buffer_size), (block size, max iop size), script) *)
Definition chk_queue (i : (N * N) * (N * N) * list qev) (o : list qobs) : bool :=
  let '((cap, buf), (bs, mx), es) := i in
  match qrun bs mx (sys_new cap buf) es with
  | Some os => list_eqb qobs_eqb os o
  | None => false
  end.
