(* Proofs about Io/Model_ObjectWriter.v (C31). *)
From LanceV Require Import Common.Base Io.Model_ObjectWriter.
Local Open Scope N_scope.

(* What the writer may assume of byte strings.  Lists satisfy it, and so do bare lengths. *)
Record bstr_laws {B : Type} (A : bstr B) : Prop := {
  law_len_app : forall a b, bs_len A (bs_app A a b) = bs_len A a + bs_len A b;
  law_len_empty : bs_len A (bs_empty A) = 0;
  law_app_assoc : forall a b d, bs_app A (bs_app A a b) d = bs_app A a (bs_app A b d);
  law_app_empty_l : forall a, bs_app A (bs_empty A) a = a;
  law_app_empty_r : forall a, bs_app A a (bs_empty A) = a;
  law_len_zero : forall a, bs_len A a = 0 -> a = bs_empty A;
  law_len_take : forall n a, bs_len A (bs_take A n a) = N.min n (bs_len A a)
}.

Lemma bs_list_laws (T : Type) : bstr_laws (bs_list T).
Proof.
  split; cbn; intros.
  - rewrite app_length. lia.
  - reflexivity.
  - symmetry; apply app_assoc.
  - reflexivity.
  - apply app_nil_r.
  - destruct a; [reflexivity | cbn in H; lia].
  - rewrite firstn_length. lia.
Qed.

Lemma bs_size_laws : bstr_laws bs_size.
Proof. split; cbn; intros; lia. Qed.

(* events that make an object visible; events that are faults; the class of the known finding *)
Definition committed {B} (e : event B) : bool :=
  match e with EvPut true | EvComplete true => true | _ => false end.
Definition is_shutdown {B} (e : event B) : bool :=
  match e with EvShutdown => true | _ => false end.
Definition is_reset {B} (e : event B) : bool :=
  match e with EvFinish _ RErrReset => true | _ => false end.
Definition is_fault {B} (e : event B) : bool :=
  match e with
  | EvFinish _ RErrOther | EvCreate false | EvPut false | EvComplete false | EvAbort _ | EvDrop _ => true
  | _ => false
  end.

Section Proofs.
Variable B : Type.
Variable A : bstr B.
Variable c : cfg.

Local Notation state := (state B).
Local Notation step := (step B A c).
Local Notation run := (run B A c).
Local Notation poll_tasks := (poll_tasks B A).
Local Notation drain := (drain B).
Local Notation spawn := (spawn B).
Local Notation shutdown_loop := (shutdown_loop B A).

Ltac unf := unfold Model_ObjectWriter.spawn, close in *; unfold set_ph, set_poisoned, set_shut, set_buf, set_resets, set_tasks, set_store in *; cbn [ph poisoned shut buf cap cursor resets running ready calls failed n_create put_data n_complete n_abort obj] in *.

(* ------------------------------------------------------------------------------------------ *)
(* 1. What the writer's own code never touches                                                *)
(* ------------------------------------------------------------------------------------------ *)

(* fields of the store that only store events change, and the flags only [step] changes *)
Definition wframe (s s' : state) : Prop :=
  obj s' = obj s /\ failed s' = failed s /\ poisoned s' = poisoned s /\ shut s' = shut s.

Lemma wframe_refl s : wframe s s.
Proof. repeat split. Qed.
Lemma wframe_trans s1 s2 s3 : wframe s1 s2 -> wframe s2 s3 -> wframe s1 s3.
Proof. unfold wframe; intros (?&?&?&?) (?&?&?&?); repeat split; congruence. Qed.

Lemma drain_frame q : forall s s' b, drain c q s = (s', b) -> wframe s s' /\ ph s' = ph s.
Proof.
  induction q as [|[t r] q IH]; intros s s' b H; cbn [Model_ObjectWriter.drain] in H.
  - inversion H; subst; unf; repeat split.
  - destruct r.
    + eauto.
    + inversion H; subst; unf; repeat split.
    + destruct (resets s <? c_maxretry c).
      * apply IH in H. destruct H as [(?&?&?&?) Hp]; unf. repeat split; assumption.
      * inversion H; subst; unf; repeat split.
Qed.

Lemma poll_tasks_frame fuel : forall s,
  match poll_tasks fuel c s with
  | TOk _ s' | TErr _ s' => wframe s s'
  | TFuel _ => True
  end.
Proof.
  induction fuel as [|f IH]; intro s; cbn [Model_ObjectWriter.poll_tasks]; [exact I|].
  destruct (ph s) as [|g|p|d g|g| |] eqn:Hp; try apply wframe_refl.
  - destruct g; try apply wframe_refl.
    match goal with |- match poll_tasks f c ?x with _ => _ end => specialize (IH x); destruct (poll_tasks f c x) end;
      try exact I; (eapply wframe_trans; [|exact IH]); unf; repeat split.
  - destruct (drain c (ready s) s) as [s1 ok] eqn:Hd. apply drain_frame in Hd as [Hf _].
    destruct ok; exact Hf.
  - destruct g; try apply wframe_refl.
    match goal with |- match poll_tasks f c ?x with _ => _ end => specialize (IH x); destruct (poll_tasks f c x) end;
      try exact I; (eapply wframe_trans; [|exact IH]); unf; repeat split.
  - destruct g; try apply wframe_refl.
    match goal with |- match poll_tasks f c ?x with _ => _ end => specialize (IH x); destruct (poll_tasks f c x) end;
      try exact I; (eapply wframe_trans; [|exact IH]); unf; repeat split.
Qed.

(* the phase in which poll_tasks reports an error *)
Definition err_phase (s : state) : Prop :=
  ph s = Creating GErr \/ (exists p, ph s = InProgress p) \/ (exists d, ph s = PuttingSingle d GErr) \/ ph s = Completing GErr.

Lemma poll_tasks_err fuel : forall s s', poll_tasks fuel c s = TErr _ s' -> err_phase s'.
Proof.
  induction fuel as [|f IH]; intros s s' H; cbn [Model_ObjectWriter.poll_tasks] in H; [discriminate|].
  destruct (ph s) as [|g|p|d g|g| |] eqn:Hp; try discriminate.
  - destruct g; try discriminate.
    + eauto.
    + inversion H; subst. left; assumption.
  - destruct (drain c (ready s) s) as [s1 ok] eqn:Hd. apply drain_frame in Hd as [_ Hph].
    destruct ok; inversion H; subst. right; left. exists p. congruence.
  - destruct g; try discriminate; [eauto|]. inversion H; subst. right; right; left; eauto.
  - destruct g; try discriminate; [eauto|]. inversion H; subst. right; right; right; assumption.
Qed.

(* ------------------------------------------------------------------------------------------ *)
(* 2. Polls never change what is visible                                                      *)
(* ------------------------------------------------------------------------------------------ *)

Definition sframe (s s' : state) : Prop := obj s' = obj s /\ failed s' = failed s /\ shut s' = shut s.

Lemma wframe_sframe s s' : wframe s s' -> sframe s s'.
Proof. intros (?&?&?&?); repeat split; assumption. Qed.
Lemma sframe_trans s1 s2 s3 : sframe s1 s2 -> sframe s2 s3 -> sframe s1 s3.
Proof. unfold sframe; intros (?&?&?) (?&?&?); repeat split; congruence. Qed.
Lemma sframe_refl s : sframe s s.
Proof. repeat split. Qed.

Lemma poll_write_sframe s d : sframe s (fst (poll_write B A c s d)).
Proof.
  unfold poll_write. pose proof (poll_tasks_frame tasks_fuel s) as H1.
  destruct (poll_tasks tasks_fuel c s) as [s1|s1|]; cbn [fst].
  2:{ apply wframe_sframe in H1. exact H1. }
  2:{ apply sframe_refl. }
  apply wframe_sframe in H1.
  set (k := N.min (cap s1 - bs_len A (buf s1)) (bs_len A d)).
  set (s2 := set_buf B s1 (bs_app A (buf s1) (bs_take A k d)) (cap s1) (cursor s1 + k)).
  assert (H2 : sframe s s2) by exact H1.
  match goal with |- context [match ?r with Ok s3 => _ | _ => _ end] => set (r3 := r) end.
  assert (H3 : match r3 with Ok s3 => sframe s s3 | _ => True end).
  { subst r3. destruct (cap s2 =? bs_len A (buf s2)); [|exact H2].
    destruct (ph s2) as [|g|p|dd g|g| |]; try exact H2.
    destruct (nfut B s2 <? c_maxpar c); [|exact H2].
    destruct (p + 1 <? 65536); [exact H2|exact I]. }
  destruct r3 as [s3| |]; cbn [fst]; try exact H2.
  pose proof (poll_tasks_frame tasks_fuel s3) as H4.
  destruct (poll_tasks tasks_fuel c s3) as [s4|s4|]; cbn [fst]; try exact H3.
  - eapply sframe_trans; [exact H3| apply wframe_sframe; exact H4].
  - apply wframe_sframe in H4. eapply sframe_trans; [exact H3|exact H4].
Qed.

Lemma poll_flush_sframe s : sframe s (fst (poll_flush B A c s)).
Proof.
  unfold poll_flush. pose proof (poll_tasks_frame tasks_fuel s) as H1.
  destruct (poll_tasks tasks_fuel c s) as [s1|s1|]; cbn [fst].
  - apply wframe_sframe in H1. destruct (ph s1); try destruct (nfut B s1 =? 0); exact H1.
  - apply wframe_sframe in H1. exact H1.
  - apply sframe_refl.
Qed.

Lemma shutdown_loop_sframe fuel : forall s, sframe s (fst (shutdown_loop fuel c s)).
Proof.
  induction fuel as [|f IH]; intro s; cbn [Model_ObjectWriter.shutdown_loop fst]; [apply sframe_refl|].
  pose proof (poll_tasks_frame tasks_fuel s) as H1.
  destruct (poll_tasks tasks_fuel c s) as [s1|s1|]; cbn [fst].
  2:{ apply wframe_sframe in H1. exact H1. }
  2:{ apply sframe_refl. }
  apply wframe_sframe in H1.
  destruct (ph s1) as [|g|p|dd g|g| |]; cbn [fst]; try exact H1.
  - eapply sframe_trans; [|apply IH]. exact H1.
  - destruct (negb (bs_len A (buf s1) =? 0) && (nfut B s1 <? c_maxpar c)).
    + eapply sframe_trans; [|apply IH]. exact H1.
    + destruct (nfut B s1 =? 0); cbn [fst]; [|exact H1].
      eapply sframe_trans; [|apply IH]. exact H1.
Qed.

Lemma poll_shutdown_sframe s :
  obj (fst (poll_shutdown B A c s)) = obj s /\ failed (fst (poll_shutdown B A c s)) = failed s.
Proof.
  unfold poll_shutdown. pose proof (shutdown_loop_sframe shutdown_fuel (set_shut B s)) as (H1&H2&_).
  split; [exact H1|exact H2].
Qed.

(* only a successful put / complete event changes the visible object *)
Lemma step_obj s e s' r : step s e = Some (s', r) -> committed e = false -> obj s' = obj s.
Proof.
  intros H Hc. destruct e as [d| | |ok|k fr|ok|ok|ok|ok]; cbn [Model_ObjectWriter.step] in H.
  - destruct (poisoned s || shut s); [discriminate|]. destruct (ph s); inversion H;
      pose proof (poll_write_sframe s d) as [Ho _]; rewrite H1 in Ho; exact Ho.
  - destruct (poisoned s || shut s); [discriminate|]. destruct (ph s); inversion H;
      pose proof (poll_flush_sframe s) as [Ho _]; rewrite H1 in Ho; exact Ho.
  - destruct (poisoned s); [discriminate|]. destruct (ph s); inversion H;
      pose proof (poll_shutdown_sframe s) as [Ho _]; rewrite H1 in Ho; exact Ho.
  - destruct (ph s) as [|g|p|dd g|g| |]; try discriminate. destruct g; try discriminate. inversion H; reflexivity.
  - destruct (take_task B k (running s)) as [[t rest]|]; [|discriminate]. inversion H; reflexivity.
  - destruct ok; [discriminate|]. destruct (ph s) as [|g|p|dd g|g| |]; try discriminate. destruct g; try discriminate.
    inversion H; reflexivity.
  - destruct ok; [discriminate|]. destruct (ph s) as [|g|p|dd g|g| |]; try discriminate. destruct g; try discriminate.
    inversion H; reflexivity.
  - destruct (ph s) eqn:Hp; try discriminate; inversion H; subst; unfold close; rewrite Hp; reflexivity.
  - destruct (ph s) eqn:Hp; try discriminate; inversion H; subst; unfold close; rewrite Hp; reflexivity.
Qed.

(* ------------------------------------------------------------------------------------------ *)
(* 3. Structural invariant of every reachable state (any faults)                              *)
(* ------------------------------------------------------------------------------------------ *)

Definition committed_phase (p : phase B) : Prop :=
  match p with PuttingSingle _ GOk | Completing GOk | Done | Closed => True | _ => False end.
Definition shut_phase (p : phase B) : Prop :=
  match p with PuttingSingle _ _ | Completing _ | Done => True | _ => False end.
Definition in_progress (p : phase B) : Prop := match p with InProgress _ => True | _ => False end.

Record R (s : state) : Prop := {
  R_tasks : (running s = [] /\ ready s = []) \/ in_progress (ph s);     (* uploads exist only in InProgress *)
  R_obj : obj s = None \/ committed_phase (ph s);                       (* visible only after the store committed *)
  R_shut : shut_phase (ph s) -> shut s = true                           (* put / complete only after shutdown began *)
}.

Lemma R_init : R (init_state B A c).
Proof. split; cbn; auto; intros []. Qed.

Lemma R_ext s s' : ph s' = ph s -> running s' = running s -> ready s' = ready s -> obj s' = obj s ->
  shut s' = shut s -> R s -> R s'.
Proof. intros Hp Hr Hq Ho Hs [R1 R2 R3]. split; rewrite ?Hp, ?Hr, ?Hq, ?Ho, ?Hs; assumption. Qed.

Lemma R_inprog s s' : in_progress (ph s) -> in_progress (ph s') -> obj s' = obj s -> R s -> R s'.
Proof.
  intros Hp Hp' Ho [R1 R2 R3]. split.
  - right; assumption.
  - rewrite Ho. destruct R2 as [|R2]; [left; assumption|]. destruct (ph s); cbn in *; contradiction.
  - intro H. destruct (ph s'); cbn in *; contradiction.
Qed.

Lemma poll_tasks_R fuel : forall s, R s ->
  match poll_tasks fuel c s with TOk _ s' | TErr _ s' => R s' | TFuel _ => True end.
Proof.
  induction fuel as [|f IH]; intros s HR; cbn [Model_ObjectWriter.poll_tasks]; [exact I|].
  destruct (ph s) as [|g|p|d g|g| |] eqn:Hp; try exact HR.
  - destruct g; try exact HR. apply IH. destruct HR as [R1 R2 R3]. rewrite Hp in *. split; unf.
    + right; exact I.
    + destruct R2 as [|[]]. left; assumption.
    + intros [].
  - destruct (drain c (ready s) s) as [s1 ok] eqn:Hd. apply drain_frame in Hd as [(Ho&_) Hph].
    assert (R s1) by (eapply R_inprog; [| |exact Ho|exact HR]; rewrite ?Hph, Hp; exact I).
    destruct ok; assumption.
  - destruct g; try exact HR. apply IH. destruct HR as [R1 R2 R3]. rewrite Hp in *. split; unf.
    + destruct R1 as [|[]]; left; assumption.
    + right; exact I.
    + intros _. apply R3; exact I.
  - destruct g; try exact HR. apply IH. destruct HR as [R1 R2 R3]. rewrite Hp in *. split; unf.
    + destruct R1 as [|[]]; left; assumption.
    + right; exact I.
    + intros _. apply R3; exact I.
Qed.

Lemma R_poisoned s : R s -> R (set_poisoned B s).
Proof. apply R_ext; reflexivity. Qed.

Lemma poll_write_R s d : R s -> R (fst (poll_write B A c s d)).
Proof.
  intro HR. unfold poll_write. pose proof (poll_tasks_R tasks_fuel s HR) as H1.
  destruct (poll_tasks tasks_fuel c s) as [s1|s1|]; cbn [fst]; [|apply R_poisoned; exact H1|exact HR].
  set (k := N.min (cap s1 - bs_len A (buf s1)) (bs_len A d)).
  set (s2 := set_buf B s1 (bs_app A (buf s1) (bs_take A k d)) (cap s1) (cursor s1 + k)).
  assert (H2 : R s2) by (revert H1; apply R_ext; reflexivity).
  match goal with |- context [match ?r with Ok s3 => _ | _ => _ end] => set (r3 := r) end.
  assert (H3 : match r3 with Ok s3 => R s3 | _ => True end).
  { subst r3. destruct (cap s2 =? bs_len A (buf s2)); [|exact H2].
    destruct (ph s2) as [|g|p|dd g|g| |] eqn:Hp; try exact H2.
    - destruct H2 as [R1 R2 R3]. rewrite Hp in *. split; unf.
      + destruct R1 as [|[]]; left; assumption.
      + destruct R2 as [|[]]; left; assumption.
      + intros [].
    - destruct (nfut B s2 <? c_maxpar c); [|exact H2].
      destruct (p + 1 <? 65536); [|exact I].
      eapply R_inprog; [| | |exact H2]; rewrite ?Hp; unf; try exact I; reflexivity. }
  destruct r3 as [s3| |]; cbn [fst]; try (apply R_poisoned; exact H2).
  pose proof (poll_tasks_R tasks_fuel s3 H3) as H4.
  destruct (poll_tasks tasks_fuel c s3) as [s4|s4|]; cbn [fst]; [exact H4|apply R_poisoned; exact H4|exact H3].
Qed.

Lemma poll_flush_R s : R s -> R (fst (poll_flush B A c s)).
Proof.
  intro HR. unfold poll_flush. pose proof (poll_tasks_R tasks_fuel s HR) as H1.
  destruct (poll_tasks tasks_fuel c s) as [s1|s1|]; cbn [fst]; [|apply R_poisoned; exact H1|exact HR].
  destruct (ph s1); try destruct (nfut B s1 =? 0); exact H1.
Qed.

Lemma nfut_zero s : nfut B s = 0 -> running s = [] /\ ready s = [].
Proof.
  unfold nfut. intro H. destruct (running s), (ready s); cbn in H; try lia. split; reflexivity.
Qed.

Lemma shutdown_loop_R fuel : forall s, shut s = true -> R s -> R (fst (shutdown_loop fuel c s)).
Proof.
  induction fuel as [|f IH]; intros s Hs HR; cbn [Model_ObjectWriter.shutdown_loop fst]; [exact HR|].
  pose proof (poll_tasks_R tasks_fuel s HR) as H1. pose proof (poll_tasks_frame tasks_fuel s) as F1.
  destruct (poll_tasks tasks_fuel c s) as [s1|s1|]; cbn [fst]; [|apply R_poisoned; exact H1|exact HR].
  destruct F1 as (_&_&_&Hs1). rewrite Hs in Hs1.
  destruct (ph s1) as [|g|p|dd g|g| |] eqn:Hp; cbn [fst]; try exact H1.
  - apply IH; [unf; assumption|]. destruct H1 as [R1 R2 R3]. rewrite Hp in *. split; unf.
    + destruct R1 as [|[]]; left; assumption.
    + destruct R2 as [|[]]; left; assumption.
    + intros _; assumption.
  - destruct (negb (bs_len A (buf s1) =? 0) && (nfut B s1 <? c_maxpar c)).
    + apply IH; [unf; assumption|].
      apply (R_inprog s1); [rewrite Hp; exact I | unf; rewrite Hp; exact I | reflexivity | exact H1].
    + destruct (nfut B s1 =? 0) eqn:Hn; cbn [fst]; [|exact H1].
      apply IH; [unf; assumption|]. apply N.eqb_eq, nfut_zero in Hn.
      destruct H1 as [R1 R2 R3]. rewrite Hp in *. split; unf.
      * left; assumption.
      * destruct R2 as [|[]]; left; assumption.
      * intros _; assumption.
Qed.

Lemma poll_shutdown_R s : R s -> R (fst (poll_shutdown B A c s)).
Proof.
  intro HR. unfold poll_shutdown. apply shutdown_loop_R; [reflexivity|].
  destruct HR as [R1 R2 R3]. split; unf; auto.
Qed.

Lemma take_task_in k l t rest : take_task B k l = Some (t, rest) -> In t l.
Proof.
  revert t rest; induction l as [|x l IH]; intros t rest H; cbn in H; [discriminate|].
  destruct (Nat.eqb (t_call x) k).
  - inversion H; subst; left; reflexivity.
  - destruct (take_task B k l) as [[t' r']|]; [|discriminate]. inversion H; subst. right; eapply IH; reflexivity.
Qed.

Lemma step_R s e s' r : R s -> step s e = Some (s', r) -> R s'.
Proof.
  intros HR H. destruct e as [d| | |ok|k fr|ok|ok|ok|ok]; cbn [Model_ObjectWriter.step] in H.
  - destruct (poisoned s || shut s); [discriminate|].
    destruct (ph s); inversion H; pose proof (poll_write_R s d HR) as HH; rewrite H1 in HH; exact HH.
  - destruct (poisoned s || shut s); [discriminate|].
    destruct (ph s); inversion H; pose proof (poll_flush_R s HR) as HH; rewrite H1 in HH; exact HH.
  - destruct (poisoned s); [discriminate|].
    destruct (ph s); inversion H; pose proof (poll_shutdown_R s HR) as HH; rewrite H1 in HH; exact HH.
  - destruct (ph s) as [|g|p|dd g|g| |] eqn:Hp; try discriminate. destruct g; try discriminate. inversion H; subst.
    destruct HR as [R1 R2 R3]. rewrite Hp in *. split; unf.
    + destruct R1 as [|[]]; left; assumption.
    + destruct R2 as [|[]]; left; assumption.
    + intros [].
  - destruct (take_task B k (running s)) as [[t rest]|] eqn:Ht; [|discriminate]. inversion H; subst.
    apply take_task_in in Ht. destruct HR as [R1 R2 R3]. split; unf.
    + destruct R1 as [[R1 _]|R1]; [rewrite R1 in Ht; destruct Ht|right; assumption].
    + assumption.
    + assumption.
  - destruct (ph s) as [|g|p|dd g|g| |] eqn:Hp; try discriminate. destruct g; try discriminate.
    destruct HR as [R1 R2 R3]. rewrite Hp in *. destruct ok; inversion H; subst; split; unf.
    + destruct R1 as [|[]]; left; assumption.
    + right; exact I.
    + intros _; apply R3; exact I.
    + destruct R1 as [|[]]; left; assumption.
    + destruct R2 as [|[]]; left; assumption.
    + intros _; apply R3; exact I.
  - destruct (ph s) as [|g|p|dd g|g| |] eqn:Hp; try discriminate. destruct g; try discriminate.
    destruct HR as [R1 R2 R3]. rewrite Hp in *. destruct ok; inversion H; subst; split; unf.
    + destruct R1 as [|[]]; left; assumption.
    + right; exact I.
    + intros _; apply R3; exact I.
    + destruct R1 as [|[]]; left; assumption.
    + destruct R2 as [|[]]; left; assumption.
    + intros _; apply R3; exact I.
  - destruct (ph s) eqn:Hp; try discriminate; inversion H; subst; unfold close; rewrite Hp;
      split; unf; try (left; split; reflexivity); try (right; exact I); intros [].
  - destruct (ph s) eqn:Hp; try discriminate; inversion H; subst; unfold close; rewrite Hp;
      split; unf; try (left; split; reflexivity); try (right; exact I); intros [].
Qed.

(* ------------------------------------------------------------------------------------------ *)
(* 4. Doomed states: after a fault, an error or abort/drop nothing can become visible any more *)
(* ------------------------------------------------------------------------------------------ *)

Definition has_failure (q : list (task B * fres)) : Prop := exists t, In (t, RErrOther) q.

Definition doomed (s : state) : Prop :=
  match ph s with
  | Closed | Creating GErr | Completing GErr | PuttingSingle _ GErr => True
  | InProgress _ => poisoned s = true \/ has_failure (ready s)
  | _ => False
  end.

Lemma drain_failure q : forall s, has_failure q -> exists s1, drain c q s = (s1, false).
Proof.
  induction q as [|[t r] q IH]; intros s [t0 Hin]; [destruct Hin|].
  cbn [Model_ObjectWriter.drain]. destruct r.
  - destruct Hin as [E|Hin]; [inversion E|]. apply IH. exists t0; assumption.
  - eexists; reflexivity.
  - destruct (resets s <? c_maxretry c); [|eexists; reflexivity].
    destruct Hin as [E|Hin]; [inversion E|]. apply IH. exists t0; assumption.
Qed.

(* every poll of a doomed (not yet poisoned, not closed) writer reports the error *)
Lemma poll_tasks_doomed f s : doomed s -> poisoned s = false -> ph s <> Closed ->
  exists s1, poll_tasks (S f) c s = TErr _ s1 /\ ph s1 = ph s.
Proof.
  unfold doomed. intros Hd Hp Hc. cbn [Model_ObjectWriter.poll_tasks].
  destruct (ph s) as [|g|p|d g|g| |] eqn:Hph; try contradiction.
  - destruct g; try contradiction. eexists; split; [reflexivity|assumption].
  - destruct Hd as [Hd|Hd]; [congruence|].
    destruct (drain_failure (ready s) s Hd) as [s1 Hs1]. rewrite Hs1.
    apply drain_frame in Hs1 as [_ Hs1]. eexists; split; [reflexivity|congruence].
  - destruct g; try contradiction. eexists; split; [reflexivity|assumption].
  - destruct g; try contradiction. eexists; split; [reflexivity|assumption].
Qed.

Lemma doomed_poisoned s1 s : ph s1 = ph s -> doomed s -> doomed (set_poisoned B s1).
Proof.
  unfold doomed; unf. intros E H. rewrite E. destruct (ph s) as [|g|p|d g|g| |]; try exact H. left; reflexivity.
Qed.

Lemma doomed_step s e s' r : doomed s -> step s e = Some (s', r) -> doomed s' /\ obj s' = obj s.
Proof.
  intros Hd H.
  assert (Hc : committed e = false).
  { destruct e as [d| | |ok|k fr|ok|ok|ok|ok]; try reflexivity; destruct ok; try reflexivity;
      cbn [Model_ObjectWriter.step] in H; unfold doomed in Hd;
      destruct (ph s) as [|g|p|d g|g| |]; try discriminate; destruct g; try discriminate; contradiction. }
  split; [|eapply step_obj; eassumption].
  destruct e as [d| | |ok|k fr|ok|ok|ok|ok]; cbn [Model_ObjectWriter.step] in H.
  - destruct (poisoned s) eqn:Hp; [discriminate|]. destruct (shut s); [discriminate|]. cbn [orb] in H.
    assert (Hcl : ph s <> Closed) by (intro E; rewrite E in H; discriminate).
    destruct (poll_tasks_doomed 2 s Hd Hp Hcl) as [s1 [H1 H2]].
    unfold poll_write, tasks_fuel in H. rewrite H1 in H.
    assert (E : Some (set_poisoned B s1, PError) = Some (s', r))
      by (destruct (ph s); try exact H; exfalso; apply Hcl; reflexivity).
    inversion E; subst; eapply doomed_poisoned; eassumption.
  - destruct (poisoned s) eqn:Hp; [discriminate|]. destruct (shut s); [discriminate|]. cbn [orb] in H.
    assert (Hcl : ph s <> Closed) by (intro E; rewrite E in H; discriminate).
    destruct (poll_tasks_doomed 2 s Hd Hp Hcl) as [s1 [H1 H2]].
    unfold poll_flush, tasks_fuel in H. rewrite H1 in H.
    assert (E : Some (set_poisoned B s1, PError) = Some (s', r))
      by (destruct (ph s); try exact H; exfalso; apply Hcl; reflexivity).
    inversion E; subst; eapply doomed_poisoned; eassumption.
  - destruct (poisoned s) eqn:Hp; [discriminate|].
    assert (Hcl : ph s <> Closed) by (intro E; rewrite E in H; discriminate).
    assert (Hd' : doomed (set_shut B s)) by exact Hd.
    destruct (poll_tasks_doomed 2 (set_shut B s) Hd' Hp Hcl) as [s1 [H1 H2]].
    unfold poll_shutdown, shutdown_fuel, tasks_fuel in H. cbn [Model_ObjectWriter.shutdown_loop] in H.
    unfold tasks_fuel in H. rewrite H1 in H.
    assert (E : Some (set_poisoned B s1, PError) = Some (s', r))
      by (destruct (ph s); try exact H; exfalso; apply Hcl; reflexivity).
    inversion E; subst; eapply doomed_poisoned; eassumption.
  - unfold doomed in Hd. destruct (ph s) as [|g|p|d g|g| |]; try discriminate. destruct g; try discriminate; contradiction.
  - destruct (take_task B k (running s)) as [[t rest]|]; [|discriminate]. inversion H; subst.
    unfold doomed in *; unf. destruct (ph s) as [|g|p|d g|g| |]; try exact Hd.
    destruct Hd as [Hd|[t0 Hd]]; [left; assumption|right; exists t0; apply in_or_app; left; assumption].
  - unfold doomed in Hd. destruct (ph s) as [|g|p|d g|g| |]; try discriminate. destruct g; try discriminate; contradiction.
  - unfold doomed in Hd. destruct (ph s) as [|g|p|d g|g| |]; try discriminate. destruct g; try discriminate; contradiction.
  - destruct (ph s) eqn:Hp; try discriminate; inversion H; subst; unfold close, doomed; rewrite Hp; unf; exact I.
  - destruct (ph s) eqn:Hp; try discriminate; inversion H; subst; unfold close, doomed; rewrite Hp; unf; exact I.
Qed.

(* a poll that returns Err leaves the writer poisoned in one of the four error phases, hence doomed *)
Definition errored (s : state) : Prop := err_phase s /\ poisoned s = true.

Lemma errored_intro s1 : err_phase s1 -> errored (set_poisoned B s1).
Proof. intro H; split; [exact H|reflexivity]. Qed.

Lemma errored_doomed s : errored s -> doomed s.
Proof.
  unfold doomed. intros [[E|[[p E]|[[d E]|E]]] Hp]; rewrite E; try exact I. left; assumption.
Qed.

Lemma poll_write_error s d s' : poll_write B A c s d = (s', PError) -> errored s'.
Proof.
  unfold poll_write. destruct (poll_tasks tasks_fuel c s) as [s1|s1|] eqn:H1; try discriminate.
  2:{ intro H; inversion H; subst. apply errored_intro. eapply poll_tasks_err; eassumption. }
  match goal with |- context [match ?r with Ok s3 => _ | _ => _ end] => destruct r as [s3| |] end; try discriminate.
  destruct (poll_tasks tasks_fuel c s3) as [s4|s4|] eqn:H4; try discriminate.
  - destruct (_ =? 0); discriminate.
  - intro H; inversion H; subst. apply errored_intro. eapply poll_tasks_err; eassumption.
Qed.

Lemma poll_flush_error s s' : poll_flush B A c s = (s', PError) -> errored s'.
Proof.
  unfold poll_flush. destruct (poll_tasks tasks_fuel c s) as [s1|s1|] eqn:H1; try discriminate.
  - destruct (ph s1); try destruct (nfut B s1 =? 0); discriminate.
  - intro H; inversion H; subst. apply errored_intro. eapply poll_tasks_err; eassumption.
Qed.

Lemma shutdown_loop_error fuel : forall s s', shutdown_loop fuel c s = (s', PError) -> errored s'.
Proof.
  induction fuel as [|f IH]; intros s s'; cbn [Model_ObjectWriter.shutdown_loop]; [discriminate|].
  destruct (poll_tasks tasks_fuel c s) as [s1|s1|] eqn:H1; try discriminate.
  2:{ intro H; inversion H; subst. apply errored_intro. eapply poll_tasks_err; eassumption. }
  destruct (ph s1) as [|g|p|dd g|g| |]; try discriminate; try apply IH.
  destruct (negb (bs_len A (buf s1) =? 0) && (nfut B s1 <? c_maxpar c)); [apply IH|].
  destruct (nfut B s1 =? 0); [apply IH|discriminate].
Qed.

Lemma step_error_errored s e s' : step s e = Some (s', PError) -> errored s'.
Proof.
  intro H. destruct e as [d| | |ok|k fr|ok|ok|ok|ok]; cbn [Model_ObjectWriter.step] in H.
  - destruct (poisoned s || shut s); [discriminate|].
    destruct (ph s); inversion H; eapply poll_write_error; eassumption.
  - destruct (poisoned s || shut s); [discriminate|].
    destruct (ph s); inversion H; eapply poll_flush_error; eassumption.
  - destruct (poisoned s); [discriminate|].
    destruct (ph s); inversion H; eapply shutdown_loop_error; eassumption.
  - destruct (ph s) as [|g|p|d g|g| |]; try discriminate. destruct g; discriminate.
  - destruct (take_task B k (running s)) as [[t rest]|]; discriminate.
  - destruct (ph s) as [|g|p|d g|g| |]; try discriminate. destruct g; try discriminate. destruct ok; discriminate.
  - destruct (ph s) as [|g|p|d g|g| |]; try discriminate. destruct g; try discriminate. destruct ok; discriminate.
  - destruct (ph s); discriminate.
  - destruct (ph s); discriminate.
Qed.

Lemma step_error_doomed s e s' : step s e = Some (s', PError) -> doomed s'.
Proof. intro H. apply errored_doomed. eapply step_error_errored; eassumption. Qed.

(* a fault event leaves the writer doomed *)
Lemma step_fault_doomed s e s' r : R s -> step s e = Some (s', r) -> is_fault e = true -> doomed s'.
Proof.
  intros HR H Hf. destruct e as [d| | |ok|k fr|ok|ok|ok|ok]; try discriminate; cbn [Model_ObjectWriter.step] in H.
  - destruct ok; [discriminate|]. destruct (ph s) as [|g|p|d g|g| |]; try discriminate. destruct g; try discriminate.
    inversion H; subst. exact I.
  - destruct fr; try discriminate.
    destruct (take_task B k (running s)) as [[t rest]|] eqn:Ht; [|discriminate]. inversion H; subst.
    apply take_task_in in Ht. destruct HR as [[[R1 _]|R1] _ _]; [rewrite R1 in Ht; destruct Ht|].
    unfold doomed; unf. destruct (ph s); try contradiction.
    right. exists t. apply in_or_app; right; left; reflexivity.
  - destruct ok; [discriminate|]. destruct (ph s) as [|g|p|d g|g| |]; try discriminate. destruct g; try discriminate.
    inversion H; subst. exact I.
  - destruct ok; [discriminate|]. destruct (ph s) as [|g|p|d g|g| |]; try discriminate. destruct g; try discriminate.
    inversion H; subst. exact I.
  - destruct (ph s) eqn:Hp; try discriminate; inversion H; subst; unfold close, doomed; rewrite Hp; unf; exact I.
  - destruct (ph s) eqn:Hp; try discriminate; inversion H; subst; unfold close, doomed; rewrite Hp; unf; exact I.
Qed.

(* ------------------------------------------------------------------------------------------ *)
(* 5. Runs                                                                                    *)
(* ------------------------------------------------------------------------------------------ *)

Lemma run_app tr1 : forall s tr2 s' rs, run s (tr1 ++ tr2) = Some (s', rs) ->
  exists s1 rs1 rs2, run s tr1 = Some (s1, rs1) /\ run s1 tr2 = Some (s', rs2) /\ rs = rs1 ++ rs2.
Proof.
  induction tr1 as [|e tr1 IH]; intros s tr2 s' rs H; cbn [app Model_ObjectWriter.run] in *.
  - exists s, [], rs. repeat split. assumption.
  - destruct (step s e) as [[s1 r]|]; [|discriminate].
    destruct (Model_ObjectWriter.run B A c s1 (tr1 ++ tr2)) as [[s2 rs']|] eqn:Hr; [|discriminate].
    inversion H; subst. apply IH in Hr as (sa & ra & rb & Ha & Hb & E). rewrite Ha.
    exists sa, (r :: ra), rb. repeat split; [assumption|subst; reflexivity].
Qed.

Lemma run_R tr : forall s s' rs, R s -> run s tr = Some (s', rs) -> R s'.
Proof.
  induction tr as [|e tr IH]; intros s s' rs HR H; cbn [Model_ObjectWriter.run] in H.
  - inversion H; subst; assumption.
  - destruct (step s e) as [[s1 r]|] eqn:Hs; [|discriminate].
    destruct (Model_ObjectWriter.run B A c s1 tr) as [[s2 rs']|] eqn:Hr; [|discriminate].
    inversion H; subst. eapply IH; [|eassumption]. eapply step_R; eassumption.
Qed.

Lemma run_doomed tr : forall s s' rs, doomed s -> run s tr = Some (s', rs) -> doomed s' /\ obj s' = obj s.
Proof.
  induction tr as [|e tr IH]; intros s s' rs Hd H; cbn [Model_ObjectWriter.run] in H.
  - inversion H; subst; split; [assumption|reflexivity].
  - destruct (step s e) as [[s1 r]|] eqn:Hs; [|discriminate].
    destruct (Model_ObjectWriter.run B A c s1 tr) as [[s2 rs']|] eqn:Hr; [|discriminate].
    inversion H; subst. destruct (doomed_step _ _ _ _ Hd Hs) as [Hd1 Ho1].
    destruct (IH _ _ _ Hd1 Hr) as [Hd2 Ho2]. split; [assumption|congruence].
Qed.

Lemma run_uncommitted tr : forall s s' rs, run s tr = Some (s', rs) -> existsb committed tr = false -> obj s' = obj s.
Proof.
  induction tr as [|e tr IH]; intros s s' rs H Hc; cbn [Model_ObjectWriter.run existsb] in *.
  - inversion H; subst; reflexivity.
  - apply orb_false_iff in Hc as [Hc1 Hc2].
    destruct (step s e) as [[s1 r]|] eqn:Hs; [|discriminate].
    destruct (Model_ObjectWriter.run B A c s1 tr) as [[s2 rs']|] eqn:Hr; [|discriminate].
    inversion H; subst. rewrite (IH _ _ _ Hr Hc2). eapply step_obj; eassumption.
Qed.

(* put / complete cannot even be issued before poll_shutdown was called *)
Lemma step_needs_shutdown s e s' r : R s -> shut s = false -> step s e = Some (s', r) ->
  is_shutdown e = false -> shut s' = false /\ committed e = false.
Proof.
  intros HR Hs H He. destruct e as [d| | |ok|k fr|ok|ok|ok|ok]; try discriminate; cbn [Model_ObjectWriter.step] in H.
  - destruct (poisoned s || shut s); [discriminate|]. split; [|reflexivity].
    destruct (ph s); inversion H; pose proof (poll_write_sframe s d) as (_&_&E); rewrite H1 in E; cbn in E; congruence.
  - destruct (poisoned s || shut s); [discriminate|]. split; [|reflexivity].
    destruct (ph s); inversion H; pose proof (poll_flush_sframe s) as (_&_&E); rewrite H1 in E; cbn in E; congruence.
  - destruct (ph s) as [|g|p|d g|g| |]; try discriminate. destruct g; try discriminate. inversion H; subst.
    split; [assumption|reflexivity].
  - destruct (take_task B k (running s)) as [[t rest]|]; [|discriminate]. inversion H; subst. split; [assumption|reflexivity].
  - destruct HR as [_ _ R3]. destruct (ph s) as [|g|p|d g|g| |]; try discriminate.
    rewrite R3 in Hs by exact I. discriminate.
  - destruct HR as [_ _ R3]. destruct (ph s) as [|g|p|d g|g| |]; try discriminate.
    rewrite R3 in Hs by exact I. discriminate.
  - destruct (ph s) eqn:Hp; try discriminate; inversion H; subst; unfold close; rewrite Hp; unf; (split; [assumption|reflexivity]).
  - destruct (ph s) eqn:Hp; try discriminate; inversion H; subst; unfold close; rewrite Hp; unf; (split; [assumption|reflexivity]).
Qed.

Lemma run_needs_shutdown tr : forall s s' rs, R s -> shut s = false -> run s tr = Some (s', rs) ->
  existsb is_shutdown tr = false -> existsb committed tr = false.
Proof.
  induction tr as [|e tr IH]; intros s s' rs HR Hs H He; cbn [Model_ObjectWriter.run existsb] in *; [reflexivity|].
  apply orb_false_iff in He as [He1 He2].
  destruct (step s e) as [[s1 r]|] eqn:Hst; [|discriminate].
  destruct (Model_ObjectWriter.run B A c s1 tr) as [[s2 rs']|] eqn:Hr; [|discriminate].
  destruct (step_needs_shutdown _ _ _ _ HR Hs Hst He1) as [Hs1 Hc]. rewrite Hc. cbn [orb].
  eapply IH; [eapply step_R; eassumption|exact Hs1|exact Hr|exact He2].
Qed.

(* ---- theorems about visibility and failure, for all traces and all faults ---- *)

Theorem invisible_before_commit tr s rs :
  run (init_state B A c) tr = Some (s, rs) -> existsb committed tr = false -> obj s = None.
Proof. intros H Hc. apply (run_uncommitted _ _ _ _ H Hc). Qed.

Theorem invisible_before_shutdown tr s rs :
  run (init_state B A c) tr = Some (s, rs) -> existsb is_shutdown tr = false -> obj s = None.
Proof.
  intros H Hs. eapply invisible_before_commit; [exact H|].
  eapply run_needs_shutdown; [apply R_init|reflexivity|exact H|exact Hs].
Qed.

Theorem fault_leaves_nothing tr1 e tr2 s rs :
  run (init_state B A c) (tr1 ++ e :: tr2) = Some (s, rs) -> is_fault e = true ->
  existsb committed tr1 = false -> obj s = None.
Proof.
  intros H Hf Hc. apply run_app in H as (s1 & rs1 & rs2 & H1 & H2 & _).
  pose proof (run_uncommitted _ _ _ _ H1 Hc) as Ho1. pose proof (run_R _ _ _ _ R_init H1) as HR1.
  cbn [Model_ObjectWriter.run] in H2. destruct (step s1 e) as [[s2 r]|] eqn:Hs; [|discriminate].
  destruct (Model_ObjectWriter.run B A c s2 tr2) as [[s3 rs']|] eqn:Hr; [|discriminate]. inversion H2; subst.
  pose proof (step_fault_doomed _ _ _ _ HR1 Hs Hf) as Hd.
  assert (Hce : committed e = false) by (destruct e as [d| | |ok|k fr|ok|ok|ok|ok]; try discriminate; try reflexivity; destruct ok; try discriminate; reflexivity).
  pose proof (step_obj _ _ _ _ Hs Hce) as Ho2.
  destruct (run_doomed _ _ _ _ Hd Hr) as [_ Ho3]. cbn in Ho1. congruence.
Qed.

Lemma error_leaves_nothing_gen tr : forall s0 s rs, R s0 -> run s0 tr = Some (s, rs) -> In PError rs -> obj s = None.
Proof.
  induction tr as [|e tr IH]; intros s0 s rs HR H Hin; cbn [Model_ObjectWriter.run] in H.
  - inversion H; subst. destruct Hin.
  - destruct (step s0 e) as [[s1 r]|] eqn:Hs; [|discriminate].
    destruct (Model_ObjectWriter.run B A c s1 tr) as [[s2 rs']|] eqn:Hr; [|discriminate]. inversion H; subst.
    pose proof (step_R _ _ _ _ HR Hs) as HR1.
    destruct Hin as [E|Hin]; [|eapply IH; eassumption].
    subst r. pose proof (step_error_doomed _ _ _ Hs) as Hd.
    destruct (run_doomed _ _ _ _ Hd Hr) as [_ Ho]. rewrite Ho.
    destruct HR1 as [_ [Ho1|Hc] _]; [assumption|].
    destruct (step_error_errored _ _ _ Hs) as [[E|[[p E]|[[d E]|E]]] _]; rewrite E in Hc; destruct Hc.
Qed.

Theorem error_leaves_nothing tr s rs :
  run (init_state B A c) tr = Some (s, rs) -> In PError rs -> obj s = None.
Proof. apply error_leaves_nothing_gen, R_init. Qed.

(* ------------------------------------------------------------------------------------------ *)
(* 6. The bytes: invariant of runs without connection-reset retries                           *)
(* ------------------------------------------------------------------------------------------ *)

(* one unfolding of poll_tasks at the fuel the polls use *)
Lemma poll_tasks_unfold s : poll_tasks tasks_fuel c s =
    match ph s with
    | Started | Done | Closed => TOk _ s
    | Creating GOk =>
        poll_tasks 2 c (spawn (set_ph B (set_buf B s (bs_empty A) (new_capacity c 0) (cursor s)) (InProgress 1)) (buf s) 0)
    | Creating GErr => TErr _ s
    | Creating GPending => TOk _ s
    | InProgress _ => let '(s1, ok) := drain c (ready s) s in if ok then TOk _ s1 else TErr _ s1
    | PuttingSingle _ GOk | Completing GOk => poll_tasks 2 c (set_ph B s Done)
    | PuttingSingle _ GErr | Completing GErr => TErr _ s
    | PuttingSingle _ GPending | Completing GPending => TOk _ s
    end.
Proof. reflexivity. Qed.

Lemma poll_tasks_S_inprog f s p : ph s = InProgress p ->
  poll_tasks (S f) c s = let '(s1, ok) := drain c (ready s) s in if ok then TOk _ s1 else TErr _ s1.
Proof. intro H. cbn [Model_ObjectWriter.poll_tasks]. rewrite H. reflexivity. Qed.

Lemma poll_tasks_S_done f s : ph s = Done -> poll_tasks (S f) c s = TOk _ s.
Proof. intro H. cbn [Model_ObjectWriter.poll_tasks]. rewrite H. reflexivity. Qed.

Lemma poll_tasks_no_fuel s : poll_tasks tasks_fuel c s <> TFuel _.
Proof.
  rewrite poll_tasks_unfold.
  destruct (ph s) as [|g|p|d g|g| |]; try discriminate.
  - destruct g; try discriminate. rewrite (poll_tasks_S_inprog _ _ 1) by reflexivity.
    match goal with |- context [Model_ObjectWriter.drain B c ?q ?x] => destruct (Model_ObjectWriter.drain B c q x) as [s1 ok] end.
    destruct ok; discriminate.
  - destruct (drain c (ready s) s) as [s1 ok]. destruct ok; discriminate.
  - destruct g; try discriminate; try (rewrite poll_tasks_S_done by reflexivity; discriminate).
  - destruct g; try discriminate; try (rewrite poll_tasks_S_done by reflexivity; discriminate).
Qed.

Section Bytes.
Hypothesis L : bstr_laws A.
Hypothesis Hpar : 0 < c_maxpar c.

Fixpoint bconcat (l : list B) : B :=
  match l with [] => bs_empty A | d :: l' => bs_app A d (bconcat l') end.

Lemma bconcat_snoc l d : bconcat (l ++ [d]) = bs_app A (bconcat l) d.
Proof.
  induction l as [|x l IH]; cbn [app bconcat].
  - rewrite (law_app_empty_l A L), (law_app_empty_r A L). reflexivity.
  - rewrite IH, (law_app_assoc A L). reflexivity.
Qed.

Lemma assemble_nofail cl : forall i, assemble_from B A i cl [] = bconcat cl.
Proof. induction cl as [|d cl IH]; intro i; cbn; [reflexivity|]. rewrite IH. reflexivity. Qed.

Definition all_ok (q : list (task B * fres)) : Prop := Forall (fun x => snd x = ROk) q.

Record Good (s : state) (acc : B) : Prop := {
  G_pois : poisoned s = false;
  G_failed : failed s = [];
  G_ready : all_ok (ready s);
  G_cursor : cursor s = bs_len A acc;
  G_shut : shut_phase (ph s) -> shut s = true;
  G_phase : match ph s with
            | Started | Creating _ => calls s = [] /\ buf s = acc
            | InProgress _ => bs_app A (bconcat (calls s)) (buf s) = acc
            | PuttingSingle d g => d = acc /\ (g = GOk -> obj s = Some acc)
            | Completing g => bconcat (calls s) = acc /\ (g = GOk -> obj s = Some acc)
            | Done => obj s = Some acc
            | Closed => False
            end
}.

Lemma Good_init : Good (init_state B A c) (bs_empty A).
Proof.
  split; cbn; auto; try (intros []); try (rewrite (law_len_empty A L); reflexivity). constructor.
Qed.

Lemma drain_good q : forall s, all_ok q ->
  drain c q s = (set_tasks B s (running s) [] (calls s) (failed s), true).
Proof.
  induction q as [|[t r] q IH]; intros s H; cbn [Model_ObjectWriter.drain]; [reflexivity|].
  inversion H as [|x y Hx Hy]; subst. cbn in Hx; subst r. apply IH; assumption.
Qed.

Lemma poll_tasks_good s acc : Good s acc ->
  match poll_tasks tasks_fuel c s with TOk _ s' => Good s' acc | _ => True end.
Proof.
  intros [G1 G2 G3 G4 G6 G5]. rewrite poll_tasks_unfold.
  destruct (ph s) as [|g|p|d g|g| |] eqn:Hp; try (split; try rewrite Hp; assumption).
  - destruct g; try exact I; try (split; try rewrite Hp; assumption).
    rewrite (poll_tasks_S_inprog _ _ 1) by reflexivity. rewrite drain_good by exact G3.
    split; unf; try assumption; try apply Forall_nil; try (intros []).
    destruct G5 as [Hc Hb]. rewrite Hc. cbn [app bconcat].
    rewrite !(law_app_empty_r A L). assumption.
  - rewrite drain_good by assumption. split; unf; try assumption; try apply Forall_nil; rewrite Hp; assumption.
  - destruct g; try exact I; try (split; try rewrite Hp; assumption).
    rewrite poll_tasks_S_done by reflexivity.
    split; unf; try assumption; try (intros _; apply G6; exact I). apply G5; reflexivity.
  - destruct g; try exact I; try (split; try rewrite Hp; assumption).
    rewrite poll_tasks_S_done by reflexivity.
    split; unf; try assumption; try (intros _; apply G6; exact I). apply G5; reflexivity.
Qed.

(* what a poll_write call that was answered Ready(k) took from the caller's buffer *)
Definition upd (acc : B) (e : event B) (r : pollres) : B :=
  match e, r with
  | EvWrite d, PReady k => bs_app A acc (bs_take A k d)
  | _, _ => acc
  end.

Lemma take_zero d : bs_take A 0 d = bs_empty A.
Proof. apply (law_len_zero A L). rewrite (law_len_take A L). lia. Qed.

Lemma Good_cut s acc p : Good s acc -> ph s = InProgress p -> forall q cp,
  Good (spawn (set_ph B (set_buf B s (bs_empty A) cp (cursor s)) (InProgress q)) (buf s) p) acc.
Proof.
  intros [G1 G2 G3 G4 G6 G5] Hp q cp. rewrite Hp in G5. split; unf; try assumption; [intros []|].
  rewrite bconcat_snoc, (law_app_empty_r A L). assumption.
Qed.

Lemma Good_flush s acc p : Good s acc -> ph s = InProgress p -> forall cp,
  Good (spawn (set_buf B s (bs_empty A) cp (cursor s)) (buf s) p) acc.
Proof.
  intros [G1 G2 G3 G4 G6 G5] Hp cp. split; unf; try assumption. rewrite Hp in *.
  rewrite bconcat_snoc, (law_app_empty_r A L). assumption.
Qed.

Lemma poll_write_good s d acc s' r : Good s acc -> shut s = false -> poll_write B A c s d = (s', r) ->
  Good s' (upd acc (EvWrite d) r) \/ doomed s'.
Proof.
  intros HG Hsh H. unfold poll_write in H.
  pose proof (poll_tasks_good s acc HG) as H1. pose proof (poll_tasks_no_fuel s) as F1.
  pose proof (poll_tasks_frame tasks_fuel s) as W1.
  destruct (poll_tasks tasks_fuel c s) as [s1|s1|] eqn:E1; [| |congruence].
  2:{ inversion H; subst. right. apply errored_doomed, errored_intro. eapply poll_tasks_err; eassumption. }
  destruct W1 as (_&_&_&Hsh1). rewrite Hsh in Hsh1.
  set (k0 := N.min (cap s1 - bs_len A (buf s1)) (bs_len A d)) in *.
  set (acc2 := bs_app A acc (bs_take A k0 d)).
  set (s2 := set_buf B s1 (bs_app A (buf s1) (bs_take A k0 d)) (cap s1) (cursor s1 + k0)) in *.
  assert (H2 : Good s2 acc2).
  { destruct H1 as [G1 G2 G3 G4 G6 G5]. subst s2 acc2. split; unf; try assumption.
    - rewrite G4, (law_len_app A L), (law_len_take A L). subst k0. lia.
    - destruct (ph s1) as [|g|p|dd g|g| |].
      + destruct G5 as [Hc Hb]; split; [assumption|rewrite Hb; reflexivity].
      + destruct G5 as [Hc Hb]; split; [assumption|rewrite Hb; reflexivity].
      + rewrite <- (law_app_assoc A L), G5; reflexivity.
      + rewrite G6 in Hsh1 by exact I; discriminate.
      + rewrite G6 in Hsh1 by exact I; discriminate.
      + rewrite G6 in Hsh1 by exact I; discriminate.
      + contradiction. }
  match type of H with context [match ?r with Ok s3 => _ | _ => _ end] => set (r3 := r) in * end.
  assert (H3 : match r3 with Ok s3 => Good s3 acc2 | _ => exists p, ph s2 = InProgress p end).
  { subst r3. destruct (cap s2 =? bs_len A (buf s2)); [|exact H2].
    destruct (ph s2) as [|g|p|dd g|g| |] eqn:Hp; try exact H2.
    - destruct H2 as [G1 G2 G3 G4 G6 G5]. rewrite Hp in *. split; unf; try assumption; try (intros []).
    - destruct (nfut B s2 <? c_maxpar c); [|exact H2].
      destruct (p + 1 <? 65536); [|exists p; reflexivity].
      apply Good_cut; assumption. }
  destruct r3 as [s3| |].
  - pose proof (poll_tasks_good s3 acc2 H3) as H4. pose proof (poll_tasks_no_fuel s3) as F4.
    destruct (poll_tasks tasks_fuel c s3) as [s4|s4|] eqn:E4; [| |congruence].
    + inversion H; subst s' r. left. destruct (k0 =? 0) eqn:Hk; cbn [upd]; [|exact H4].
      apply N.eqb_eq in Hk. subst acc2. rewrite Hk, take_zero, (law_app_empty_r A L) in H4. exact H4.
    + inversion H; subst. right. apply errored_doomed, errored_intro. eapply poll_tasks_err; eassumption.
  - inversion H; subst. right. destruct H3 as [p Hp]. unfold doomed; unf. rewrite Hp. left; reflexivity.
  - inversion H; subst. right. destruct H3 as [p Hp]. unfold doomed; unf. rewrite Hp. left; reflexivity.
Qed.

Lemma poll_flush_good s acc s' r : Good s acc -> poll_flush B A c s = (s', r) -> Good s' acc \/ doomed s'.
Proof.
  intros HG H. unfold poll_flush in H.
  pose proof (poll_tasks_good s acc HG) as H1. pose proof (poll_tasks_no_fuel s) as F1.
  destruct (poll_tasks tasks_fuel c s) as [s1|s1|] eqn:E1; [| |congruence].
  - left. destruct (ph s1); try destruct (nfut B s1 =? 0); inversion H; subst; exact H1.
  - inversion H; subst. right. apply errored_doomed, errored_intro. eapply poll_tasks_err; eassumption.
Qed.

Lemma shutdown_loop_good fuel acc : forall s s' r, Good s acc -> shut s = true ->
  shutdown_loop fuel c s = (s', r) -> Good s' acc \/ doomed s'.
Proof.
  induction fuel as [|f IH]; intros s s' r HG Hsh H; cbn [Model_ObjectWriter.shutdown_loop] in H.
  { inversion H; subst; left; assumption. }
  pose proof (poll_tasks_good s acc HG) as H1. pose proof (poll_tasks_no_fuel s) as F1.
  pose proof (poll_tasks_frame tasks_fuel s) as W1.
  destruct (poll_tasks tasks_fuel c s) as [s1|s1|] eqn:E1; [| |congruence].
  2:{ inversion H; subst. right. apply errored_doomed, errored_intro. eapply poll_tasks_err; eassumption. }
  destruct W1 as (_&_&_&Hsh1). rewrite Hsh in Hsh1.
  destruct (ph s1) as [|g|p|dd g|g| |] eqn:Hp; try (inversion H; subst; left; exact H1).
  - refine (IH _ _ _ _ _ H); [|unf; assumption]. destruct H1 as [G1 G2 G3 G4 G6 G5]. rewrite Hp in *.
    split; unf; try assumption; [intros _; assumption|]. destruct G5 as [Hc Hb]. split; [assumption|discriminate].
  - destruct (negb (bs_len A (buf s1) =? 0) && (nfut B s1 <? c_maxpar c)) eqn:Hfl.
    + refine (IH _ _ _ _ _ H); [|unf; assumption]. apply Good_flush; assumption.
    + destruct (nfut B s1 =? 0) eqn:Hn; [|inversion H; subst; left; exact H1].
      refine (IH _ _ _ _ _ H); [|unf; assumption]. destruct H1 as [G1 G2 G3 G4 G6 G5]. rewrite Hp in *.
      split; unf; try assumption; [intros _; assumption|]. split; [|discriminate].
      apply N.eqb_eq in Hn. rewrite Hn in Hfl. apply andb_false_iff in Hfl as [Hfl|Hfl].
      * apply negb_false_iff, N.eqb_eq in Hfl. apply (law_len_zero A L) in Hfl. rewrite Hfl, (law_app_empty_r A L) in G5. assumption.
      * apply N.ltb_ge in Hfl. lia.
Qed.

Lemma step_good s e s' r acc : R s -> Good s acc -> step s e = Some (s', r) -> is_reset e = false ->
  Good s' (upd acc e r) \/ doomed s'.
Proof.
  intros HR HG H Hre. destruct e as [d| | |ok|k fr|ok|ok|ok|ok]; cbn [Model_ObjectWriter.step] in H.
  - destruct (poisoned s); [discriminate|]. destruct (shut s) eqn:Hs; [discriminate|]. cbn [orb] in H.
    destruct (ph s); inversion H; eapply poll_write_good; eassumption.
  - destruct (poisoned s || shut s); [discriminate|].
    destruct (ph s); inversion H; cbn [upd]; eapply poll_flush_good; eassumption.
  - destruct (poisoned s); [discriminate|].
    assert (HG' : Good (set_shut B s) acc) by (destruct HG; split; unf; auto).
    destruct (ph s); inversion H; cbn [upd]; eapply shutdown_loop_good; try eassumption; reflexivity.
  - destruct (ph s) as [|g|p|dd g|g| |] eqn:Hp; try discriminate. destruct g; try discriminate. inversion H; subst.
    left. cbn [upd]. destruct HG as [G1 G2 G3 G4 G6 G5]. rewrite Hp in *. split; unf; try assumption; try (intros []).
  - destruct fr; [|right; apply (step_fault_doomed s (EvFinish k RErrOther) s' r HR H); reflexivity|discriminate].
    destruct (take_task B k (running s)) as [[t rest]|]; [|discriminate]. inversion H; subst.
    left. cbn [upd]. destruct HG as [G1 G2 G3 G4 G6 G5]. split; unf; try assumption.
    apply Forall_app; split; [assumption|constructor; [reflexivity|constructor]].
  - destruct ok; [|right; apply (step_fault_doomed s (EvPut false) s' r HR H); reflexivity].
    destruct (ph s) as [|g|p|dd g|g| |] eqn:Hp; try discriminate. destruct g; try discriminate. inversion H; subst.
    left. cbn [upd]. destruct HG as [G1 G2 G3 G4 G6 G5]. rewrite Hp in *. split; unf; try assumption.
    destruct G5 as [Hd _]. split; [assumption|intros _; rewrite Hd; reflexivity].
  - destruct ok; [|right; apply (step_fault_doomed s (EvComplete false) s' r HR H); reflexivity].
    destruct (ph s) as [|g|p|dd g|g| |] eqn:Hp; try discriminate. destruct g; try discriminate. inversion H; subst.
    left. cbn [upd]. destruct HG as [G1 G2 G3 G4 G6 G5]. rewrite Hp in *. split; unf; try assumption.
    destruct G5 as [Hd _]. split; [assumption|intros _]. unfold assemble. rewrite G2, assemble_nofail, Hd. reflexivity.
  - right; apply (step_fault_doomed s (EvAbort ok) s' r HR H); reflexivity.
  - right; apply (step_fault_doomed s (EvDrop ok) s' r HR H); reflexivity.
Qed.

(* the bytes the writer reported as written, in order *)
Fixpoint accepted (acc : B) (tr : list (event B)) (rs : list pollres) : B :=
  match tr, rs with
  | e :: tr', r :: rs' => accepted (upd acc e r) tr' rs'
  | _, _ => acc
  end.

Lemma run_good tr : forall s acc s' rs, R s -> Good s acc \/ doomed s -> run s tr = Some (s', rs) ->
  existsb is_reset tr = false -> Good s' (accepted acc tr rs) \/ doomed s'.
Proof.
  induction tr as [|e tr IH]; intros s acc s' rs HR HJ H Hre; cbn [Model_ObjectWriter.run existsb] in *.
  - inversion H; subst. exact HJ.
  - apply orb_false_iff in Hre as [Hre1 Hre2].
    destruct (step s e) as [[s1 r]|] eqn:Hs; [|discriminate].
    destruct (Model_ObjectWriter.run B A c s1 tr) as [[s2 rs']|] eqn:Hr; [|discriminate]. inversion H; subst.
    cbn [accepted]. eapply IH; [eapply step_R; eassumption| |exact Hr|exact Hre2].
    destruct HJ as [HG|Hd]; [eapply step_good; eassumption|].
    right. eapply doomed_step; eassumption.
Qed.

Theorem bytes_exact tr s rs :
  run (init_state B A c) tr = Some (s, rs) -> existsb is_reset tr = false -> ph s = Done ->
  obj s = Some (accepted (bs_empty A) tr rs) /\ cursor s = bs_len A (accepted (bs_empty A) tr rs).
Proof.
  intros H Hre Hd.
  destruct (run_good tr _ _ _ _ R_init (or_introl Good_init) H Hre) as [HG|HD].
  - destruct HG as [G1 G2 G3 G4 G6 G5]. rewrite Hd in G5. split; assumption.
  - unfold doomed in HD. rewrite Hd in HD. destruct HD.
Qed.

End Bytes.

End Proofs.
