(* Proofs about Io/Model_ObjectWriter.v (C31). *)
From LanceV Require Import Common.Base Io.Model_ObjectWriter.
Local Open Scope N_scope.

(* What the writer may assume of byte strings.  Lists satisfy it, and so do bare lengths. *)
Record bstr_laws {B : Type} (A : bstr B) : Prop := {
  law_len_app : forall a b, bs_len A (bs_app A a b) = bs_len A a + bs_len A b;
  law_len_empty : bs_len A (bs_empty A) = 0;
  law_app_assoc : forall a b d, bs_app A (bs_app A a b) d = bs_app A a (bs_app A b d);
  law_app_empty_l : forall a, bs_app A (bs_empty A) a = a;
  law_app_empty_r : forall a, bs_app A a (bs_empty A) = a;
  law_len_zero : forall a, bs_len A a = 0 -> a = bs_empty A
}.

Lemma bs_list_laws (T : Type) : bstr_laws (bs_list T).
Proof.
  split; cbn; intros.
  - rewrite app_length. lia.
  - reflexivity.
  - symmetry; apply app_assoc.
  - reflexivity.
  - apply app_nil_r.
  - destruct a; [reflexivity | cbn in H; lia].
Qed.

Lemma bs_size_laws : bstr_laws bs_size.
Proof. split; cbn; intros; lia. Qed.

(* events that make an object visible; events that are faults; the class of the known finding *)
Definition committed {B} (e : event B) : bool :=
  match e with EvPut true | EvComplete true => true | _ => false end.
Definition is_shutdown {B} (e : event B) : bool :=
  match e with EvShutdown => true | _ => false end.
Definition is_reset {B} (e : event B) : bool :=
  match e with EvFinish _ RErrReset => true | _ => false end.
Definition is_fault {B} (e : event B) : bool :=
  match e with
  | EvFinish _ RErrOther | EvCreate false | EvPut false | EvComplete false | EvAbort _ | EvDrop _ => true
  | _ => false
  end.

Section Proofs.
Variable B : Type.
Variable A : bstr B.
Variable c : cfg.

Local Notation state := (state B).
Local Notation step := (step B A c).
Local Notation run := (run B A c).
Local Notation poll_tasks := (poll_tasks B A).
Local Notation drain := (drain B).
Local Notation spawn := (spawn B).
Local Notation shutdown_loop := (shutdown_loop B A).

Ltac unf := unfold set_ph, set_poisoned, set_shut, set_buf, set_resets, set_tasks, set_store, Model_ObjectWriter.spawn, close in *; cbn [ph poisoned shut buf cap cursor resets running ready calls failed n_create put_data n_complete n_abort obj] in *.

(* ------------------------------------------------------------------------------------------ *)
(* 1. What the writer's own code never touches                                                *)
(* ------------------------------------------------------------------------------------------ *)

(* fields of the store that only store events change, and the flags only [step] changes *)
Definition wframe (s s' : state) : Prop :=
  obj s' = obj s /\ failed s' = failed s /\ poisoned s' = poisoned s /\ shut s' = shut s.

Lemma wframe_refl s : wframe s s.
Proof. repeat split. Qed.
Lemma wframe_trans s1 s2 s3 : wframe s1 s2 -> wframe s2 s3 -> wframe s1 s3.
Proof. unfold wframe; intros (?&?&?&?) (?&?&?&?); repeat split; congruence. Qed.

Lemma drain_frame q : forall s s' b, drain c q s = (s', b) -> wframe s s' /\ ph s' = ph s.
Proof.
  induction q as [|[t r] q IH]; intros s s' b H; cbn [Model_ObjectWriter.drain] in H.
  - inversion H; subst; unf; repeat split.
  - destruct r.
    + eauto.
    + inversion H; subst; unf; repeat split.
    + destruct (resets s <? c_maxretry c).
      * apply IH in H. destruct H as [(?&?&?&?) Hp]; unf. repeat split; assumption.
      * inversion H; subst; unf; repeat split.
Qed.

Lemma poll_tasks_frame fuel : forall s,
  match poll_tasks fuel c s with
  | TOk _ s' | TErr _ s' => wframe s s'
  | TFuel _ => True
  end.
Proof.
  induction fuel as [|f IH]; intro s; cbn [Model_ObjectWriter.poll_tasks]; [exact I|].
  destruct (ph s) as [|g|p|d g|g| |] eqn:Hp; try apply wframe_refl.
  - destruct g; try apply wframe_refl.
    match goal with |- match poll_tasks f c ?x with _ => _ end => specialize (IH x); destruct (poll_tasks f c x) end;
      try exact I; (eapply wframe_trans; [|exact IH]); unf; repeat split.
  - destruct (drain c (ready s) s) as [s1 ok] eqn:Hd. apply drain_frame in Hd as [Hf _].
    destruct ok; exact Hf.
  - destruct g; try apply wframe_refl.
    match goal with |- match poll_tasks f c ?x with _ => _ end => specialize (IH x); destruct (poll_tasks f c x) end;
      try exact I; (eapply wframe_trans; [|exact IH]); unf; repeat split.
  - destruct g; try apply wframe_refl.
    match goal with |- match poll_tasks f c ?x with _ => _ end => specialize (IH x); destruct (poll_tasks f c x) end;
      try exact I; (eapply wframe_trans; [|exact IH]); unf; repeat split.
Qed.

(* the phase in which poll_tasks reports an error *)
Definition err_phase (s : state) : Prop :=
  ph s = Creating GErr \/ (exists p, ph s = InProgress p) \/ (exists d, ph s = PuttingSingle d GErr) \/ ph s = Completing GErr.

Lemma poll_tasks_err fuel : forall s s', poll_tasks fuel c s = TErr _ s' -> err_phase s'.
Proof.
  induction fuel as [|f IH]; intros s s' H; cbn [Model_ObjectWriter.poll_tasks] in H; [discriminate|].
  destruct (ph s) as [|g|p|d g|g| |] eqn:Hp; try discriminate.
  - destruct g; try discriminate.
    + eauto.
    + inversion H; subst. left; assumption.
  - destruct (drain c (ready s) s) as [s1 ok] eqn:Hd. apply drain_frame in Hd as [_ Hph].
    destruct ok; inversion H; subst. right; left. exists p. congruence.
  - destruct g; try discriminate; [eauto|]. inversion H; subst. right; right; left; eauto.
  - destruct g; try discriminate; [eauto|]. inversion H; subst. right; right; right; assumption.
Qed.

(* ------------------------------------------------------------------------------------------ *)
(* 2. Polls never change what is visible                                                      *)
(* ------------------------------------------------------------------------------------------ *)

Definition sframe (s s' : state) : Prop := obj s' = obj s /\ failed s' = failed s.

Lemma wframe_sframe s s' : wframe s s' -> sframe s s'.
Proof. intros (?&?&?&?); split; assumption. Qed.
Lemma sframe_trans s1 s2 s3 : sframe s1 s2 -> sframe s2 s3 -> sframe s1 s3.
Proof. unfold sframe; intros (?&?) (?&?); split; congruence. Qed.

Lemma poll_write_sframe s d : sframe s (fst (poll_write B A c s d)).
Proof.
  unfold poll_write. pose proof (poll_tasks_frame tasks_fuel s) as H1.
  destruct (poll_tasks tasks_fuel c s) as [s1|s1|]; cbn [fst].
  2:{ apply wframe_sframe in H1. destruct H1; split; unf; assumption. }
  2:{ split; reflexivity. }
  apply wframe_sframe in H1.
  set (k := N.min (cap s1 - bs_len A (buf s1)) (bs_len A d)).
  set (s2 := set_buf B s1 (bs_app A (buf s1) (bs_take A k d)) (cap s1) (cursor s1 + k)).
  assert (H2 : sframe s s2) by (destruct H1; split; subst s2; unf; assumption).
  match goal with |- context [match ?r with Ok s3 => _ | _ => _ end] => set (r3 := r) end.
  assert (H3 : match r3 with Ok s3 => sframe s s3 | _ => True end).
  { subst r3. destruct (cap s2 =? bs_len A (buf s2)); [|exact H2].
    destruct (ph s2) as [|g|p|dd g|g| |]; try exact H2.
    destruct (nfut B s2 <? c_maxpar c); [|exact H2].
    destruct (p + 1 <? 65536); [exact H2|exact I]. }
  destruct r3 as [s3| |]; cbn [fst]; try exact H2.
  pose proof (poll_tasks_frame tasks_fuel s3) as H4.
  destruct (poll_tasks tasks_fuel c s3) as [s4|s4|]; cbn [fst]; try exact H3.
  - eapply sframe_trans; [exact H3| apply wframe_sframe; exact H4].
  - apply wframe_sframe in H4. destruct H3, H4; split; unf; congruence.
Qed.

Lemma poll_flush_sframe s : sframe s (fst (poll_flush B A c s)).
Proof.
  unfold poll_flush. pose proof (poll_tasks_frame tasks_fuel s) as H1.
  destruct (poll_tasks tasks_fuel c s) as [s1|s1|]; cbn [fst].
  - apply wframe_sframe in H1. destruct (ph s1); try destruct (nfut B s1 =? 0); exact H1.
  - apply wframe_sframe in H1. destruct H1; split; unf; assumption.
  - split; reflexivity.
Qed.

Lemma shutdown_loop_sframe fuel : forall s, sframe s (fst (shutdown_loop fuel c s)).
Proof.
  induction fuel as [|f IH]; intro s; cbn [Model_ObjectWriter.shutdown_loop fst]; [split; reflexivity|].
  pose proof (poll_tasks_frame tasks_fuel s) as H1.
  destruct (poll_tasks tasks_fuel c s) as [s1|s1|]; cbn [fst].
  2:{ apply wframe_sframe in H1. destruct H1; split; unf; assumption. }
  2:{ split; reflexivity. }
  apply wframe_sframe in H1.
  destruct (ph s1) as [|g|p|dd g|g| |]; cbn [fst]; try exact H1.
  - eapply sframe_trans; [|apply IH]. destruct H1; split; unf; assumption.
  - destruct (negb (bs_len A (buf s1) =? 0) && (nfut B s1 <? c_maxpar c)).
    + eapply sframe_trans; [|apply IH]. destruct H1; split; unf; assumption.
    + destruct (nfut B s1 =? 0); cbn [fst]; [|exact H1].
      eapply sframe_trans; [|apply IH]. destruct H1; split; unf; assumption.
Qed.

Lemma poll_shutdown_sframe s : sframe s (fst (poll_shutdown B A c s)).
Proof.
  unfold poll_shutdown. eapply sframe_trans; [|apply shutdown_loop_sframe]. split; reflexivity.
Qed.

(* only a successful put / complete event changes the visible object *)
Lemma step_obj s e s' r : step s e = Some (s', r) -> committed e = false -> obj s' = obj s.
Proof.
  intros H Hc. destruct e as [d| | |ok|k fr|ok|ok|ok|ok]; cbn [Model_ObjectWriter.step] in H.
  - destruct (poisoned s || shut s); [discriminate|]. destruct (ph s); inversion H;
      pose proof (poll_write_sframe s d) as [Ho _]; rewrite H1 in Ho; exact Ho.
  - destruct (poisoned s || shut s); [discriminate|]. destruct (ph s); inversion H;
      pose proof (poll_flush_sframe s) as [Ho _]; rewrite H1 in Ho; exact Ho.
  - destruct (poisoned s); [discriminate|]. destruct (ph s); inversion H;
      pose proof (poll_shutdown_sframe s) as [Ho _]; rewrite H1 in Ho; exact Ho.
  - destruct (ph s) as [|g|p|dd g|g| |]; try discriminate. destruct g; try discriminate. inversion H; reflexivity.
  - destruct (take_task B k (running s)) as [[t rest]|]; [|discriminate]. inversion H; reflexivity.
  - destruct ok; [discriminate|]. destruct (ph s) as [|g|p|dd g|g| |]; try discriminate. destruct g; try discriminate.
    inversion H; reflexivity.
  - destruct ok; [discriminate|]. destruct (ph s) as [|g|p|dd g|g| |]; try discriminate. destruct g; try discriminate.
    inversion H; reflexivity.
  - destruct (ph s); inversion H; unf; reflexivity.
  - destruct (ph s); inversion H; unf; reflexivity.
Qed.

End Proofs.
