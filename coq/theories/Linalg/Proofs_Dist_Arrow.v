(* C35: the Arrow-batch helpers = type dispatch + the batch kernel + null propagation. *)
From LanceV Require Import Common.Base Linalg.Model_Dist Linalg.Proofs_Dist_Slices Linalg.Proofs_Dist_Kernels
  Linalg.Proofs_Dist_Hamming Linalg.Proofs_Dist_Batch.
Local Open Scope Z_scope.

Lemma nth_error_combine {A B} : forall (a : list A) (b : list B) (j : nat),
  nth_error (combine a b) j =
  match nth_error a j, nth_error b j with Some x, Some y => Some (x, y) | _, _ => None end.
Proof.
  induction a as [|x a IH]; intros b j.
  - cbn. destruct j; reflexivity.
  - destruct b as [|y b].
    + cbn. destruct j; cbn; [reflexivity|]. destruct (nth_error a j); reflexivity.
    + destruct j; cbn; [reflexivity | apply IH].
Qed.

Lemma nth_default_forallb (valid : list bool) (j : nat) :
  forallb (fun b : bool => b) valid = true -> nth j valid true = true.
Proof.
  intro H. destruct (Nat.lt_ge_cases j (length valid)) as [Hlt|Hge].
  - rewrite forallb_forall in H. apply H. apply nth_In. exact Hlt.
  - apply nth_overflow. exact Hge.
Qed.

(* Float32Array::new(values, to.nulls()): row j is null iff the row of `to` is null *)
Lemma attach_nulls_spec (valid : list bool) (d : list xval) (out : list (option xval)) :
  attach_nulls valid d = Ok out ->
  length out = length d /\
  forall j dj, nth_error d j = Some dj -> nth_error out j = Some (if nth j valid true then Some dj else None).
Proof.
  unfold attach_nulls. destruct (forallb (fun b : bool => b) valid) eqn:Ea.
  - intro H. inversion H. split; [apply map_length|]. intros j dj Hj.
    rewrite (map_nth_error Some j d Hj). rewrite nth_default_forallb by exact Ea. reflexivity.
  - destruct (length d =? length valid)%nat eqn:El; [|discriminate]. apply Nat.eqb_eq in El.
    intro H. inversion H. split; [rewrite map_length, combine_length; lia|]. intros j dj Hj.
    assert (Hjl : (j < length valid)%nat) by (rewrite <- El; apply nth_error_Some; rewrite Hj; discriminate).
    destruct (nth_error valid j) as [b|] eqn:Hb; [|apply nth_error_None in Hb; lia].
    assert (Hc : nth_error (combine valid d) j = Some (b, dj)) by (rewrite nth_error_combine, Hb, Hj; reflexivity).
    rewrite (map_nth_error _ j (combine valid d) Hc). cbn [fst snd].
    rewrite (nth_error_nth valid j true Hb). reflexivity.
Qed.

Lemma lift_batch_inv (valid : list bool) (o : outcome (list xval)) (out : list (option xval)) :
  lift_batch valid o = Ok (Some out) -> exists ds, o = Ok ds /\ attach_nulls valid ds = Ok out.
Proof.
  unfold lift_batch. destruct o as [ds| |]; try discriminate.
  destruct (attach_nulls valid ds) as [r| |] eqn:E; try discriminate.
  intro H. inversion H. subst. exists ds. split; [reflexivity | exact E].
Qed.

(* successful dispatch: the kernel type is arrow_elem_ty and |from| = dimension *)
Lemma arrow_dispatch_ok {B} (k : ety -> outcome B) (fty : aty) (from : list Z) (tty : aty) (dim : nat) (b : B) :
  arrow_dispatch k fty from tty dim = Ok b ->
  exists t, arrow_elem_ty fty tty = Some t /\ length from = dim /\ k t = Ok b.
Proof.
  unfold arrow_dispatch, do_arrow, arrow_elem_ty. intro H.
  destruct (length from =? dim)%nat eqn:El.
  - apply Nat.eqb_eq in El.
    destruct fty, tty; cbn in H; try discriminate;
      first [ exists F16; repeat split; [exact El | exact H]
            | exists F32; repeat split; [exact El | exact H]
            | exists F64; repeat split; [exact El | exact H] ].
  - destruct fty, tty; cbn in H; discriminate.
Qed.

(* l2_distance_arrow_batch / DistanceType::L2.arrow_batch_func(): on success the output has one
   entry per row of `to`: null where the row is null, otherwise the l2 kernel (at the dispatched
   element type) on that row. *)
Theorem l2_arrow_batch_correct (fty : aty) (from : list Z) (tty : aty) (to : list Z) (dim : nat)
        (valid : list bool) (out : list (option xval)) :
  l2_arrow_batch fty from tty to dim valid = Ok (Some out) ->
  exists t ds, arrow_elem_ty fty tty = Some t /\ length from = dim /\
               l2_distance_batch t from to dim = Ok ds /\ length out = length ds /\
               forall j dj, nth_error ds j = Some dj ->
                 nth_error out j = Some (if nth j valid true then Some dj else None).
Proof.
  unfold l2_arrow_batch. intro H. apply arrow_dispatch_ok in H as (t & Ht & Hl & Hk).
  apply lift_batch_inv in Hk as (ds & Hds & Ha). apply attach_nulls_spec in Ha as [Ha1 Ha2].
  exists t, ds. repeat split; assumption.
Qed.

Theorem dot_arrow_batch_correct (fty : aty) (from : list Z) (tty : aty) (to : list Z) (dim : nat)
        (valid : list bool) (out : list (option xval)) :
  dot_arrow_batch fty from tty to dim valid = Ok (Some out) ->
  exists t ds, arrow_elem_ty fty tty = Some t /\ length from = dim /\ (0 < dim)%nat /\
               sequence_outcome (map (dot_distance t from) (fst (chunks_exact dim to))) = Ok ds /\
               length out = length ds /\
               forall j dj, nth_error ds j = Some dj ->
                 nth_error out j = Some (if nth j valid true then Some dj else None).
Proof.
  unfold dot_arrow_batch. intro H. destruct (negb (length from =? dim)%nat); [discriminate|].
  apply arrow_dispatch_ok in H as (t & Ht & Hl & Hk).
  destruct (dim =? 0)%nat eqn:E0; [discriminate|]. apply Nat.eqb_neq in E0.
  apply lift_batch_inv in Hk as (ds & Hds & Ha). apply attach_nulls_spec in Ha as [Ha1 Ha2].
  exists t, ds. repeat split; try assumption. lia.
Qed.

Theorem hamming_arrow_batch_correct (fty : aty) (from : list Z) (tty : aty) (to : list Z)
        (valid : list bool) (out : list (option xval)) :
  hamming_arrow_batch fty from tty to valid = Ok (Some out) ->
  fty = AU8 /\ tty = AU8 /\
  exists ds, hamming_distance_batch from to (length from) = Ok ds /\ length out = length ds /\
             forall j dj, nth_error ds j = Some dj ->
               nth_error out j = Some (if nth j valid true then Some dj else None).
Proof.
  unfold hamming_arrow_batch. intro H. destruct fty; try discriminate. destruct tty; try discriminate.
  apply lift_batch_inv in H as (ds & Hds & Ha). apply attach_nulls_spec in Ha as [Ha1 Ha2].
  repeat split; try reflexivity. exists ds. repeat split; assumption.
Qed.
