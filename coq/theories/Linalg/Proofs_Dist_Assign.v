(* C35: nearest-centroid assignment picks the first centroid at minimal distance. *)
From LanceV Require Import Common.Base Linalg.Model_Dist Linalg.Proofs_Dist_Slices Linalg.Proofs_Dist_Ring
  Linalg.Proofs_Dist_Kernels Linalg.Proofs_Dist_Hamming Linalg.Proofs_Dist_Batch Linalg.Proofs_Dist_Argmin.
Local Open Scope Z_scope.

Lemma sequence_option_length {A} : forall (l : list (option A)) (l' : list A),
  sequence_option l = Some l' -> length l' = length l.
Proof.
  induction l as [|o l IH]; intros l' H; cbn [sequence_option] in H.
  - inversion H. reflexivity.
  - destruct o as [a|]; [|discriminate].
    destruct (sequence_option l) as [r|] eqn:E; [|discriminate].
    inversion H. cbn. f_equal. apply IH. reflexivity.
Qed.

(* batch_nan has the shape of checked_batch *)
Lemma batch_nan_spec (f : list Z -> list Z -> outcome xval) (from to : list (option Z)) (dim : nat) (ds : list xval) :
  batch_nan f from to dim = Ok ds ->
  length from = dim /\ (0 < dim)%nat /\ (length to mod dim = 0)%nat /\
  length ds = (length to / dim)%nat /\
  forall j d, nth_error ds j = Some d -> nanlift f from (firstn dim (skipn (j * dim) to)) = Ok d.
Proof.
  unfold batch_nan. intro H.
  destruct (length from =? dim)%nat eqn:E1; cbn [negb] in H; [|discriminate].
  destruct (dim =? 0)%nat eqn:E2; [discriminate|].
  destruct (length to mod dim =? 0)%nat eqn:E3; cbn [negb] in H; [|discriminate].
  apply Nat.eqb_eq in E1. apply Nat.eqb_neq in E2. apply Nat.eqb_eq in E3.
  assert (Hd : (0 < dim)%nat) by lia.
  apply sequence_outcome_ok in H. apply Forall2_nth_error in H as [Hlen Hnth].
  rewrite map_length in Hlen. destruct (chunks_exact_counts dim to Hd) as [Hc _].
  repeat split; try assumption; try lia.
  intros j d Hj. apply Hnth in Hj as (o & Ho & Hod). subst o.
  apply nth_error_map_inv in Ho. destruct Ho as (c & Hc' & Hfc).
  apply (chunks_exact_nth dim Hd) in Hc'. subst c. exact Hfc.
Qed.

(* the exact distance between a vector and the j-th centroid; None = NaN (an element is NaN) *)
Definition cdist (g : list Z -> list Z -> Z) (centroids vec : list (option Z)) (dim j : nat) : option Z :=
  match sequence_option vec, sequence_option (firstn dim (skipn (j * dim) centroids)) with
  | Some v, Some c => Some (g v c)
  | _, _ => None
  end.

Section Assign.
  (* a distance kernel that, on equally long vectors, returns the integer g x y *)
  Variable f : list Z -> list Z -> outcome xval.
  Variable g : list Z -> list Z -> Z.
  Hypothesis f_exact : forall x y, length x = length y -> f x y = Ok (xint (g x y)).

  Lemma nanlift_fv (vec row : list (option Z)) (d : xval) : length vec = length row ->
    nanlift f vec row = Ok d ->
    match sequence_option vec, sequence_option row with
    | Some v, Some c => fv_of_xval d = FV (g v c)
    | _, _ => fv_of_xval d = FNan
    end.
  Proof.
    intros Hl H. unfold nanlift in H.
    destruct (sequence_option vec) as [v|] eqn:Ev; [|inversion H; reflexivity].
    destruct (sequence_option row) as [c|] eqn:Ec; [|inversion H; reflexivity].
    rewrite f_exact in H.
    - inversion H. reflexivity.
    - rewrite (sequence_option_length _ _ Ev), (sequence_option_length _ _ Ec). exact Hl.
  Qed.

  Theorem assign_one_minimal (centroids vec : list (option Z)) (dim : nat) (r : option (N * Z)) :
    (N.of_nat (length centroids / dim) <= two32)%N ->
    assign_one f centroids dim None vec = Ok r ->
    length vec = dim /\ (0 < dim)%nat /\ (length centroids mod dim = 0)%nat /\
    let k := (length centroids / dim)%nat in
    match r with
    | Some (c, d) =>
        exists j, c = N.of_nat j /\ (j < k)%nat /\ cdist g centroids vec dim j = Some d /\ d < INF /\
                  (forall j' w, (j' < k)%nat -> cdist g centroids vec dim j' = Some w -> d <= w) /\
                  (forall j' w, (j' < j)%nat -> cdist g centroids vec dim j' = Some w -> d < w)
    | None => forall j w, (j < k)%nat -> cdist g centroids vec dim j = Some w -> INF <= w
    end.
  Proof.
    intros Hk H. unfold assign_one in H.
    destruct (batch_nan f vec centroids dim) as [ds| |] eqn:Eb; try discriminate.
    apply batch_nan_spec in Eb as (Hf & Hd & Hm & Hl & Hrows).
    repeat split; try assumption. cbv zeta.
    inversion H as [Hr]. clear H. cbn [argmin_value_float_with_bias]. unfold argmin_value_float.
    (* items of the argmin list vs exact distances *)
    assert (Hfv : forall j w, nth_error (map fv_of_xval ds) j = Some (FV w) ->
                              (j < length centroids / dim)%nat /\ cdist g centroids vec dim j = Some w).
    { intros j w Hj. apply nth_error_map_inv in Hj as (d & Hdj & Hfd).
      assert (Hjl : (j < length centroids / dim)%nat) by (rewrite <- Hl; apply nth_error_Some; rewrite Hdj; discriminate).
      split; [exact Hjl|]. specialize (Hrows j d Hdj).
      apply nanlift_fv in Hrows; [|rewrite row_length; lia].
      unfold cdist. destruct (sequence_option vec) as [v|]; [|rewrite Hfd in Hrows; discriminate].
      destruct (sequence_option (firstn dim (skipn (j * dim) centroids))) as [c|]; [|rewrite Hfd in Hrows; discriminate].
      rewrite Hfd in Hrows. inversion Hrows. reflexivity. }
    assert (Hvf : forall j w, (j < length centroids / dim)%nat -> cdist g centroids vec dim j = Some w ->
                              nth_error (map fv_of_xval ds) j = Some (FV w)).
    { intros j w Hj Hc. destruct (nth_error ds j) as [d|] eqn:Hdj.
      - rewrite (map_nth_error fv_of_xval j ds Hdj). f_equal.
        specialize (Hrows j d Hdj). apply nanlift_fv in Hrows; [|rewrite row_length; lia].
        unfold cdist in Hc. destruct (sequence_option vec) as [v|]; [|discriminate].
        destruct (sequence_option (firstn dim (skipn (j * dim) centroids))) as [c|]; [|discriminate].
        inversion Hc. subst w. exact Hrows.
      - apply nth_error_None in Hdj. lia. }
    pose proof (argmin_value_opt_spec INF (map fv_of_xval ds)) as Ha.
    rewrite map_length, Hl in Ha. specialize (Ha Hk).
    destruct (argmin_value_opt INF (map fv_of_xval ds)) as [[c d]|].
    - destruct Ha as (j & Hc & Hj & Hlt & Hmin & Hfirst). exists j.
      apply Hfv in Hj as [Hjk Hcd]. repeat split; try assumption.
      + intros j' w Hj' Hw. apply (Hmin j'). apply Hvf; assumption.
      + intros j' w Hj' Hw. apply (Hfirst j'); [exact Hj'|]. apply Hvf; [lia | exact Hw].
    - intros j w Hj Hw. apply (Ha j). apply Hvf; assumption.
  Qed.
End Assign.

(* dot_distance on float types returns 1 - dot *)
Lemma dot_distance_exact (t : ety) : t <> U8 -> forall x y, length x = length y ->
  dot_distance t x y = Ok (xint (1 - dot_spec_Z x y)).
Proof.
  intros Ht x y Hl. unfold dot_distance. rewrite dot_correct by exact Hl.
  destruct t; try reflexivity. contradiction.
Qed.

Lemma l2_exact (t : ety) : t <> U8 -> forall x y, length x = length y -> l2 t x y = Ok (xint (l2_spec_Z x y)).
Proof. intros Ht x y Hl. rewrite l2_correct by exact Hl. destruct t; try reflexivity. contradiction. Qed.

Lemma chunks_nth {A} (n : nat) (l : list A) (j : nat) (c : list A) : (0 < n)%nat ->
  nth_error (chunks n l) j = Some c -> c = firstn n (skipn (j * n) l).
Proof.
  intros Hn H. unfold chunks in H.
  pose proof (chunks_exact_spec n l Hn) as Hs. pose proof (chunks_exact_counts n l Hn) as [Hc Hr].
  pose proof (chunks_exact_nth n Hn j l c) as Hnth.
  destruct (chunks_exact n l) as [cs r]. cbn [fst snd] in *. destruct Hs as (E & F & Hlt).
  assert (Hcase : nth_error cs j = Some c \/ (j = length cs /\ c = r /\ r <> [])).
  { destruct r as [|a r']; [left; exact H|].
    apply nth_error_snoc in H as [[_ H]|[H1 H2]]; [left; exact H | right; repeat split; [exact H1 | exact H2 | discriminate]]. }
  destruct Hcase as [Hin|(Hj & Hcr & _)]; [apply Hnth; exact Hin|].
  subst j c. rewrite E. rewrite skipn_app.
  rewrite (concat_length_uniform n cs F). rewrite Nat.sub_diag. cbn [skipn].
  rewrite skipn_all2 by (rewrite (concat_length_uniform n cs F); lia). cbn [app].
  rewrite firstn_all2 by lia. reflexivity.
Qed.

(* the exact distance of the metric *)
Definition metric_dist (m : metric) (x y : list Z) : Z :=
  match m with
  | ML2 => l2_spec_Z x y
  | MDot => 1 - dot_spec_Z x y
  | _ => 0
  end.

(* compute_membership_and_dist / compute_partitions (float types, L2 or Dot, no balance bias):
   every vector (the i-th chunk of `data`) is assigned to the FIRST centroid at minimal exact
   distance among the centroids whose distance is not NaN; None iff there is none. *)
Theorem membership_float_minimal (t : ety) (m : metric) (centroids data : list (option Z)) (dim : nat)
        (res : list (option (N * Z))) :
  t <> U8 -> (m = ML2 \/ m = MDot) -> (N.of_nat (length centroids / dim) <= two32)%N ->
  membership_float t m centroids data dim None = Ok res ->
  (0 < dim)%nat /\ length res = length (chunks dim data) /\
  forall i r, nth_error res i = Some r ->
    let vec := firstn dim (skipn (i * dim) data) in
    let k := (length centroids / dim)%nat in
    length vec = dim /\ (length centroids mod dim = 0)%nat /\
    match r with
    | Some (c, d) =>
        exists j, c = N.of_nat j /\ (j < k)%nat /\ cdist (metric_dist m) centroids vec dim j = Some d /\ d < INF /\
                  (forall j' w, (j' < k)%nat -> cdist (metric_dist m) centroids vec dim j' = Some w -> d <= w) /\
                  (forall j' w, (j' < j)%nat -> cdist (metric_dist m) centroids vec dim j' = Some w -> d < w)
    | None => forall j w, (j < k)%nat -> cdist (metric_dist m) centroids vec dim j = Some w -> INF <= w
    end.
Proof.
  intros Ht Hm Hk H. unfold membership_float in H.
  destruct (dim =? 0)%nat eqn:E0; [discriminate|]. apply Nat.eqb_neq in E0.
  assert (Hd : (0 < dim)%nat) by lia. split; [exact Hd|].
  assert (Hgen : forall f g, (forall x y, length x = length y -> f x y = Ok (xint (g x y))) ->
            sequence_outcome (map (assign_one f centroids dim None) (chunks dim data)) = Ok res ->
            length res = length (chunks dim data) /\
            forall i r, nth_error res i = Some r ->
              let vec := firstn dim (skipn (i * dim) data) in
              let k := (length centroids / dim)%nat in
              length vec = dim /\ (length centroids mod dim = 0)%nat /\
              match r with
              | Some (c, d) =>
                  exists j, c = N.of_nat j /\ (j < k)%nat /\ cdist g centroids vec dim j = Some d /\ d < INF /\
                            (forall j' w, (j' < k)%nat -> cdist g centroids vec dim j' = Some w -> d <= w) /\
                            (forall j' w, (j' < j)%nat -> cdist g centroids vec dim j' = Some w -> d < w)
              | None => forall j w, (j < k)%nat -> cdist g centroids vec dim j = Some w -> INF <= w
              end).
  { intros f g Hfg Hs. apply sequence_outcome_ok in Hs. apply Forall2_nth_error in Hs as [Hlen Hnth].
    rewrite map_length in Hlen. split; [lia|]. intros i r Hi. cbv zeta.
    apply Hnth in Hi as (o & Ho & Hor). subst o.
    apply nth_error_map_inv in Ho as (vec & Hvec & Ha).
    apply (chunks_nth dim data i vec Hd) in Hvec. subst vec.
    pose proof (assign_one_minimal f g Hfg centroids _ dim r Hk Ha) as (H1 & _ & H3 & H4).
    split; [exact H1|]. split; [exact H3|]. exact H4. }
  destruct Hm as [Hm|Hm]; subst m.
  - apply (Hgen (l2 t) l2_spec_Z (l2_exact t Ht)). exact H.
  - apply (Hgen (dot_distance t) (fun x y => 1 - dot_spec_Z x y) (dot_distance_exact t Ht)). exact H.
Qed.
