(* Proofs about Linalg/Model_Dist.v (C35). *)
From LanceV Require Import Common.Base Linalg.Model_Dist.
From Coq Require Import Ring ZArithRing.
Local Open Scope Z_scope.

(* ------------------------------------------------------------------------------------------ *)
(* slices                                                                                      *)
(* ------------------------------------------------------------------------------------------ *)
Section SliceFacts.
  Context {A : Type}.

  Lemma split_exact_some (n : nat) : forall (l h t : list A),
    split_exact n l = Some (h, t) -> l = h ++ t /\ length h = n.
  Proof.
    induction n as [|k IH]; intros l h t H; cbn [split_exact] in H.
    - inversion H; subst. split; reflexivity.
    - destruct l as [|a l']; [discriminate|].
      destruct (split_exact k l') as [[h' r']|] eqn:E; [|discriminate].
      inversion H; subst. apply IH in E as [E1 E2]. subst l'. split; [reflexivity | cbn; lia].
  Qed.

  Lemma split_exact_none (n : nat) : forall (l : list A),
    split_exact n l = None -> (length l < n)%nat.
  Proof.
    induction n as [|k IH]; intros l H; cbn [split_exact] in H; [discriminate|].
    destruct l as [|a l']; [cbn; lia|].
    destruct (split_exact k l') as [[h' r']|] eqn:E; [discriminate|].
    apply IH in E. cbn. lia.
  Qed.

  Lemma split_exact_app (n : nat) : forall (h t : list A),
    length h = n -> split_exact n (h ++ t) = Some (h, t).
  Proof.
    induction n as [|k IH]; intros h t Hl.
    - destruct h; [reflexivity | discriminate].
    - destruct h as [|a h']; [discriminate|]. cbn [app split_exact].
      rewrite IH by (cbn in Hl; lia). reflexivity.
  Qed.

  (* with enough fuel the whole list is chunked: no "out of fuel" result is ever observed *)
  Lemma chunks_aux_spec (n : nat) : (0 < n)%nat -> forall (fuel : nat) (l : list A),
    (length l <= fuel)%nat ->
    let (cs, r) := chunks_aux fuel n l in
    l = concat cs ++ r /\ Forall (fun c => length c = n) cs /\ (length r < n)%nat.
  Proof.
    intros Hn. induction fuel as [|f IH]; intros l Hl; cbn [chunks_aux].
    - destruct l; [|cbn in Hl; lia]. cbn. repeat split; [constructor | lia].
    - destruct (split_exact n l) as [[h t]|] eqn:E.
      + apply split_exact_some in E as [E1 E2]. subst l.
        rewrite app_length in Hl.
        specialize (IH t ltac:(lia)). destruct (chunks_aux f n t) as [cs r].
        destruct IH as (I1 & I2 & I3). repeat split.
        * cbn [concat]. rewrite <- app_assoc, <- I1. reflexivity.
        * constructor; assumption.
        * exact I3.
      + apply split_exact_none in E. cbn. repeat split; [constructor | exact E].
  Qed.

  Lemma chunks_exact_spec (n : nat) (l : list A) : (0 < n)%nat ->
    let (cs, r) := chunks_exact n l in
    l = concat cs ++ r /\ Forall (fun c => length c = n) cs /\ (length r < n)%nat.
  Proof. intro Hn. unfold chunks_exact. apply chunks_aux_spec; [exact Hn | lia]. Qed.

  (* the result does not depend on the fuel once it is large enough *)
  Lemma chunks_aux_fuel (n : nat) : (0 < n)%nat -> forall (f1 f2 : nat) (l : list A),
    (length l <= f1)%nat -> (length l <= f2)%nat -> chunks_aux f1 n l = chunks_aux f2 n l.
  Proof.
    intros Hn. induction f1 as [|f1 IH]; intros f2 l H1 H2.
    - destruct l; [|cbn in H1; lia]. destruct f2; cbn [chunks_aux]; [reflexivity|].
      destruct n; [lia|]. reflexivity.
    - destruct f2 as [|f2].
      + destruct l; [|cbn in H2; lia]. cbn [chunks_aux]. destruct n; [lia|]. reflexivity.
      + cbn [chunks_aux]. destruct (split_exact n l) as [[h t]|] eqn:E; [|reflexivity].
        apply split_exact_some in E as [E1 E2]. subst l. rewrite app_length in H1, H2.
        rewrite (IH f2 t) by lia. reflexivity.
  Qed.

  Lemma chunks_exact_app (n : nat) (h t : list A) : (0 < n)%nat -> length h = n ->
    chunks_exact n (h ++ t) = (h :: fst (chunks_exact n t), snd (chunks_exact n t)).
  Proof.
    intros Hn Hh. unfold chunks_exact. rewrite app_length.
    replace (length h + length t)%nat with (S (length h + length t - 1)) by lia.
    cbn [chunks_aux]. rewrite split_exact_app by exact Hh.
    rewrite (chunks_aux_fuel n Hn _ (length t) t) by lia.
    destruct (chunks_aux (length t) n t); reflexivity.
  Qed.

  Lemma chunks_exact_short (n : nat) (l : list A) : (length l < n)%nat ->
    chunks_exact n l = ([], l).
  Proof.
    intro H. unfold chunks_exact. destruct (length l) eqn:E; [reflexivity|].
    cbn [chunks_aux]. destruct (split_exact n l) as [[h t]|] eqn:E2; [|reflexivity].
    apply split_exact_some in E2 as [E3 E4]. subst l. rewrite app_length in E. lia.
  Qed.

End SliceFacts.

(* two slices of equal length are chunked in lock step *)
Lemma chunks_exact_parallel {A B : Type} (n : nat) : (0 < n)%nat -> forall (x : list A) (y : list B),
  length x = length y ->
  length (fst (chunks_exact n x)) = length (fst (chunks_exact n y)) /\
  length (snd (chunks_exact n x)) = length (snd (chunks_exact n y)).
Proof.
  intros Hn x. remember (length x) as m eqn:Hm. revert x Hm.
  induction m as [m IH] using lt_wf_ind. intros x Hm y Hy.
  destruct (Nat.lt_ge_cases (length x) n) as [Hlt|Hge].
  - rewrite (chunks_exact_short n x) by exact Hlt.
    rewrite (chunks_exact_short n y) by lia. cbn. split; [reflexivity | lia].
  - rewrite <- (firstn_skipn n x), <- (firstn_skipn n y).
    rewrite (chunks_exact_app n (firstn n x)) by (try rewrite firstn_length; lia).
    rewrite (chunks_exact_app n (firstn n y)) by (try rewrite firstn_length; lia).
    cbn [fst snd length].
    destruct (IH (length (skipn n x)) ltac:(rewrite skipn_length; lia) (skipn n x) eq_refl (skipn n y))
      as [I1 I2]; [rewrite !skipn_length; lia|].
    split; [f_equal; exact I1 | exact I2].
Qed.

Lemma combine_app_eq {A B : Type} : forall (a c : list A) (b d : list B),
  length a = length b -> combine (a ++ c) (b ++ d) = combine a b ++ combine c d.
Proof.
  induction a as [|x a IH]; intros c b d H; destruct b as [|y b]; try discriminate; cbn.
  - reflexivity.
  - f_equal. apply IH. cbn in H. lia.
Qed.

Lemma concat_length_uniform {A : Type} (n : nat) : forall cs : list (list A),
  Forall (fun c => length c = n) cs -> length (concat cs) = (length cs * n)%nat.
Proof.
  induction cs as [|c cs IH]; intro H; [reflexivity|].
  inversion H; subst. cbn. rewrite app_length, IH by assumption. lia.
Qed.

