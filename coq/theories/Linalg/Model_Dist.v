(* Model of the distance kernels of lance-linalg and the nearest-centroid assignment of lance-index:
     rust/lance-linalg/src/distance/{l2,dot,cosine,hamming,norm_l2}.rs
     rust/lance-linalg/src/kernels.rs        (argmin / argmax family)
     rust/lance-index/src/vector/kmeans.rs   (compute_membership_and_dist, compute_partitions.., ,
                                              compute_partition, kmeans_find_partitions..)
   Executable definitions only.

   Floating-point ROUNDING is not modelled.  The generic kernels are written over an arbitrary
   carrier R with operations (r0, radd, rsub, rmul) and instantiated at Z.  The float-level wrappers
   produce an exact value [xval]; the correspondence runs the real kernels in *exact mode* (inputs
   are integers small enough that every intermediate float is exact), where the real result must
   equal the model's exact value.  Each checker verifies that the case lies in the exact domain
   ([dom_*]); a case outside the domain makes the checker FAIL (the harness must not generate it).
   What IS modelled about floats: NaN propagation / NaN never selected by argmin, division by zero
   in cosine, `u32 as f32` round-to-nearest-even, and correctly-rounded sqrt (as an interval test). *)
From LanceV Require Import Common.Base.
Local Open Scope Z_scope.

(* ------------------------------------------------------------------------------------------ *)
(* slices: chunks_exact / chunks                                                               *)
(* ------------------------------------------------------------------------------------------ *)
Section Slices.
  Context {A : Type}.

  (* l = h ++ t with |h| = n, or None when l is shorter than n *)
  Fixpoint split_exact (n : nat) (l : list A) : option (list A * list A) :=
    match n with
    | O => Some ([], l)
    | S k => match l with
             | [] => None
             | a :: t => match split_exact k t with
                         | None => None
                         | Some (h, r) => Some (a :: h, r)
                         end
             end
    end.

  (* fuel: one unit per chunk; [length l] is always enough when n > 0 (Proofs: chunks_exact_spec). *)
  Fixpoint chunks_aux (fuel n : nat) (l : list A) : list (list A) * list A :=
    match fuel with
    | O => ([], l)
    | S f => match split_exact n l with
             | None => ([], l)
             | Some (h, t) => let (cs, r) := chunks_aux f n t in (h :: cs, r)
             end
    end.

  (* slice::chunks_exact(n): (the full chunks, .remainder()).  n = 0 panics in Rust: callers guard. *)
  Definition chunks_exact (n : nat) (l : list A) : list (list A) * list A := chunks_aux (length l) n l.

  (* slice::chunks(n) / rayon par_chunks(n): the last chunk may be short *)
  Definition chunks (n : nat) (l : list A) : list (list A) :=
    let (cs, r) := chunks_exact n l in
    match r with [] => cs | _ => cs ++ [r] end.
End Slices.

(* ------------------------------------------------------------------------------------------ *)
(* generic lane-wise kernels over a carrier R                                                  *)
(* ------------------------------------------------------------------------------------------ *)
Section Generic.
  Context {R : Type} (r0 : R) (radd rsub rmul : R -> R -> R).

  (* Iterator::sum for floats / `sums.iter().copied().sum()`: fold(zero, |a, b| a + b) *)
  Definition rsum (l : list R) : R := fold_left radd l r0.

  (* for i in 0..LANES { sums[i] += f(x[i], y[i]) } *)
  Fixpoint lane_acc (f : R -> R -> R) (sums xs ys : list R) : list R :=
    match sums, xs, ys with
    | s :: sums', x :: xs', y :: ys' => radd s (f x y) :: lane_acc f sums' xs' ys'
    | _, _, _ => sums
    end.

  (* the common shape of l2_scalar / dot_scalar:
       let x_chunks = xs.chunks_exact(LANES); let y_chunks = ys.chunks_exact(LANES);
       let s = if !x_chunks.remainder().is_empty() { zip(remainders).map(f).sum() } else { 0 };
       let mut sums = [0; LANES]; for (x, y) in x_chunks.zip(y_chunks) { lane loop }
       s + sums.iter().copied().sum()                                                   *)
  Definition lanes2 (f : R -> R -> R) (LANES : nat) (xs ys : list R) : R :=
    let (xc, xr) := chunks_exact LANES xs in
    let (yc, yr) := chunks_exact LANES ys in
    let s := match xr with
             | [] => r0
             | _ => rsum (map (fun p => f (fst p) (snd p)) (combine xr yr))
             end in
    let sums := fold_left (fun sums c => lane_acc f sums (fst c) (snd c)) (combine xc yc) (repeat r0 LANES) in
    radd s (rsum sums).

  Fixpoint lane_acc1 (f : R -> R) (sums xs : list R) : list R :=
    match sums, xs with
    | s :: sums', x :: xs' => radd s (f x) :: lane_acc1 f sums' xs'
    | _, _ => sums
    end.

  (* norm_l2_impl without the final sqrt *)
  Definition lanes1 (f : R -> R) (LANES : nat) (xs : list R) : R :=
    let (xc, xr) := chunks_exact LANES xs in
    let s := match xr with
             | [] => r0
             | _ => rsum (map f xr)
             end in
    let sums := fold_left (fun sums c => lane_acc1 f sums c) xc (repeat r0 LANES) in
    radd s (rsum sums).

  Definition sq (v : R) : R := rmul v v.
  Definition sqdiff (x y : R) : R := let d := rsub x y in rmul d d.

  (* l2.rs: l2_scalar::<T, Output, LANES>(from, to) *)
  Definition l2_scalar (LANES : nat) (from to : list R) : R := lanes2 sqdiff LANES from to.
  (* dot.rs: dot_scalar(from, to): NB x_chunks = to.chunks_exact, y_chunks = from.chunks_exact *)
  Definition dot_scalar (LANES : nat) (from to : list R) : R := lanes2 rmul LANES to from.
  (* norm_l2.rs: norm_l2_impl before .sqrt() *)
  Definition norm_sq_impl (LANES : nat) (v : list R) : R := lanes1 sq LANES v.

  (* the scalar definitions (specification side) *)
  Definition sum_spec (l : list R) : R := fold_right radd r0 l.
  Definition l2_spec (x y : list R) : R := sum_spec (map (fun p => sqdiff (fst p) (snd p)) (combine x y)).
  Definition dot_spec (x y : list R) : R := sum_spec (map (fun p => rmul (fst p) (snd p)) (combine x y)).
  Definition normsq_spec (x : list R) : R := sum_spec (map sq x).

  (* cosine.rs, impl Cosine for f32: the three accumulations of cosine_fast / cosine_with_norms.
       unrolled_len = dim/16*16 ; 16-lane fma loop ; aligned_len = dim/8*8 ; 8-lane fma loop ; tail.
     multiply_add(a, b): self = a * b + self *)
  Fixpoint lane_fma (sums xs ys : list R) : list R :=
    match sums, xs, ys with
    | s :: sums', x :: xs', y :: ys' => radd (rmul x y) s :: lane_fma sums' xs' ys'
    | _, _, _ => sums
    end.

  (* sum over i in (lo..hi).step_by(W) of W-lane fma of xs[i..i+W], ys[i..i+W], then reduce_sum *)
  Definition simd_fma_sum (W lo hi : nat) (xs ys : list R) : R :=
    let xc := fst (chunks_exact W (firstn (hi - lo) (skipn lo xs))) in
    let yc := fst (chunks_exact W (firstn (hi - lo) (skipn lo ys))) in
    rsum (fold_left (fun sums c => lane_fma sums (fst c) (snd c)) (combine xc yc) (repeat r0 W)).
End Generic.

(* ------------------------------------------------------------------------------------------ *)
(* instance at Z and the float-level wrappers                                                  *)
(* ------------------------------------------------------------------------------------------ *)
Definition zsum := @rsum Z 0 Z.add.
Definition l2_scalar_Z := @l2_scalar Z 0 Z.add Z.sub Z.mul.
Definition dot_scalar_Z := @dot_scalar Z 0 Z.add Z.mul.
Definition norm_sq_Z := @norm_sq_impl Z 0 Z.add Z.mul.
Definition simd_fma_sum_Z := @simd_fma_sum Z 0 Z.add Z.mul.
Definition l2_spec_Z := @l2_spec Z 0 Z.add Z.sub Z.mul.
Definition dot_spec_Z := @dot_spec Z 0 Z.add Z.mul.
Definition normsq_spec_Z := @normsq_spec Z 0 Z.add Z.mul.

(* element types that implement L2 / Dot / Normalize / Cosine *)
Inductive ety := F16 | BF16 | F32 | F64 | U8.
Definition ety_eqb (a b : ety) : bool :=
  match a, b with F16, F16 | BF16, BF16 | F32, F32 | F64, F64 | U8, U8 => true | _, _ => false end.

(* LANES of each impl (fp16kernels feature off: f16 takes the `_ =>` arm) *)
Definition l2_lanes (t : ety) : nat := match t with F64 => 8 | _ => 16 end.
Definition dot_lanes (t : ety) : nat := match t with F32 => 16 | F64 => 8 | _ => 32 end.
Definition norm_lanes (t : ety) : nat := match t with F32 | U8 => 16 | F64 => 8 | F16 | BF16 => 32 end.

(* An exact float value: NaN, +-inf, the rational n/d (d > 0), or the correctly rounded square
   root of an integer (norm_l2 on inputs whose squared norm is not a perfect square). *)
Inductive xval :=
| XNaN
| XInf (neg : bool)
| XRat (n d : Z)
| XSqrt (s : Z).
Definition xint (z : Z) : xval := XRat z 1.

(* `u32 as f32`: round to nearest, ties to even, 24-bit significand *)
Definition round_f32 (n : Z) : Z :=
  if n <? 2 ^ 24 then n
  else
    let k := Z.log2 n - 23 in
    let q := Z.shiftr n k in
    let r := n mod 2 ^ k in
    let half := 2 ^ (k - 1) in
    let q' := if (half <? r) || ((r =? half) && Z.odd q) then q + 1 else q in
    q' * 2 ^ k.

Definition two32z : Z := 2 ^ 32.

(* iter.sum::<u32>() in a debug build: overflow panics; terms are non-negative so a partial sum
   overflows iff the total does. *)
Definition sum_u32 (l : list Z) : outcome Z :=
  let s := zsum l in if s <? two32z then Ok s else Panic.

Definition zabs_diff (a b : Z) : Z := Z.abs (a - b).

(* l2.rs: l2_distance_uint_scalar *)
Definition l2_uint (x y : list Z) : outcome xval :=
  match sum_u32 (map (fun p => zabs_diff (fst p) (snd p) ^ 2) (combine x y)) with
  | Ok s => Ok (xint (round_f32 s))
  | Err => Err | Panic => Panic
  end.

(* dot.rs: impl Dot for u8 *)
Definition dot_uint (x y : list Z) : outcome xval :=
  match sum_u32 (map (fun p => fst p * snd p) (combine x y)) with
  | Ok s => Ok (xint (round_f32 s))
  | Err => Err | Panic => Panic
  end.

(* l2::<T>(from, to) *)
Definition l2 (t : ety) (x y : list Z) : outcome xval :=
  match t with
  | U8 => l2_uint x y
  | _ => Ok (xint (l2_scalar_Z (l2_lanes t) x y))
  end.

(* dot::<T>(from, to) *)
Definition dot (t : ety) (x y : list Z) : outcome xval :=
  match t with
  | U8 => dot_uint x y
  | _ => Ok (xint (dot_scalar_Z (dot_lanes t) x y))
  end.

(* 1.0 - v on exact values *)
Definition one_minus (v : xval) : xval :=
  match v with
  | XNaN => XNaN
  | XInf neg => XInf (negb neg)
  | XRat n d => XRat (d - n) d
  | XSqrt _ => XNaN   (* not used: dot never yields XSqrt *)
  end.

Definition omap (f : xval -> xval) (o : outcome xval) : outcome xval :=
  match o with Ok v => Ok (f v) | Err => Err | Panic => Panic end.

(* dot_distance *)
Definition dot_distance (t : ety) (x y : list Z) : outcome xval := omap one_minus (dot t x y).

(* norm_l2::<T>(v) = sqrt(norm_sq).  u8: as_() to f32, f32 accumulation *)
Definition norm_sq (t : ety) (v : list Z) : Z := norm_sq_Z (norm_lanes t) v.
Definition norm_l2 (t : ety) (v : list Z) : outcome xval := Ok (XSqrt (norm_sq t v)).

(* exact square root, None outside the exact domain *)
Definition exact_sqrt (s : Z) : option Z :=
  if s <? 0 then None else let r := Z.sqrt s in if r * r =? s then Some r else None.

(* xy / den, then 1 - that.  den = 0: 0/0 = NaN, otherwise +-inf (den is a product of norms >= +0) *)
Definition one_minus_div (xy den : Z) : xval :=
  if den =? 0 then (if xy =? 0 then XNaN else XInf (0 <? xy))
  else if den <? 0 then XRat (- den + xy) (- den)
  else XRat (den - xy) den.

(* the integer value of an Ok (XRat n 1) *)
Definition xint_of (o : outcome xval) : option Z :=
  match o with Ok (XRat n 1) => Some n | _ => None end.

(* Results of the cosine family: None = outside the exact domain (a needed sqrt is not exact, or a
   u8 sum overflowed) -- the checker rejects such a case. *)
(* cosine.rs: cosine_scalar(x, x_norm, y) = 1 - xy / (x_norm * sqrt(dot(y,y))) *)
Definition cosine_scalar (t : ety) (x : list Z) (xn : Z) (y : list Z) : option xval :=
  match xint_of (dot t y y), xint_of (dot t x y) with
  | Some ysq, Some xy =>
      match exact_sqrt ysq with
      | Some yn => Some (one_minus_div xy (xn * yn))
      | None => None
      end
  | _, _ => None
  end.

(* cosine_scalar_fast(x, x_norm, y, y_norm) *)
Definition cosine_scalar_fast (t : ety) (x : list Z) (xn : Z) (y : list Z) (yn : Z) : option xval :=
  match xint_of (dot t x y) with
  | Some xy => Some (one_minus_div xy (xn * yn))
  | None => None
  end.

Definition div16x16 (dim : nat) : nat := (dim / 16 * 16)%nat.
Definition div8x8 (dim : nat) : nat := (dim / 8 * 8)%nat.

(* impl Cosine for f32: cosine_fast.  `1.0 - xy / x_norm / y_norm.sqrt()`.
   Reads x[..dim] and other[..dim] through raw pointers: |other| >= |x| is a precondition (UB otherwise). *)
Definition cosine_fast_f32 (x : list Z) (xn : Z) (other : list Z) : option xval :=
  let dim := length x in
  let unrolled := div16x16 dim in
  let aligned := div8x8 dim in
  let yn16 := simd_fma_sum_Z 16 0 unrolled other other in
  let xy16 := simd_fma_sum_Z 16 0 unrolled x other in
  let yn8 := simd_fma_sum_Z 8 unrolled aligned other other in
  let xy8 := simd_fma_sum_Z 8 unrolled aligned x other in
  (* norm_l2(&other[aligned_len..]).powi(2) *)
  match exact_sqrt (norm_sq F32 (skipn aligned other)) with
  | None => None
  | Some tn =>
      let y_norm := yn16 + yn8 + tn * tn in
      let xy := xy16 + xy8 + dot_scalar_Z 16 (skipn aligned x) (skipn aligned other) in
      match exact_sqrt y_norm with
      | None => None
      | Some yn => Some (one_minus_div xy (xn * yn))
      end
  end.

(* impl Cosine for f32: cosine_with_norms(x, x_norm, y_norm, y) = 1 - xy / x_norm / y_norm *)
Definition cosine_with_norms_f32 (x : list Z) (xn yn : Z) (y : list Z) : option xval :=
  let dim := length x in
  let unrolled := div16x16 dim in
  let aligned := div8x8 dim in
  let xy := simd_fma_sum_Z 16 0 unrolled x y + simd_fma_sum_Z 8 unrolled aligned x y
            + dot_scalar_Z 16 (skipn aligned x) (skipn aligned y) in
  Some (one_minus_div xy (xn * yn)).

(* mod f32: cosine_once::<S, N>: loads N lanes of x and y *)
Definition cosine_once_f32 (N : nat) (x : list Z) (xn : Z) (y : list Z) : option xval :=
  let x' := firstn N x in let y' := firstn N y in
  let y2 := zsum (map (fun p => fst p * snd p) (combine y' y')) in
  let xy := zsum (map (fun p => fst p * snd p) (combine x' y')) in
  match exact_sqrt y2 with
  | None => None
  | Some yn => Some (one_minus_div xy (xn * yn))
  end.

(* Cosine::cosine_fast, per type *)
Definition cosine_fast (t : ety) (x : list Z) (xn : Z) (y : list Z) : option xval :=
  match t with
  | F32 => cosine_fast_f32 x xn y
  | _ => cosine_scalar t x xn y
  end.

Definition cosine_with_norms (t : ety) (x : list Z) (xn yn : Z) (y : list Z) : option xval :=
  match t with
  | F32 => cosine_with_norms_f32 x xn yn y
  | _ => cosine_scalar_fast t x xn y yn
  end.

(* Cosine::cosine(x, other): x_norm = norm_l2(x) *)
Definition cosine (t : ety) (x y : list Z) : option xval :=
  match exact_sqrt (norm_sq t x) with
  | None => None
  | Some xn => cosine_fast t x xn y
  end.

(* ---- hamming.rs ---- *)
Fixpoint pop_pos (p : positive) : Z :=
  match p with xH => 1 | xO q => pop_pos q | xI q => 1 + pop_pos q end.
(* u8::count_ones *)
Definition popcount (n : Z) : Z := match n with Zpos p => pop_pos p | _ => 0 end.
Definition xor_pop (p : Z * Z) : Z := popcount (Z.lxor (fst p) (snd p)).

(* hamming_autovec::<L>: remainder first, then per-chunk sums, all in u32, `as f32` at the end *)
Definition hamming_autovec (L : nat) (x y : list Z) : outcome xval :=
  let (xc, xr) := chunks_exact L x in
  let (yc, yr) := chunks_exact L y in
  let s := zsum (map xor_pop (combine xr yr)) in
  let cs := map (fun c => zsum (map xor_pop (combine (fst c) (snd c)))) (combine xc yc) in
  let total := s + zsum cs in
  if total <? two32z then Ok (xint (round_f32 total)) else Panic.

Definition hamming (x y : list Z) : outcome xval := hamming_autovec 64 x y.

Definition hamming_scalar (x y : list Z) : outcome xval :=
  match sum_u32 (map xor_pop (combine x y)) with
  | Ok s => Ok (xint (round_f32 s))
  | Err => Err | Panic => Panic
  end.

(* ------------------------------------------------------------------------------------------ *)
(* batch variants                                                                              *)
(* ------------------------------------------------------------------------------------------ *)
Fixpoint sequence_outcome {A} (l : list (outcome A)) : outcome (list A) :=
  match l with
  | [] => Ok []
  | Ok a :: t => match sequence_outcome t with Ok r => Ok (a :: r) | Err => Err | Panic => Panic end
  | Err :: _ => Err
  | Panic :: _ => Panic
  end.

Fixpoint sequence_option {A} (l : list (option A)) : option (list A) :=
  match l with
  | [] => Some []
  | Some a :: t => match sequence_option t with Some r => Some (a :: r) | None => None end
  | None :: _ => None
  end.

Inductive metric := ML2 | MCosine | MDot | MHamming.

(* l2_distance_batch / dot_distance_batch (assume_eq!) and hamming_distance_batch (debug_assert_eq!):
   debug build panics unless |from| = dimension and |to| % dimension = 0 (`% 0` panics as well);
   then to.chunks_exact(dimension).map(|v| dist(from, v)). *)
Definition checked_batch (f : list Z -> outcome xval) (from to : list Z) (dim : nat) : outcome (list xval) :=
  if negb (length from =? dim)%nat then Panic
  else if (dim =? 0)%nat then Panic
  else if negb (length to mod dim =? 0)%nat then Panic
  else sequence_outcome (map f (fst (chunks_exact dim to))).

Definition l2_distance_batch (t : ety) (from to : list Z) (dim : nat) : outcome (list xval) :=
  checked_batch (l2 t from) from to dim.
Definition dot_distance_batch (t : ety) (from to : list Z) (dim : nat) : outcome (list xval) :=
  checked_batch (dot_distance t from) from to dim.
Definition hamming_distance_batch (from to : list Z) (dim : nat) : outcome (list xval) :=
  checked_batch (hamming from) from to dim.

(* Cosine::cosine_batch: no length assertion; chunks_exact(0) panics.  The model's domain is
   |from| = dimension (cosine_once / the f32 kernel read `dimension` lanes of x unchecked).
   None = outside the exact domain. *)
Definition cosine_distance_batch (t : ety) (from to : list Z) (dim : nat) : outcome (option (list xval)) :=
  if (dim =? 0)%nat then Panic
  else
    match exact_sqrt (norm_sq t from) with
    | None => Ok None
    | Some xn =>
        let f := match t, dim with
                 | F32, 8%nat => cosine_once_f32 8 from xn
                 | F32, 16%nat => cosine_once_f32 16 from xn
                 | _, _ => cosine_fast t from xn
                 end in
        Ok (sequence_option (map f (fst (chunks_exact dim to))))
    end.

(* ---- *_distance_arrow_batch(from: &dyn Array, to: &FixedSizeListArray) ---- *)
(* Arrow element types of `from` / of to.values() that the harness produces *)
Inductive aty := AF16 | AF32 | AF64 | AI8 | AU8 | AI32 | AU16.
Definition aty_eqb (a b : aty) : bool :=
  match a, b with
  | AF16, AF16 | AF32, AF32 | AF64, AF64 | AI8, AI8 | AU8, AU8 | AI32, AI32 | AU16, AU16 => true
  | _, _ => false
  end.
Definition float_of_aty (a : aty) : option ety :=
  match a with AF16 => Some F16 | AF32 => Some F32 | AF64 => Some F64 | _ => None end.

(* lance-arrow: FixedSizeListArray::convert_to_floating_point: the value type afterwards
   (floats unchanged, Int8/Int32 -> f32, UInt8 -> f64 (sic), UInt16 unsupported -> Err) *)
Definition conv_ty (a : aty) : option ety :=
  match a with
  | AF16 => Some F16 | AF32 => Some F32 | AF64 => Some F64
  | AI8 | AI32 => Some F32
  | AU8 => Some F64
  | AU16 => None
  end.

(* Float32Array::new(dists.collect(), to.nulls().cloned()) observed through .iter().
   [valid] is the row validity of `to`; a null buffer exists iff some row is invalid, and
   PrimitiveArray::new panics when its length differs from the number of values. *)
Definition attach_nulls (valid : list bool) (d : list xval) : outcome (list (option xval)) :=
  if forallb (fun b : bool => b) valid then Ok (map Some d)
  else if (length d =? length valid)%nat then
    Ok (map (fun p : bool * xval => if fst p then Some (snd p) else None) (combine valid d))
  else Panic.

Definition lift_batch (valid : list bool) (o : outcome (list xval)) : outcome (option (list (option xval))) :=
  match o with
  | Ok d => match attach_nulls valid d with Ok r => Ok (Some r) | Err => Err | Panic => Panic end
  | Err => Err | Panic => Panic
  end.

Definition lift_batch_opt (valid : list bool) (o : outcome (option (list xval))) : outcome (option (list (option xval))) :=
  match o with
  | Ok (Some d) => match attach_nulls valid d with Ok r => Ok (Some r) | Err => Err | Panic => Panic end
  | Ok None => Ok None
  | Err => Err | Panic => Panic
  end.

(* The fixed-size-list `to`: value type, flat values, value_length, per-row validity.
   do_*_arrow_batch::<T>(from, to): debug_assert_eq!(from.len(), dimension) first, then the
   downcast of to.values() to T's array type (Err on mismatch), then the batch kernel.
   Dispatch on from.data_type(): Float16/32/64 -> do_::<same>; Int8 -> from cast to f32 and
   `to.convert_to_floating_point()?` (evaluated before the call), do_::<Float32Type>; else Err. *)
Definition do_arrow {B} (k : ety -> outcome B) (t : ety) (from : list Z) (to_float_ty : option ety) (dim : nat) : outcome B :=
  if negb (length from =? dim)%nat then Panic
  else match to_float_ty with
       | Some t' => if ety_eqb t t' then k t else Err
       | None => Err
       end.

Definition arrow_dispatch {B} (k : ety -> outcome B) (from_ty : aty) (from : list Z) (to_ty : aty) (dim : nat) : outcome B :=
  match from_ty with
  | AF16 | AF32 | AF64 =>
      match float_of_aty from_ty with
      | Some t => do_arrow k t from (float_of_aty to_ty) dim
      | None => Err
      end
  | AI8 =>
      match conv_ty to_ty with
      | None => Err
      | Some ct => do_arrow k F32 from (Some ct) dim
      end
  | _ => Err
  end.

(* the element type the kernel runs at, when the dispatch succeeds *)
Definition arrow_elem_ty (from_ty to_ty : aty) : option ety :=
  match from_ty with
  | AF16 | AF32 | AF64 => if aty_eqb from_ty to_ty then float_of_aty from_ty else None
  | AI8 => match conv_ty to_ty with Some F32 => Some F32 | _ => None end
  | _ => None
  end.

Definition l2_arrow_batch (from_ty : aty) (from : list Z) (to_ty : aty) (to : list Z) (dim : nat) (valid : list bool)
  : outcome (option (list (option xval))) :=
  arrow_dispatch (fun t => lift_batch valid (l2_distance_batch t from to dim)) from_ty from to_ty dim.

(* dot: the length assertion is also at the top of dot_distance_arrow_batch, before the dispatch;
   the body is to_values.chunks_exact(dimension) (0 panics) without the `%` assertion. *)
Definition dot_arrow_batch (from_ty : aty) (from : list Z) (to_ty : aty) (to : list Z) (dim : nat) (valid : list bool)
  : outcome (option (list (option xval))) :=
  if negb (length from =? dim)%nat then Panic
  else
    arrow_dispatch (fun t =>
        if (dim =? 0)%nat then Panic
        else lift_batch valid (sequence_outcome (map (dot_distance t from) (fst (chunks_exact dim to)))))
      from_ty from to_ty dim.

Definition cosine_arrow_batch (from_ty : aty) (from : list Z) (to_ty : aty) (to : list Z) (dim : nat) (valid : list bool)
  : outcome (option (list (option xval))) :=
  arrow_dispatch (fun t => lift_batch_opt valid (cosine_distance_batch t from to dim)) from_ty from to_ty dim.

(* hamming_distance_arrow_batch: dimension = from.len() (NOT to.value_length()); to.values() is
   `as_primitive::<UInt8Type>()`, which panics on another type. *)
Definition hamming_arrow_batch (from_ty : aty) (from : list Z) (to_ty : aty) (to : list Z) (valid : list bool)
  : outcome (option (list (option xval))) :=
  match from_ty with
  | AU8 =>
      match to_ty with
      | AU8 => lift_batch valid (hamming_distance_batch from to (length from))
      | _ => Panic
      end
  | _ => Err
  end.

(* ------------------------------------------------------------------------------------------ *)
(* kernels.rs: argmin / argmax family                                                          *)
(* ------------------------------------------------------------------------------------------ *)
(* An iterator item: a null (None of Option<T>), a NaN, or a value given by an order-preserving
   integer key (for floats: the value itself when integral, or the monotone image of the bits;
   +inf / T::max_value() etc. enter as the key [top] of the initial sentinel). *)
Inductive fv := FNull | FNan | FV (k : Z).

(* `idx as u32` *)
Definition as_u32 (idx : N) : N := wrap32 idx.

(* argmin_value_opt: min_value = top (T::max_value()); update iff partial_cmp == Some(Less) *)
Definition argmin_step (st : N * option N * Z) (v : fv) : N * option N * Z :=
  let '(idx, mi, mv) := st in
  match v with
  | FV k => if k <? mv then (N.succ idx, Some (as_u32 idx), k) else (N.succ idx, mi, mv)
  | _ => (N.succ idx, mi, mv)
  end.

Definition argmin_value_opt (top : Z) (l : list fv) : option (N * Z) :=
  let '(_, mi, mv) := fold_left argmin_step l (0%N, None, top) in
  option_map (fun i => (i, mv)) mi.

(* argmin_value = argmin_value_opt . map Some ; argmin_value_float: same loop with top = +inf, `<` *)
Definition argmin_value (top : Z) (l : list fv) := argmin_value_opt top l.
Definition argmin_value_float (inf : Z) (l : list fv) := argmin_value_opt inf l.
Definition argmin (top : Z) (l : list fv) : option N := option_map fst (argmin_value top l).
Definition argmin_opt (top : Z) (l : list fv) : option N := option_map fst (argmin_value_opt top l).

(* argmax / argmax_opt: max_value = bot (T::min_value()); update iff Some(Greater) *)
Definition argmax_step (st : N * option N * Z) (v : fv) : N * option N * Z :=
  let '(idx, mi, mv) := st in
  match v with
  | FV k => if mv <? k then (N.succ idx, Some (as_u32 idx), k) else (N.succ idx, mi, mv)
  | _ => (N.succ idx, mi, mv)
  end.
Definition argmax_opt (bot : Z) (l : list fv) : option N :=
  let '(_, mi, _) := fold_left argmax_step l (0%N, None, bot) in mi.
Definition argmax (bot : Z) (l : list fv) : option N := argmax_opt bot l.

(* argmin_value_float_with_bias(iter, Some(bias)): exact mode, values and biases are integers and
   FV carries the value itself; +inf is [inf].  Returns (idx, the original value). *)
Definition bias_step (st : N * option N * Z * Z) (vb : fv * Z) : N * option N * Z * Z :=
  let '(idx, mi, mv, mo) := st in
  match fst vb with
  | FV k => if k + snd vb <? mv then (N.succ idx, Some (as_u32 idx), k + snd vb, k) else (N.succ idx, mi, mv, mo)
  | _ => (N.succ idx, mi, mv, mo)
  end.
Definition argmin_value_float_with_bias (inf : Z) (l : list fv) (bias : option (list Z)) : option (N * Z) :=
  match bias with
  | None => argmin_value_float inf l
  | Some b =>
      let '(_, mi, _, mo) := fold_left bias_step (combine l b) (0%N, None, inf, inf) in
      option_map (fun i => (i, mo)) mi
  end.

(* ------------------------------------------------------------------------------------------ *)
(* kmeans.rs: nearest-centroid assignment                                                      *)
(* ------------------------------------------------------------------------------------------ *)
(* +inf as an integer key above every finite f32; f32::MAX exactly *)
Definition INF : Z := 2 ^ 128.
Definition F32MAX : Z := 2 ^ 128 - 2 ^ 104.

(* vectors that may contain NaN elements: None = NaN.  A kernel over a NaN element yields NaN
   (IEEE propagation; exact mode has no infinities so no other source of NaN). *)
Definition nanlift (f : list Z -> list Z -> outcome xval) (x y : list (option Z)) : outcome xval :=
  match sequence_option x, sequence_option y with
  | Some x', Some y' => f x' y'
  | _, _ => Ok XNaN
  end.

(* distances as argmin items: integers only (exact mode) *)
Definition fv_of_xval (v : xval) : fv :=
  match v with
  | XRat n 1 => FV n
  | XInf false => FV INF
  | XInf true => FV (- INF)
  | _ => FNan
  end.

Definition batch_nan (f : list Z -> list Z -> outcome xval) (from to : list (option Z)) (dim : nat)
  : outcome (list xval) :=
  if negb (length from =? dim)%nat then Panic
  else if (dim =? 0)%nat then Panic
  else if negb (length to mod dim =? 0)%nat then Panic
  else sequence_outcome (map (nanlift f from) (fst (chunks_exact dim to))).

(* one vector: argmin_value_float_with_bias(dist_batch(vec, centroids, dim), bias) *)
Definition assign_one (f : list Z -> list Z -> outcome xval) (centroids : list (option Z)) (dim : nat)
           (bias : option (list Z)) (vec : list (option Z)) : outcome (option (N * Z)) :=
  match batch_nan f vec centroids dim with
  | Ok d => Ok (argmin_value_float_with_bias INF (map fv_of_xval d) bias)
  | Err => Err | Panic => Panic
  end.

(* KMeansAlgoFloat::compute_membership_and_dist with index = None:
   data.par_chunks(dimension) (chunk_size 0 panics; a short last chunk reaches assume_eq! and panics),
   L2 / Dot only (others panic). Output: (membership, dists). *)
Definition membership_float (t : ety) (m : metric) (centroids data : list (option Z)) (dim : nat)
           (bias : option (list Z)) : outcome (list (option (N * Z))) :=
  if (dim =? 0)%nat then Panic
  else
    match m with
    | ML2 => sequence_outcome (map (assign_one (l2 t) centroids dim bias) (chunks dim data))
    | MDot => sequence_outcome (map (assign_one (dot_distance t) centroids dim bias) (chunks dim data))
    | _ => Panic
    end.

(* KModeAlgo::compute_membership_and_dist with balance 0 / no sizes:
   assert_eq!(distance_type, Hamming); argmin_value over
   centroids.chunks_exact(dimension).map(|c| hamming(vec, c) + 0.0 * 0.0), top = f32::MAX.
   No length assertion: a short last vector is compared on its prefix (zip). *)
Definition membership_kmode (m : metric) (centroids data : list Z) (dim : nat) : outcome (list (option (N * Z))) :=
  match m with
  | MHamming =>
      if (dim =? 0)%nat then Panic
      else
        sequence_outcome
          (map (fun vec =>
                  match sequence_outcome (map (hamming vec) (fst (chunks_exact dim centroids))) with
                  | Ok d => Ok (argmin_value F32MAX (map fv_of_xval d))
                  | Err => Err | Panic => Panic
                  end) (chunks dim data))
  | _ => Panic
  end.

(* compute_partitions_arrow_array(centroids, vectors, distance_type):
   Err on value_length mismatch or an unsupported type pair; (f32, i8) converts the vectors. *)
Definition partitions_arrow (cty vty : aty) (m : metric) (cdim vdim : nat) (centroids data : list (option Z))
  : outcome (list (option (N * Z))) :=
  if negb (cdim =? vdim)%nat then Err
  else
    match cty, vty with
    | AF16, AF16 => membership_float F16 m centroids data cdim None
    | AF32, AF32 => membership_float F32 m centroids data cdim None
    | AF32, AI8 => membership_float F32 m centroids data cdim None
    | AF64, AF64 => membership_float F64 m centroids data cdim None
    | AU8, AU8 =>
        match sequence_option centroids, sequence_option data with
        | Some c, Some d => membership_kmode m c d cdim
        | _, _ => Err   (* u8 has no NaN: not generated *)
        end
    | _, _ => Err
    end.

(* compute_partition(centroids, vector, distance_type): dimension = vector.len() *)
Definition compute_partition (t : ety) (m : metric) (centroids vector : list (option Z)) : outcome (option N) :=
  match m with
  | ML2 => match assign_one (l2 t) centroids (length vector) None vector with
           | Ok r => Ok (option_map fst r) | Err => Err | Panic => Panic end
  | MDot => match assign_one (dot_distance t) centroids (length vector) None vector with
            | Ok r => Ok (option_map fst r) | Err => Err | Panic => Panic end
  | _ => Panic
  end.

(* kmeans_find_partitions: the distances to all centroids, then the nprobes smallest by
   sort_to_indices (NaN last; tie order unspecified).  The model returns the distance list; the
   checker [chk_find] verifies the recorded (index, distance) pairs against it. *)
Definition find_partitions_dists (t : ety) (m : metric) (centroids query : list (option Z)) : outcome (list xval) :=
  match t, m with
  | U8, MHamming => batch_nan hamming query centroids (length query)   (* kmeans_find_partitions_binary *)
  | U8, _ => Panic
  | _, ML2 => batch_nan (l2 t) query centroids (length query)
  | _, MDot => batch_nan (dot_distance t) query centroids (length query)
  | _, _ => Panic
  end.

(* compute_partitions::<T, KMeansAlgoFloat<T>>: (membership, losses.iter().sum::<f64>()) where
   losses[c] accumulates `dist as f64` of the vectors assigned to c *)
Definition partitions_loss (t : ety) (m : metric) (centroids data : list (option Z)) (dim : nat)
  : outcome (list (option N) * Z) :=
  match membership_float t m centroids data dim None with
  | Ok r => Ok (map (option_map fst) r,
                zsum (map (fun o : option (N * Z) => match o with Some (_, d) => d | None => 0 end) r))
  | Err => Err
  | Panic => Panic
  end.

Fixpoint insert_sorted (k : Z) (l : list Z) : list Z :=
  match l with
  | [] => [k]
  | h :: t => if k <=? h then k :: l else h :: insert_sorted k t
  end.
Definition sort_keys (l : list Z) : list Z := fold_right insert_sorted [] l.

(* sort key of a distance: NaN after everything *)
Definition NANKEY : Z := 2 ^ 130.
Definition sort_key (v : xval) : Z := match fv_of_xval v with FV k => k | _ => NANKEY end.
Definition smallest_keys (n : nat) (d : list xval) : list Z := firstn n (sort_keys (map sort_key d)).

(* ------------------------------------------------------------------------------------------ *)
(* comparison of exact values and the exact-mode domain                                        *)
(* ------------------------------------------------------------------------------------------ *)
Definition is_pow2 (n : Z) : bool := (0 <? n) && (2 ^ Z.log2 n =? n).

(* |r^2 - s| within the rounding interval of r: r = n/d (d a power of two, r > 0) is the float
   nearest to sqrt s with a `bits`-bit significand iff (r - h)^2 <= s <= (r + h)^2 where h is
   half an ulp of r.  slack = 1: correctly rounded; slack = 2: within one ulp (double rounding). *)
Definition sqrt_round_ok (bits : Z) (slack : Z) (s n d : Z) : bool :=
  if (n <=? 0) || (d <=? 0) then (s =? 0) && (n =? 0) && (0 <? d)
  else
    (* t = floor(log2 r), exact because d is a power of two *)
    let t := Z.log2 n - Z.log2 d in
    (* half ulp = 2^(t - bits); scale everything by 2^K so that it is integral *)
    let e := t - bits in
    let K := Z.max 0 (- e) in
    let hN := slack * 2 ^ (e + K) in           (* h * 2^K *)
    let rN := n * 2 ^ K in                     (* r * 2^K * d *)
    (* (rN - hN*d)^2 <= s * (d*2^K)^2 <= (rN + hN*d)^2 *)
    let lo := rN - hN * d in
    let hi := rN + hN * d in
    let mid := s * (d * 2 ^ K) ^ 2 in
    (if lo <=? 0 then true else lo * lo <=? mid) && (mid <=? hi * hi).

(* does the recorded implementation value [o] equal the model value [m]? *)
Definition xval_match (wide : bool) (m o : xval) : bool :=
  match m, o with
  | XNaN, XNaN => true
  | XInf a, XInf b => Bool.eqb a b
  | XRat n d, XRat n' d' => (0 <? d) && (0 <? d') && (n * d' =? n' * d)
  | XSqrt s, XRat n' d' =>
      match exact_sqrt s with
      | Some r => (0 <? d') && (n' =? r * d')
      | None => is_pow2 d' && sqrt_round_ok 24 (if wide then 2 else 1) s n' d'
      end
  | _, _ => false
  end.

Definition oxval_match (wide : bool) (m o : outcome xval) : bool :=
  match m, o with
  | Ok a, Ok b => xval_match wide a b
  | Err, Err => true
  | Panic, Panic => true
  | _, _ => false
  end.

(* exact-mode domain *)
Definition TWO24 : Z := 2 ^ 24.
Definition abs_sum (l : list Z) : Z := fold_left (fun a v => a + Z.abs v) l 0.
(* largest integer magnitude exactly representable in every value of the type, as used here *)
Definition elem_bound (t : ety) : Z :=
  match t with F16 => 2048 | BF16 => 256 | F32 => TWO24 | F64 => TWO24 | U8 => 255 end.
Definition elems_ok (t : ety) (v : list Z) : bool :=
  forallb (fun z => match t with U8 => (0 <=? z) && (z <=? 255) | _ => Z.abs z <=? elem_bound t end) v.

Definition pairs_abs_sum (f : Z -> Z -> Z) (x y : list Z) : Z := abs_sum (map (fun p => f (fst p) (snd p)) (combine x y)).
(* every partial sum of the squared differences / products / squares, in any order, is an integer
   of magnitude <= 2^24, hence exact in f32 (and in f64) *)
Definition dom_l2 (t : ety) (x y : list Z) : bool :=
  elems_ok t x && elems_ok t y &&
  match t with U8 => true | _ => pairs_abs_sum (fun a b => (a - b) * (a - b)) x y <=? TWO24 end.
Definition dom_dot (t : ety) (x y : list Z) : bool :=
  elems_ok t x && elems_ok t y &&
  match t with U8 => true | _ => pairs_abs_sum Z.mul x y <? TWO24 end.
Definition dom_norm (t : ety) (x : list Z) : bool :=
  elems_ok t x && (pairs_abs_sum Z.mul x x <=? TWO24).

(* the final division of cosine is exact when both norms are powers of two, or the quotient is an
   integer; magnitudes small enough for `1 - q` to be exact *)
Definition TWO22 : Z := 2 ^ 22.
Definition dom_cos_final (xy a b : Z) : bool :=
  (Z.abs xy <=? TWO22) && (0 <=? a) && (0 <=? b) && (a * b <=? TWO22) &&
  ((a * b =? 0) || (is_pow2 a && is_pow2 b) || (xy mod (a * b) =? 0)).

(* ------------------------------------------------------------------------------------------ *)
(* correspondence checkers                                                                     *)
(* ------------------------------------------------------------------------------------------ *)
(* stream `vec`: one pair of integer vectors, many kernel paths *)
Inductive kop :=
| KL2 (t : ety)                       (* l2::<T> *)
| KL2Scalar (lanes : nat)             (* l2_scalar::<f32, f32, LANES> (pub, generic) *)
| KDot (t : ety)                      (* dot::<T> *)
| KDotDist (t : ety)                  (* dot_distance::<T> *)
| KNorm (t : ety)                     (* norm_l2::<T>(x) *)
| KNormImpl (lanes : nat)             (* norm_l2_impl::<f32, f32, LANES>(x) (pub) *)
| KCos (t : ety)                      (* cosine_distance::<T> *)
| KCosFast (t : ety) (xn : Z)         (* T::cosine_fast(x, xn, y) *)
| KCosNorms (t : ety) (xn yn : Z)     (* T::cosine_with_norms(x, xn, yn, y) *)
| KHamming                            (* hamming *)
| KHammingScalar.                     (* hamming_scalar *)

Definition opt_to_outcome (o : option xval) : outcome xval :=
  match o with Some v => Ok v | None => Err end.   (* Err = outside the exact domain; never matches *)

Definition cos_parts (t : ety) (x y : list Z) : option (Z * Z) :=
  match xint_of (dot t x y), xint_of (dot t y y) with
  | Some xy, Some ysq => match exact_sqrt ysq with Some yn => Some (xy, yn) | None => None end
  | _, _ => None
  end.

Definition kop_model (op : kop) (x y : list Z) : outcome xval :=
  match op with
  | KL2 t => l2 t x y
  | KL2Scalar lanes => Ok (xint (l2_scalar_Z lanes x y))
  | KDot t => dot t x y
  | KDotDist t => dot_distance t x y
  | KNorm t => norm_l2 t x
  | KNormImpl lanes => Ok (XSqrt (norm_sq_Z lanes x))
  | KCos t => opt_to_outcome (cosine t x y)
  | KCosFast t xn => opt_to_outcome (cosine_fast t x xn y)
  | KCosNorms t xn yn => opt_to_outcome (cosine_with_norms t x xn yn y)
  | KHamming => hamming x y
  | KHammingScalar => hamming_scalar x y
  end.

Definition bytes_ok (v : list Z) : bool := elems_ok U8 v.

Definition kop_dom (op : kop) (x y : list Z) : bool :=
  match op with
  | KL2 t => dom_l2 t x y
  | KL2Scalar lanes => (0 <? lanes)%nat && dom_l2 F32 x y
  | KDot t => dom_dot t x y
  | KDotDist t => dom_dot t x y && (pairs_abs_sum Z.mul x y <? TWO24)
  | KNorm t => dom_norm t x
  | KNormImpl lanes => (0 <? lanes)%nat && dom_norm F32 x
  | KCos t =>
      (length x =? length y)%nat && dom_norm t x && dom_norm t y && dom_dot t x y &&
      match exact_sqrt (norm_sq t x), cos_parts t x y with
      | Some xn, Some (xy, yn) => dom_cos_final xy xn yn
      | _, _ => false
      end
  | KCosFast t xn =>
      (length x =? length y)%nat && dom_norm t y && dom_dot t x y &&
      match cos_parts t x y with
      | Some (xy, yn) => dom_cos_final xy xn yn
      | None => false
      end
  | KCosNorms t xn yn =>
      (length x =? length y)%nat && dom_dot t x y &&
      match xint_of (dot t x y) with
      | Some xy => dom_cos_final xy xn yn
      | None => false
      end
  | KHamming | KHammingScalar => bytes_ok x && bytes_ok y
  end.

Definition kop_wide (op : kop) : bool :=
  match op with KNorm F64 => true | _ => false end.

Definition chk_vec (i : list Z * list Z) (o : list (kop * outcome xval)) : bool :=
  let (x, y) := i in
  negb (match o with [] => true | _ => false end) &&
  forallb (fun c => kop_dom (fst c) x y && oxval_match (kop_wide (fst c)) (kop_model (fst c) x y) (snd c)) o.

(* stream `batch`: (metric, type, from, to, dimension) -> outcome (list of distances) *)
Definition list_match (m o : list xval) : bool :=
  (length m =? length o)%nat && forallb (fun p => xval_match false (fst p) (snd p)) (combine m o).

Definition batch_model (m : metric) (t : ety) (from to : list Z) (dim : nat) : outcome (option (list xval)) :=
  match m with
  | ML2 => match l2_distance_batch t from to dim with Ok d => Ok (Some d) | Err => Err | Panic => Panic end
  | MDot => match dot_distance_batch t from to dim with Ok d => Ok (Some d) | Err => Err | Panic => Panic end
  | MHamming => match hamming_distance_batch from to dim with Ok d => Ok (Some d) | Err => Err | Panic => Panic end
  | MCosine => cosine_distance_batch t from to dim
  end.

(* every row of the batch lies in the exact domain of the single-pair kernel *)
Definition batch_dom (m : metric) (t : ety) (from to : list Z) (dim : nat) : bool :=
  match m with
  | MCosine =>
      (length from =? dim)%nat && (length to mod dim =? 0)%nat &&
      forallb (fun v => kop_dom (KCos t) from v) (fst (chunks_exact dim to))
  | ML2 => forallb (fun v => dom_l2 t from v) (fst (chunks_exact dim to))
  | MDot => forallb (fun v => kop_dom (KDotDist t) from v) (fst (chunks_exact dim to))
  | MHamming => bytes_ok from && bytes_ok to
  end.

Definition chk_batch (i : metric * ety * list Z * list Z * nat) (o : outcome (list xval)) : bool :=
  let '(m, t, from, to, dim) := i in
  match batch_model m t from to dim, o with
  | Ok (Some d), Ok d' => batch_dom m t from to dim && list_match d d'
  | Panic, Panic => true
  | Err, Err => true
  | _, _ => false
  end.

(* stream `arrow`: (metric, from type, from, to type, to values, value_length, validity) *)
Definition olist_match (m o : list (option xval)) : bool :=
  (length m =? length o)%nat &&
  forallb (fun p => match fst p, snd p with
                    | Some a, Some b => xval_match false a b
                    | None, None => true
                    | _, _ => false end) (combine m o).

Definition arrow_model (m : metric) (fty : aty) (from : list Z) (tty : aty) (to : list Z) (dim : nat) (valid : list bool) :=
  match m with
  | ML2 => l2_arrow_batch fty from tty to dim valid
  | MDot => dot_arrow_batch fty from tty to dim valid
  | MCosine => cosine_arrow_batch fty from tty to dim valid
  | MHamming => hamming_arrow_batch fty from tty to valid
  end.

Definition arrow_dom (m : metric) (fty : aty) (from : list Z) (tty : aty) (to : list Z) (dim : nat) : bool :=
  match m with
  | MHamming => batch_dom MHamming U8 from to (length from)
  | _ => match arrow_elem_ty fty tty with
         | Some t => batch_dom m t from to dim
         | None => true
         end
  end.

Definition chk_arrow (i : metric * aty * list Z * aty * list Z * nat * list bool) (o : outcome (list (option xval))) : bool :=
  let '(m, fty, from, tty, to, dim, valid) := i in
  ((length valid * dim =? length to)%nat || (dim =? 0)%nat) &&
  match arrow_model m fty from tty to dim valid, o with
  | Ok (Some d), Ok d' => arrow_dom m fty from tty to dim && olist_match d d'
  | Panic, Panic => true
  | Err, Err => true
  | _, _ => false
  end.

(* stream `argmin`: (top, bot, inf, items) -> all members of the family.
   top/bot/inf are the keys of T::max_value(), T::min_value(), T::infinity(). *)
Definition onz_eqb (a b : option (N * Z)) : bool := option_eqb (pair_eqb N.eqb Z.eqb) a b.
Definition on_eqb (a b : option N) : bool := option_eqb N.eqb a b.

Definition has_null (l : list fv) : bool := existsb (fun v => match v with FNull => true | _ => false end) l.

(* output: (argmin_value_opt, argmin_opt, argmax_opt, and -- only when no item is null --
            Some (argmin_value, argmin, argmax, argmin_value_float)) *)
Definition chk_argmin (i : Z * Z * Z * list fv)
           (o : option (N * Z) * option N * option N * option (option (N * Z) * option N * option N * option (N * Z))) : bool :=
  let '(top, bot, inf, l) := i in
  let '(avo, ao, axo, rest) := o in
  onz_eqb (argmin_value_opt top l) avo && on_eqb (argmin_opt top l) ao && on_eqb (argmax_opt bot l) axo &&
  match rest with
  | None => has_null l
  | Some (av, a, ax, avf) =>
      negb (has_null l) &&
      onz_eqb (argmin_value top l) av && on_eqb (argmin top l) a && on_eqb (argmax bot l) ax &&
      onz_eqb (argmin_value_float inf l) avf
  end.

(* stream `bias`: argmin_value_float_with_bias on integer values (FV = the value) *)
Definition chk_bias (i : list fv * option (list Z)) (o : option (N * Z)) : bool :=
  let (l, b) := i in onz_eqb (argmin_value_float_with_bias INF l b) o.

(* stream `member`: KMeansAlgoFloat / KModeAlgo ::compute_membership_and_dist and the wrappers.
   Output per vector: Some (cluster, distance) | None. *)
Definition member_eqb (a b : outcome (list (option (N * Z)))) : bool :=
  outcome_eqb (list_eqb onz_eqb) a b.

Definition opt_elems_ok (t : ety) (v : list (option Z)) : bool :=
  forallb (fun o => match o with Some z => elems_ok t [z] | None => negb (ety_eqb t U8) end) v.

(* exact domain of an assignment: every (vector, centroid) pair is in the kernel's domain *)
Definition zeros_for_nan (v : list (option Z)) : list Z := map (fun o => match o with Some z => z | None => 0 end) v.
Definition member_dom (t : ety) (m : metric) (centroids data : list (option Z)) (dim : nat) : bool :=
  opt_elems_ok t centroids && opt_elems_ok t data &&
  ((dim =? 0)%nat ||
   forallb (fun v => forallb (fun c =>
       match m with
       | ML2 => dom_l2 t (zeros_for_nan v) (zeros_for_nan c)
       | MDot => dom_dot t (zeros_for_nan v) (zeros_for_nan c)
       | _ => true
       end) (fst (chunks_exact dim centroids))) (chunks dim data)).

(* (type, metric, centroids, data, dim, bias) -> compute_membership_and_dist *)
Definition chk_member (i : ety * metric * list (option Z) * list (option Z) * nat * option (list Z))
           (o : outcome (list (option (N * Z)))) : bool :=
  let '(t, m, c, d, dim, bias) := i in
  member_dom t m c d dim &&
  match t with
  | U8 => match sequence_option c, sequence_option d with
          | Some c', Some d' => member_eqb (membership_kmode m c' d' dim) o
          | _, _ => false
          end
  | _ => member_eqb (membership_float t m c d dim bias) o
  end.

(* (centroid type, vector type, metric, centroid dim, vector dim, centroids, data) -> compute_partitions_arrow_array *)
Definition chk_parts (i : aty * aty * metric * nat * nat * list (option Z) * list (option Z))
           (o : outcome (list (option (N * Z)))) : bool :=
  let '(cty, vty, m, cdim, vdim, c, d) := i in
  match cty, vty with
  | AF16, AF16 => member_dom F16 m c d cdim
  | AF32, AF32 | AF32, AI8 => member_dom F32 m c d cdim
  | AF64, AF64 => member_dom F64 m c d cdim
  | AU8, AU8 => member_dom U8 m c d cdim
  | _, _ => true
  end &&
  member_eqb (partitions_arrow cty vty m cdim vdim c d) o.

(* (type, metric, centroids, vector) -> compute_partition *)
Definition chk_part1 (i : ety * metric * list (option Z) * list (option Z)) (o : outcome (option N)) : bool :=
  let '(t, m, c, v) := i in
  member_dom t m c v (length v) && outcome_eqb on_eqb (compute_partition t m c v) o.

(* (type, metric, centroids, data, dim) -> compute_partitions: (membership, total loss) *)
Definition chk_loss (i : ety * metric * list (option Z) * list (option Z) * nat) (o : outcome (list (option N) * Z)) : bool :=
  let '(t, m, c, d, dim) := i in
  member_dom t m c d dim &&
  outcome_eqb (pair_eqb (list_eqb on_eqb) Z.eqb) (partitions_loss t m c d dim) o.

(* kmeans_find_partitions: recorded (index, distance) pairs.  Tie order of sort_to_indices is
   unspecified, so the check is relational: the recorded distances are exactly the nprobes smallest
   (in sorted order), every recorded index is distinct, in range, and carries its distance. *)
Fixpoint nodup_N (l : list N) : bool :=
  match l with [] => true | h :: t => negb (existsb (N.eqb h) t) && nodup_N t end.

Definition xnorm (v : xval) : xval :=
  match v with XRat n d => if (0 <? d) && (n mod d =? 0) then XRat (n / d) 1 else v | _ => v end.

Definition chk_find (i : ety * metric * list (option Z) * list (option Z) * nat) (o : outcome (list (N * xval))) : bool :=
  let '(t, m, c, q, nprobes) := i in
  member_dom t m c q (length q) &&
  match find_partitions_dists t m c q, o with
  | Ok d, Ok r =>
      list_eqb Z.eqb (smallest_keys nprobes d) (map (fun p => sort_key (xnorm (snd p))) r) &&
      nodup_N (map fst r) &&
      forallb (fun p => match nth_error d (N.to_nat (fst p)) with
                        | Some v => xval_match false v (snd p)
                        | None => false end) r
  | Panic, Panic => true
  | Err, Err => true
  | _, _ => false
  end.
