(* C35: batch variants = the single-pair kernel mapped over to.chunks_exact(dimension). *)
From LanceV Require Import Common.Base Linalg.Model_Dist Linalg.Proofs_Dist_Slices Linalg.Proofs_Dist_Ring
  Linalg.Proofs_Dist_Kernels Linalg.Proofs_Dist_Hamming.
Local Open Scope Z_scope.

Lemma chunks_exact_counts {A} (n : nat) (l : list A) : (0 < n)%nat ->
  length (fst (chunks_exact n l)) = (length l / n)%nat /\ length (snd (chunks_exact n l)) = (length l mod n)%nat.
Proof.
  intro Hn. pose proof (chunks_exact_spec n l Hn) as H.
  destruct (chunks_exact n l) as [cs r]. cbn [fst snd]. destruct H as (E & F & Hr).
  assert (Hlen : length l = (n * length cs + length r)%nat).
  { rewrite E at 1. rewrite app_length, (concat_length_uniform n cs F). lia. }
  split.
  - apply (Nat.div_unique (length l) n (length cs) (length r)); [exact Hr | exact Hlen].
  - apply (Nat.mod_unique (length l) n (length cs) (length r)); [exact Hr | exact Hlen].
Qed.

Lemma skipn_add {A} (a : nat) : forall (b : nat) (l : list A), skipn a (skipn b l) = skipn (b + a) l.
Proof.
  induction b as [|b IH]; intro l; [reflexivity|].
  destruct l as [|x l]; [cbn; destruct a; reflexivity|]. cbn [skipn Nat.add]. apply IH.
Qed.

(* the j-th chunk is the slice [j*n, (j+1)*n) *)
Lemma chunks_exact_nth {A} (n : nat) : (0 < n)%nat -> forall (j : nat) (l : list A) (c : list A),
  nth_error (fst (chunks_exact n l)) j = Some c -> c = firstn n (skipn (j * n) l).
Proof.
  intros Hn. induction j as [|j IH]; intros l c H.
  - destruct (Nat.lt_ge_cases (length l) n) as [Hlt|Hge].
    + rewrite (chunks_exact_short n l Hlt) in H. discriminate.
    + rewrite <- (firstn_skipn n l) in H.
      rewrite (chunks_exact_app n (firstn n l)) in H by (try rewrite firstn_length; lia).
      cbn in H. inversion H. reflexivity.
  - destruct (Nat.lt_ge_cases (length l) n) as [Hlt|Hge].
    + rewrite (chunks_exact_short n l Hlt) in H. discriminate.
    + rewrite <- (firstn_skipn n l) in H.
      rewrite (chunks_exact_app n (firstn n l)) in H by (try rewrite firstn_length; lia).
      cbn [fst nth_error] in H. apply IH in H. rewrite H. rewrite skipn_add.
      replace (n + j * n)%nat with (S j * n)%nat by lia. reflexivity.
Qed.

Lemma sequence_outcome_ok {A} : forall (l : list (outcome A)) (ds : list A),
  sequence_outcome l = Ok ds -> Forall2 (fun o d => o = Ok d) l ds.
Proof.
  induction l as [|o l IH]; intros ds H; cbn [sequence_outcome] in H.
  - inversion H. constructor.
  - destruct o as [a| |]; try discriminate.
    destruct (sequence_outcome l) as [r| |] eqn:E; try discriminate.
    inversion H; subst. constructor; [reflexivity | apply IH; reflexivity].
Qed.

Lemma Forall2_nth_error {A B} (P : A -> B -> Prop) : forall (l : list A) (m : list B),
  Forall2 P l m -> length l = length m /\ forall j b, nth_error m j = Some b -> exists a, nth_error l j = Some a /\ P a b.
Proof.
  induction 1 as [|a b l m Hab Hlm [IHl IHn]].
  - split; [reflexivity|]. intros j b H. destruct j; discriminate.
  - split; [cbn; lia|]. intros j b' H. destruct j as [|j].
    + cbn in H. inversion H; subst. exists a. split; [reflexivity | exact Hab].
    + cbn in H. apply IHn in H. exact H.
Qed.

Lemma nth_error_map_inv {A B} (f : A -> B) : forall (l : list A) (j : nat) (b : B),
  nth_error (map f l) j = Some b -> exists a, nth_error l j = Some a /\ f a = b.
Proof.
  induction l as [|x l IH]; intros j b H; destruct j as [|j]; cbn in H; try discriminate.
  - inversion H. exists x. split; reflexivity.
  - apply IH in H. exact H.
Qed.

(* The shape shared by l2_distance_batch / dot_distance_batch / hamming_distance_batch.
   Ok exactly when the debug assertions hold and no row panics; then one output per row, the
   j-th being the kernel on rows [j*dim, (j+1)*dim). *)
Theorem checked_batch_spec (f : list Z -> outcome xval) (from to : list Z) (dim : nat) (ds : list xval) :
  checked_batch f from to dim = Ok ds ->
  length from = dim /\ (0 < dim)%nat /\ (length to mod dim = 0)%nat /\
  length ds = (length to / dim)%nat /\
  forall j d, nth_error ds j = Some d -> f (firstn dim (skipn (j * dim) to)) = Ok d.
Proof.
  unfold checked_batch. intro H.
  destruct (length from =? dim)%nat eqn:E1; cbn [negb] in H; [|discriminate].
  destruct (dim =? 0)%nat eqn:E2; [discriminate|].
  destruct (length to mod dim =? 0)%nat eqn:E3; cbn [negb] in H; [|discriminate].
  apply Nat.eqb_eq in E1. apply Nat.eqb_neq in E2. apply Nat.eqb_eq in E3.
  assert (Hd : (0 < dim)%nat) by lia.
  apply sequence_outcome_ok in H. apply Forall2_nth_error in H as [Hlen Hnth].
  rewrite map_length in Hlen. destruct (chunks_exact_counts dim to Hd) as [Hc _].
  repeat split; try assumption; try lia.
  intros j d Hj. apply Hnth in Hj as (o & Ho & Hod). subst o.
  apply nth_error_map_inv in Ho. destruct Ho as (c & Hc' & Hfc).
  apply (chunks_exact_nth dim Hd) in Hc'. subst c. exact Hfc.
Qed.

Theorem checked_batch_panics (f : list Z -> outcome xval) (from to : list Z) (dim : nat) :
  length from <> dim \/ dim = 0%nat \/ (length to mod dim <> 0)%nat -> checked_batch f from to dim = Panic.
Proof.
  unfold checked_batch. intro H.
  destruct (length from =? dim)%nat eqn:E1; cbn [negb]; [|reflexivity].
  destruct (dim =? 0)%nat eqn:E2; [reflexivity|].
  destruct (length to mod dim =? 0)%nat eqn:E3; cbn [negb]; [|reflexivity].
  apply Nat.eqb_eq in E1. apply Nat.eqb_neq in E2. apply Nat.eqb_eq in E3. lia.
Qed.

Lemma row_length {A} (dim j : nat) (to : list A) :
  (j < length to / dim)%nat -> (0 < dim)%nat -> length (firstn dim (skipn (j * dim) to)) = dim.
Proof.
  intros Hj Hd. rewrite firstn_length, skipn_length.
  pose proof (Nat.div_mod (length to) dim ltac:(lia)) as Hdm.
  assert ((j + 1) * dim <= length to)%nat by nia. lia.
Qed.

(* l2_distance_batch: every output is the scalar definition against its row *)
Theorem l2_distance_batch_correct (t : ety) (from to : list Z) (dim : nat) (ds : list xval) :
  l2_distance_batch t from to dim = Ok ds ->
  length ds = (length to / dim)%nat /\
  forall j d, nth_error ds j = Some d ->
    let row := firstn dim (skipn (j * dim) to) in
    match t with
    | U8 => l2_spec_Z from row < 2 ^ 32 /\ d = xint (round_f32 (l2_spec_Z from row))
    | _ => d = xint (l2_spec_Z from row)
    end.
Proof.
  unfold l2_distance_batch. intro H. apply checked_batch_spec in H as (Hf & Hd & Hm & Hl & Hrows).
  split; [exact Hl|]. intros j d Hj. cbv zeta. set (row := firstn dim (skipn (j * dim) to)).
  assert (Hjl : (j < length to / dim)%nat) by (rewrite <- Hl; apply nth_error_Some; rewrite Hj; discriminate).
  specialize (Hrows j d Hj). fold row in Hrows.
  rewrite l2_correct in Hrows by (unfold row; rewrite row_length; lia).
  destruct t; try (inversion Hrows; reflexivity).
  destruct (l2_spec_Z from row <? 2 ^ 32) eqn:E; [|discriminate].
  apply Z.ltb_lt in E. inversion Hrows. split; [exact E | reflexivity].
Qed.

Theorem dot_distance_batch_correct (t : ety) (from to : list Z) (dim : nat) (ds : list xval) :
  dot_distance_batch t from to dim = Ok ds ->
  length ds = (length to / dim)%nat /\
  forall j d, nth_error ds j = Some d ->
    let row := firstn dim (skipn (j * dim) to) in
    match t with
    | U8 => dot_spec_Z from row < 2 ^ 32 /\ d = one_minus (xint (round_f32 (dot_spec_Z from row)))
    | _ => d = XRat (1 - dot_spec_Z from row) 1
    end.
Proof.
  unfold dot_distance_batch. intro H. apply checked_batch_spec in H as (Hf & Hd & Hm & Hl & Hrows).
  split; [exact Hl|]. intros j d Hj. cbv zeta. set (row := firstn dim (skipn (j * dim) to)).
  assert (Hjl : (j < length to / dim)%nat) by (rewrite <- Hl; apply nth_error_Some; rewrite Hj; discriminate).
  specialize (Hrows j d Hj). fold row in Hrows. unfold dot_distance in Hrows.
  rewrite dot_correct in Hrows by (unfold row; rewrite row_length; lia).
  destruct t; try (cbn in Hrows; inversion Hrows; reflexivity).
  destruct (dot_spec_Z from row <? 2 ^ 32) eqn:E; [|discriminate].
  apply Z.ltb_lt in E. cbn [omap] in Hrows. inversion Hrows. split; [exact E | reflexivity].
Qed.

Theorem hamming_distance_batch_correct (from to : list Z) (dim : nat) (ds : list xval) :
  hamming_distance_batch from to dim = Ok ds ->
  length ds = (length to / dim)%nat /\
  forall j d, nth_error ds j = Some d ->
    let row := firstn dim (skipn (j * dim) to) in
    hamming_spec from row < 2 ^ 32 /\ d = xint (round_f32 (hamming_spec from row)).
Proof.
  unfold hamming_distance_batch. intro H. apply checked_batch_spec in H as (Hf & Hd & Hm & Hl & Hrows).
  split; [exact Hl|]. intros j d Hj. cbv zeta. set (row := firstn dim (skipn (j * dim) to)).
  assert (Hjl : (j < length to / dim)%nat) by (rewrite <- Hl; apply nth_error_Some; rewrite Hj; discriminate).
  specialize (Hrows j d Hj). fold row in Hrows.
  rewrite hamming_correct in Hrows by (unfold row; rewrite row_length; lia).
  destruct (hamming_spec from row <? 2 ^ 32) eqn:E; [|discriminate].
  apply Z.ltb_lt in E. inversion Hrows. split; [exact E | reflexivity].
Qed.
