(* Proofs about Linalg/Model_Dist.v (C35): umbrella file.
     Proofs_Dist_Slices   chunks_exact / chunks
     Proofs_Dist_Ring     lane-wise accumulation = scalar definition in any commutative ring
     Proofs_Dist_Kernels  the instance at Z: l2 / dot / norm per element type, u32 -> f32 rounding
     Proofs_Dist_Hamming  hamming = number of differing bits
     Proofs_Dist_Batch    batch variants = the kernel mapped over the rows
     Proofs_Dist_Argmin   argmin family
     Proofs_Dist_Assign   nearest-centroid assignment
     Proofs_Dist_Cosine   cosine distance (scalar path and explicit-SIMD f32 path) *)
From LanceV Require Export Linalg.Proofs_Dist_Slices Linalg.Proofs_Dist_Ring Linalg.Proofs_Dist_Kernels
  Linalg.Proofs_Dist_Hamming Linalg.Proofs_Dist_Batch Linalg.Proofs_Dist_Argmin Linalg.Proofs_Dist_Assign
  Linalg.Proofs_Dist_Cosine Linalg.Proofs_Dist_Arrow Linalg.Proofs_Dist_KMode Linalg.Proofs_Dist_Argmax.
