(* Proofs about Linalg/Model_Dist.v (C35). *)
From LanceV Require Import Common.Base Linalg.Model_Dist.
From Coq Require Import Ring ZArithRing.
Local Open Scope Z_scope.

(* ------------------------------------------------------------------------------------------ *)
(* slices                                                                                      *)
(* ------------------------------------------------------------------------------------------ *)
Section SliceFacts.
  Context {A : Type}.

  Lemma split_exact_some (n : nat) : forall (l h t : list A),
    split_exact n l = Some (h, t) -> l = h ++ t /\ length h = n.
  Proof.
    induction n as [|k IH]; intros l h t H; cbn [split_exact] in H.
    - inversion H; subst. split; reflexivity.
    - destruct l as [|a l']; [discriminate|].
      destruct (split_exact k l') as [[h' r']|] eqn:E; [|discriminate].
      inversion H; subst. apply IH in E as [E1 E2]. subst l'. split; [reflexivity | cbn; lia].
  Qed.

  Lemma split_exact_none (n : nat) : forall (l : list A),
    split_exact n l = None -> (length l < n)%nat.
  Proof.
    induction n as [|k IH]; intros l H; cbn [split_exact] in H; [discriminate|].
    destruct l as [|a l']; [cbn; lia|].
    destruct (split_exact k l') as [[h' r']|] eqn:E; [discriminate|].
    apply IH in E. cbn. lia.
  Qed.

  Lemma split_exact_app (n : nat) : forall (h t : list A),
    length h = n -> split_exact n (h ++ t) = Some (h, t).
  Proof.
    induction n as [|k IH]; intros h t Hl.
    - destruct h; [reflexivity | discriminate].
    - destruct h as [|a h']; [discriminate|]. cbn [app split_exact].
      rewrite IH by (cbn in Hl; lia). reflexivity.
  Qed.

  (* with enough fuel the whole list is chunked: no "out of fuel" result is ever observed *)
  Lemma chunks_aux_spec (n : nat) : (0 < n)%nat -> forall (fuel : nat) (l : list A),
    (length l <= fuel)%nat ->
    let (cs, r) := chunks_aux fuel n l in
    l = concat cs ++ r /\ Forall (fun c => length c = n) cs /\ (length r < n)%nat.
  Proof.
    intros Hn. induction fuel as [|f IH]; intros l Hl; cbn [chunks_aux].
    - destruct l; [|cbn in Hl; lia]. cbn. repeat split; [constructor | lia].
    - destruct (split_exact n l) as [[h t]|] eqn:E.
      + apply split_exact_some in E as [E1 E2]. subst l.
        rewrite app_length in Hl.
        specialize (IH t ltac:(lia)). destruct (chunks_aux f n t) as [cs r].
        destruct IH as (I1 & I2 & I3). repeat split.
        * cbn [concat]. rewrite <- app_assoc, <- I1. reflexivity.
        * constructor; assumption.
        * exact I3.
      + apply split_exact_none in E. cbn. repeat split; [constructor | exact E].
  Qed.

  Lemma chunks_exact_spec (n : nat) (l : list A) : (0 < n)%nat ->
    let (cs, r) := chunks_exact n l in
    l = concat cs ++ r /\ Forall (fun c => length c = n) cs /\ (length r < n)%nat.
  Proof. intro Hn. unfold chunks_exact. apply chunks_aux_spec; [exact Hn | lia]. Qed.

  (* the result does not depend on the fuel once it is large enough *)
  Lemma chunks_aux_fuel (n : nat) : (0 < n)%nat -> forall (f1 f2 : nat) (l : list A),
    (length l <= f1)%nat -> (length l <= f2)%nat -> chunks_aux f1 n l = chunks_aux f2 n l.
  Proof.
    intros Hn. induction f1 as [|f1 IH]; intros f2 l H1 H2.
    - destruct l; [|cbn in H1; lia]. destruct f2; cbn [chunks_aux]; [reflexivity|].
      destruct n; [lia|]. reflexivity.
    - destruct f2 as [|f2].
      + destruct l; [|cbn in H2; lia]. cbn [chunks_aux]. destruct n; [lia|]. reflexivity.
      + cbn [chunks_aux]. destruct (split_exact n l) as [[h t]|] eqn:E; [|reflexivity].
        apply split_exact_some in E as [E1 E2]. subst l. rewrite app_length in H1, H2.
        rewrite (IH f2 t) by lia. reflexivity.
  Qed.

  Lemma chunks_exact_app (n : nat) (h t : list A) : (0 < n)%nat -> length h = n ->
    chunks_exact n (h ++ t) = (h :: fst (chunks_exact n t), snd (chunks_exact n t)).
  Proof.
    intros Hn Hh. unfold chunks_exact. rewrite app_length.
    replace (length h + length t)%nat with (S (length h + length t - 1)) by lia.
    cbn [chunks_aux]. rewrite split_exact_app by exact Hh.
    rewrite (chunks_aux_fuel n Hn _ (length t) t) by lia.
    destruct (chunks_aux (length t) n t); reflexivity.
  Qed.

  Lemma chunks_exact_short (n : nat) (l : list A) : (length l < n)%nat ->
    chunks_exact n l = ([], l).
  Proof.
    intro H. unfold chunks_exact. destruct (length l) eqn:E; [reflexivity|].
    cbn [chunks_aux]. destruct (split_exact n l) as [[h t]|] eqn:E2; [|reflexivity].
    apply split_exact_some in E2 as [E3 E4]. subst l. rewrite app_length in E. lia.
  Qed.

End SliceFacts.

(* two slices of equal length are chunked in lock step *)
Lemma chunks_exact_parallel {A B : Type} (n : nat) : (0 < n)%nat -> forall (x : list A) (y : list B),
  length x = length y ->
  length (fst (chunks_exact n x)) = length (fst (chunks_exact n y)) /\
  length (snd (chunks_exact n x)) = length (snd (chunks_exact n y)).
Proof.
  intros Hn x. remember (length x) as m eqn:Hm. revert x Hm.
  induction m as [m IH] using lt_wf_ind. intros x Hm y Hy.
  destruct (Nat.lt_ge_cases (length x) n) as [Hlt|Hge].
  - rewrite (chunks_exact_short n x) by exact Hlt.
    rewrite (chunks_exact_short n y) by lia. cbn. split; [reflexivity | lia].
  - rewrite <- (firstn_skipn n x), <- (firstn_skipn n y).
    rewrite (chunks_exact_app n (firstn n x)) by (try rewrite firstn_length; lia).
    rewrite (chunks_exact_app n (firstn n y)) by (try rewrite firstn_length; lia).
    cbn [fst snd length].
    destruct (IH (length (skipn n x)) ltac:(rewrite skipn_length; lia) (skipn n x) eq_refl (skipn n y))
      as [I1 I2]; [rewrite !skipn_length; lia|].
    split; [f_equal; exact I1 | exact I2].
Qed.

Lemma combine_app_eq {A B : Type} : forall (a c : list A) (b d : list B),
  length a = length b -> combine (a ++ c) (b ++ d) = combine a b ++ combine c d.
Proof.
  induction a as [|x a IH]; intros c b d H; destruct b as [|y b]; try discriminate; cbn.
  - reflexivity.
  - f_equal. apply IH. cbn in H. lia.
Qed.

Lemma concat_length_uniform {A : Type} (n : nat) : forall cs : list (list A),
  Forall (fun c => length c = n) cs -> length (concat cs) = (length cs * n)%nat.
Proof.
  induction cs as [|c cs IH]; intro H; [reflexivity|].
  inversion H; subst. cbn. rewrite app_length, IH by assumption. lia.
Qed.

(* ------------------------------------------------------------------------------------------ *)
(* lane-wise accumulation = the scalar definition, in any commutative ring                      *)
(* ------------------------------------------------------------------------------------------ *)
Section RingFacts.
  Variable R : Type.
  Variables (r0 r1 : R) (radd rmul rsub : R -> R -> R) (ropp : R -> R).
  Hypothesis Rth : ring_theory r0 r1 radd rmul rsub ropp (@eq R).
  Add Ring Rring : Rth.

  Local Notation ssum := (sum_spec r0 radd).
  Local Notation rsum' := (rsum r0 radd).

  Lemma fold_left_radd : forall l a, fold_left radd l a = radd a (ssum l).
  Proof.
    induction l as [|x l IH]; intro a; cbn [fold_left sum_spec fold_right].
    - ring.
    - rewrite IH. cbn [sum_spec]. ring.
  Qed.

  Lemma rsum_spec : forall l, rsum' l = ssum l.
  Proof. intro l. unfold rsum. rewrite fold_left_radd. ring. Qed.

  Lemma ssum_app : forall l1 l2, ssum (l1 ++ l2) = radd (ssum l1) (ssum l2).
  Proof.
    induction l1 as [|x l1 IH]; intro l2; cbn [app sum_spec fold_right].
    - ring.
    - change (fold_right radd r0 (l1 ++ l2)) with (ssum (l1 ++ l2)). rewrite IH. cbn [sum_spec]. ring.
  Qed.

  Lemma ssum_repeat0 : forall n, ssum (repeat r0 n) = r0.
  Proof.
    induction n as [|n IH]; cbn [repeat sum_spec fold_right]; [reflexivity|].
    change (fold_right radd r0 (repeat r0 n)) with (ssum (repeat r0 n)). rewrite IH. ring.
  Qed.

  Section TwoArg.
    Variable f : R -> R -> R.
    Local Notation pf := (fun p : R * R => f (fst p) (snd p)).

    Lemma lane_acc_length : forall sums xs ys, length (lane_acc radd f sums xs ys) = length sums.
    Proof.
      induction sums as [|s sums IH]; intros xs ys; [reflexivity|].
      destruct xs as [|x xs]; [reflexivity|]. destruct ys as [|y ys]; [reflexivity|].
      cbn [lane_acc length]. rewrite IH. reflexivity.
    Qed.

    Lemma lane_acc_sum : forall sums xs ys, length xs = length sums -> length ys = length sums ->
      ssum (lane_acc radd f sums xs ys) = radd (ssum sums) (ssum (map pf (combine xs ys))).
    Proof.
      induction sums as [|s sums IH]; intros xs ys Hx Hy.
      - destruct xs; [|discriminate]. cbn. ring.
      - destruct xs as [|x xs]; [discriminate|]. destruct ys as [|y ys]; [discriminate|].
        cbn [lane_acc combine map sum_spec fold_right fst snd].
        change (fold_right radd r0 (lane_acc radd f sums xs ys)) with (ssum (lane_acc radd f sums xs ys)).
        rewrite IH by (cbn in Hx, Hy; lia). cbn [sum_spec]. ring.
    Qed.

    Lemma lanes_fold (n : nat) : forall (cx cy : list (list R)) (sums : list R),
      length sums = n -> Forall (fun c => length c = n) cx -> Forall (fun c => length c = n) cy ->
      length cx = length cy ->
      ssum (fold_left (fun s c => lane_acc radd f s (fst c) (snd c)) (combine cx cy) sums)
      = radd (ssum sums) (ssum (map pf (combine (concat cx) (concat cy)))).
    Proof.
      induction cx as [|a cx IH]; intros cy sums Hs Fx Fy Hl.
      - destruct cy; [|discriminate]. cbn. ring.
      - destruct cy as [|b cy]; [discriminate|]. inversion Fx; subst. inversion Fy; subst.
        cbn [combine fold_left fst snd concat].
        rewrite IH; [| rewrite lane_acc_length; assumption | assumption | assumption | cbn in Hl; lia].
        rewrite lane_acc_sum by lia.
        rewrite combine_app_eq by lia. rewrite map_app, ssum_app. ring.
    Qed.

    Theorem lanes2_eq (n : nat) (xs ys : list R) : (0 < n)%nat -> length xs = length ys ->
      lanes2 r0 radd f n xs ys = ssum (map pf (combine xs ys)).
    Proof.
      intros Hn Hlen. unfold lanes2.
      pose proof (chunks_exact_spec n xs Hn) as Hx. pose proof (chunks_exact_spec n ys Hn) as Hy.
      pose proof (chunks_exact_parallel n Hn xs ys Hlen) as [Hc Hr].
      destruct (chunks_exact n xs) as [xc xr]. destruct (chunks_exact n ys) as [yc yr].
      cbn [fst snd] in Hc, Hr. destruct Hx as (Ex & Fx & _). destruct Hy as (Ey & Fy & _).
      assert (Hs : match xr with [] => r0 | _ :: _ => rsum' (map pf (combine xr yr)) end
                   = ssum (map pf (combine xr yr))).
      { destruct xr; [destruct yr; [reflexivity | discriminate] | apply rsum_spec]. }
      rewrite Hs, rsum_spec. rewrite (lanes_fold n) by (try apply repeat_length; assumption).
      rewrite ssum_repeat0. rewrite Ex, Ey at 2.
      rewrite combine_app_eq
        by (rewrite (concat_length_uniform n xc Fx), (concat_length_uniform n yc Fy); lia).
      rewrite map_app, ssum_app. ring.
    Qed.
  End TwoArg.

  Section OneArg.
    Variable g : R -> R.

    Lemma lane_acc1_length : forall sums xs, length (lane_acc1 radd g sums xs) = length sums.
    Proof.
      induction sums as [|s sums IH]; intros xs; [reflexivity|].
      destruct xs as [|x xs]; [reflexivity|]. cbn [lane_acc1 length]. rewrite IH. reflexivity.
    Qed.

    Lemma lane_acc1_sum : forall sums xs, length xs = length sums ->
      ssum (lane_acc1 radd g sums xs) = radd (ssum sums) (ssum (map g xs)).
    Proof.
      induction sums as [|s sums IH]; intros xs Hx.
      - destruct xs; [|discriminate]. cbn. ring.
      - destruct xs as [|x xs]; [discriminate|].
        cbn [lane_acc1 map sum_spec fold_right].
        change (fold_right radd r0 (lane_acc1 radd g sums xs)) with (ssum (lane_acc1 radd g sums xs)).
        rewrite IH by (cbn in Hx; lia). cbn [sum_spec]. ring.
    Qed.

    Lemma lanes1_fold (n : nat) : forall (cx : list (list R)) (sums : list R),
      length sums = n -> Forall (fun c => length c = n) cx ->
      ssum (fold_left (fun s c => lane_acc1 radd g s c) cx sums)
      = radd (ssum sums) (ssum (map g (concat cx))).
    Proof.
      induction cx as [|a cx IH]; intros sums Hs Fx.
      - cbn. ring.
      - inversion Fx; subst. cbn [fold_left concat].
        rewrite IH; [| rewrite lane_acc1_length; reflexivity | assumption].
        rewrite lane_acc1_sum by lia. rewrite map_app, ssum_app. ring.
    Qed.

    Theorem lanes1_eq (n : nat) (xs : list R) : (0 < n)%nat ->
      lanes1 r0 radd g n xs = ssum (map g xs).
    Proof.
      intros Hn. unfold lanes1.
      pose proof (chunks_exact_spec n xs Hn) as Hx.
      destruct (chunks_exact n xs) as [xc xr]. destruct Hx as (Ex & Fx & _).
      assert (Hs : match xr with [] => r0 | _ :: _ => rsum' (map g xr) end = ssum (map g xr)).
      { destruct xr; [reflexivity | apply rsum_spec]. }
      rewrite Hs, rsum_spec. rewrite (lanes1_fold n) by (try apply repeat_length; assumption).
      rewrite ssum_repeat0. rewrite Ex at 2. rewrite map_app, ssum_app. ring.
    Qed.
  End OneArg.

  (* C35, generic statements *)
  Theorem l2_scalar_eq (LANES : nat) (x y : list R) : (0 < LANES)%nat -> length x = length y ->
    l2_scalar r0 radd rsub rmul LANES x y = l2_spec r0 radd rsub rmul x y.
  Proof. intros. unfold l2_scalar, l2_spec. apply lanes2_eq; assumption. Qed.

  Lemma ssum_map_ext {A} (h1 h2 : A -> R) : forall l, (forall a, h1 a = h2 a) -> ssum (map h1 l) = ssum (map h2 l).
  Proof. intros l H. f_equal. apply map_ext. exact H. Qed.

  Lemma combine_swap_sum (h : R -> R -> R) : forall (x y : list R),
    ssum (map (fun p => h (fst p) (snd p)) (combine x y)) = ssum (map (fun p => h (snd p) (fst p)) (combine y x)).
  Proof.
    induction x as [|a x IH]; intros [|b y]; try reflexivity.
    cbn [combine map sum_spec fold_right fst snd]. f_equal. apply IH.
  Qed.

  Theorem dot_scalar_eq (LANES : nat) (x y : list R) : (0 < LANES)%nat -> length x = length y ->
    dot_scalar r0 radd rmul LANES x y = dot_spec r0 radd rmul x y.
  Proof.
    intros Hn Hl. unfold dot_scalar, dot_spec. rewrite lanes2_eq by (try assumption; lia).
    rewrite combine_swap_sum. apply ssum_map_ext. intros [a b]. cbn. ring.
  Qed.

  Theorem norm_sq_impl_eq (LANES : nat) (x : list R) : (0 < LANES)%nat ->
    norm_sq_impl r0 radd rmul LANES x = normsq_spec r0 radd rmul x.
  Proof. intros. unfold norm_sq_impl, normsq_spec. apply lanes1_eq; assumption. Qed.
End RingFacts.
