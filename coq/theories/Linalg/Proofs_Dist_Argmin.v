(* C35: the argmin family returns the first minimal comparable item; nearest-centroid assignment. *)
From LanceV Require Import Common.Base Linalg.Model_Dist Linalg.Proofs_Dist_Slices Linalg.Proofs_Dist_Kernels.
Local Open Scope Z_scope.

Definition argmin_state (top : Z) (l : list fv) : N * option N * Z := fold_left argmin_step l (0%N, None, top).

(* what the loop has established after consuming l *)
Definition argmin_inv (top : Z) (l : list fv) (st : N * option N * Z) : Prop :=
  let '(idx, mi, mv) := st in
  idx = N.of_nat (length l) /\
  match mi with
  | None => mv = top /\ (forall j w, nth_error l j = Some (FV w) -> top <= w)
  | Some i =>
      exists j, i = as_u32 (N.of_nat j) /\ nth_error l j = Some (FV mv) /\ mv < top /\
                (forall j' w, nth_error l j' = Some (FV w) -> mv <= w) /\
                (forall j' w, (j' < j)%nat -> nth_error l j' = Some (FV w) -> mv < w)
  end.

Lemma nth_error_snoc {A} (l : list A) (v : A) (j : nat) (a : A) :
  nth_error (l ++ [v]) j = Some a ->
  ((j < length l)%nat /\ nth_error l j = Some a) \/ (j = length l /\ a = v).
Proof.
  intro H. destruct (Nat.lt_ge_cases j (length l)) as [Hlt|Hge].
  - left. split; [exact Hlt|]. rewrite nth_error_app1 in H by exact Hlt. exact H.
  - right. rewrite nth_error_app2 in H by exact Hge.
    destruct (j - length l)%nat as [|k] eqn:E.
    + cbn in H. inversion H. split; [lia | reflexivity].
    + cbn in H. destruct k; discriminate.
Qed.

Lemma nth_error_snoc_old {A} (l : list A) (v : A) (j : nat) (a : A) :
  nth_error l j = Some a -> nth_error (l ++ [v]) j = Some a.
Proof.
  intro H. rewrite nth_error_app1; [exact H|]. apply nth_error_Some. rewrite H. discriminate.
Qed.

Lemma nth_error_snoc_last {A} (l : list A) (v : A) : nth_error (l ++ [v]) (length l) = Some v.
Proof. rewrite nth_error_app2 by lia. rewrite Nat.sub_diag. reflexivity. Qed.

Lemma argmin_state_inv (top : Z) : forall l, argmin_inv top l (argmin_state top l).
Proof.
  intro l. induction l as [|v l IH] using rev_ind.
  - cbn. split; [reflexivity|]. split; [reflexivity|]. intros j w H. destruct j; discriminate.
  - unfold argmin_state in *. rewrite fold_left_app. cbn [fold_left].
    destruct (fold_left argmin_step l (0%N, None, top)) as [[idx mi] mv].
    unfold argmin_inv in IH. destruct IH as [Hidx IH].
    assert (Hlen : N.succ idx = N.of_nat (length (l ++ [v]))).
    { rewrite app_length. cbn [length]. lia. }
    unfold argmin_step. destruct v as [| |k].
    + (* null: skipped *)
      unfold argmin_inv. split; [exact Hlen|]. destruct mi as [i|].
      * destruct IH as (j & Hi & Hj & Hlt & Hmin & Hfirst). exists j.
        split; [exact Hi|]. split; [apply nth_error_snoc_old; exact Hj|]. split; [exact Hlt|]. split.
        -- intros j' w H. apply nth_error_snoc in H as [[_ H]|[_ H]]; [eapply Hmin; exact H | discriminate].
        -- intros j' w Hj' H. apply nth_error_snoc in H as [[_ H]|[_ H]]; [eapply Hfirst; eassumption | discriminate].
      * destruct IH as [Hmv Hall]. split; [exact Hmv|].
        intros j w H. apply nth_error_snoc in H as [[_ H]|[_ H]]; [eapply Hall; exact H | discriminate].
    + (* NaN: never selected *)
      unfold argmin_inv. split; [exact Hlen|]. destruct mi as [i|].
      * destruct IH as (j & Hi & Hj & Hlt & Hmin & Hfirst). exists j.
        split; [exact Hi|]. split; [apply nth_error_snoc_old; exact Hj|]. split; [exact Hlt|]. split.
        -- intros j' w H. apply nth_error_snoc in H as [[_ H]|[_ H]]; [eapply Hmin; exact H | discriminate].
        -- intros j' w Hj' H. apply nth_error_snoc in H as [[_ H]|[_ H]]; [eapply Hfirst; eassumption | discriminate].
      * destruct IH as [Hmv Hall]. split; [exact Hmv|].
        intros j w H. apply nth_error_snoc in H as [[_ H]|[_ H]]; [eapply Hall; exact H | discriminate].
    + destruct (k <? mv) eqn:E.
      * (* strictly smaller: new minimum at the last position *)
        apply Z.ltb_lt in E. unfold argmin_inv. split; [exact Hlen|].
        exists (length l). split; [rewrite Hidx; reflexivity|]. split; [apply nth_error_snoc_last|].
        assert (Hktop : k < top).
        { destruct mi as [i|]; [destruct IH as (j & _ & _ & Hlt & _); lia | destruct IH as [Hmv _]; lia]. }
        split; [exact Hktop|]. split.
        -- intros j' w H. apply nth_error_snoc in H as [[_ H]|[_ H]].
           ++ destruct mi as [i|].
              ** destruct IH as (j & _ & _ & _ & Hmin & _). specialize (Hmin _ _ H). lia.
              ** destruct IH as [Hmv Hall]. specialize (Hall _ _ H). lia.
           ++ inversion H. lia.
        -- intros j' w Hj' H. apply nth_error_snoc in H as [[_ H]|[Hj'' _]]; [|lia].
           destruct mi as [i|].
           ++ destruct IH as (j & _ & _ & _ & Hmin & _). specialize (Hmin _ _ H). lia.
           ++ destruct IH as [Hmv Hall]. specialize (Hall _ _ H). lia.
      * (* not smaller: state unchanged *)
        apply Z.ltb_ge in E. unfold argmin_inv. split; [exact Hlen|]. destruct mi as [i|].
        -- destruct IH as (j & Hi & Hj & Hlt & Hmin & Hfirst). exists j.
           split; [exact Hi|]. split; [apply nth_error_snoc_old; exact Hj|]. split; [exact Hlt|]. split.
           ++ intros j' w H. apply nth_error_snoc in H as [[_ H]|[_ H]]; [eapply Hmin; exact H | inversion H; lia].
           ++ intros j' w Hj' H. apply nth_error_snoc in H as [[_ H]|[Hj'' _]]; [eapply Hfirst; eassumption|].
              assert (j < length l)%nat by (apply nth_error_Some; rewrite Hj; discriminate). lia.
        -- destruct IH as [Hmv Hall]. split; [exact Hmv|].
           intros j w H. apply nth_error_snoc in H as [[_ H]|[_ H]]; [eapply Hall; exact H | inversion H; lia].
Qed.

Lemma as_u32_small (j : nat) : (N.of_nat j < two32)%N -> as_u32 (N.of_nat j) = N.of_nat j.
Proof. intro H. unfold as_u32, wrap32. apply N.mod_small. exact H. Qed.

(* The documented contract of argmin_value_opt / argmin_value / argmin_value_float / argmin /
   argmin_opt (all the same loop, [top] = the initial sentinel T::max_value() or +inf):
   Some (i, v): item i is the value v, v < top, v is minimal among ALL comparable items and i is
   the first index holding it (so nulls and NaNs are never selected);
   None: no comparable item is below the sentinel ("empty or all NaN/Inf"). *)
Theorem argmin_value_opt_spec (top : Z) (l : list fv) : (N.of_nat (length l) <= two32)%N ->
  match argmin_value_opt top l with
  | Some (i, v) =>
      exists j, i = N.of_nat j /\ nth_error l j = Some (FV v) /\ v < top /\
                (forall j' w, nth_error l j' = Some (FV w) -> v <= w) /\
                (forall j' w, (j' < j)%nat -> nth_error l j' = Some (FV w) -> v < w)
  | None => forall j w, nth_error l j = Some (FV w) -> top <= w
  end.
Proof.
  intro Hlen. pose proof (argmin_state_inv top l) as Hinv. unfold argmin_value_opt, argmin_state in *.
  destruct (fold_left argmin_step l (0%N, None, top)) as [[idx mi] mv].
  unfold argmin_inv in Hinv. destruct Hinv as [_ Hinv]. destruct mi as [i|]; cbn [option_map].
  - destruct Hinv as (j & Hi & Hj & Hlt & Hmin & Hfirst). exists j.
    assert (Hjl : (j < length l)%nat) by (apply nth_error_Some; rewrite Hj; discriminate).
    rewrite as_u32_small in Hi by lia. repeat split; assumption.
  - destruct Hinv as [_ Hall]. exact Hall.
Qed.

Corollary argmin_spec (top : Z) (l : list fv) : (N.of_nat (length l) <= two32)%N ->
  match argmin top l with
  | Some i =>
      exists j v, i = N.of_nat j /\ nth_error l j = Some (FV v) /\ v < top /\
                  (forall j' w, nth_error l j' = Some (FV w) -> v <= w) /\
                  (forall j' w, (j' < j)%nat -> nth_error l j' = Some (FV w) -> v < w)
  | None => forall j w, nth_error l j = Some (FV w) -> top <= w
  end.
Proof.
  intro Hlen. pose proof (argmin_value_opt_spec top l Hlen) as H. unfold argmin, argmin_value.
  destruct (argmin_value_opt top l) as [[i v]|]; cbn [option_map fst].
  - destruct H as (j & H). exists j, v. exact H.
  - exact H.
Qed.
