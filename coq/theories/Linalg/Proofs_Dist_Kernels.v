(* C35: the kernels at Z (exact arithmetic): l2 / dot / norm per element type, the u8 integer paths
   with `u32 as f32` rounding, hamming, cosine, and the batch variants. *)
From LanceV Require Import Common.Base Linalg.Model_Dist Linalg.Proofs_Dist_Slices Linalg.Proofs_Dist_Ring.
From Coq Require Import Ring ZArithRing InitialRing.
Local Open Scope Z_scope.

(* ---- instance of the generic theorems at Z ---- *)
Lemma l2_scalar_Z_eq (L : nat) (x y : list Z) : (0 < L)%nat -> length x = length y ->
  l2_scalar_Z L x y = l2_spec_Z x y.
Proof. exact (l2_scalar_eq Z 0 1 Z.add Z.mul Z.sub Z.opp Zth L x y). Qed.

Lemma dot_scalar_Z_eq (L : nat) (x y : list Z) : (0 < L)%nat -> length x = length y ->
  dot_scalar_Z L x y = dot_spec_Z x y.
Proof. exact (dot_scalar_eq Z 0 1 Z.add Z.mul Z.sub Z.opp Zth L x y). Qed.

Lemma norm_sq_Z_eq (L : nat) (x : list Z) : (0 < L)%nat -> norm_sq_Z L x = normsq_spec_Z x.
Proof. exact (norm_sq_impl_eq Z 0 1 Z.add Z.mul Z.sub Z.opp Zth L x). Qed.

Lemma zsum_spec (l : list Z) : zsum l = sum_spec 0 Z.add l.
Proof. exact (rsum_spec Z 0 1 Z.add Z.mul Z.sub Z.opp Zth l). Qed.

Lemma l2_lanes_pos (t : ety) : (0 < l2_lanes t)%nat.
Proof. destruct t; cbn; lia. Qed.
Lemma dot_lanes_pos (t : ety) : (0 < dot_lanes t)%nat.
Proof. destruct t; cbn; lia. Qed.
Lemma norm_lanes_pos (t : ety) : (0 < norm_lanes t)%nat.
Proof. destruct t; cbn; lia. Qed.

(* ---- `u32 as f32` ---- *)
Lemma round_f32_exact (n : Z) : n < 2 ^ 24 -> round_f32 n = n.
Proof. intro H. unfold round_f32. destruct (n <? 2 ^ 24) eqn:E; [reflexivity | lia]. Qed.

(* round to nearest: the error is at most half a unit in the last place, i.e. <= n * 2^-24 *)
Lemma round_f32_error (n : Z) : 2 ^ 24 <= n ->
  let k := Z.log2 n - 23 in
  Z.abs (round_f32 n - n) * 2 <= 2 ^ k /\ 2 ^ k * 2 ^ 23 <= n /\ round_f32 n mod 2 ^ k = 0.
Proof.
  intros Hn k. unfold round_f32. destruct (n <? 2 ^ 24) eqn:E; [lia|]. clear E.
  assert (Hlog : 24 <= Z.log2 n) by (apply Z.log2_le_pow2; lia).
  fold k. assert (Hk : 1 <= k) by (unfold k; lia).
  pose proof (Z.log2_spec n ltac:(lia)) as [Hlo Hhi].
  assert (Hpk : 0 < 2 ^ k) by (apply Z.pow_pos_nonneg; lia).
  assert (E2 : 2 ^ k = 2 * 2 ^ (k - 1)).
  { replace k with (Z.succ (k - 1)) at 1 by lia. rewrite Z.pow_succ_r by lia. reflexivity. }
  assert (Hph : 0 < 2 ^ (k - 1)) by (apply Z.pow_pos_nonneg; lia).
  assert (Elog : 2 ^ Z.log2 n = 2 ^ k * 2 ^ 23).
  { rewrite <- Z.pow_add_r by lia. f_equal. unfold k. lia. }
  rewrite Z.shiftr_div_pow2 by lia.
  pose proof (Z.div_mod n (2 ^ k) ltac:(lia)) as Hdm.
  pose proof (Z.mod_pos_bound n (2 ^ k) Hpk) as Hr.
  set (q := n / 2 ^ k) in *. set (r := n mod 2 ^ k) in *.
  split; [|split].
  - destruct ((2 ^ (k - 1) <? r) || ((r =? 2 ^ (k - 1)) && Z.odd q)) eqn:Eb.
    + apply orb_true_iff in Eb as [Eb|Eb].
      * apply Z.ltb_lt in Eb. nia.
      * apply andb_true_iff in Eb as [Eb _]. apply Z.eqb_eq in Eb. nia.
    + apply orb_false_iff in Eb as [Eb _]. apply Z.ltb_ge in Eb. nia.
  - lia.
  - destruct ((2 ^ (k - 1) <? r) || ((r =? 2 ^ (k - 1)) && Z.odd q)); apply Z.mod_mul; lia.
Qed.

(* ---- sums of pairs ---- *)
Lemma sum_spec_map_ext {A} (h1 h2 : A -> Z) (l : list A) :
  (forall a, In a l -> h1 a = h2 a) -> sum_spec 0 Z.add (map h1 l) = sum_spec 0 Z.add (map h2 l).
Proof. intro H. f_equal. apply map_ext_in. exact H. Qed.

Lemma l2_uint_sum (x y : list Z) :
  zsum (map (fun p => zabs_diff (fst p) (snd p) ^ 2) (combine x y)) = l2_spec_Z x y.
Proof.
  rewrite zsum_spec. unfold l2_spec_Z, l2_spec. apply sum_spec_map_ext. intros [a b] _.
  unfold zabs_diff, sqdiff. cbn [fst snd]. rewrite Z.pow_2_r. rewrite <- Z.abs_mul.
  apply Z.abs_eq. apply Z.square_nonneg.
Qed.

Lemma dot_uint_sum (x y : list Z) :
  zsum (map (fun p => fst p * snd p) (combine x y)) = dot_spec_Z x y.
Proof. rewrite zsum_spec. reflexivity. Qed.

(* ---- l2 / dot / norm for every element type ---- *)
Theorem l2_correct (t : ety) (x y : list Z) : length x = length y ->
  l2 t x y =
  match t with
  | U8 => if l2_spec_Z x y <? 2 ^ 32 then Ok (xint (round_f32 (l2_spec_Z x y))) else Panic
  | _ => Ok (xint (l2_spec_Z x y))
  end.
Proof.
  intro Hl. destruct t; cbn [l2]; try (rewrite l2_scalar_Z_eq by (try apply l2_lanes_pos; assumption); reflexivity).
  unfold l2_uint, sum_u32. rewrite l2_uint_sum. unfold two32z.
  destruct (l2_spec_Z x y <? 2 ^ 32); reflexivity.
Qed.

Theorem dot_correct (t : ety) (x y : list Z) : length x = length y ->
  dot t x y =
  match t with
  | U8 => if dot_spec_Z x y <? 2 ^ 32 then Ok (xint (round_f32 (dot_spec_Z x y))) else Panic
  | _ => Ok (xint (dot_spec_Z x y))
  end.
Proof.
  intro Hl. destruct t; cbn [dot]; try (rewrite dot_scalar_Z_eq by (try apply dot_lanes_pos; assumption); reflexivity).
  unfold dot_uint, sum_u32. rewrite dot_uint_sum. unfold two32z.
  destruct (dot_spec_Z x y <? 2 ^ 32); reflexivity.
Qed.

Theorem norm_sq_correct (t : ety) (x : list Z) : norm_sq t x = normsq_spec_Z x.
Proof. unfold norm_sq. apply norm_sq_Z_eq. apply norm_lanes_pos. Qed.

Lemma l2_spec_nonneg (x y : list Z) : 0 <= l2_spec_Z x y.
Proof.
  unfold l2_spec_Z, l2_spec. induction (combine x y) as [|[a b] l IH]; cbn [map sum_spec fold_right]; [lia|].
  unfold sqdiff at 1. cbn [fst snd]. pose proof (Z.square_nonneg (a - b)).
  change (fold_right Z.add 0 (map (fun p : Z * Z => sqdiff Z.sub Z.mul (fst p) (snd p)) l))
    with (sum_spec 0 Z.add (map (fun p : Z * Z => sqdiff Z.sub Z.mul (fst p) (snd p)) l)). lia.
Qed.

(* exact mode, stated once: whenever the true value is below 2^24 every path returns it *)
Corollary l2_exact_small (t : ety) (x y : list Z) : length x = length y -> l2_spec_Z x y < 2 ^ 24 ->
  l2 t x y = Ok (xint (l2_spec_Z x y)).
Proof.
  intros Hl Hs. rewrite l2_correct by exact Hl. destruct t; try reflexivity.
  destruct (l2_spec_Z x y <? 2 ^ 32) eqn:E; [|lia]. rewrite round_f32_exact by exact Hs. reflexivity.
Qed.
