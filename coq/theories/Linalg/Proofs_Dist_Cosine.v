(* C35: cosine distance = 1 - <x,y> / (|x| |y|), exact arithmetic, for the scalar path (f16, bf16,
   f64) and the explicit-SIMD f32 path (16-lane fma loop, 8-lane fma loop, scalar tail). *)
From LanceV Require Import Common.Base Linalg.Model_Dist Linalg.Proofs_Dist_Slices Linalg.Proofs_Dist_Ring
  Linalg.Proofs_Dist_Kernels Linalg.Proofs_Dist_Hamming Linalg.Proofs_Dist_Batch Linalg.Proofs_Dist_Assign.
From Coq Require Import Ring ZArithRing InitialRing.
Local Open Scope Z_scope.

Lemma exact_sqrt_some (s r : Z) : exact_sqrt s = Some r -> 0 <= r /\ r * r = s.
Proof.
  unfold exact_sqrt. destruct (s <? 0) eqn:E; [discriminate|].
  destruct (Z.sqrt s * Z.sqrt s =? s) eqn:E2; [|discriminate].
  intro H. inversion H. subst r. apply Z.eqb_eq in E2. split; [apply Z.sqrt_nonneg | exact E2].
Qed.

Definition dspec (x y : list Z) : Z := dot_spec_Z x y.

Lemma dspec_zs (x y : list Z) : dspec x y = zs (map (fun p => fst p * snd p) (combine x y)).
Proof. reflexivity. Qed.

Lemma dspec_app (a b c d : list Z) : length a = length c -> dspec (a ++ b) (c ++ d) = dspec a c + dspec b d.
Proof. intro H. rewrite !dspec_zs. rewrite combine_app_eq by exact H. rewrite map_app, zs_app. reflexivity. Qed.

Lemma dspec_self (y : list Z) : dspec y y = normsq_spec_Z y.
Proof.
  rewrite dspec_zs. unfold normsq_spec_Z, normsq_spec. fold (zs (map (sq Z.mul) y)).
  induction y as [|a y IH]; [reflexivity|]. cbn [combine map]. rewrite !zs_cons, IH. reflexivity.
Qed.

Lemma normsq_nonneg (y : list Z) : 0 <= normsq_spec_Z y.
Proof.
  unfold normsq_spec_Z, normsq_spec. fold (zs (map (sq Z.mul) y)).
  induction y as [|a y IH]; [cbn; lia|]. cbn [map]. rewrite zs_cons. unfold sq at 1.
  pose proof (Z.square_nonneg a). lia.
Qed.

(* a zero norm forces a zero dot product *)
Lemma normsq_zero_dot (x y : list Z) : normsq_spec_Z x = 0 -> dspec x y = 0.
Proof.
  rewrite dspec_zs. unfold normsq_spec_Z, normsq_spec. fold (zs (map (sq Z.mul) x)).
  revert y. induction x as [|a x IH]; intros y H; [reflexivity|].
  cbn [map] in H. rewrite zs_cons in H. unfold sq at 1 in H.
  pose proof (Z.square_nonneg a) as Ha.
  assert (Hx : 0 <= zs (map (sq Z.mul) x)) by (apply normsq_nonneg).
  assert (a = 0) by nia. assert (zs (map (sq Z.mul) x) = 0) by nia. subst a.
  destruct y as [|b y]; [reflexivity|]. cbn [combine map fst snd]. rewrite zs_cons, IH by assumption. lia.
Qed.

Lemma dspec_comm (x y : list Z) : dspec x y = dspec y x.
Proof.
  rewrite !dspec_zs. revert y. induction x as [|a x IH]; intros [|b y]; try reflexivity.
  cbn [combine map fst snd]. rewrite !zs_cons, IH. lia.
Qed.

(* 1 - xy / den for den > 0 *)
Lemma one_minus_div_pos (xy den : Z) : 0 < den -> one_minus_div xy den = XRat (den - xy) den.
Proof.
  intro H. unfold one_minus_div. destruct (den =? 0) eqn:E; [lia|]. destruct (den <? 0) eqn:E2; [lia|]. reflexivity.
Qed.

(* the closed form shared by every cosine path, given exact integer norms a, b *)
Definition cos_value (xy a b : Z) : xval := if a * b =? 0 then XNaN else XRat (a * b - xy) (a * b).

Lemma one_minus_div_norms (x y : list Z) (a b : Z) :
  0 <= a -> 0 <= b -> a * a = normsq_spec_Z x -> b * b = normsq_spec_Z y ->
  one_minus_div (dspec x y) (a * b) = cos_value (dspec x y) a b.
Proof.
  intros Ha Hb Hx Hy. unfold cos_value. destruct (a * b =? 0) eqn:E.
  - apply Z.eqb_eq in E. unfold one_minus_div. rewrite E. cbn [Z.eqb].
    assert (Hz : dspec x y = 0).
    { assert (a = 0 \/ b = 0) as [H0|H0] by nia.
      - apply normsq_zero_dot. nia.
      - rewrite dspec_comm. apply normsq_zero_dot. nia. }
    rewrite Hz. reflexivity.
  - apply Z.eqb_neq in E. apply one_minus_div_pos. nia.
Qed.

(* ---- scalar path: cosine_scalar ---- *)
Theorem cosine_scalar_correct (t : ety) (x y : list Z) (xn : Z) (r : xval) :
  t <> U8 -> length x = length y -> cosine_scalar t x xn y = Some r ->
  exists yn, 0 <= yn /\ yn * yn = normsq_spec_Z y /\ r = one_minus_div (dspec x y) (xn * yn).
Proof.
  intros Ht Hl H. unfold cosine_scalar in H.
  rewrite (dot_correct t y y eq_refl), (dot_correct t x y Hl) in H.
  assert (Hyy : xint_of (match t with
                         | U8 => if dot_spec_Z y y <? 2 ^ 32 then Ok (xint (round_f32 (dot_spec_Z y y))) else Panic
                         | _ => Ok (xint (dot_spec_Z y y)) end) = Some (dot_spec_Z y y))
    by (destruct t; try reflexivity; contradiction).
  assert (Hxy : xint_of (match t with
                         | U8 => if dot_spec_Z x y <? 2 ^ 32 then Ok (xint (round_f32 (dot_spec_Z x y))) else Panic
                         | _ => Ok (xint (dot_spec_Z x y)) end) = Some (dot_spec_Z x y))
    by (destruct t; try reflexivity; contradiction).
  rewrite Hyy, Hxy in H.
  destruct (exact_sqrt (dot_spec_Z y y)) as [yn|] eqn:E; [|discriminate].
  apply exact_sqrt_some in E as [E1 E2]. inversion H. exists yn.
  split; [exact E1|]. split; [rewrite E2; apply dspec_self | reflexivity].
Qed.

(* ---- f32 path ---- *)
Lemma slices_app {A} (a b : nat) (l : list A) : (a <= b)%nat ->
  l = firstn a l ++ firstn (b - a) (skipn a l) ++ skipn b l.
Proof.
  intro H. rewrite <- (firstn_skipn a l) at 1. f_equal.
  rewrite <- (firstn_skipn (b - a) (skipn a l)) at 1. f_equal.
  rewrite skipn_add. f_equal. lia.
Qed.

Lemma chunks_exact_no_rem {A} (W : nat) (l : list A) : (0 < W)%nat -> (length l mod W = 0)%nat ->
  snd (chunks_exact W l) = [].
Proof.
  intros HW Hm. destruct (chunks_exact_counts W l HW) as [_ Hr]. rewrite Hm in Hr.
  destruct (snd (chunks_exact W l)); [reflexivity | discriminate].
Qed.

(* the W-lane fma loop over [lo, hi) computes the dot product of the two slices *)
Lemma simd_fma_sum_correct (W lo hi : nat) (xs ys : list Z) :
  (0 < W)%nat -> length xs = length ys -> (hi <= length xs)%nat -> (lo <= hi)%nat -> ((hi - lo) mod W = 0)%nat ->
  simd_fma_sum_Z W lo hi xs ys = dspec (firstn (hi - lo) (skipn lo xs)) (firstn (hi - lo) (skipn lo ys)).
Proof.
  intros HW Hl Hhi Hlo Hm. unfold simd_fma_sum_Z, simd_fma_sum.
  apply (fma_chunks_eq Z 0 1 Z.add Z.mul Z.sub Z.opp Zth W).
  - exact HW.
  - rewrite !firstn_length, !skipn_length. lia.
  - apply chunks_exact_no_rem; [exact HW|]. rewrite firstn_length, skipn_length.
    replace (Nat.min (hi - lo) (length xs - lo)) with (hi - lo)%nat by lia. exact Hm.
Qed.

Lemma div16x16_props (dim : nat) : (div16x16 dim <= div8x8 dim)%nat /\ (div8x8 dim <= dim)%nat /\
  (div16x16 dim mod 16 = 0)%nat /\ ((div8x8 dim - div16x16 dim) mod 8 = 0)%nat.
Proof.
  unfold div16x16, div8x8.
  pose proof (Nat.div_mod dim 16 ltac:(lia)) as H16. pose proof (Nat.mod_upper_bound dim 16 ltac:(lia)) as B16.
  pose proof (Nat.div_mod dim 8 ltac:(lia)) as H8. pose proof (Nat.mod_upper_bound dim 8 ltac:(lia)) as B8.
  assert (Hrel : (dim / 8 = 2 * (dim / 16) \/ dim / 8 = 2 * (dim / 16) + 1)%nat) by lia.
  repeat split; lia.
Qed.

(* the three accumulations of the f32 kernel add up to the dot product *)
Lemma f32_three_parts (x y : list Z) : length x = length y ->
  let dim := length x in
  simd_fma_sum_Z 16 0 (div16x16 dim) x y + simd_fma_sum_Z 8 (div16x16 dim) (div8x8 dim) x y
  + dot_scalar_Z 16 (skipn (div8x8 dim) x) (skipn (div8x8 dim) y) = dspec x y.
Proof.
  intros Hl dim. destruct (div16x16_props dim) as (H1 & H2 & H3 & H4).
  rewrite simd_fma_sum_correct by (try lia; rewrite Nat.sub_0_r; exact H3).
  rewrite simd_fma_sum_correct by (try lia; exact H4).
  rewrite dot_scalar_Z_eq by (try lia; rewrite !skipn_length; lia).
  rewrite Nat.sub_0_r. cbn [skipn].
  fold (dspec (skipn (div8x8 dim) x) (skipn (div8x8 dim) y)).
  transitivity (dspec (firstn (div16x16 dim) x ++ firstn (div8x8 dim - div16x16 dim) (skipn (div16x16 dim) x) ++ skipn (div8x8 dim) x)
                      (firstn (div16x16 dim) y ++ firstn (div8x8 dim - div16x16 dim) (skipn (div16x16 dim) y) ++ skipn (div8x8 dim) y)).
  - rewrite !dspec_app by (rewrite !firstn_length, ?skipn_length; lia). lia.
  - rewrite <- (slices_app (div16x16 dim) (div8x8 dim) x H1), <- (slices_app (div16x16 dim) (div8x8 dim) y H1).
    reflexivity.
Qed.

Theorem cosine_fast_f32_correct (x y : list Z) (xn : Z) (r : xval) :
  length x = length y -> cosine_fast_f32 x xn y = Some r ->
  exists yn, 0 <= yn /\ yn * yn = normsq_spec_Z y /\ r = one_minus_div (dspec x y) (xn * yn).
Proof.
  intros Hl H. unfold cosine_fast_f32 in H.
  destruct (exact_sqrt (norm_sq F32 (skipn (div8x8 (length x)) y))) as [tn|] eqn:Et; [|discriminate].
  apply exact_sqrt_some in Et as [_ Et]. rewrite norm_sq_correct in Et.
  rewrite (f32_three_parts x y Hl) in H.
  assert (Hy : simd_fma_sum_Z 16 0 (div16x16 (length x)) y y + simd_fma_sum_Z 8 (div16x16 (length x)) (div8x8 (length x)) y y + tn * tn
               = normsq_spec_Z y).
  { rewrite Et, <- dspec_self. rewrite <- (dot_scalar_Z_eq 16) by lia.
    rewrite Hl. rewrite (f32_three_parts y y eq_refl). apply dspec_self. }
  rewrite Hy in H.
  destruct (exact_sqrt (normsq_spec_Z y)) as [yn|] eqn:E; [|discriminate].
  apply exact_sqrt_some in E as [E1 E2]. inversion H. exists yn. repeat split; assumption.
Qed.

(* ---- Cosine::cosine for every float type ---- *)
Theorem cosine_correct (t : ety) (x y : list Z) (r : xval) :
  t <> U8 -> length x = length y -> cosine t x y = Some r ->
  exists xn yn, 0 <= xn /\ 0 <= yn /\ xn * xn = normsq_spec_Z x /\ yn * yn = normsq_spec_Z y /\
                r = cos_value (dspec x y) xn yn.
Proof.
  intros Ht Hl H. unfold cosine in H. rewrite norm_sq_correct in H.
  destruct (exact_sqrt (normsq_spec_Z x)) as [xn|] eqn:Ex; [|discriminate].
  apply exact_sqrt_some in Ex as [Ex1 Ex2].
  assert (Hy : exists yn, 0 <= yn /\ yn * yn = normsq_spec_Z y /\ r = one_minus_div (dspec x y) (xn * yn)).
  { unfold cosine_fast in H. destruct t.
    - apply (cosine_scalar_correct F16 x y xn r); [discriminate | exact Hl | exact H].
    - apply (cosine_scalar_correct BF16 x y xn r); [discriminate | exact Hl | exact H].
    - apply (cosine_fast_f32_correct x y xn r); assumption.
    - apply (cosine_scalar_correct F64 x y xn r); [discriminate | exact Hl | exact H].
    - contradiction. }
  destruct Hy as (yn & Hy1 & Hy2 & Hr). exists xn, yn. repeat split; try assumption.
  rewrite Hr. apply one_minus_div_norms; assumption.
Qed.

(* ---- cosine_with_norms: both norms supplied by the caller ---- *)
Theorem cosine_with_norms_correct (t : ety) (x y : list Z) (xn yn : Z) :
  t <> U8 -> length x = length y ->
  cosine_with_norms t x xn yn y = Some (one_minus_div (dspec x y) (xn * yn)).
Proof.
  intros Ht Hl. unfold cosine_with_norms.
  assert (Hs : cosine_scalar_fast t x xn y yn = Some (one_minus_div (dspec x y) (xn * yn))).
  { unfold cosine_scalar_fast. rewrite (dot_correct t x y Hl). destruct t; try reflexivity. contradiction. }
  destruct t; try exact Hs.
  unfold cosine_with_norms_f32. rewrite (f32_three_parts x y Hl). reflexivity.
Qed.

(* ---- cosine_once (the dimension 8 / 16 specialisation of the f32 batch) ---- *)
Theorem cosine_once_f32_correct (N : nat) (x y : list Z) (xn : Z) (r : xval) :
  length x = N -> length y = N -> cosine_once_f32 N x xn y = Some r ->
  exists yn, 0 <= yn /\ yn * yn = normsq_spec_Z y /\ r = one_minus_div (dspec x y) (xn * yn).
Proof.
  intros Hx Hy H. unfold cosine_once_f32 in H.
  rewrite !firstn_all2 in H by lia. rewrite !zsum_spec in H.
  change (sum_spec 0 Z.add (map (fun p : Z * Z => fst p * snd p) (combine y y))) with (dspec y y) in H.
  change (sum_spec 0 Z.add (map (fun p : Z * Z => fst p * snd p) (combine x y))) with (dspec x y) in H.
  destruct (exact_sqrt (dspec y y)) as [yn|] eqn:E; [|discriminate].
  apply exact_sqrt_some in E as [E1 E2]. inversion H. exists yn.
  split; [exact E1|]. split; [rewrite E2; apply dspec_self | reflexivity].
Qed.

Lemma sequence_option_ok {A} : forall (l : list (option A)) (ds : list A),
  sequence_option l = Some ds -> Forall2 (fun o d => o = Some d) l ds.
Proof.
  induction l as [|o l IH]; intros ds H; cbn [sequence_option] in H.
  - inversion H. constructor.
  - destruct o as [a|]; [|discriminate].
    destruct (sequence_option l) as [r|] eqn:E; [|discriminate].
    inversion H; subst. constructor; [reflexivity | apply IH; reflexivity].
Qed.

(* cosine_distance_batch (every float type, incl. the f32 specialisations for dimension 8 and 16):
   output j is 1 - <from,row_j>/(|from||row_j|), NaN when a norm is zero *)
Theorem cosine_distance_batch_correct (t : ety) (from to : list Z) (dim : nat) (ds : list xval) :
  t <> U8 -> length from = dim -> (length to mod dim = 0)%nat ->
  cosine_distance_batch t from to dim = Ok (Some ds) ->
  (0 < dim)%nat /\ length ds = (length to / dim)%nat /\
  exists xn, 0 <= xn /\ xn * xn = normsq_spec_Z from /\
    forall j d, nth_error ds j = Some d ->
      let row := firstn dim (skipn (j * dim) to) in
      exists yn, 0 <= yn /\ yn * yn = normsq_spec_Z row /\ d = cos_value (dspec from row) xn yn.
Proof.
  intros Ht Hf Hm H. unfold cosine_distance_batch in H.
  destruct (dim =? 0)%nat eqn:E0; [discriminate|]. apply Nat.eqb_neq in E0.
  assert (Hd : (0 < dim)%nat) by lia. split; [exact Hd|].
  rewrite norm_sq_correct in H.
  destruct (exact_sqrt (normsq_spec_Z from)) as [xn|] eqn:Ex; [|discriminate].
  apply exact_sqrt_some in Ex as [Ex1 Ex2].
  inversion H as [Hs]. clear H. apply sequence_option_ok in Hs. apply Forall2_nth_error in Hs as [Hlen Hnth].
  rewrite map_length in Hlen. destruct (chunks_exact_counts dim to Hd) as [Hc _].
  split; [lia|]. exists xn. split; [exact Ex1|]. split; [exact Ex2|].
  intros j d Hj. cbv zeta.
  assert (Hjl : (j < length to / dim)%nat) by (rewrite <- Hc, Hlen; apply nth_error_Some; rewrite Hj; discriminate).
  apply Hnth in Hj as (o & Ho & Hod). subst o.
  apply nth_error_map_inv in Ho as (row & Hrow & Hk).
  apply (chunks_exact_nth dim Hd) in Hrow. subst row.
  set (row := firstn dim (skipn (j * dim) to)) in *.
  assert (Hrl : length row = dim) by (unfold row; apply row_length; assumption).
  assert (Hy : exists yn, 0 <= yn /\ yn * yn = normsq_spec_Z row /\ d = one_minus_div (dspec from row) (xn * yn)).
  { destruct t.
    - apply (cosine_scalar_correct F16 from row xn d); [discriminate | lia | exact Hk].
    - apply (cosine_scalar_correct BF16 from row xn d); [discriminate | lia | exact Hk].
    - destruct dim as [|[|[|[|[|[|[|[|[|[|[|[|[|[|[|[|[|dim']]]]]]]]]]]]]]]]];
        try (apply (cosine_fast_f32_correct from row xn d); [lia | exact Hk]).
      + apply (cosine_once_f32_correct 8 from row xn d); [exact Hf | exact Hrl | exact Hk].
      + apply (cosine_once_f32_correct 16 from row xn d); [exact Hf | exact Hrl | exact Hk].
    - apply (cosine_scalar_correct F64 from row xn d); [discriminate | lia | exact Hk].
    - contradiction. }
  destruct Hy as (yn & Hy1 & Hy2 & Hr). exists yn. repeat split; try assumption.
  rewrite Hr. apply one_minus_div_norms; assumption.
Qed.
