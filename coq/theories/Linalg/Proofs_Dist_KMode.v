(* C35: u8 / hamming nearest-centroid assignment (KModeAlgo, no balance bias). *)
From LanceV Require Import Common.Base Linalg.Model_Dist Linalg.Proofs_Dist_Slices Linalg.Proofs_Dist_Kernels
  Linalg.Proofs_Dist_Hamming Linalg.Proofs_Dist_Batch Linalg.Proofs_Dist_Argmin Linalg.Proofs_Dist_Assign.
Local Open Scope Z_scope.

(* the distance as the kernel reports it: the hamming count rounded by `as f32` *)
Definition hdist (centroids vec : list Z) (dim j : nat) : Z :=
  round_f32 (hamming_spec vec (firstn dim (skipn (j * dim) centroids))).

Theorem membership_kmode_minimal (centroids data : list Z) (dim : nat) (res : list (option (N * Z))) :
  (N.of_nat (length centroids / dim) <= two32)%N ->
  membership_kmode MHamming centroids data dim = Ok res ->
  (0 < dim)%nat /\ length res = length (chunks dim data) /\
  forall i r, nth_error res i = Some r ->
    let vec := firstn dim (skipn (i * dim) data) in
    let k := (length centroids / dim)%nat in
    length vec = dim ->
    match r with
    | Some (c, d) =>
        exists j, c = N.of_nat j /\ (j < k)%nat /\ d = hdist centroids vec dim j /\ d < F32MAX /\
                  (forall j', (j' < k)%nat -> d <= hdist centroids vec dim j') /\
                  (forall j', (j' < j)%nat -> d < hdist centroids vec dim j')
    | None => forall j, (j < k)%nat -> F32MAX <= hdist centroids vec dim j
    end.
Proof.
  intros Hk H. unfold membership_kmode in H.
  destruct (dim =? 0)%nat eqn:E0; [discriminate|]. apply Nat.eqb_neq in E0.
  assert (Hd : (0 < dim)%nat) by lia. split; [exact Hd|].
  apply sequence_outcome_ok in H. apply Forall2_nth_error in H as [Hlen Hnth].
  rewrite map_length in Hlen. split; [lia|]. intros i r Hi. cbv zeta. intro Hvl.
  apply Hnth in Hi as (o & Ho & Hor). subst o.
  apply nth_error_map_inv in Ho as (vec & Hvec & Ha).
  apply (chunks_nth dim data i vec Hd) in Hvec. subst vec.
  set (vec := firstn dim (skipn (i * dim) data)) in *.
  destruct (sequence_outcome (map (hamming vec) (fst (chunks_exact dim centroids)))) as [ds| |] eqn:Es; try discriminate.
  inversion Ha as [Hr]. clear Ha.
  apply sequence_outcome_ok in Es. apply Forall2_nth_error in Es as [Hl Hrows].
  rewrite map_length in Hl. destruct (chunks_exact_counts dim centroids Hd) as [Hc _]. rewrite Hc in Hl.
  (* every item of the argmin list is the rounded hamming count of its row *)
  assert (Hitem : forall j d, nth_error ds j = Some d ->
                              (j < length centroids / dim)%nat /\ fv_of_xval d = FV (hdist centroids vec dim j)).
  { intros j d Hj.
    assert (Hjl : (j < length centroids / dim)%nat) by (rewrite Hl; apply nth_error_Some; rewrite Hj; discriminate).
    split; [exact Hjl|]. apply Hrows in Hj as (o & Ho & Hod). subst o.
    apply nth_error_map_inv in Ho as (row & Hrow & Hh).
    apply (chunks_exact_nth dim Hd) in Hrow. subst row.
    rewrite hamming_correct in Hh by (rewrite row_length; lia).
    destruct (hamming_spec vec (firstn dim (skipn (j * dim) centroids)) <? 2 ^ 32); [|discriminate].
    inversion Hh. reflexivity. }
  assert (Hfv : forall j w, nth_error (map fv_of_xval ds) j = Some (FV w) ->
                            (j < length centroids / dim)%nat /\ w = hdist centroids vec dim j).
  { intros j w Hj. apply nth_error_map_inv in Hj as (d & Hdj & Hfd).
    apply Hitem in Hdj as [Hjl Hd']. split; [exact Hjl|]. rewrite Hd' in Hfd. inversion Hfd. reflexivity. }
  assert (Hvf : forall j, (j < length centroids / dim)%nat ->
                          nth_error (map fv_of_xval ds) j = Some (FV (hdist centroids vec dim j))).
  { intros j Hj. destruct (nth_error ds j) as [d|] eqn:Hdj.
    - rewrite (map_nth_error fv_of_xval j ds Hdj). f_equal. apply Hitem in Hdj as [_ Hd']. exact Hd'.
    - apply nth_error_None in Hdj. lia. }
  pose proof (argmin_value_opt_spec F32MAX (map fv_of_xval ds)) as Hspec.
  rewrite map_length, <- Hl in Hspec. specialize (Hspec Hk).
  unfold argmin_value. destruct (argmin_value_opt F32MAX (map fv_of_xval ds)) as [[c d]|].
  - destruct Hspec as (j & Hcj & Hj & Hlt & Hmin & Hfirst). exists j.
    apply Hfv in Hj as [Hjk Hdj]. repeat split; try assumption.
    + intros j' Hj'. apply (Hmin j'). apply Hvf. exact Hj'.
    + intros j' Hj'. apply (Hfirst j'); [exact Hj'|]. apply Hvf. lia.
  - intros j Hj. apply (Hspec j). apply Hvf. exact Hj.
Qed.
