(* C35: argmax (mirror image of argmin) and argmin_value_float_with_bias (argmin of value + bias). *)
From LanceV Require Import Common.Base Linalg.Model_Dist Linalg.Proofs_Dist_Argmin.
Local Open Scope Z_scope.

Definition fv_neg (v : fv) : fv := match v with FV k => FV (- k) | _ => v end.

Lemma argmax_step_neg (idx : N) (mi : option N) (mv : Z) (v : fv) :
  argmax_step (idx, mi, mv) v =
  let '(i', m', v') := argmin_step (idx, mi, - mv) (fv_neg v) in (i', m', - v').
Proof.
  unfold argmax_step, argmin_step. destruct v as [| |k]; cbn [fv_neg]; try (rewrite Z.opp_involutive; reflexivity).
  destruct (mv <? k) eqn:E1; destruct (- k <? - mv) eqn:E2; try (rewrite Z.opp_involutive; reflexivity); lia.
Qed.

Lemma argmax_fold_neg : forall (l : list fv) (idx : N) (mi : option N) (mv : Z),
  fold_left argmax_step l (idx, mi, mv) =
  let '(i', m', v') := fold_left argmin_step (map fv_neg l) (idx, mi, - mv) in (i', m', - v').
Proof.
  induction l as [|v l IH]; intros idx mi mv; cbn [fold_left map].
  - rewrite Z.opp_involutive. reflexivity.
  - rewrite argmax_step_neg. destruct (argmin_step (idx, mi, - mv) (fv_neg v)) as [[i' m'] v'].
    rewrite IH. rewrite Z.opp_involutive. reflexivity.
Qed.

Lemma argmax_as_argmin (bot : Z) (l : list fv) :
  argmax_opt bot l = option_map fst (argmin_value_opt (- bot) (map fv_neg l)).
Proof.
  unfold argmax_opt, argmin_value_opt. rewrite argmax_fold_neg.
  destruct (fold_left argmin_step (map fv_neg l) (0%N, None, - bot)) as [[i' m'] v'].
  destruct m'; reflexivity.
Qed.

Lemma nth_error_neg (l : list fv) (j : nat) (w : Z) :
  nth_error l j = Some (FV w) <-> nth_error (map fv_neg l) j = Some (FV (- w)).
Proof.
  split; intro H.
  - rewrite (map_nth_error fv_neg j l H). reflexivity.
  - revert j H. induction l as [|v l IH]; intros j H; destruct j as [|j]; cbn in H; try discriminate.
    + destruct v as [| |k]; cbn in H; try discriminate. inversion H. cbn. f_equal. f_equal. lia.
    + cbn. apply IH. exact H.
Qed.

(* argmax / argmax_opt: the FIRST index holding the maximum of the comparable items, which is
   strictly above the initial sentinel T::min_value(); None iff nothing is above it. *)
Theorem argmax_opt_spec (bot : Z) (l : list fv) : (N.of_nat (length l) <= two32)%N ->
  match argmax_opt bot l with
  | Some i =>
      exists j v, i = N.of_nat j /\ nth_error l j = Some (FV v) /\ bot < v /\
                  (forall j' w, nth_error l j' = Some (FV w) -> w <= v) /\
                  (forall j' w, (j' < j)%nat -> nth_error l j' = Some (FV w) -> w < v)
  | None => forall j w, nth_error l j = Some (FV w) -> w <= bot
  end.
Proof.
  intro Hlen. rewrite argmax_as_argmin.
  pose proof (argmin_value_opt_spec (- bot) (map fv_neg l)) as H. rewrite map_length in H. specialize (H Hlen).
  destruct (argmin_value_opt (- bot) (map fv_neg l)) as [[i v]|]; cbn [option_map fst].
  - destruct H as (j & Hi & Hj & Hlt & Hmin & Hfirst). exists j, (- v).
    replace v with (- - v) in Hj by lia. apply nth_error_neg in Hj.
    repeat split; try assumption; try lia.
    + intros j' w Hw. apply nth_error_neg in Hw. specialize (Hmin _ _ Hw). lia.
    + intros j' w Hj' Hw. apply nth_error_neg in Hw. specialize (Hfirst _ _ Hj' Hw). lia.
  - intros j w Hw. apply nth_error_neg in Hw. specialize (H _ _ Hw). lia.
Qed.

(* ---- argmin_value_float_with_bias ---- *)
Definition keyed (vb : fv * Z) : fv := match fst vb with FV k => FV (k + snd vb) | v => v end.

(* the biased loop is the plain argmin loop on value + bias, and additionally remembers the
   original value of the current winner *)
Lemma bias_fold_inv (inf : Z) : forall (l : list (fv * Z)),
  let '(idx, mi, mv, mo) := fold_left bias_step l (0%N, None, inf, inf) in
  fold_left argmin_step (map keyed l) (0%N, None, inf) = (idx, mi, mv) /\
  (idx = N.of_nat (length l)) /\
  match mi with
  | Some i => exists j b, i = as_u32 (N.of_nat j) /\ nth_error l j = Some (FV mo, b) /\ mv = mo + b
  | None => True
  end.
Proof.
  intro l. induction l as [|vb l IH] using rev_ind.
  - cbn. repeat split.
  - rewrite fold_left_app, map_app, fold_left_app. cbn [fold_left map].
    destruct (fold_left bias_step l (0%N, None, inf, inf)) as [[[idx mi] mv] mo].
    destruct IH as (IH1 & IH2 & IH3). rewrite IH1.
    assert (Hlen : N.succ idx = N.of_nat (length (l ++ [vb]))) by (rewrite app_length; cbn [length]; lia).
    destruct vb as [v b]. unfold bias_step, argmin_step, keyed. cbn [fst snd].
    destruct v as [| |k].
    + repeat split; try assumption. destruct mi as [i|]; [|exact I].
      destruct IH3 as (j & b' & H1 & H2 & H3). exists j, b'. repeat split; try assumption.
      apply nth_error_snoc_old. exact H2.
    + repeat split; try assumption. destruct mi as [i|]; [|exact I].
      destruct IH3 as (j & b' & H1 & H2 & H3). exists j, b'. repeat split; try assumption.
      apply nth_error_snoc_old. exact H2.
    + destruct (k + b <? mv) eqn:E.
      * repeat split; try assumption. exists (length l), b. rewrite IH2. repeat split.
        apply nth_error_snoc_last.
      * repeat split; try assumption. destruct mi as [i|]; [|exact I].
        destruct IH3 as (j & b' & H1 & H2 & H3). exists j, b'. repeat split; try assumption.
        apply nth_error_snoc_old. exact H2.
Qed.

(* argmin_value_float_with_bias(values, Some(bias)): the first index minimising value + bias among
   the comparable items (pairs beyond the shorter of the two iterators are ignored), provided the
   sum is below +inf; the ORIGINAL value is returned. *)
Theorem argmin_with_bias_spec (inf : Z) (l : list fv) (b : list Z) :
  (N.of_nat (length (combine l b)) <= two32)%N ->
  match argmin_value_float_with_bias inf l (Some b) with
  | Some (i, v) =>
      exists j bj, i = N.of_nat j /\ nth_error (combine l b) j = Some (FV v, bj) /\ v + bj < inf /\
        (forall j' w b', nth_error (combine l b) j' = Some (FV w, b') -> v + bj <= w + b') /\
        (forall j' w b', (j' < j)%nat -> nth_error (combine l b) j' = Some (FV w, b') -> v + bj < w + b')
  | None => forall j w b', nth_error (combine l b) j = Some (FV w, b') -> inf <= w + b'
  end.
Proof.
  intro Hlen. cbn [argmin_value_float_with_bias].
  pose proof (bias_fold_inv inf (combine l b)) as Hinv.
  destruct (fold_left bias_step (combine l b) (0%N, None, inf, inf)) as [[[idx mi] mv] mo].
  destruct Hinv as (H1 & H2 & H3).
  pose proof (argmin_value_opt_spec inf (map keyed (combine l b))) as Hs.
  rewrite map_length in Hs. specialize (Hs Hlen). unfold argmin_value_opt in Hs. rewrite H1 in Hs.
  assert (Hkey : forall j w b', nth_error (combine l b) j = Some (FV w, b') ->
                                nth_error (map keyed (combine l b)) j = Some (FV (w + b'))).
  { intros j w b' Hj. rewrite (map_nth_error keyed j _ Hj). reflexivity. }
  destruct mi as [i|]; cbn [option_map] in *.
  - destruct Hs as (j & Hi & Hj & Hlt & Hmin & Hfirst).
    destruct H3 as (j0 & b0 & Hi0 & Hj0 & Hmv).
    assert (Hj0l : (j0 < length (combine l b))%nat) by (apply nth_error_Some; rewrite Hj0; discriminate).
    rewrite as_u32_small in Hi0 by lia.
    assert (j0 = j) by lia. subst j0. exists j, b0. subst mv.
    repeat split; try assumption.
    + intros j' w b' Hw. apply Hkey in Hw. apply (Hmin j'). exact Hw.
    + intros j' w b' Hj' Hw. apply Hkey in Hw. apply (Hfirst j'); assumption.
  - intros j w b' Hw. apply Hkey in Hw. apply (Hs j). exact Hw.
Qed.
