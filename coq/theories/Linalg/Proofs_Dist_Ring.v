(* C35: lane-wise accumulation = the scalar definition, in any commutative ring. *)
From LanceV Require Import Common.Base Linalg.Model_Dist Linalg.Proofs_Dist_Slices.
From Coq Require Import Ring.
Local Open Scope Z_scope.

Section RingFacts.
  Variable R : Type.
  Variables (r0 r1 : R) (radd rmul rsub : R -> R -> R) (ropp : R -> R).
  Hypothesis Rth : ring_theory r0 r1 radd rmul rsub ropp (@eq R).
  Add Ring Rring : Rth.

  Definition ssum (l : list R) : R := sum_spec r0 radd l.

  Lemma ssum_nil : ssum [] = r0.
  Proof. reflexivity. Qed.
  Lemma ssum_cons (x : R) (l : list R) : ssum (x :: l) = radd x (ssum l).
  Proof. reflexivity. Qed.

  Lemma fold_left_radd : forall l a, fold_left radd l a = radd a (ssum l).
  Proof.
    induction l as [|x l IH]; intro a; cbn [fold_left].
    - rewrite ssum_nil. ring.
    - rewrite IH, ssum_cons. ring.
  Qed.

  Lemma rsum_spec : forall l, rsum r0 radd l = ssum l.
  Proof. intro l. unfold rsum. rewrite fold_left_radd. ring. Qed.

  Lemma ssum_app : forall l1 l2, ssum (l1 ++ l2) = radd (ssum l1) (ssum l2).
  Proof.
    induction l1 as [|x l1 IH]; intro l2; cbn [app].
    - rewrite ssum_nil. ring.
    - rewrite !ssum_cons, IH. ring.
  Qed.

  Lemma ssum_repeat0 : forall n, ssum (repeat r0 n) = r0.
  Proof.
    induction n as [|n IH]; cbn [repeat]; [reflexivity|]. rewrite ssum_cons, IH. ring.
  Qed.

  Section TwoArg.
    Variable f : R -> R -> R.
    Definition pf (p : R * R) : R := f (fst p) (snd p).

    Lemma lane_acc_length : forall sums xs ys, length (lane_acc radd f sums xs ys) = length sums.
    Proof.
      induction sums as [|s sums IH]; intros xs ys; [reflexivity|].
      destruct xs as [|x xs]; [reflexivity|]. destruct ys as [|y ys]; [reflexivity|].
      cbn [lane_acc length]. rewrite IH. reflexivity.
    Qed.

    Lemma lane_acc_sum : forall sums xs ys, length xs = length sums -> length ys = length sums ->
      ssum (lane_acc radd f sums xs ys) = radd (ssum sums) (ssum (map pf (combine xs ys))).
    Proof.
      induction sums as [|s sums IH]; intros xs ys Hx Hy.
      - destruct xs; [|discriminate]. cbn [lane_acc combine map]. rewrite ssum_nil. ring.
      - destruct xs as [|x xs]; [discriminate|]. destruct ys as [|y ys]; [discriminate|].
        cbn [lane_acc combine map]. rewrite !ssum_cons.
        rewrite IH by (cbn in Hx, Hy; lia). unfold pf at 2. cbn [fst snd]. ring.
    Qed.

    Lemma lanes_fold (n : nat) : forall (cx cy : list (list R)) (sums : list R),
      length sums = n -> Forall (fun c => length c = n) cx -> Forall (fun c => length c = n) cy ->
      length cx = length cy ->
      ssum (fold_left (fun s c => lane_acc radd f s (fst c) (snd c)) (combine cx cy) sums)
      = radd (ssum sums) (ssum (map pf (combine (concat cx) (concat cy)))).
    Proof.
      induction cx as [|a cx IH]; intros cy sums Hs Fx Fy Hl.
      - destruct cy; [|discriminate]. cbn [combine fold_left concat map]. rewrite ssum_nil. ring.
      - destruct cy as [|b cy]; [discriminate|].
        pose proof (Forall_inv Fx) as Ha. pose proof (Forall_inv_tail Fx) as Fx'.
        pose proof (Forall_inv Fy) as Hb. pose proof (Forall_inv_tail Fy) as Fy'. cbn beta in Ha, Hb.
        cbn [combine fold_left fst snd concat].
        rewrite IH; [| rewrite lane_acc_length; exact Hs | exact Fx' | exact Fy' | cbn in Hl; lia].
        rewrite lane_acc_sum by lia.
        rewrite combine_app_eq by lia. rewrite map_app, ssum_app. ring.
    Qed.

    Theorem lanes2_eq (n : nat) (xs ys : list R) : (0 < n)%nat -> length xs = length ys ->
      lanes2 r0 radd f n xs ys = ssum (map pf (combine xs ys)).
    Proof.
      intros Hn Hlen. unfold lanes2.
      pose proof (chunks_exact_spec n xs Hn) as Hx. pose proof (chunks_exact_spec n ys Hn) as Hy.
      pose proof (chunks_exact_parallel n Hn xs ys Hlen) as [Hc Hr].
      destruct (chunks_exact n xs) as [xc xr]. destruct (chunks_exact n ys) as [yc yr].
      cbn [fst snd] in Hc, Hr. destruct Hx as (Ex & Fx & _). destruct Hy as (Ey & Fy & _).
      assert (Hs : match xr with
                   | [] => r0
                   | _ :: _ => rsum r0 radd (map (fun p : R * R => f (fst p) (snd p)) (combine xr yr))
                   end = ssum (map pf (combine xr yr))).
      { destruct xr; [destruct yr; [reflexivity | discriminate] | apply rsum_spec]. }
      rewrite Hs, rsum_spec.
      change (fun (sums : list R) (c : list R * list R) => lane_acc radd f sums (fst c) (snd c))
        with (fun (s : list R) (c : list R * list R) => lane_acc radd f s (fst c) (snd c)).
      rewrite (lanes_fold n) by (try apply repeat_length; assumption).
      rewrite ssum_repeat0. subst xs ys.
      rewrite combine_app_eq
        by (rewrite (concat_length_uniform n xc Fx), (concat_length_uniform n yc Fy); lia).
      rewrite map_app, ssum_app. ring.
    Qed.
  End TwoArg.

  Section OneArg.
    Variable g : R -> R.

    Lemma lane_acc1_length : forall sums xs, length (lane_acc1 radd g sums xs) = length sums.
    Proof.
      induction sums as [|s sums IH]; intros xs; [reflexivity|].
      destruct xs as [|x xs]; [reflexivity|]. cbn [lane_acc1 length]. rewrite IH. reflexivity.
    Qed.

    Lemma lane_acc1_sum : forall sums xs, length xs = length sums ->
      ssum (lane_acc1 radd g sums xs) = radd (ssum sums) (ssum (map g xs)).
    Proof.
      induction sums as [|s sums IH]; intros xs Hx.
      - destruct xs; [|discriminate]. cbn [lane_acc1 map]. rewrite ssum_nil. ring.
      - destruct xs as [|x xs]; [discriminate|].
        cbn [lane_acc1 map]. rewrite !ssum_cons. rewrite IH by (cbn in Hx; lia). ring.
    Qed.

    Lemma lanes1_fold (n : nat) : forall (cx : list (list R)) (sums : list R),
      length sums = n -> Forall (fun c => length c = n) cx ->
      ssum (fold_left (fun s c => lane_acc1 radd g s c) cx sums)
      = radd (ssum sums) (ssum (map g (concat cx))).
    Proof.
      induction cx as [|a cx IH]; intros sums Hs Fx.
      - cbn [fold_left concat map]. rewrite ssum_nil. ring.
      - pose proof (Forall_inv Fx) as Ha. pose proof (Forall_inv_tail Fx) as Fx'. cbn beta in Ha.
        cbn [fold_left concat].
        rewrite IH; [| rewrite lane_acc1_length; exact Hs | exact Fx'].
        rewrite lane_acc1_sum by lia. rewrite map_app, ssum_app. ring.
    Qed.

    Theorem lanes1_eq (n : nat) (xs : list R) : (0 < n)%nat ->
      lanes1 r0 radd g n xs = ssum (map g xs).
    Proof.
      intros Hn. unfold lanes1.
      pose proof (chunks_exact_spec n xs Hn) as Hx.
      destruct (chunks_exact n xs) as [xc xr]. destruct Hx as (Ex & Fx & _).
      assert (Hs : match xr with [] => r0 | _ :: _ => rsum r0 radd (map g xr) end = ssum (map g xr)).
      { destruct xr; [reflexivity | apply rsum_spec]. }
      rewrite Hs, rsum_spec.
      change (fun (sums : list R) (c : list R) => lane_acc1 radd g sums c)
        with (fun (s : list R) (c : list R) => lane_acc1 radd g s c).
      rewrite (lanes1_fold n) by (try apply repeat_length; assumption).
      rewrite ssum_repeat0. subst xs. rewrite map_app, ssum_app. ring.
    Qed.
  End OneArg.

  (* ---- C35, generic statements ---- *)
  Theorem l2_scalar_eq (LANES : nat) (x y : list R) : (0 < LANES)%nat -> length x = length y ->
    l2_scalar r0 radd rsub rmul LANES x y = l2_spec r0 radd rsub rmul x y.
  Proof. intros. unfold l2_scalar, l2_spec. rewrite lanes2_eq by assumption. reflexivity. Qed.

  Lemma combine_swap_sum (h : R -> R -> R) : forall (x y : list R),
    ssum (map (pf h) (combine x y)) = ssum (map (pf (fun a b => h b a)) (combine y x)).
  Proof.
    induction x as [|a x IH]; intros [|b y]; try reflexivity.
    cbn [combine map]. rewrite !ssum_cons. rewrite IH. reflexivity.
  Qed.

  Lemma ssum_map_ext {A} (h1 h2 : A -> R) : forall l, (forall a, h1 a = h2 a) -> ssum (map h1 l) = ssum (map h2 l).
  Proof. intros l H. f_equal. apply map_ext. exact H. Qed.

  Theorem dot_scalar_eq (LANES : nat) (x y : list R) : (0 < LANES)%nat -> length x = length y ->
    dot_scalar r0 radd rmul LANES x y = dot_spec r0 radd rmul x y.
  Proof.
    intros Hn Hl. unfold dot_scalar, dot_spec. rewrite lanes2_eq by (try assumption; lia).
    rewrite combine_swap_sum. apply ssum_map_ext. intros [a b]. unfold pf. cbn [fst snd]. ring.
  Qed.

  Theorem norm_sq_impl_eq (LANES : nat) (x : list R) : (0 < LANES)%nat ->
    norm_sq_impl r0 radd rmul LANES x = normsq_spec r0 radd rmul x.
  Proof. intros. unfold norm_sq_impl, normsq_spec. rewrite lanes1_eq by assumption. reflexivity. Qed.

  (* fused multiply-add lanes (the explicit-SIMD f32 cosine kernel) *)
  Lemma lane_fma_length : forall sums xs ys, length (lane_fma radd rmul sums xs ys) = length sums.
  Proof.
    induction sums as [|s sums IH]; intros xs ys; [reflexivity|].
    destruct xs as [|x xs]; [reflexivity|]. destruct ys as [|y ys]; [reflexivity|].
    cbn [lane_fma length]. rewrite IH. reflexivity.
  Qed.

  Lemma lane_fma_sum : forall sums xs ys, length xs = length sums -> length ys = length sums ->
    ssum (lane_fma radd rmul sums xs ys) = radd (ssum sums) (ssum (map (pf rmul) (combine xs ys))).
  Proof.
    induction sums as [|s sums IH]; intros xs ys Hx Hy.
    - destruct xs; [|discriminate]. cbn [lane_fma combine map]. rewrite ssum_nil. ring.
    - destruct xs as [|x xs]; [discriminate|]. destruct ys as [|y ys]; [discriminate|].
      cbn [lane_fma combine map]. rewrite !ssum_cons.
      rewrite IH by (cbn in Hx, Hy; lia). unfold pf at 2. cbn [fst snd]. ring.
  Qed.

  Lemma fma_fold (n : nat) : forall (cx cy : list (list R)) (sums : list R),
    length sums = n -> Forall (fun c => length c = n) cx -> Forall (fun c => length c = n) cy ->
    length cx = length cy ->
    ssum (fold_left (fun s c => lane_fma radd rmul s (fst c) (snd c)) (combine cx cy) sums)
    = radd (ssum sums) (ssum (map (pf rmul) (combine (concat cx) (concat cy)))).
  Proof.
    induction cx as [|a cx IH]; intros cy sums Hs Fx Fy Hl.
    - destruct cy; [|discriminate]. cbn [combine fold_left concat map]. rewrite ssum_nil. ring.
    - destruct cy as [|b cy]; [discriminate|].
      pose proof (Forall_inv Fx) as Ha. pose proof (Forall_inv_tail Fx) as Fx'.
      pose proof (Forall_inv Fy) as Hb. pose proof (Forall_inv_tail Fy) as Fy'. cbn beta in Ha, Hb.
      cbn [combine fold_left fst snd concat].
      rewrite IH; [| rewrite lane_fma_length; exact Hs | exact Fx' | exact Fy' | cbn in Hl; lia].
      rewrite lane_fma_sum by lia.
      rewrite combine_app_eq by lia. rewrite map_app, ssum_app. ring.
  Qed.

  (* the W-lane fma loop over two equally long slices whose length is a multiple of W *)
  Lemma fma_chunks_eq (W : nat) (xs ys : list R) : (0 < W)%nat -> length xs = length ys ->
    snd (chunks_exact W xs) = [] ->
    rsum r0 radd (fold_left (fun s c => lane_fma radd rmul s (fst c) (snd c))
                            (combine (fst (chunks_exact W xs)) (fst (chunks_exact W ys))) (repeat r0 W))
    = dot_spec r0 radd rmul xs ys.
  Proof.
    intros HW Hlen Hrem.
    pose proof (chunks_exact_spec W xs HW) as Hx. pose proof (chunks_exact_spec W ys HW) as Hy.
    pose proof (chunks_exact_parallel W HW xs ys Hlen) as [Hc Hr].
    destruct (chunks_exact W xs) as [xc xr]. destruct (chunks_exact W ys) as [yc yr].
    cbn [fst snd] in *. subst xr. destruct yr; [|discriminate].
    destruct Hx as (Ex & Fx & _). destruct Hy as (Ey & Fy & _).
    rewrite rsum_spec, (fma_fold W) by (try apply repeat_length; assumption).
    rewrite ssum_repeat0. subst xs ys. rewrite !app_nil_r.
    transitivity (ssum (map (pf rmul) (combine (concat xc) (concat yc)))); [ring | reflexivity].
  Qed.
End RingFacts.
