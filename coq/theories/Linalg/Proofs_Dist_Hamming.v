(* C35: hamming = number of differing bits. *)
From LanceV Require Import Common.Base Linalg.Model_Dist Linalg.Proofs_Dist_Slices Linalg.Proofs_Dist_Ring
  Linalg.Proofs_Dist_Kernels.
Local Open Scope Z_scope.

Definition zs (l : list Z) : Z := sum_spec 0 Z.add l.

Lemma zs_cons (x : Z) (l : list Z) : zs (x :: l) = x + zs l.
Proof. reflexivity. Qed.
Lemma zs_nil : zs [] = 0.
Proof. reflexivity. Qed.

Lemma zs_app (a b : list Z) : zs (a ++ b) = zs a + zs b.
Proof.
  induction a as [|x a IH]; cbn [app].
  - rewrite zs_nil. lia.
  - rewrite !zs_cons, IH. lia.
Qed.

(* the per-chunk sums add up to the sum over the concatenation *)
Lemma chunk_sums (g : Z * Z -> Z) (n : nat) : forall (xc yc : list (list Z)),
  Forall (fun c => length c = n) xc -> Forall (fun c => length c = n) yc -> length xc = length yc ->
  zs (map (fun c : list Z * list Z => zsum (map g (combine (fst c) (snd c)))) (combine xc yc))
  = zs (map g (combine (concat xc) (concat yc))).
Proof.
  induction xc as [|a xc IH]; intros yc Fx Fy Hl.
  - destruct yc; [reflexivity | discriminate].
  - destruct yc as [|b yc]; [discriminate|].
    pose proof (Forall_inv Fx) as Ha. pose proof (Forall_inv_tail Fx) as Fx'.
    pose proof (Forall_inv Fy) as Hb. pose proof (Forall_inv_tail Fy) as Fy'. cbn beta in Ha, Hb.
    cbn [combine map concat fst snd]. rewrite zs_cons.
    rewrite IH by (try assumption; cbn in Hl; lia).
    rewrite combine_app_eq by lia. rewrite map_app, zs_app. rewrite zsum_spec. reflexivity.
Qed.

Definition hamming_spec (x y : list Z) : Z := zs (map xor_pop (combine x y)).

Theorem hamming_autovec_correct (L : nat) (x y : list Z) : (0 < L)%nat -> length x = length y ->
  hamming_autovec L x y =
  if hamming_spec x y <? 2 ^ 32 then Ok (xint (round_f32 (hamming_spec x y))) else Panic.
Proof.
  intros HL Hlen. unfold hamming_autovec.
  pose proof (chunks_exact_spec L x HL) as Hx. pose proof (chunks_exact_spec L y HL) as Hy.
  pose proof (chunks_exact_parallel L HL x y Hlen) as [Hc Hr].
  destruct (chunks_exact L x) as [xc xr]. destruct (chunks_exact L y) as [yc yr].
  cbn [fst snd] in Hc, Hr. destruct Hx as (Ex & Fx & _). destruct Hy as (Ey & Fy & _).
  assert (E : zsum (map xor_pop (combine xr yr))
              + zsum (map (fun c : list Z * list Z => zsum (map xor_pop (combine (fst c) (snd c)))) (combine xc yc))
              = hamming_spec x y).
  { rewrite !zsum_spec. fold (zs (map xor_pop (combine xr yr))).
    fold (zs (map (fun c : list Z * list Z => zsum (map xor_pop (combine (fst c) (snd c)))) (combine xc yc))).
    rewrite (chunk_sums xor_pop L) by assumption.
    unfold hamming_spec. subst x y.
    rewrite combine_app_eq
      by (rewrite (concat_length_uniform L xc Fx), (concat_length_uniform L yc Fy); lia).
    rewrite map_app, zs_app. lia. }
  rewrite E. unfold two32z. reflexivity.
Qed.

Theorem hamming_correct (x y : list Z) : length x = length y ->
  hamming x y = if hamming_spec x y <? 2 ^ 32 then Ok (xint (round_f32 (hamming_spec x y))) else Panic.
Proof. intro H. unfold hamming. apply hamming_autovec_correct; [lia | exact H]. Qed.

Theorem hamming_scalar_correct (x y : list Z) :
  hamming_scalar x y = if hamming_spec x y <? 2 ^ 32 then Ok (xint (round_f32 (hamming_spec x y))) else Panic.
Proof.
  unfold hamming_scalar, sum_u32. rewrite zsum_spec. fold (zs (map xor_pop (combine x y))).
  fold (hamming_spec x y). unfold two32z. destruct (hamming_spec x y <? 2 ^ 32); reflexivity.
Qed.

(* popcount(a xor b) counts the bit positions where two bytes differ *)
Definition bitdiff8 (a b : Z) : Z :=
  zs (map (fun i => if xorb (Z.testbit a i) (Z.testbit b i) then 1 else 0) [0; 1; 2; 3; 4; 5; 6; 7]).

Definition all_bytes : list Z := map Z.of_nat (seq 0 256).

Lemma in_all_bytes (a : Z) : 0 <= a < 256 -> In a all_bytes.
Proof.
  intro H. unfold all_bytes. apply in_map_iff. exists (Z.to_nat a). split; [lia|].
  apply in_seq. lia.
Qed.

Lemma xor_pop_bytes_check :
  forallb (fun a => forallb (fun b => xor_pop (a, b) =? bitdiff8 a b) all_bytes) all_bytes = true.
Proof. vm_compute. reflexivity. Qed.

Lemma xor_pop_bitdiff (a b : Z) : 0 <= a < 256 -> 0 <= b < 256 -> xor_pop (a, b) = bitdiff8 a b.
Proof.
  intros Ha Hb. pose proof xor_pop_bytes_check as H.
  rewrite forallb_forall in H. specialize (H a (in_all_bytes a Ha)).
  rewrite forallb_forall in H. specialize (H b (in_all_bytes b Hb)).
  apply Z.eqb_eq. exact H.
Qed.

(* hamming_spec over byte vectors = total number of differing bits *)
Theorem hamming_spec_bits (x y : list Z) :
  Forall (fun a => 0 <= a < 256) x -> Forall (fun a => 0 <= a < 256) y ->
  hamming_spec x y = zs (map (fun p => bitdiff8 (fst p) (snd p)) (combine x y)).
Proof.
  intros Fx Fy. unfold hamming_spec. f_equal. apply map_ext_in. intros [a b] Hin.
  cbn [fst snd]. apply xor_pop_bitdiff.
  - rewrite Forall_forall in Fx. apply Fx. apply in_combine_l in Hin. exact Hin.
  - rewrite Forall_forall in Fy. apply Fy. apply in_combine_r in Hin. exact Hin.
Qed.
