(* C40 - lemmas and proofs about File/Model_ArrowHelpers.v *)
From LanceV Require Import Common.Base File.Model_ArrowHelpers.
Local Open Scope nat_scope.

(* ------------------------------------------------------------------ induction principles for the nested types *)
Section ParrInd.
  Variable P : parr -> Prop.
  Hypothesis Hleaf : forall k a v n, P (PLeaf k a v n).
  Hypothesis Hstruct : forall len fs nl, Forall (fun f => P (snd f)) fs -> P (PStruct len fs nl).
  Hypothesis Hlist : forall lg offs v nl, P v -> P (PList lg offs v nl).
  Hypothesis Hfsl : forall sz len v nl, P v -> P (PFsl sz len v nl).
  Fixpoint parr_ind' (p : parr) : P p :=
    match p with
    | PLeaf k a v n => Hleaf k a v n
    | PStruct len fs nl =>
        Hstruct len fs nl
          ((fix go (fs : list field) : Forall (fun f => P (snd f)) fs :=
              match fs with
              | [] => Forall_nil _
              | f :: fs' => Forall_cons f (parr_ind' (snd f)) (go fs')
              end) fs)
    | PList lg offs v nl => Hlist lg offs v nl (parr_ind' v)
    | PFsl sz len v nl => Hfsl sz len v nl (parr_ind' v)
    end.
End ParrInd.

Section DtypeInd.
  Variable P : dtype -> Prop.
  Hypothesis Hleaf : forall k, P (DLeaf k).
  Hypothesis Hstruct : forall fs, Forall (fun f => P (snd f)) fs -> P (DStruct fs).
  Hypothesis Hlist : forall lg t, P t -> P (DList lg t).
  Hypothesis Hfsl : forall sz t, P t -> P (DFsl sz t).
  Fixpoint dtype_ind' (t : dtype) : P t :=
    match t with
    | DLeaf k => Hleaf k
    | DStruct fs =>
        Hstruct fs
          ((fix go (fs : list dfield) : Forall (fun f => P (snd f)) fs :=
              match fs with
              | [] => Forall_nil _
              | f :: fs' => Forall_cons f (dtype_ind' (snd f)) (go fs')
              end) fs)
    | DList lg t => Hlist lg t (dtype_ind' t)
    | DFsl sz t => Hfsl sz t (dtype_ind' t)
    end.
End DtypeInd.

(* ------------------------------------------------------------------ lists *)
Lemma sub_map {A B} (f : A -> B) o n l : sub o n (map f l) = map f (sub o n l).
Proof. unfold sub. rewrite skipn_map, firstn_map. reflexivity. Qed.

Lemma skipn_seq : forall k s n, skipn k (seq s n) = seq (s + k) (n - k).
Proof.
  induction k as [|k IH]; intros s n.
  - cbn [skipn]. f_equal; lia.
  - destruct n as [|n]; cbn [seq skipn]; [reflexivity|].
    rewrite IH. f_equal; lia.
Qed.

Lemma firstn_seq : forall k s n, firstn k (seq s n) = seq s (Nat.min k n).
Proof.
  induction k as [|k IH]; intros s n; [reflexivity|].
  destruct n as [|n]; cbn [seq firstn Nat.min]; [reflexivity|].
  rewrite IH. reflexivity.
Qed.

Lemma sub_seq o n s m : o + n <= m -> sub o n (seq s m) = seq (s + o) n.
Proof.
  intro H. unfold sub. rewrite skipn_seq, firstn_seq. f_equal. lia.
Qed.

Lemma nth_skipn' {A} (d : A) : forall o l i, nth i (skipn o l) d = nth (o + i) l d.
Proof.
  induction o as [|o IH]; intros l i; [reflexivity|].
  destruct l as [|x l]; cbn [skipn Nat.add nth].
  - destruct i; reflexivity.
  - apply IH.
Qed.

Lemma nth_firstn' {A} (d : A) : forall n l i, i < n -> nth i (firstn n l) d = nth i l d.
Proof.
  induction n as [|n IH]; intros l i Hi; [lia|].
  destruct l as [|x l]; cbn [firstn]; [reflexivity|].
  destruct i as [|i]; cbn [nth]; [reflexivity|]. apply IH. lia.
Qed.

Lemma nth_sub {A} (d : A) : forall o n l i, i < n -> nth i (sub o n l) d = nth (o + i) l d.
Proof.
  intros o n l i Hi. unfold sub. rewrite nth_firstn' by exact Hi. apply nth_skipn'.
Qed.

Lemma sub_length {A} o n (l : list A) : o + n <= length l -> length (sub o n l) = n.
Proof. intro H. unfold sub. rewrite firstn_length, skipn_length. lia. Qed.

Lemma skipn_skipn' {A} : forall a b (l : list A), skipn a (skipn b l) = skipn (b + a) l.
Proof.
  intros a b. revert a. induction b as [|b IH]; intros a l; [reflexivity|].
  destruct l as [|x l]; cbn [skipn Nat.add]; [destruct a; reflexivity|]. apply IH.
Qed.

Lemma sub_sub {A} o n o' n' (l : list A) :
  o' + n' <= n -> sub o' n' (sub o n l) = sub (o + o') n' l.
Proof.
  intro H. unfold sub.
  rewrite skipn_firstn_comm. rewrite firstn_firstn. rewrite skipn_skipn'.
  f_equal; lia.
Qed.

Lemma map2_length {A B C} (f : A -> B -> C) : forall la lb, length (map2 f la lb) = Nat.min (length la) (length lb).
Proof. induction la as [|a la IH]; intros [|b lb]; cbn [map2 length Nat.min]; auto. Qed.

Lemma map2_map_seq {A B C} (f : A -> B -> C) (g : nat -> A) : forall (lb : list B) s d,
  map2 f (map g (seq s (length lb))) lb = map (fun i => f (g i) (nth (i - s) lb d)) (seq s (length lb)).
Proof.
  induction lb as [|b lb IH]; intros s d; [reflexivity|].
  cbn [length seq map map2]. f_equal.
  - rewrite Nat.sub_diag. reflexivity.
  - rewrite (IH (S s) d). apply map_ext_in. intros i Hi. apply in_seq in Hi.
    replace (i - s) with (S (i - S s)) by lia. reflexivity.
Qed.

(* ------------------------------------------------------------------ validity *)
Lemma valid_nslice nl o i : valid (nslice o nl) i = valid nl (o + i).
Proof.
  destruct nl as [[bits off]|]; [|reflexivity].
  unfold nslice, valid, bit. cbn [fst snd]. f_equal. lia.
Qed.

Lemma validity_length nl n : length (validity nl n) = n.
Proof. unfold validity. rewrite map_length, seq_length. reflexivity. Qed.

Lemma nth_validity nl n i : i < n -> nth i (validity nl n) true = valid nl i.
Proof.
  intro H. unfold validity.
  rewrite (nth_indep _ true (valid nl 0)) by (rewrite map_length, seq_length; lia).
  rewrite map_nth. rewrite seq_nth by lia. reflexivity.
Qed.

(* logical of a leaf, index form *)
Lemma logical_leaf k a vals nl :
  logical (PLeaf k a vals nl) =
  map (fun i => if valid nl i then VLeaf (nth i vals (default_leaf k)) else VNull) (seq 0 (length vals)).
Proof.
  cbn [logical]. unfold validity.
  rewrite (map2_map_seq _ _ vals 0 (default_leaf k)).
  apply map_ext. intro i. rewrite Nat.sub_0_r. reflexivity.
Qed.

(* ------------------------------------------------------------------ wf as propositions *)
Lemma wfb_struct len fs nl :
  wfb (PStruct len fs nl) = true <-> Forall (fun f => plen (snd f) = len /\ wfb (snd f) = true) fs.
Proof.
  cbn [wfb]. rewrite forallb_forall, Forall_forall. split; intros H f Hf; specialize (H f Hf).
  - apply andb_true_iff in H as [H1 H2]. apply Nat.eqb_eq in H1. auto.
  - destruct H as [H1 H2]. rewrite H2, H1, Nat.eqb_refl. reflexivity.
Qed.

Lemma wfb_list lg offs v nl :
  wfb (PList lg offs v nl) = true ->
  1 <= length offs /\
  (forall i, i < length offs - 1 -> (0 <= nth i offs 0 /\ nth i offs 0 <= nth (S i) offs 0)%Z) /\
  off_at offs (length offs - 1) <= plen v /\ wfb v = true.
Proof.
  cbn [wfb]. intro W. repeat (apply andb_true_iff in W as [W ?]).
  apply Nat.leb_le in W. repeat split; auto.
  - rewrite forallb_forall in H1. specialize (H1 i). rewrite in_seq in H1.
    assert (Hi : 0 <= i < 0 + (length offs - 1)) by lia. apply H1 in Hi.
    apply andb_true_iff in Hi as [Ha Hb]. apply Z.leb_le in Ha. exact Ha.
  - rewrite forallb_forall in H1. specialize (H1 i). rewrite in_seq in H1.
    assert (Hi : 0 <= i < 0 + (length offs - 1)) by lia. apply H1 in Hi.
    apply andb_true_iff in Hi as [Ha Hb]. apply Z.leb_le in Hb. exact Hb.
  - apply Nat.leb_le. assumption.
Qed.

Lemma logical_length : forall p, wfb p = true -> length (logical p) = plen p.
Proof.
  induction p as [k a vals nl | len fs nl IH | lg offs v nl IH | sz len v nl IH] using parr_ind'; intro W.
  - rewrite logical_leaf, map_length, seq_length. reflexivity.
  - cbn [logical plen]. rewrite map_length, seq_length. reflexivity.
  - cbn [logical plen]. rewrite map_length, seq_length. reflexivity.
  - cbn [logical plen]. rewrite map_length, seq_length. reflexivity.
Qed.

(* ------------------------------------------------------------------ the bridging lemma: slicing *)
Lemma pslice_plen : forall p o n, wfb p = true -> o + n <= plen p -> plen (pslice o n p) = n.
Proof.
  intros [k a vals nl | len fs nl | lg offs v nl | sz len v nl] o n W H; cbn [pslice plen] in *.
  - apply sub_length. exact H.
  - reflexivity.
  - apply wfb_list in W as (W1 & _). rewrite sub_length by lia. lia.
  - reflexivity.
Qed.

Lemma map_seq_shift {A} (f : nat -> A) o n : map f (seq o n) = map (fun i => f (o + i)) (seq 0 n).
Proof.
  rewrite <- (Nat.add_0_r o) at 1. rewrite <- (Nat.add_comm 0 o).
  replace (0 + o) with (o + 0) by lia.
  revert o. generalize 0 as s. induction n as [|n IH]; intros s o; [reflexivity|].
  cbn [seq map]. f_equal. replace (S (o + s)) with (o + S s) by lia. apply IH.
Qed.

Theorem pslice_logical : forall p o n,
  wfb p = true -> o + n <= plen p ->
  logical (pslice o n p) = sub o n (logical p).
Proof.
  induction p as [k a vals nl | len fs nl IH | lg offs v nl IH | sz len v nl IH] using parr_ind';
    intros o n W H.
  - (* leaf *)
    cbn [pslice plen] in *. rewrite !logical_leaf.
    rewrite sub_map, sub_seq by lia. rewrite sub_length by lia.
    cbn [Nat.add]. rewrite (map_seq_shift _ o n).
    apply map_ext_in. intros i Hi. apply in_seq in Hi.
    rewrite valid_nslice. rewrite nth_sub by lia. reflexivity.
  - (* struct *)
    cbn [pslice plen] in *. cbn [logical].
    rewrite sub_map, sub_seq by lia. cbn [Nat.add]. rewrite (map_seq_shift _ o n).
    apply map_ext_in. intros i Hi. apply in_seq in Hi.
    rewrite valid_nslice. destruct (valid nl (o + i)); [|reflexivity]. f_equal.
    rewrite !map_map. apply wfb_struct in W.
    apply map_ext_in. intros f Hf. cbn [fst snd]. f_equal.
    rewrite Forall_forall in IH, W. destruct (W f Hf) as [Wl Ww].
    rewrite (IH f Hf o n Ww) by lia. apply nth_sub. lia.
  - (* list *)
    cbn [pslice plen] in *. cbn [logical]. apply wfb_list in W as (W1 & _).
    rewrite sub_map, sub_seq by lia. rewrite sub_length by lia.
    cbn [Nat.add]. replace (S n - 1) with n by lia. rewrite (map_seq_shift _ o n).
    apply map_ext_in. intros i Hi. apply in_seq in Hi.
    rewrite valid_nslice. destruct (valid nl (o + i)); [|reflexivity].
    unfold off_at. rewrite !nth_sub by lia. replace (o + S i) with (S (o + i)) by lia. reflexivity.
  - (* fixed size list *)
    cbn [pslice plen] in *. cbn [logical].
    cbn [wfb] in W. apply andb_true_iff in W as [W1 W2]. apply Nat.eqb_eq in W1.
    rewrite sub_map, sub_seq by lia. cbn [Nat.add]. rewrite (map_seq_shift _ o n).
    apply map_ext_in. intros i Hi. apply in_seq in Hi.
    rewrite valid_nslice. destruct (valid nl (o + i)); [|reflexivity]. f_equal.
    rewrite IH by (try assumption; nia).
    rewrite sub_sub by nia. f_equal. nia.
Qed.

(* ================================================================== part 1 *)

Lemma map_nth_seq {A B} (g : A -> B) (l : list A) (d : A) :
  map g l = map (fun j => g (nth j l d)) (seq 0 (length l)).
Proof.
  induction l as [|x l IH]; [reflexivity|].
  cbn [length seq map nth]. f_equal. rewrite IH. rewrite <- seq_shift, map_map. reflexivity.
Qed.

Lemma pad8_nth l j : j < length l -> nth j (pad8 l) false = nth j l false.
Proof. intro H. unfold pad8. apply app_nth1. exact H. Qed.

Lemma pad8_nth_any l j : nth j (pad8 l) false = nth j l false.
Proof.
  unfold pad8. destruct (Nat.lt_ge_cases j (length l)) as [H|H].
  - apply app_nth1. exact H.
  - rewrite app_nth2 by exact H. rewrite (nth_overflow l) by exact H.
    destruct (Nat.lt_ge_cases (j - length l) (length (repeat false ((8 - length l mod 8) mod 8)))) as [H2|H2].
    + apply nth_repeat.
    + apply nth_overflow. exact H2.
Qed.

Lemma valid_fresh l j : valid (Some (fresh l)) j = nth j l false.
Proof. unfold valid, bit, fresh. cbn [fst snd]. apply pad8_nth_any. Qed.

Definition take_rows (idx : list (option nat)) (rows : list lval) : list lval :=
  map (fun oi => match oi with Some i => nth i rows VNull | None => VNull end) idx.

Lemma take_rows_length idx rows : length (take_rows idx rows) = length idx.
Proof. apply map_length. Qed.

Lemma nth_take_rows idx rows j : j < length idx ->
  nth j (take_rows idx rows) VNull = match nth j idx None with Some i => nth i rows VNull | None => VNull end.
Proof.
  intro H. unfold take_rows.
  set (f := fun oi : option nat => match oi with Some i => nth i rows VNull | None => VNull end).
  change (nth j (map f idx) VNull) with (nth j (map f idx) (f None)).
  rewrite map_nth. reflexivity.
Qed.

Lemma valid_take_bits nl idx j : j < length idx ->
  valid (take_bits nl idx) j = match nth j idx None with Some i => valid nl i | None => false end.
Proof.
  intro H. unfold take_bits. rewrite valid_fresh.
  set (f := fun oi : option nat => match oi with Some i => valid nl i | None => false end).
  change (nth j (map f idx) false) with (nth j (map f idx) (f None)).
  rewrite map_nth. reflexivity.
Qed.

(* sums and concat *)
Fixpoint sum (l : list nat) : nat := match l with [] => 0 | x :: l' => x + sum l' end.

Lemma sub_concat {A} : forall (ls : list (list A)) j, j < length ls ->
  sub (sum (map (@length A) (firstn j ls))) (length (nth j ls [])) (concat ls) = nth j ls [].
Proof.
  induction ls as [|x ls IH]; intros j Hj; [cbn in Hj; lia|].
  destruct j as [|j].
  - cbn [firstn map sum nth concat]. unfold sub. cbn [skipn].
    rewrite firstn_app. rewrite Nat.sub_diag. cbn [firstn]. rewrite firstn_all, app_nil_r. reflexivity.
  - cbn [firstn map sum nth concat]. cbn [length] in Hj.
    unfold sub. rewrite skipn_app.
    rewrite (skipn_all2 x) by lia. cbn [app].
    replace (length x + sum (map (@length A) (firstn j ls)) - length x) with (sum (map (@length A) (firstn j ls))) by lia.
    apply IH. lia.
Qed.

Lemma running_nth : forall lens acc j, j <= length lens ->
  nth j (running acc lens) 0%Z = (acc + Z.of_nat (sum (firstn j lens)))%Z.
Proof.
  induction lens as [|l lens IH]; intros acc j Hj.
  - cbn [length] in Hj. assert (j = 0) by lia. subst. cbn. lia.
  - destruct j as [|j]; cbn [running nth firstn sum]; [lia|].
    cbn [length] in Hj. rewrite IH by lia. lia.
Qed.

Lemma running_length : forall lens acc, length (running acc lens) = S (length lens).
Proof. induction lens as [|l lens IH]; intros acc; cbn [running length]; [reflexivity|]. rewrite IH. reflexivity. Qed.

Lemma map_nth_sub {A} (d : A) (l : list A) o n : o + n <= length l ->
  map (fun i => nth i l d) (seq o n) = sub o n l.
Proof.
  intro H. apply (nth_ext _ _ d d).
  - rewrite map_length, seq_length, sub_length by exact H. reflexivity.
  - intros j Hj. rewrite map_length, seq_length in Hj.
    rewrite nth_sub by exact Hj.
    set (f := fun i => nth i l d).
    rewrite (nth_indep _ d (f 0)) by (rewrite map_length, seq_length; exact Hj).
    rewrite map_nth. rewrite seq_nth by exact Hj. reflexivity.
Qed.

Lemma off_at_mono lg offs v nl : wfb (PList lg offs v nl) = true ->
  forall i j, i <= j -> j <= length offs - 1 -> off_at offs i <= off_at offs j.
Proof.
  intros W i j Hij Hj. apply wfb_list in W as (W1 & W2 & W3 & W4).
  induction j as [|j IH].
  - assert (i = 0) by lia. subst. lia.
  - destruct (Nat.eq_dec i (S j)) as [->|Hne]; [lia|].
    specialize (IH ltac:(lia) ltac:(lia)).
    destruct (W2 j ltac:(lia)) as [Ha Hb]. unfold off_at in *. lia.
Qed.

(* ================================================================== part 2 *)

Lemma nth_map_seq0 {A} (F : nat -> A) n i d : i < n -> nth i (map F (seq 0 n)) d = F i.
Proof.
  intro H. rewrite (nth_indep _ d (F 0)) by (rewrite map_length, seq_length; exact H).
  rewrite map_nth, seq_nth by exact H. reflexivity.
Qed.

Lemma sum_firstn_S : forall j lens, j < length lens -> sum (firstn (S j) lens) = sum (firstn j lens) + nth j lens 0.
Proof.
  induction j as [|j IH]; intros [|l lens] Hj; cbn [length] in Hj; try lia.
  - cbn. lia.
  - specialize (IH lens ltac:(lia)).
    change (firstn (S (S j)) (l :: lens)) with (l :: firstn (S j) lens).
    change (firstn (S j) (l :: lens)) with (l :: firstn j lens).
    cbn [sum nth]. rewrite IH. lia.
Qed.

Lemma nth_map_default {A B} (f : A -> B) l j da : nth j (map f l) (f da) = f (nth j l da).
Proof. apply map_nth. Qed.

Lemma sum_repeat_len {A} (ls : list (list A)) sz :
  Forall (fun b => length b = sz) ls -> sum (map (@length A) ls) = length ls * sz.
Proof.
  induction 1 as [|b ls Hb _ IH]; [reflexivity|]. cbn [map sum length]. rewrite IH, Hb. lia.
Qed.

Lemma take_rows_seq idx rows :
  take_rows idx rows =
  map (fun j => match nth j idx None with Some i => nth i rows VNull | None => VNull end) (seq 0 (length idx)).
Proof.
  unfold take_rows.
  exact (map_nth_seq (fun oi : option nat => match oi with Some i => nth i rows VNull | None => VNull end) idx None).
Qed.

Theorem ptake_logical : forall p idx,
  wfb p = true -> (forall i, In (Some i) idx -> i < plen p) ->
  logical (ptake idx p) = take_rows idx (logical p).
Proof.
  induction p as [k a vals nl | len fs nl IH | lg offs v nl IH | sz len v nl IH] using parr_ind';
    intros idx W B.
  - (* leaf *)
    cbn [ptake]. rewrite logical_leaf. rewrite map_length.
    rewrite (take_rows_seq idx).
    apply map_ext_in. intros j Hj. apply in_seq in Hj.
    rewrite valid_take_bits by lia.
    set (h := fun oi : option nat => match oi with Some i => nth i vals (default_leaf k) | None => default_leaf k end).
    change (default_leaf k) with (h None) at 1. rewrite map_nth.
    destruct (nth j idx None) as [i|] eqn:E; [|reflexivity].
    assert (Hi : i < length vals).
    { apply B. rewrite <- E. apply nth_In. lia. }
    rewrite logical_leaf. rewrite nth_map_seq0 by exact Hi. subst h. cbn beta. reflexivity.
  - (* struct *)
    cbn [ptake]. cbn [logical]. rewrite (take_rows_seq idx).
    apply map_ext_in. intros j Hj. apply in_seq in Hj.
    rewrite valid_take_bits by lia.
    destruct (nth j idx None) as [i|] eqn:E; [|reflexivity].
    assert (Hi : i < len).
    { apply (B i). rewrite <- E. apply nth_In. lia. }
    rewrite nth_map_seq0 by exact Hi.
    destruct (valid nl i); [|reflexivity]. f_equal.
    rewrite !map_map. apply wfb_struct in W. rewrite Forall_forall in IH, W.
    apply map_ext_in. intros f Hf. cbn [fst snd]. f_equal.
    destruct (W f Hf) as [Wl Ww].
    rewrite (IH f Hf idx Ww) by (intros x Hx; rewrite Wl; apply (B x Hx)).
    rewrite nth_take_rows by lia. rewrite E. reflexivity.
  - (* list *)
    cbn [ptake plen] in *. cbn [logical].
    pose proof (off_at_mono _ _ _ _ W) as Mono.
    pose proof (wfb_list _ _ _ _ W) as (W1 & W2 & W3 & W4).
    set (rs := list_ranges offs nl idx).
    assert (Hrs : length rs = length idx) by (unfold rs, list_ranges; apply map_length).
    rewrite running_length, map_length, Hrs. replace (S (length idx) - 1) with (length idx) by lia.
    assert (Bv : forall x, In (Some x) (map Some (concat rs)) -> x < plen v).
    { intros x Hx. apply in_map_iff in Hx as (y & Hy & Hin). inversion Hy; subst y.
      apply in_concat in Hin as (r & Hr & Hxr). unfold rs, list_ranges in Hr.
      apply in_map_iff in Hr as (oi & Hoi & Hin). destruct oi as [i|]; [|subst r; destruct Hxr].
      destruct (valid nl i); [|subst r; destruct Hxr]. subst r. apply in_seq in Hxr.
      specialize (B i Hin).
      pose proof (Mono i (S i) ltac:(lia) ltac:(lia)).
      pose proof (Mono (S i) (length offs - 1) ltac:(lia) ltac:(lia)). lia. }
    rewrite (IH _ W4 Bv).
    rewrite (take_rows_seq idx).
    apply map_ext_in. intros j Hj. apply in_seq in Hj.
    rewrite valid_take_bits by lia.
    destruct (nth j idx None) as [i|] eqn:E; [|reflexivity].
    assert (Hi : i < length offs - 1).
    { apply (B i). rewrite <- E. apply nth_In. lia. }
    rewrite nth_map_seq0 by exact Hi.
    destruct (valid nl i) eqn:V; [|reflexivity]. f_equal.
    (* offsets of the gathered list *)
    set (lens := map (@length nat) rs).
    assert (Hlens : length lens = length idx) by (unfold lens; rewrite map_length; exact Hrs).
    unfold off_at at 1 2 3. rewrite !running_nth by lia.
    rewrite !Z.add_0_l, !Nat2Z.id. rewrite sum_firstn_S by lia.
    replace (sum (firstn j lens) + nth j lens 0 - sum (firstn j lens)) with (nth j lens 0) by lia.
    (* the gathered child *)
    unfold take_rows. rewrite map_map.
    set (F := fun i0 : nat => nth i0 (logical v) VNull).
    rewrite concat_map.
    assert (Hj' : j < length (map (map F) rs)) by (rewrite map_length; lia).
    pose proof (sub_concat (map (map F) rs) j Hj') as SC.
    rewrite firstn_map, map_map in SC.
    assert (Hl1 : map (fun x : list nat => length (map F x)) (firstn j rs) = firstn j lens).
    { unfold lens. rewrite firstn_map. apply map_ext. intro x. apply map_length. }
    rewrite Hl1 in SC.
    assert (Hnth : nth j (map (map F) rs) [] = map F (nth j rs [])).
    { change (@nil lval) with (map F []). apply map_nth. }
    rewrite Hnth in SC. rewrite map_length in SC.
    assert (Hl2 : nth j lens 0 = length (nth j rs [])).
    { unfold lens. change 0 with (length (@nil nat)). apply map_nth. }
    rewrite Hl2, SC.
    (* the j-th range *)
    assert (Hr : nth j rs [] = seq (off_at offs i) (off_at offs (S i) - off_at offs i)).
    { unfold rs, list_ranges.
      set (R := fun oi : option nat => match oi with
                 | Some i0 => if valid nl i0 then seq (off_at offs i0) (off_at offs (S i0) - off_at offs i0) else []
                 | None => [] end).
      change (@nil nat) with (R None). rewrite map_nth. rewrite E. unfold R. rewrite V. reflexivity. }
    rewrite Hr. subst F. apply map_nth_sub.
    rewrite logical_length by exact W4.
    pose proof (Mono i (S i) ltac:(lia) ltac:(lia)).
    pose proof (Mono (S i) (length offs - 1) ltac:(lia) ltac:(lia)). lia.
  - (* fixed size list *)
    cbn [ptake plen] in *. cbn [logical].
    cbn [wfb] in W. apply andb_true_iff in W as [W1 W2]. apply Nat.eqb_eq in W1.
    set (Bk := fun oi : option nat => match oi with
               | Some i => map (fun j => Some (i * sz + j)) (seq 0 sz)
               | None => repeat None sz end).
    assert (Bv : forall x, In (Some x) (concat (map Bk idx)) -> x < plen v).
    { intros x Hx. apply in_concat in Hx as (b & Hb & Hxb). apply in_map_iff in Hb as (oi & Hoi & Hin).
      destruct oi as [i|]; subst b; cbn [Bk] in Hxb.
      - apply in_map_iff in Hxb as (t & Ht & Hts). inversion Ht; subst x. apply in_seq in Hts.
        specialize (B i Hin). nia.
      - apply repeat_spec in Hxb. discriminate. }
    rewrite (IH _ W2 Bv).
    rewrite (take_rows_seq idx).
    apply map_ext_in. intros j Hj. apply in_seq in Hj.
    rewrite valid_take_bits by lia.
    destruct (nth j idx None) as [i|] eqn:E; [|reflexivity].
    assert (Hi : i < len).
    { apply (B i). rewrite <- E. apply nth_In. lia. }
    rewrite nth_map_seq0 by exact Hi.
    destruct (valid nl i) eqn:V; [|reflexivity]. f_equal.
    unfold take_rows. rewrite concat_map, map_map.
    set (G := fun oi : option nat => match oi with Some i0 => nth i0 (logical v) VNull | None => VNull end).
    set (blocks := map (fun x => map G (Bk x)) idx).
    assert (Hall : Forall (fun b => length b = sz) blocks).
    { apply Forall_forall. intros b Hb. unfold blocks in Hb. apply in_map_iff in Hb as (oi & Hoi & _).
      subst b. rewrite map_length. destruct oi; cbn [Bk]; [rewrite map_length, seq_length | rewrite repeat_length]; reflexivity. }
    assert (Hbl : length blocks = length idx) by (unfold blocks; apply map_length).
    assert (Hj' : j < length blocks) by lia.
    pose proof (sub_concat blocks j Hj') as SC.
    assert (Hf : Forall (fun b => length b = sz) (firstn j blocks)).
    { apply Forall_forall. intros b Hb. rewrite Forall_forall in Hall. apply Hall.
      apply (In_nth _ _ []) in Hb as (t & Ht & Hbt). rewrite <- Hbt.
      rewrite firstn_length in Ht. rewrite nth_firstn' by lia. apply nth_In. lia. }
    rewrite (sum_repeat_len _ sz Hf) in SC. rewrite firstn_length in SC.
    replace (Nat.min j (length blocks)) with j in SC by lia.
    assert (Hnb : nth j blocks [] = map G (Bk (Some i))).
    { unfold blocks. set (H0 := fun x => map G (Bk x)).
      rewrite (nth_indep _ [] (H0 None)) by (rewrite map_length; lia).
      rewrite map_nth. rewrite E. reflexivity. }
    rewrite Hnb in SC. rewrite map_length in SC. cbn [Bk] in SC. rewrite map_length, seq_length in SC.
    rewrite SC. rewrite map_map. cbn [G].
    rewrite <- (map_seq_shift (fun x => nth x (logical v) VNull) (i * sz) sz).
    apply map_nth_sub. rewrite logical_length by exact W2. nia.
Qed.

(* ================================================================== part 3 *)

Lemma plen_ptake p idx : plen (ptake idx p) = length idx.
Proof.
  destruct p as [k a vals nl | len fs nl | lg offs v nl | sz len v nl]; cbn [ptake plen].
  - apply map_length.
  - reflexivity.
  - rewrite running_length, map_length. unfold list_ranges. rewrite map_length. lia.
  - reflexivity.
Qed.

Lemma sum_map_length_concat {A} (ls : list (list A)) : sum (map (@length A) ls) = length (concat ls).
Proof. induction ls as [|x ls IH]; [reflexivity|]. cbn [map sum concat]. rewrite app_length, IH. reflexivity. Qed.

Lemma off_at_running_0 lens : off_at (running 0%Z lens) 0 = 0.
Proof. unfold off_at. destruct lens; reflexivity. Qed.

Lemma off_at_running lens j : j <= length lens -> off_at (running 0%Z lens) j = sum (firstn j lens).
Proof. intro H. unfold off_at. rewrite running_nth by exact H. rewrite Z.add_0_l. apply Nat2Z.id. Qed.

Theorem ptake_offset_free : forall p idx, offset_free (ptake idx p) = true.
Proof.
  induction p as [k a vals nl | len fs nl IH | lg offs v nl IH | sz len v nl IH] using parr_ind'; intro idx.
  - reflexivity.
  - cbn [ptake offset_free take_bits nulls_offset_free fresh snd]. cbn [Nat.eqb andb].
    rewrite forallb_forall. intros f Hf. apply in_map_iff in Hf as (g & Hg & Hin). subst f. cbn [snd].
    rewrite Forall_forall in IH. apply IH. exact Hin.
  - cbn [ptake offset_free take_bits nulls_offset_free fresh snd]. cbn [Nat.eqb andb].
    rewrite off_at_running_0. cbn [Nat.eqb andb].
    rewrite running_length. replace (S (length (map (@length nat) (list_ranges offs nl idx))) - 1)
      with (length (map (@length nat) (list_ranges offs nl idx))) by lia.
    rewrite off_at_running by lia. rewrite firstn_all.
    rewrite sum_map_length_concat. rewrite plen_ptake, map_length, Nat.eqb_refl. cbn [andb]. apply IH.
  - cbn [ptake offset_free take_bits nulls_offset_free fresh snd]. cbn [Nat.eqb andb].
    rewrite plen_ptake. rewrite IH, andb_true_r. apply Nat.eqb_eq.
    induction idx as [|oi idx IHi]; [reflexivity|].
    cbn [map concat length]. rewrite app_length, IHi.
    destruct oi; [rewrite map_length, seq_length | rewrite repeat_length]; lia.
Qed.

Lemma take_rows_ident rows n : length rows = n -> take_rows (map Some (seq 0 n)) rows = rows.
Proof.
  intro H. unfold take_rows. rewrite map_map.
  rewrite (map_nth_sub VNull rows 0 n) by lia. unfold sub. cbn [skipn]. subst n. apply firstn_all.
Qed.

(* deep_copy_array_sliced on anything but a sliced top-level Boolean array *)
Theorem deep_copy_sliced_ok : forall p,
  wfb p = true -> parr_offset p = 0 ->
  logical (deep_copy_sliced p) = logical p /\ offset_free (deep_copy_sliced p) = true.
Proof.
  intros p W H0. unfold deep_copy_sliced. rewrite H0. split.
  - rewrite ptake_logical.
    + apply take_rows_ident. apply logical_length. exact W.
    + exact W.
    + intros i Hi. apply in_map_iff in Hi as (x & Hx & Hin). inversion Hx; subst x. apply in_seq in Hin. lia.
  - apply ptake_offset_free.
Qed.

Theorem pcompact_ok : forall p, wfb p = true ->
  logical (pcompact p) = logical p /\ offset_free (pcompact p) = true.
Proof.
  intros p W. unfold pcompact. split.
  - rewrite ptake_logical.
    + apply take_rows_ident. apply logical_length. exact W.
    + exact W.
    + intros i Hi. apply in_map_iff in Hi as (x & Hx & Hin). inversion Hx; subst x. apply in_seq in Hin. lia.
  - apply ptake_offset_free.
Qed.

(* the class: a sliced top-level Boolean array.  The first row of the copy is row aoff of the input. *)
Definition Known_C40_bool_offset (p : parr) : bool := negb (Nat.eqb (parr_offset p) 0).
Lemma bool_offset_refuted :
  exists p, wfb p = true /\ Known_C40_bool_offset p = true /\
            nth 0 (logical (deep_copy_sliced p)) VNull <> nth 0 (logical p) VNull.
Proof.
  exists (PLeaf 3%N 1 [VI 1%Z; VI 0%Z] None). split; [reflexivity|]. split; [reflexivity|].
  vm_compute. discriminate.
Qed.

(* validity only matters on the rows *)
Lemma logical_nulls_ext p nl' :
  (forall i, i < plen p -> valid (pnulls p) i = valid nl' i) -> logical (set_nulls p nl') = logical p.
Proof.
  intro H. destruct p as [k a vals nl | len fs nl | lg offs v nl | sz len v nl]; cbn [set_nulls pnulls plen] in *.
  - rewrite !logical_leaf. apply map_ext_in. intros i Hi. apply in_seq in Hi. rewrite H by lia. reflexivity.
  - cbn [logical]. apply map_ext_in. intros i Hi. apply in_seq in Hi. rewrite H by lia. reflexivity.
  - cbn [logical]. apply map_ext_in. intros i Hi. apply in_seq in Hi. rewrite H by lia. reflexivity.
  - cbn [logical]. apply map_ext_in. intros i Hi. apply in_seq in Hi. rewrite H by lia. reflexivity.
Qed.

Lemma count_nulls_zero nl n : count_nulls nl n = 0 -> forall i, i < n -> valid nl i = true.
Proof.
  unfold count_nulls, validity. intros H i Hi.
  destruct (valid nl i) eqn:E; [reflexivity|].
  assert (Hin : In (valid nl i) (filter negb (map (valid nl) (seq 0 n)))).
  { apply filter_In. split; [apply in_map; apply in_seq; lia | rewrite E; reflexivity]. }
  destruct (filter negb (map (valid nl) (seq 0 n))); [destruct Hin | discriminate].
Qed.

Lemma valid_drop_empty nl n i : i < n -> valid (drop_empty_nulls nl n) i = valid nl i.
Proof.
  intro Hi. unfold drop_empty_nulls. destruct (Nat.eqb (count_nulls nl n) 0) eqn:E; [|reflexivity].
  apply Nat.eqb_eq in E. rewrite (count_nulls_zero nl n E i Hi). reflexivity.
Qed.

Lemma valid_deep_copy_nulls nl n i : i < n -> valid (deep_copy_nulls nl n) i = valid nl i.
Proof.
  intro Hi. unfold deep_copy_nulls. rewrite valid_drop_empty by exact Hi.
  destruct nl as [[b o]|]; reflexivity.
Qed.

Lemma plen_deep_copy p : plen (deep_copy p) = plen p.
Proof. destruct p; reflexivity. Qed.

Theorem deep_copy_logical : forall p, logical (deep_copy p) = logical p.
Proof.
  induction p as [k a vals nl | len fs nl IH | lg offs v nl IH | sz len v nl IH] using parr_ind'.
  - cbn [deep_copy]. rewrite !logical_leaf. apply map_ext_in. intros i Hi. apply in_seq in Hi.
    rewrite valid_deep_copy_nulls by lia. reflexivity.
  - cbn [deep_copy logical]. apply map_ext_in. intros i Hi. apply in_seq in Hi.
    rewrite valid_deep_copy_nulls by lia. destruct (valid nl i); [|reflexivity]. f_equal.
    rewrite !map_map. apply map_ext_in. intros f Hf. cbn [fst snd].
    rewrite Forall_forall in IH. rewrite (IH f Hf). reflexivity.
  - cbn [deep_copy logical]. rewrite IH. apply map_ext_in. intros i Hi. apply in_seq in Hi.
    rewrite valid_deep_copy_nulls by lia. reflexivity.
  - cbn [deep_copy logical]. rewrite IH. apply map_ext_in. intros i Hi. apply in_seq in Hi.
    rewrite valid_deep_copy_nulls by lia. reflexivity.
Qed.

(* the copy keeps every view offset: it is the same array up to dropped all-valid bitmaps *)
Theorem deep_copy_type : forall p, ptype (deep_copy p) = ptype p.
Proof.
  induction p as [k a vals nl | len fs nl IH | lg offs v nl IH | sz len v nl IH] using parr_ind';
    cbn [deep_copy ptype]; try (rewrite IH; reflexivity); try reflexivity.
  f_equal. rewrite map_map. apply map_ext_in. intros f Hf. cbn [fst snd].
  rewrite Forall_forall in IH. rewrite (IH f Hf). reflexivity.
Qed.

(* ================================================================== part 4 *)

(* index form of map2 *)
Lemma map2_index {A B C} (f : A -> B -> C) (da : A) (db : B) : forall la lb n,
  length la = n -> length lb = n ->
  map2 f la lb = map (fun i => f (nth i la da) (nth i lb db)) (seq 0 n).
Proof.
  induction la as [|a la IH]; intros [|b lb] n Ha Hb; cbn [length] in *; subst n; try discriminate.
  - reflexivity.
  - cbn [map2 seq map nth]. f_equal. rewrite (IH lb (length la) eq_refl ltac:(lia)).
    rewrite <- seq_shift, map_map. reflexivity.
Qed.

Lemma true_positions_app_false : forall n s rest,
  true_positions s (repeat false n ++ rest) = true_positions (s + n) rest.
Proof.
  induction n as [|n IH]; intros s rest; cbn [repeat app true_positions].
  - f_equal. lia.
  - rewrite IH. replace (S s + n) with (s + S n) by lia. reflexivity.
Qed.

Lemma true_positions_app_true : forall n s rest,
  true_positions s (repeat true n ++ rest) = seq s n ++ true_positions (s + n) rest.
Proof.
  induction n as [|n IH]; intros s rest; cbn [repeat app true_positions seq].
  - f_equal. lia.
  - rewrite IH. cbn [app]. replace (S s + n) with (s + S n) by lia. reflexivity.
Qed.

Lemma true_positions_falses n s : true_positions s (repeat false n) = [].
Proof.
  rewrite <- (app_nil_r (repeat false n)). rewrite true_positions_app_false. reflexivity.
Qed.

Lemma diffs_index : forall l a,
  map2 (fun a b => (b - a)%Z) (a :: l) l =
  map (fun i => (nth (S i) (a :: l) 0 - nth i (a :: l) 0)%Z) (seq 0 (length l)).
Proof.
  induction l as [|b l IH]; intro a; [reflexivity|].
  change (map2 (fun a b => (b - a)%Z) (a :: b :: l) (b :: l))
    with ((b - a)%Z :: map2 (fun a b => (b - a)%Z) (b :: l) l).
  rewrite IH. cbn [length seq map]. f_equal.
  rewrite <- seq_shift, map_map. apply map_ext. intro i. reflexivity.
Qed.

Lemma kept_running : forall lens vs acc,
  Forall (fun l => (0 <= l)%Z) lens -> length lens = length vs ->
  (acc :: kept_offsets acc lens vs) =
  running acc (map2 (fun (l : Z) (b : bool) => if b then Z.to_nat l else 0) lens vs).
Proof.
  induction lens as [|l lens IH]; intros [|b vs] acc Hpos Hlen; cbn [length] in Hlen; try discriminate.
  - reflexivity.
  - cbn [kept_offsets map2 running]. f_equal. inversion Hpos; subst.
    replace (acc + Z.of_nat (if b then Z.to_nat l else 0))%Z with (if b then (acc + l)%Z else acc)
      by (destruct b; lia).
    apply IH; [assumption | lia].
Qed.


Section Fgn.
  Variables (lg : bool) (offs : list Z) (v : parr) (nl : option bitview).
  Hypothesis W : wfb (PList lg offs v nl) = true.
  Let n := length offs - 1.
  Let o (i : nat) := off_at offs i.
  Let R (i : nat) : list nat := if valid nl i then seq (o i) (o (S i) - o i) else [].

  Lemma o_mono i j : i <= j -> j <= n -> o i <= o j.
  Proof. intros. apply (off_at_mono _ _ _ _ W); assumption. Qed.

  Lemma lens_nth i : i < n ->
    Z.to_nat (nth i (map2 (fun a b => (b - a)%Z) offs (tl offs)) 0%Z) = o (S i) - o i.
  Proof.
    intro Hi. pose proof (wfb_list _ _ _ _ W) as (W1 & W2 & _).
    assert (Hl : length (tl offs) = n) by (destruct offs; cbn in *; lia).
    (* map2 stops at the shorter list: use firstn n offs *)
    assert (E : map2 (fun a b => (b - a)%Z) offs (tl offs) =
                map (fun i => (nth (S i) offs 0 - nth i offs 0)%Z) (seq 0 n)).
    { clear Hi. subst n. destruct offs as [|a l]; [cbn in W1; lia|]. cbn [tl length].
      replace (S (length l) - 1) with (length l) by lia. apply diffs_index. }
    rewrite E. rewrite nth_map_seq0 by exact Hi.
    destruct (W2 i Hi) as [Ha Hb]. unfold o, off_at. lia.
  Qed.

  Lemma lens_length : length (map2 (fun a b => (b - a)%Z) offs (tl offs)) = n.
  Proof.
    pose proof (wfb_list _ _ _ _ W) as (W1 & _). rewrite map2_length.
    destruct offs as [|a l]; cbn [tl length] in *; [lia|]. subst n. cbn [length]. lia.
  Qed.

  Lemma body_index :
    concat (map2 (fun (len : Z) (b : bool) => repeat b (Z.to_nat len))
                 (map2 (fun a b => (b - a)%Z) offs (tl offs)) (validity nl n))
    = concat (map (fun i => repeat (valid nl i) (o (S i) - o i)) (seq 0 n)).
  Proof.
    f_equal. rewrite (map2_index _ 0%Z true _ _ n lens_length (validity_length nl n)).
    apply map_ext_in. intros i Hi. apply in_seq in Hi.
    rewrite nth_validity by lia. rewrite lens_nth by lia. reflexivity.
  Qed.

  Lemma positions_rows : forall m k tr, k + m = n ->
    true_positions (o k) (concat (map (fun i => repeat (valid nl i) (o (S i) - o i)) (seq k m)) ++ repeat false tr)
    = concat (map R (seq k m)).
  Proof.
    induction m as [|m IH]; intros k tr Hk.
    - cbn [seq map concat app]. apply true_positions_falses.
    - cbn [seq map concat]. rewrite <- app_assoc. unfold R at 1.
      pose proof (o_mono k (S k) ltac:(lia) ltac:(lia)) as Hm.
      destruct (valid nl k).
      + rewrite true_positions_app_true. f_equal.
        replace (o k + (o (S k) - o k)) with (o (S k)) by lia. apply IH. lia.
      + rewrite true_positions_app_false. cbn [app].
        replace (o k + (o (S k) - o k)) with (o (S k)) by lia. apply IH. lia.
  Qed.

  Lemma body_length : length (concat (map (fun i => repeat (valid nl i) (o (S i) - o i)) (seq 0 n))) = o n - o 0.
  Proof.
    assert (G : forall m k, k + m = n ->
                length (concat (map (fun i => repeat (valid nl i) (o (S i) - o i)) (seq k m))) = o n - o k).
    { induction m as [|m IH]; intros k Hk.
      - cbn. replace k with n by lia. lia.
      - cbn [seq map concat]. rewrite app_length, repeat_length. rewrite IH by lia.
        pose proof (o_mono k (S k) ltac:(lia) ltac:(lia)). pose proof (o_mono (S k) n ltac:(lia) ltac:(lia)). lia. }
    apply G. lia.
  Qed.

  Lemma ranges_eq : list_ranges offs nl (map Some (seq 0 n)) = map R (seq 0 n).
  Proof. unfold list_ranges. rewrite map_map. reflexivity. Qed.

End Fgn.

Theorem fgn_as_take lg offs v bv :
  wfb (PList lg offs v (Some bv)) = true -> 0 < length offs - 1 ->
  filter_garbage_nulls (PList lg offs v (Some bv)) =
  Ok (set_nulls (ptake (map Some (seq 0 (length offs - 1))) (PList lg offs v (Some bv))) (Some bv)).
Proof.
  intros W Hn. pose proof (wfb_list _ _ _ _ W) as (W1 & W2 & W3 & W4).
  unfold filter_garbage_nulls. cbn [plen].
  destruct (Nat.eqb (length offs - 1) 0) eqn:En; [apply Nat.eqb_eq in En; lia|].
  rewrite (body_index lg offs v (Some bv) W). rewrite (body_length lg offs v (Some bv) W).
  pose proof (o_mono lg offs v (Some bv) W 0 (length offs - 1) ltac:(lia) ltac:(lia)) as Hm.
  replace (off_at offs 0 + (off_at offs (length offs - 1) - off_at offs 0)) with (off_at offs (length offs - 1)) by lia.
  destruct (Nat.ltb (plen v) (off_at offs (length offs - 1))) eqn:El; [apply Nat.ltb_lt in El; lia|].
  cbn [ptake set_nulls]. f_equal. f_equal.
  - (* offsets *)
    assert (Hpos : Forall (fun l => (0 <= l)%Z) (map2 (fun a b => (b - a)%Z) offs (tl offs))).
    { apply Forall_forall. intros l Hl. apply (In_nth _ _ 0%Z) in Hl as (i & Hi & Hli).
      rewrite (lens_length lg offs v (Some bv) W) in Hi. subst l.
      assert (E : map2 (fun a b => (b - a)%Z) offs (tl offs) =
                  map (fun i => (nth (S i) offs 0 - nth i offs 0)%Z) (seq 0 (length offs - 1))).
      { destruct offs as [|a l]; [cbn in W1; lia|]. cbn [tl length].
        replace (S (length l) - 1) with (length l) by lia. apply diffs_index. }
      rewrite E, nth_map_seq0 by exact Hi. destruct (W2 i Hi). lia. }
    assert (Hlen : length (map2 (fun a b => (b - a)%Z) offs (tl offs)) = length (validity (Some bv) (length offs - 1))).
    { rewrite (lens_length lg offs v (Some bv) W), validity_length. reflexivity. }
    rewrite (kept_running _ _ 0%Z Hpos Hlen).
    f_equal. rewrite (ranges_eq offs (Some bv)), map_map.
    rewrite (map2_index (fun (l : Z) (b : bool) => if b then Z.to_nat l else 0) 0%Z true _ _ (length offs - 1)
               (lens_length lg offs v (Some bv) W) (validity_length (Some bv) (length offs - 1))).
    apply map_ext_in. intros i Hi. apply in_seq in Hi.
    rewrite nth_validity by lia. rewrite (lens_nth lg offs v (Some bv) W) by lia.
    destruct (valid (Some bv) i); [rewrite seq_length|]; reflexivity.
  - (* values *)
    unfold pfilter. do 2 f_equal. rewrite (ranges_eq offs (Some bv)).
    replace (off_at offs 0) with (0 + off_at offs 0) at 1 by lia. rewrite true_positions_app_false.
    cbn [Nat.add]. apply (positions_rows lg offs v (Some bv) W). lia.
Qed.

Lemma valid_take_ident nl n i : i < n -> valid (take_bits nl (map Some (seq 0 n))) i = valid nl i.
Proof.
  intro H. rewrite valid_take_bits by (rewrite map_length, seq_length; exact H).
  change (@None nat) with (option_map S (@None nat)).
  rewrite (nth_indep _ _ (Some 0)) by (rewrite map_length, seq_length; exact H).
  rewrite map_nth, seq_nth by exact H. reflexivity.
Qed.

Theorem filter_garbage_nulls_ok : forall lg offs v nl q,
  wfb (PList lg offs v nl) = true ->
  filter_garbage_nulls (PList lg offs v nl) = Ok q ->
  logical q = logical (PList lg offs v nl) /\ no_garbage q = true /\
  (nl <> None -> 0 < length offs - 1 -> list_tight q = true /\ offset_free (pvalues q) = true).
Proof.
  intros lg offs v nl q W H.
  destruct (Nat.eq_dec (length offs - 1) 0) as [Hz|Hz].
  { unfold filter_garbage_nulls in H. cbn [plen] in H. rewrite Hz in H. cbn in H. inversion H; subst q.
    split; [reflexivity|]. split; [|intros; lia].
    cbn [no_garbage plen]. rewrite Hz. reflexivity. }
  destruct nl as [bv|].
  2:{ unfold filter_garbage_nulls in H. cbn [plen] in H.
      assert (Hq : q = PList lg offs v None) by (destruct (Nat.eqb (length offs - 1) 0); inversion H; reflexivity).
      subst q.
      split; [reflexivity|]. split; [|intros C; congruence].
      cbn [no_garbage valid]. apply forallb_forall. intros; reflexivity. }
  rewrite (fgn_as_take lg offs v bv W ltac:(lia)) in H.
  set (n := length offs - 1) in *.
  set (idx := map Some (seq 0 n)) in *.
  assert (Hq : q = set_nulls (ptake idx (PList lg offs v (Some bv))) (Some bv)) by congruence.
  clear H. rewrite Hq. clear Hq q.
  assert (Hlen : plen (ptake idx (PList lg offs v (Some bv))) = n).
  { rewrite plen_ptake. unfold idx. rewrite map_length, seq_length. reflexivity. }
  split; [|split].
  - rewrite logical_nulls_ext.
    + rewrite ptake_logical.
      * apply take_rows_ident. rewrite logical_length by exact W. reflexivity.
      * exact W.
      * intros i Hi. apply in_map_iff in Hi as (x & Hx & Hin). inversion Hx; subst x.
        apply in_seq in Hin. cbn [plen]. fold n. lia.
    + intros i Hi. rewrite Hlen in Hi. cbn [ptake pnulls]. apply valid_take_ident. exact Hi.
  - cbn [ptake set_nulls no_garbage plen].
    assert (Hl0 : length (map (@length nat) (list_ranges offs (Some bv) idx)) = n).
    { unfold list_ranges, idx. rewrite !map_length, seq_length. reflexivity. }
    rewrite running_length, Hl0. replace (S n - 1) with n by lia.
    apply forallb_forall. intros i Hi. apply in_seq in Hi.
    destruct (valid (Some bv) i) eqn:V; [reflexivity|]. cbn [orb]. apply Nat.eqb_eq.
    set (lens := map (@length nat) (list_ranges offs (Some bv) idx)).
    assert (Hl : length lens = n).
    { unfold lens, list_ranges, idx. rewrite !map_length, seq_length. reflexivity. }
    rewrite !off_at_running by lia. rewrite sum_firstn_S by lia.
    assert (Hz0 : nth i lens 0 = 0).
    { unfold lens, list_ranges, idx. rewrite !map_map.
      rewrite nth_map_seq0 by lia. rewrite V. reflexivity. }
    lia.
  - intros _ _. pose proof (ptake_offset_free (PList lg offs v (Some bv)) idx) as OF.
    cbn [ptake offset_free] in OF. cbn [ptake set_nulls list_tight pvalues].
    repeat (apply andb_true_iff in OF as [OF ?]).
    split; [|assumption]. apply andb_true_iff. split; assumption.
Qed.

(* ================================================================== part 5 *)

(* the value of row i ignoring the validity of the array itself *)
Definition row (p : parr) (i : nat) : lval :=
  match p with
  | PLeaf k _ vals _ => VLeaf (nth i vals (default_leaf k))
  | PStruct _ fs _ => VStruct (map (fun f : field => (fname f, nth i (logical (fcol f)) VNull)) fs)
  | PList _ offs v _ => VList (sub (off_at offs i) (off_at offs (S i) - off_at offs i) (logical v))
  | PFsl sz _ v _ => VList (sub (i * sz) sz (logical v))
  end.

Lemma nth_logical p i : i < plen p ->
  nth i (logical p) VNull = if valid (pnulls p) i then row p i else VNull.
Proof.
  intro H. destruct p as [k a vals nl | len fs nl | lg offs v nl | sz len v nl]; cbn [plen pnulls row] in *.
  - rewrite logical_leaf. rewrite nth_map_seq0 by exact H. reflexivity.
  - cbn [logical]. rewrite nth_map_seq0 by exact H. rewrite map_map. reflexivity.
  - cbn [logical]. rewrite nth_map_seq0 by exact H. reflexivity.
  - cbn [logical]. rewrite nth_map_seq0 by exact H. reflexivity.
Qed.

Lemma logical_rows p : logical p = map (fun i => if valid (pnulls p) i then row p i else VNull) (seq 0 (plen p)).
Proof.
  destruct p as [k a vals nl | len fs nl | lg offs v nl | sz len v nl]; cbn [plen pnulls row].
  - apply logical_leaf.
  - cbn [logical]. apply map_ext. intro i. rewrite map_map. reflexivity.
  - reflexivity.
  - reflexivity.
Qed.

Lemma row_set_nulls p nl i : row (set_nulls p nl) i = row p i.
Proof. destruct p; reflexivity. Qed.
Lemma plen_set_nulls p nl : plen (set_nulls p nl) = plen p.
Proof. destruct p; reflexivity. Qed.
Lemma pnulls_set_nulls p nl : pnulls (set_nulls p nl) = nl.
Proof. destruct p; reflexivity. Qed.
Lemma ptype_set_nulls p nl : ptype (set_nulls p nl) = ptype p.
Proof. destruct p; reflexivity. Qed.

Lemma nth_logical_set_nulls p nl i : i < plen p ->
  nth i (logical (set_nulls p nl)) VNull = if valid nl i then row p i else VNull.
Proof.
  intro H. rewrite nth_logical by (rewrite plen_set_nulls; exact H).
  rewrite pnulls_set_nulls, row_set_nulls. reflexivity.
Qed.

Lemma nth_map2 {A B C} (f : A -> B -> C) da db dc : forall la lb i,
  i < length la -> i < length lb -> nth i (map2 f la lb) dc = f (nth i la da) (nth i lb db).
Proof.
  induction la as [|a la IH]; intros [|b lb] i Ha Hb; cbn [length] in *; try lia.
  destruct i as [|i]; cbn [map2 nth]; [reflexivity|]. apply IH; lia.
Qed.

(* ------------------------------------------------------------------ trimmed_values *)
Theorem trimmed_values_logical lg offs v nl :
  wfb (PList lg offs v nl) = true ->
  logical (trimmed_values (PList lg offs v nl)) =
  sub (off_at offs 0) (off_at offs (length offs - 1) - off_at offs 0) (logical v).
Proof.
  intro W. pose proof (wfb_list _ _ _ _ W) as (W1 & W2 & W3 & W4).
  pose proof (off_at_mono _ _ _ _ W 0 (length offs - 1) ltac:(lia) ltac:(lia)).
  cbn [trimmed_values]. apply pslice_logical; [exact W4 | lia].
Qed.

(* re-basing the offsets on the trimmed child gives the same list *)
Theorem trimmed_values_rebase lg offs v nl :
  wfb (PList lg offs v nl) = true ->
  logical (PList lg (map (fun z => (z - nth 0 offs 0)%Z) offs) (trimmed_values (PList lg offs v nl)) nl) =
  logical (PList lg offs v nl).
Proof.
  intro W. pose proof (wfb_list _ _ _ _ W) as (W1 & W2 & W3 & W4).
  pose proof (off_at_mono _ _ _ _ W) as Mono.
  cbn [logical]. rewrite (trimmed_values_logical _ _ _ _ W). rewrite map_length.
  apply map_ext_in. intros i Hi. apply in_seq in Hi.
  destruct (valid nl i); [|reflexivity]. f_equal.
  assert (Hoff : forall j, j <= length offs - 1 ->
            off_at (map (fun z => (z - nth 0 offs 0)%Z) offs) j = off_at offs j - off_at offs 0).
  { intros j Hj. unfold off_at.
    set (g := fun z => (z - nth 0 offs 0)%Z).
    rewrite (nth_indep _ 0%Z (g 0%Z)) by (rewrite map_length; lia).
    rewrite map_nth. subst g. cbn beta.
    pose proof (Mono 0 j ltac:(lia) ltac:(lia)) as M. unfold off_at in M.
    assert (0 <= nth 0 offs 0)%Z by (destruct (W2 0 ltac:(lia)); lia).
    lia. }
  rewrite !Hoff by lia.
  pose proof (Mono 0 i ltac:(lia) ltac:(lia)).
  pose proof (Mono i (S i) ltac:(lia) ltac:(lia)).
  pose proof (Mono (S i) (length offs - 1) ltac:(lia) ltac:(lia)).
  rewrite sub_sub by lia. f_equal; lia.
Qed.

(* ------------------------------------------------------------------ pushdown_nulls *)
Theorem pushdown_nulls_ok len fs nl q :
  wfb (PStruct len fs nl) = true ->
  pushdown_nulls (PStruct len fs nl) = Ok q ->
  logical q = logical (PStruct len fs nl) /\
  (* every child is null wherever the struct is null, and unchanged elsewhere *)
  Forall2 (fun (f g : field) =>
             fname g = fname f /\
             forall i, i < len ->
               nth i (logical (fcol g)) VNull = if valid nl i then nth i (logical (fcol f)) VNull else VNull)
          fs (pfields q).
Proof.
  intros W H. apply wfb_struct in W. rewrite Forall_forall in W.
  unfold pushdown_nulls in H. destruct nl as [pv|].
  2:{ inversion H; subst q. clear H. split; [reflexivity|]. cbn [pfields].
      induction fs as [|f fs IH]; constructor.
      - split; [reflexivity|]. intros; reflexivity.
      - apply IH. intros g Hg. apply W. right. exact Hg. }
  inversion H; subst q. clear H. cbn [pfields].
  assert (Hchild : forall f, In f fs -> forall i, i < len ->
            nth i (logical (set_nulls (fcol f)
                      match pnulls (fcol f) with
                      | Some c => Some (fresh (map2 andb (validity (Some c) len) (validity (Some pv) len)))
                      | None => Some pv
                      end)) VNull
            = if valid (Some pv) i then nth i (logical (fcol f)) VNull else VNull).
  { intros f Hf i Hi. destruct (W f Hf) as [Wl Ww]. fold (fcol f) in Wl.
    rewrite nth_logical_set_nulls by lia. rewrite nth_logical by lia.
    destruct (pnulls (fcol f)) as [c|] eqn:Ec.
    - rewrite valid_fresh.
      rewrite (nth_map2 andb true true false) by (rewrite validity_length; exact Hi).
      rewrite !nth_validity by exact Hi.
      destruct (valid (Some c) i), (valid (Some pv) i); reflexivity.
    - change (valid None i) with true. destruct (valid (Some pv) i); reflexivity. }
  split.
  - cbn [logical]. apply map_ext_in. intros i Hi. apply in_seq in Hi.
    destruct (valid (Some pv) i) eqn:V; [|reflexivity]. f_equal.
    rewrite !map_map. apply map_ext_in. intros f Hf. cbn [fst snd fname fcol].
    f_equal. pose proof (Hchild f Hf i ltac:(lia)) as Hc. rewrite V in Hc. unfold fcol in Hc. exact Hc.
  - clear W. induction fs as [|f fs IH]; cbn [map]; constructor.
    + split; [reflexivity|]. intros i Hi. cbn [fcol snd]. apply (Hchild f (or_introl eq_refl) i Hi).
    + apply IH. intros g Hg. apply Hchild. right. exact Hg.
Qed.

(* ------------------------------------------------------------------ take *)
Theorem batch_take_ok p idx q :
  wfb p = true -> batch_take p idx = Ok q ->
  exists ids, idx = map Some ids /\ Forall (fun i => i < plen p) ids /\
              logical q = map (fun i => nth i (logical p) VNull) ids /\
              ptype q = ptype p.
Proof.
  intros W H. unfold batch_take in H.
  destruct (forallb _ idx) eqn:Hb; cbn [negb] in H; [|discriminate].
  destruct (existsb _ idx) eqn:He; [discriminate|]. inversion H; subst q. clear H.
  assert (Hids : exists ids, idx = map Some ids).
  { clear Hb. induction idx as [|oi idx IH]; [exists []; reflexivity|].
    cbn [existsb] in He. apply orb_false_iff in He as [H1 H2]. destruct oi as [i|]; [|discriminate].
    destruct (IH H2) as (ids & ->). exists (i :: ids). reflexivity. }
  destruct Hids as (ids & ->). exists ids. split; [reflexivity|].
  assert (Hr : Forall (fun i => i < plen p) ids).
  { rewrite forallb_forall in Hb. apply Forall_forall. intros i Hi.
    specialize (Hb (Some i) (in_map Some _ _ Hi)). apply Nat.ltb_lt in Hb. exact Hb. }
  split; [exact Hr|]. split.
  - rewrite ptake_logical; [| exact W |].
    + unfold take_rows. rewrite map_map. reflexivity.
    + intros i Hi. apply in_map_iff in Hi as (x & Hx & Hin). inversion Hx; subst x.
      rewrite Forall_forall in Hr. apply Hr. exact Hin.
  - clear. induction p as [k a vals nl | len fs nl IH | lg offs v nl IH | sz len v nl IH] using parr_ind' in ids |- *.
    + reflexivity.
    + cbn [ptake ptype]. f_equal. rewrite map_map. apply map_ext_in. intros f Hf. cbn [fst snd].
      rewrite Forall_forall in IH. rewrite (IH f Hf). reflexivity.
    + cbn [ptake ptype]. f_equal. 
      specialize (IH (concat (list_ranges offs nl (map Some ids)))). exact IH.
    + cbn [ptake ptype]. f_equal.
      (* the child indices are all Some *)
      assert (E : exists js, concat (map (fun oi : option nat => match oi with
                       | Some i => map (fun j => Some (i * sz + j)) (seq 0 sz)
                       | None => repeat None sz end) (map Some ids)) = map Some js).
      { clear. induction ids as [|i ids IH]; [exists []; reflexivity|].
        destruct IH as (js & E). exists (map (fun j => i * sz + j) (seq 0 sz) ++ js).
        cbn [map concat]. rewrite E, map_app, map_map. reflexivity. }
      destruct E as (js & ->). apply IH.
Qed.

(* ================================================================== part 6 *)

Lemma omap_ok {A B} (f : A -> outcome B) : forall l bs, omap f l = Ok bs -> Forall2 (fun a b => f a = Ok b) l bs.
Proof.
  induction l as [|a l IH]; intros bs H; cbn [omap] in H.
  - inversion H. constructor.
  - destruct (f a) as [b| |] eqn:E; cbn [obind] in H; try discriminate.
    destruct (omap f l) as [bs'| |] eqn:E2; cbn [obind] in H; try discriminate.
    inversion H; subst bs. constructor; [exact E | apply IH; reflexivity].
Qed.

Lemma obind_ok {A B} (x : outcome A) (f : A -> outcome B) b :
  obind x f = Ok b -> exists a, x = Ok a /\ f a = Ok b.
Proof. destruct x as [a| |]; cbn [obind]; intro H; try discriminate. exists a. auto. Qed.

Lemma unwrap_ok {A} (x : outcome A) a : unwrap x = Ok a -> x = Ok a.
Proof. destruct x; cbn [unwrap]; intro H; try discriminate; exact H. Qed.

(* first field of a given name in a struct value *)
Fixpoint vassoc (n : N) (fs : list (N * lval)) : option lval :=
  match fs with
  | [] => None
  | (m, v) :: fs' => if N.eqb m n then Some v else vassoc n fs'
  end.

Fixpoint project_val (t : dtype) (v : lval) {struct t} : lval :=
  match t with
  | DStruct sch =>
      match v with
      | VStruct fs =>
          VStruct (map (fun d : dfield =>
                          (fst (fst d), match vassoc (fst (fst d)) fs with
                                        | Some c => project_val (snd d) c
                                        | None => VNull
                                        end)) sch)
      | _ => v
      end
  | _ => v
  end.

Lemma project_val_null t : project_val t VNull = VNull.
Proof. destruct t; reflexivity. Qed.

Lemma vassoc_fields n (fs : list field) (g : field -> lval) :
  vassoc n (map (fun f => (fname f, g f)) fs) = option_map g (find_field n fs).
Proof.
  unfold find_field. induction fs as [|f fs IH]; [reflexivity|].
  cbn [map vassoc find]. destruct (N.eqb (fname f) n); [reflexivity | exact IH].
Qed.

Lemma struct_try_new_ok fs nl q :
  struct_try_new fs nl = Ok q ->
  exists f0 rest, fs = f0 :: rest /\ q = PStruct (plen (fcol f0)) fs (drop_empty_nulls nl (plen (fcol f0))) /\
                  Forall (fun g => plen (fcol g) = plen (fcol f0)) fs.
Proof.
  unfold struct_try_new. destruct fs as [|f0 rest]; [discriminate|].
  destruct (forallb _ (f0 :: rest) && forallb _ (f0 :: rest)) eqn:E; [|discriminate].
  intro H. inversion H; subst q. exists f0, rest. split; [reflexivity|]. split; [reflexivity|].
  apply andb_true_iff in E as [E1 _]. rewrite forallb_forall in E1. apply Forall_forall.
  intros g Hg. apply Nat.eqb_eq. apply E1. exact Hg.
Qed.

Lemma map2_combine {A B C} (f : A -> B -> C) : forall la lb, map2 f la lb = map (fun ab => f (fst ab) (snd ab)) (combine la lb).
Proof. induction la as [|a la IH]; intros [|b lb]; cbn [map2 combine map]; try reflexivity. f_equal. apply IH. Qed.

Theorem project_t_ok : forall t p q,
  wfb p = true -> project_t t p = Ok q ->
  logical q = map (project_val t) (logical p) /\ plen q = plen p.
Proof.
  induction t as [k | sch IH | lg t IH | sz t IH] using dtype_ind'; intros p q W H;
    try (cbn [project_t] in H; inversion H; subst q; split; [|reflexivity];
         rewrite <- (map_id (logical p)) at 1; apply map_ext; intro v; reflexivity).
  cbn [project_t] in H. destruct p as [| len fs nl | |]; try discriminate.
  destruct sch as [|d0 sch'].
  { inversion H; subst q. split; [|reflexivity]. cbn [logical map].
    rewrite map_map. apply map_ext. intro i. destruct (valid nl i); reflexivity. }
  set (sch := d0 :: sch') in *.
  apply obind_ok in H as (cols & Hcols & Hnew).
  apply omap_ok in Hcols.
  unfold struct_try_new_typed in Hnew.
  match type of Hnew with (if ?c then _ else _) = _ => destruct c eqn:Ety end; [|discriminate].
  apply struct_try_new_ok in Hnew as (f0 & rest & Hfs & Hq & Hlens).
  apply wfb_struct in W. rewrite Forall_forall in W.
  (* every produced column has the length of the struct and the projected rows *)
  assert (Hcol : Forall2 (fun (d : dfield) c =>
            plen c = len /\
            forall i, i < len ->
              nth i (logical c) VNull =
              match option_map (fun f : field => nth i (logical (fcol f)) VNull) (find_field (dname d) fs) with
              | Some x => project_val (dftype d) x
              | None => VNull
              end) sch cols).
  { clear Hfs Hq Hlens Ety. revert Hcols. generalize cols. clear cols.
    induction IH as [|d sch0 IHd _ IHrest]; intros cols Hcols; inversion Hcols as [|? c ? cols' Hd Hrest]; subst; constructor.
    - unfold dname, dftype. destruct (find_field (fst (fst d)) fs) as [f|] eqn:Ef; [|discriminate].
      assert (Hin : In f fs) by (apply (find_some _ _ Ef)).
      destruct (W f Hin) as [Wl Ww]. cbn [option_map].
      destruct (snd d) as [k | sub | lg t | sz t] eqn:Et.
      + inversion Hd; subst c. split; [exact Wl|]. intros; reflexivity.
      + destruct (is_pstruct (fcol f)); [|discriminate].
        destruct (IHd (fcol f) c Ww Hd) as [Hl Hp]. unfold fcol in *.
        split; [lia|]. intros i Hi. rewrite Hl.
        rewrite <- (project_val_null (DStruct sub)) at 1. rewrite map_nth. reflexivity.
      + inversion Hd; subst c. split; [exact Wl|]. intros; reflexivity.
      + inversion Hd; subst c. split; [exact Wl|]. intros; reflexivity.
    - apply IHrest. exact Hrest. }
  subst q.
  assert (Hlen0 : plen (fcol f0) = len).
  { unfold sch in Hfs, Hcol. destruct cols as [|c cols']; [inversion Hcol|].
    cbn [map2] in Hfs. injection Hfs as Hf0 _. subst f0. cbn [fcol snd].
    inversion Hcol as [|? ? ? ? Hhead Htail]; subst. destruct Hhead as [Hc _]. exact Hc. }
  rewrite Hlen0. split; [|reflexivity].
  cbn [logical]. rewrite map_map. apply map_ext_in. intros i Hi. apply in_seq in Hi.
  rewrite valid_drop_empty by lia.
  destruct (valid nl i) eqn:V; [|reflexivity]. cbn [project_val]. f_equal.
  rewrite !map_map.
  change (fun x : N * bool * parr => (fst (fst x), nth i (logical (snd x)) VNull))
    with (fun f : field => (fname f, nth i (logical (fcol f)) VNull)).
  clear Hfs Hlens Ety Hlen0 IH Hcols.
  induction Hcol as [|d c sch0 cols0 [Hc1 Hc2] _ IHc]; [reflexivity|].
  cbn [map2 map fst snd]. f_equal.
  - f_equal. rewrite (Hc2 i ltac:(lia)). rewrite vassoc_fields. reflexivity.
  - apply IHc.
Qed.

Theorem project_ok : forall p sch q,
  wfb p = true -> project p sch = Ok q ->
  logical q = map (project_val (DStruct sch)) (logical p) /\ plen q = plen p.
Proof. intros p sch q. apply project_t_ok. Qed.

(* ================================================================== part 7 *)

(* ------------------------------------------------------------------ JSON columns *)
Section JsonProofs.
  Variable enc : list N -> option (list N).
  Variable dec : list N -> list N.
  Variable canon : list N -> list N.     (* the canonical text of a document *)
  Hypothesis roundtrip : forall s b, enc s = Some b -> dec b = canon s.

  Theorem json_roundtrip : forall col col',
    json_to_jsonb enc col = Ok col' ->
    jsonb_to_json dec col' = map (option_map canon) col /\ length col' = length col.
  Proof.
    induction col as [|o col IH]; intros col' H; cbn [json_to_jsonb omap] in H.
    - inversion H. split; reflexivity.
    - fold (json_to_jsonb enc col) in H.
      destruct o as [s|].
      + destruct (enc s) as [b|] eqn:E; cbn [obind] in H; [|discriminate].
        destruct (json_to_jsonb enc col) as [c| |] eqn:E2; cbn [obind] in H; try discriminate.
        inversion H; subst col'. destruct (IH c eq_refl) as [I1 I2].
        cbn [jsonb_to_json map option_map length]. fold (jsonb_to_json dec c).
        rewrite I1, I2, (roundtrip s b E). split; reflexivity.
      + cbn [obind] in H.
        destruct (json_to_jsonb enc col) as [c| |] eqn:E2; cbn [obind] in H; try discriminate.
        inversion H; subst col'. destruct (IH c eq_refl) as [I1 I2].
        cbn [jsonb_to_json map option_map length]. fold (jsonb_to_json dec c).
        rewrite I1, I2. split; reflexivity.
  Qed.

  Theorem json_to_jsonb_total : forall col,
    json_to_jsonb enc col <> Panic /\
    (json_to_jsonb enc col = Err <-> exists s, In (Some s) col /\ enc s = None).
  Proof.
    induction col as [|o col [IH1 IH2]]; cbn [json_to_jsonb omap].
    - split; [discriminate|]. split; [discriminate | intros (s & [] & _)].
    - fold (json_to_jsonb enc col). destruct o as [s|].
      + destruct (enc s) as [b|] eqn:E; cbn [obind].
        * destruct (json_to_jsonb enc col) as [c| |] eqn:E2; cbn [obind].
          -- split; [discriminate|]. split; [discriminate|].
             intros (s' & [Hs|Hs] & He); [inversion Hs; subst; congruence|].
             assert (X : @Err (list (option (list N))) = Err) by reflexivity.
             destruct IH2 as [_ IH2]. specialize (IH2 (ex_intro _ s' (conj Hs He))). discriminate.
          -- split; [discriminate|]. split; [|reflexivity]. intros _.
             destruct IH2 as [IH2 _]. destruct (IH2 eq_refl) as (s' & Hs & He). exists s'. split; [right; exact Hs | exact He].
          -- exfalso. apply IH1. reflexivity.
        * split; [discriminate|]. split; [|reflexivity]. intros _. exists s. split; [left; reflexivity | exact E].
      + cbn [obind]. destruct (json_to_jsonb enc col) as [c| |] eqn:E2; cbn [obind].
        * split; [discriminate|]. split; [discriminate|].
          intros (s' & [Hs|Hs] & He); [discriminate|].
          destruct IH2 as [_ IH2]. specialize (IH2 (ex_intro _ s' (conj Hs He))). discriminate.
        * split; [discriminate|]. split; [|reflexivity]. intros _.
          destruct IH2 as [IH2 _]. destruct (IH2 eq_refl) as (s' & Hs & He). exists s'. split; [right; exact Hs | exact He].
        * exfalso. apply IH1. reflexivity.
  Qed.

  (* path extraction: row i of the result is the selector applied to row i (null document or null path -> null) *)
  Variable select : list N -> list N -> outcome (option (list N)).
  Theorem json_extract_rows : forall col paths out,
    json_extract_udf select col paths = Ok out ->
    length out = length col /\
    forall i, i < length col ->
      match nth i col None, path_at paths i with
      | Some b, Some p => select b p = Ok (nth i out None)
      | _, _ => nth i out None = None
      end.
  Proof.
    intros col paths out H. unfold json_extract_udf in H. apply omap_ok in H.
    assert (G : forall (l : list (nat * option (list N))) out,
              Forall2 (fun io b => match snd io with
                                   | None => Ok None
                                   | Some b0 => match path_at paths (fst io) with Some p => select b0 p | None => Ok None end
                                   end = Ok b) l out ->
              length out = length l /\
              forall k, k < length l ->
                match snd (nth k l (0, None)), path_at paths (fst (nth k l (0, None))) with
                | Some b, Some p => select b p = Ok (nth k out None)
                | _, _ => nth k out None = None
                end).
    { induction 1 as [|io b l out' Hh Ht IHt]; [split; [reflexivity | cbn; intros; lia]|].
      destruct IHt as [L1 L2]. split; [cbn [length]; lia|].
      intros [|k] Hk; cbn [nth length] in *.
      - destruct (snd io) as [b0|]; [destruct (path_at paths (fst io))|]; try exact Hh; inversion Hh; reflexivity.
      - apply L2. lia. }
    destruct (G _ _ H) as [L1 L2]. rewrite combine_length, seq_length, Nat.min_id in L1.
    split; [exact L1|]. intros i Hi.
    specialize (L2 i). rewrite combine_length, seq_length, Nat.min_id in L2. specialize (L2 Hi).
    rewrite (combine_nth (seq 0 (length col)) col i 0 None) in L2 by (rewrite seq_length; reflexivity).
    cbn [fst snd] in L2. rewrite seq_nth in L2 by exact Hi. exact L2.
  Qed.
End JsonProofs.

(* the hypotheses are satisfiable: the identity codec *)
Example json_nonvacuous :
  json_to_jsonb (fun s => match s with [] => None | _ => Some s end) [Some [1%N]; None; Some [2%N; 3%N]]
  = Ok [Some [1%N]; None; Some [2%N; 3%N]]
  /\ json_to_jsonb (fun s => match s with [] => None | _ => Some s end) [Some [1%N]; Some []] = Err.
Proof. split; reflexivity. Qed.

(* ------------------------------------------------------------------ merge_struct_validity outside the two classes *)
Lemma filter_length_le {A} (f : A -> bool) (l : list A) : length (filter f l) <= length l.
Proof. induction l as [|x l IH]; [reflexivity|]. cbn [filter]. destruct (f x); cbn [length]; lia. Qed.

Lemma count_nulls_all nl n : count_nulls nl n = n -> forall i, i < n -> valid nl i = false.
Proof.
  unfold count_nulls, validity. intros H i Hi.
  destruct (valid nl i) eqn:E; [|reflexivity]. exfalso.
  assert (G : forall l, In i l -> length (filter negb (map (valid nl) l)) < length l).
  { induction l as [|x l IH]; intro Hin; [destruct Hin|]. cbn [map filter length].
    destruct Hin as [->|Hin].
    - rewrite E. cbn [negb]. pose proof (filter_length_le negb (map (valid nl) l)) as F.
      rewrite map_length in F. lia.
    - specialize (IH Hin). destruct (negb (valid nl x)); cbn [length]; lia. }
  assert (L := G (seq 0 n) ltac:(apply in_seq; lia)).
  rewrite seq_length in L. lia.
Qed.

Lemma count_nulls_none n : count_nulls None n = 0.
Proof.
  unfold count_nulls, validity. generalize (seq 0 n) as l.
  induction l as [|x l IH]; [reflexivity|]. cbn [map valid filter negb]. exact IH.
Qed.

Lemma count_nulls_le nl n : count_nulls nl n <= n.
Proof.
  unfold count_nulls. pose proof (filter_length_le negb (validity nl n)) as F.
  rewrite validity_length in F. exact F.
Qed.

Lemma normalize_validity_cases nl n :
  (normalize_validity nl n = None /\ (nl = None \/ count_nulls nl n = n)) \/
  (exists v, normalize_validity nl n = Some v /\ nl = Some v /\ count_nulls nl n <> n).
Proof.
  unfold normalize_validity. destruct nl as [v|]; [|left; split; [reflexivity | left; reflexivity]].
  destruct (Nat.eqb (count_nulls (Some v) n) n) eqn:E.
  - left. split; [reflexivity|]. right. apply Nat.eqb_eq. exact E.
  - right. exists v. repeat split. apply Nat.eqb_neq. exact E.
Qed.

Theorem merge_struct_validity_ok l r n :
  one_sided_nulls l r n = false -> both_all_null l r n = false ->
  exists mv, merge_struct_validity l n r n = Ok mv /\
             forall i, i < n -> valid mv i = valid l i || valid r i.
Proof.
  intros HA HB. unfold merge_struct_validity.
  unfold one_sided_nulls in HA. unfold both_all_null in HB.
  pose proof (count_nulls_le l n) as Ll. pose proof (count_nulls_le r n) as Lr.
  destruct (normalize_validity_cases l n) as [[El Hl] | (a & El & Hla & Hl)];
  destruct (normalize_validity_cases r n) as [[Er Hr] | (b & Er & Hrb & Hr)]; rewrite El, Er.
  - exists None. split; [reflexivity|]. intros i Hi. change (valid None i) with true.
    destruct Hl as [->|Hl]; [reflexivity|].
    destruct Hr as [->|Hr]; [change (valid None i) with true; rewrite orb_true_r; reflexivity|].
    exfalso. lia.
  - exists (Some b). split; [reflexivity|]. intros i Hi.
    destruct Hl as [->|Hl].
    + change (valid None i) with true. cbn [orb]. rewrite count_nulls_none in HA.
      subst r. destruct (Nat.eq_dec (count_nulls (Some b) n) 0) as [Z|Z].
      * apply (count_nulls_zero _ _ Z i Hi).
      * exfalso. lia.
    + rewrite (count_nulls_all l n Hl i Hi). cbn [orb]. subst r. reflexivity.
  - exists (Some a). split; [reflexivity|]. intros i Hi.
    destruct Hr as [->|Hr].
    + change (valid None i) with true. rewrite orb_true_r. rewrite count_nulls_none in HA.
      subst l. destruct (Nat.eq_dec (count_nulls (Some a) n) 0) as [Z|Z].
      * apply (count_nulls_zero _ _ Z i Hi).
      * exfalso. lia.
    + rewrite (count_nulls_all r n Hr i Hi), orb_false_r. subst l. reflexivity.
  - subst l r.
    destruct (Nat.eqb (count_nulls (Some a) n) 0 && Nat.eqb (count_nulls (Some b) n) 0) eqn:E0.
    + exists (Some a). split; [reflexivity|]. intros i Hi.
      apply andb_true_iff in E0 as [Za Zb]. apply Nat.eqb_eq in Za.
      rewrite (count_nulls_zero _ _ Za i Hi). reflexivity.
    + rewrite Nat.eqb_refl.
      exists (Some (fresh (map2 orb (validity (Some a) n) (validity (Some b) n)))). split; [reflexivity|].
      intros i Hi. rewrite valid_fresh.
      rewrite (nth_map2 orb true true false) by (rewrite validity_length; exact Hi).
      rewrite !nth_validity by exact Hi. reflexivity.
Qed.

(* ------------------------------------------------------------------ adjust_child_validity when the offsets agree *)
Theorem adjust_child_validity_ok child parent n a :
  plen child = n ->
  validity_offset_dropped child parent n = false ->
  adjust_child_validity child parent n = Ok a ->
  plen a = n /\ ptype a = ptype child /\
  forall i, i < n -> nth i (logical a) VNull = if valid parent i then nth i (logical child) VNull else VNull.
Proof.
  intros Hn HO H. unfold adjust_child_validity in H. unfold validity_offset_dropped in HO.
  destruct parent as [pv|].
  2:{ inversion H; subst a. repeat split; auto. }
  destruct (Nat.eqb (count_nulls (Some pv) n) 0) eqn:Ez.
  { inversion H; subst a. repeat split; auto. intros i Hi.
    apply Nat.eqb_eq in Ez. rewrite (count_nulls_zero _ _ Ez i Hi). reflexivity. }
  cbn [negb andb] in HO.
  match type of H with (if ?c then _ else _) = _ => destruct c eqn:Eb end; [|discriminate].
  inversion H; subst a. clear H.
  rewrite plen_set_nulls, ptype_set_nulls. repeat split; auto.
  intros i Hi. rewrite nth_logical_set_nulls by lia. rewrite nth_logical by lia.
  destruct (pnulls child) as [cv|] eqn:Ec.
  - apply negb_false_iff, Nat.eqb_eq in HO. rewrite HO.
    unfold valid at 1, bit. cbn [fst snd Nat.add]. rewrite Hn.
    rewrite pad8_nth_any.
    rewrite (nth_map2 andb true true false) by (rewrite validity_length; exact Hi).
    rewrite !nth_validity by exact Hi.
    destruct (valid (Some cv) i), (valid (Some pv) i); reflexivity.
  - apply negb_false_iff, Nat.eqb_eq in HO. rewrite HO.
    change (valid None i) with true.
    unfold valid at 1, bit. cbn [fst snd]. unfold valid, bit. reflexivity.
Qed.

(* ================================================================== part 8 *)

(* ------------------------------------------------------------------ the merge property and the witnesses of the known classes *)
Definition merge_correct (l r : parr) : Prop :=
  exists m, batch_merge l r = Ok m /\ merge_rows_ok l r m = true.
Definition merge_with_schema_correct_on (l r : parr) (sch : list dfield) (rows : list lval) : Prop :=
  exists m, batch_merge_with_schema l r sch = Ok m /\ rows_eqb (logical m) rows = true.

Local Notation bits8 a b c d := ([a; b; c; d; false; false; false; false], 0).
Local Notation i32 vals nl := (PLeaf 0%N 0 vals nl).
Local Notation batch1 n col := (PStruct n [(2%N, true, col)] None).

(* left struct {a} validity [1,0,1]; right struct {b} without validity *)
Definition w_one_sided_l := batch1 3 (PStruct 3 [(0%N, true, i32 [VI 1; VI 2; VI 3]%Z None)] (Some (bits8 true false true false))).
Definition w_one_sided_r := batch1 3 (PStruct 3 [(1%N, true, i32 [VI 10; VI 20; VI 30]%Z None)] None).
Lemma one_sided_nulls_refuted :
  exists l r, wfb l = true /\ wfb r = true /\ Known_C40_one_sided_nulls l r = true /\ ~ merge_correct l r.
Proof.
  exists w_one_sided_l, w_one_sided_r. repeat split; try reflexivity.
  intros (m & H & E). vm_compute in H. inversion H; subst m. vm_compute in E. discriminate.
Qed.

Definition w_both_null_l := batch1 2 (PStruct 2 [(0%N, true, i32 [VI 1; VI 2]%Z None)] (Some (bits8 false false false false))).
Definition w_both_null_r := batch1 2 (PStruct 2 [(1%N, true, i32 [VI 10; VI 20]%Z None)] (Some (bits8 false false false false))).
Lemma both_all_null_refuted :
  exists l r, wfb l = true /\ wfb r = true /\ Known_C40_both_all_null l r = true /\ ~ merge_correct l r.
Proof.
  exists w_both_null_l, w_both_null_r. repeat split; try reflexivity.
  intros (m & H & E). vm_compute in H. inversion H; subst m. vm_compute in E. discriminate.
Qed.

(* struct{a:[1..6]} validity [1,1,1,0,1,0] sliced (3,3): bit offset 3 *)
Definition w_offset_l := batch1 3 (PStruct 3 [(0%N, true, i32 [VI 4; VI 5; VI 6]%Z None)]
                                     (Some ([true; true; true; false; true; false; false; false], 3))).
Definition w_offset_r := batch1 3 (PStruct 3 [(1%N, true, i32 [VI 10; VI 20; VI 30]%Z None)] (Some (bits8 true false true false))).
Lemma validity_offset_dropped_refuted :
  exists l r, wfb l = true /\ wfb r = true /\ Known_C40_validity_offset_dropped l r = true /\ ~ merge_correct l r.
Proof.
  exists w_offset_l, w_offset_r. repeat split; try reflexivity.
  intros (m & H & E). vm_compute in H. inversion H; subst m. vm_compute in E. discriminate.
Qed.

(* left c null in row 0 with a physically valid nested struct d there *)
Definition w_leak_l := batch1 2 (PStruct 2 [(3%N, true, PStruct 2 [(0%N, true, i32 [VI 7; VI 8]%Z None)] None)] (Some (bits8 false true false false))).
Definition w_leak_r := batch1 2 (PStruct 2 [(3%N, true, PStruct 2 [(1%N, true, i32 [VI 1; VI 2]%Z None)] None)] (Some (bits8 true false false false))).
Lemma masked_values_leak_refuted :
  exists l r, wfb l = true /\ wfb r = true /\ Known_C40_masked_values_leak l r = true /\ ~ merge_correct l r.
Proof.
  exists w_leak_l, w_leak_r. repeat split; try reflexivity.
  intros (m & H & E). vm_compute in H. inversion H; subst m. vm_compute in E. discriminate.
Qed.

(* the same List<Struct{a}> column on both sides: the output has the column twice *)
Definition w_dup := batch1 2 (PList false [0; 2; 3]%Z (PStruct 3 [(0%N, true, i32 [VI 1; VI 2; VI 3]%Z None)] None) None).
Lemma list_struct_duplicate_column_refuted :
  exists l r, wfb l = true /\ wfb r = true /\ Known_C40_list_struct_duplicate_column l r = true /\
              exists m, batch_merge l r = Ok m /\ length (pfields m) = 2 /\ length (pfields l) = 1 /\ ptype l = ptype r.
Proof.
  exists w_dup, w_dup. repeat split; try reflexivity.
  eexists. split; [vm_compute; reflexivity|]. repeat split; reflexivity.
Qed.

(* non-nullable child a under a struct that is null in row 1 while the right side is valid there *)
Definition w_nonnull_l := batch1 3 (PStruct 3 [(0%N, false, i32 [VI 1; VI 2; VI 3]%Z None)] (Some (bits8 true false true false))).
Definition w_nonnull_r := batch1 3 (PStruct 3 [(1%N, true, i32 [VI 10; VI 20; VI 30]%Z None)] (Some (bits8 false true true false))).
Lemma nonnullable_child_panics_refuted :
  exists l r, wfb l = true /\ wfb r = true /\ Known_C40_nonnullable_child_panics l r = true /\ batch_merge l r = Panic.
Proof. exists w_nonnull_l, w_nonnull_r. repeat split; reflexivity. Qed.

(* merge_with_schema: list<struct{a}> + list<struct{b}> [[x],[y,z],[w]] sliced (1,2) *)
Definition w_rebase_l := batch1 2 (PList false [1; 3; 4]%Z (PStruct 4 [(0%N, true, i32 [VI 1; VI 2; VI 3; VI 4]%Z None)] None) None).
Definition w_rebase_r := batch1 2 (PList false [1; 3; 4]%Z (PStruct 4 [(1%N, true, i32 [VI 10; VI 20; VI 30; VI 40]%Z None)] None) None).
Definition w_rebase_sch : list dfield :=
  [(2%N, true, DList false (DStruct [(0%N, true, DLeaf 0); (1%N, true, DLeaf 0)]))].
Lemma list_offsets_not_rebased_refuted :
  exists l r sch, wfb l = true /\ wfb r = true /\ Known_C40_list_offsets_not_rebased l r = true /\
                  batch_merge_with_schema l r sch = Panic.
Proof. exists w_rebase_l, w_rebase_r, w_rebase_sch. repeat split; reflexivity. Qed.

(* merge_with_schema: left [[{a:1}]], right an entirely null list with an empty child *)
Definition w_listval_l := batch1 1 (PList false [0; 1]%Z (PStruct 1 [(0%N, true, i32 [VI 1]%Z None)] None) None).
Definition w_listval_r := batch1 1 (PList false [0; 0]%Z (PStruct 0 [(1%N, true, i32 [] None)] None) (Some (bits8 false false false false))).
Lemma list_validity_differs_refuted :
  exists l r sch, wfb l = true /\ wfb r = true /\ Known_C40_list_validity_differs l r = true /\
                  batch_merge_with_schema l r sch = Panic.
Proof. exists w_listval_l, w_listval_r, w_rebase_sch. repeat split; reflexivity. Qed.

(* non-vacuity of the clean domain: lib.rs test_merge_struct_with_different_validity *)
Definition w_clean_l := batch1 4 (PStruct 4 [(0%N, true, i32 [VI 500; VI 0; VI 600; VI 0]%Z (Some (bits8 true false true false)))]
                                   (Some (bits8 true false true false))).
Definition w_clean_r := batch1 4 (PStruct 4 [(1%N, true, i32 [VI 300; VI 200; VI 0; VI 0]%Z (Some (bits8 true true false false)))]
                                   (Some (bits8 true true false false))).
Example merge_clean_nonvacuous :
  wfb w_clean_l = true /\ wfb w_clean_r = true /\ merge_clean w_clean_l w_clean_r = true /\
  omap_out logical (batch_merge w_clean_l w_clean_r) =
  Ok [VStruct [(2%N, VStruct [(0%N, VLeaf (VI 500)); (1%N, VLeaf (VI 300))])];
      VStruct [(2%N, VStruct [(0%N, VNull); (1%N, VLeaf (VI 200))])];
      VStruct [(2%N, VStruct [(0%N, VLeaf (VI 600)); (1%N, VNull)])];
      VStruct [(2%N, VNull)]]%Z
  /\ merge_correct w_clean_l w_clean_r.
Proof.
  repeat split; try reflexivity. eexists. split; [vm_compute; reflexivity | vm_compute; reflexivity].
Qed.

(* merge_with_schema on the unit-test input of lib.rs (test_merge_list_struct shape), offsets starting at 0 *)
Definition w_mws_l := batch1 2 (PList false [0; 2; 3]%Z (PStruct 3 [(0%N, true, i32 [VI 1; VI 2; VI 3]%Z None)] None) None).
Definition w_mws_r := batch1 2 (PList false [0; 2; 3]%Z (PStruct 3 [(1%N, true, i32 [VI 10; VI 20; VI 30]%Z None)] None) None).
Example merge_with_schema_example :
  merge_with_schema_correct_on w_mws_l w_mws_r w_rebase_sch
    [VStruct [(2%N, VList [VStruct [(0%N, VLeaf (VI 1)); (1%N, VLeaf (VI 10))]; VStruct [(0%N, VLeaf (VI 2)); (1%N, VLeaf (VI 20))]])];
     VStruct [(2%N, VList [VStruct [(0%N, VLeaf (VI 3)); (1%N, VLeaf (VI 30))]])]]%Z.
Proof. eexists. split; [vm_compute; reflexivity | vm_compute; reflexivity]. Qed.

(* ================================================================== part 9: the whole merge *)

(* ------------------------------------------------------------------ the whole merge, row by row *)
Definition dflt : dfield := (0%N, true, DLeaf 0).

(* the left part of a merged row (named version of the inner loop of merge_val) *)
Fixpoint mfields (rfs : list dfield) (lv rv : lval) (k : nat) (fs : list dfield) : list (N * lval) :=
  match fs with
  | [] => []
  | f :: fs' =>
      (fst (fst f),
       match dindex (fst (fst f)) rfs with
       | Some j =>
           match snd f with
           | DStruct _ =>
               if is_dstruct (dftype (nth j rfs dflt))
               then merge_val (snd f) (dftype (nth j rfs dflt)) (vchild lv k) (vchild rv j)
               else vchild lv k
           | _ => vchild lv k
           end
       | None => vchild lv k
       end) :: mfields rfs lv rv (S k) fs'
  end.
Definition rfields (lfs rfs : list dfield) (rv : lval) : list (N * lval) :=
  map (fun jf : nat * dfield => (dname (snd jf), vchild rv (fst jf)))
      (filter (fun jf : nat * dfield => negb (existsb (fun f => N.eqb (dname f) (dname (snd jf))) lfs))
              (combine (seq 0 (length rfs)) rfs)).

Lemma merge_val_struct lfs tr lv rv :
  merge_val (DStruct lfs) tr lv rv =
  match lv, rv with
  | VNull, VNull => VNull
  | _, _ => VStruct (mfields (dfields tr) lv rv 0 lfs ++ rfields lfs (dfields tr) rv)
  end.
Proof.
  assert (G : forall k fs,
    (fix go (k : nat) (fs : list dfield) : list (N * lval) :=
       match fs with
       | [] => []
       | f :: fs' =>
           (fst (fst f),
            match dindex (fst (fst f)) (dfields tr) with
            | Some j =>
                match snd f with
                | DStruct _ =>
                    if is_dstruct (dftype (nth j (dfields tr) (0%N, true, DLeaf 0)))
                    then merge_val (snd f) (dftype (nth j (dfields tr) (0%N, true, DLeaf 0))) (vchild lv k) (vchild rv j)
                    else vchild lv k
                | _ => vchild lv k
                end
            | None => vchild lv k
            end) :: go (S k) fs'
       end) k fs = mfields (dfields tr) lv rv k fs).
  { intros k fs. revert k. induction fs as [|f fs IH]; intro k; [reflexivity|].
    cbn [mfields]. rewrite <- IH. reflexivity. }
  destruct lv, rv; cbn [merge_val]; try reflexivity; unfold rfields; rewrite G; reflexivity.
Qed.

Definition ftypes (fs : list field) : list dfield := map (fun f : field => (fname f, fnullable f, ptype (fcol f))) fs.
Lemma ptype_struct n fs nl : ptype (PStruct n fs nl) = DStruct (ftypes fs).
Proof. reflexivity. Qed.

Definition dummy_field : field := (0%N, true, PLeaf 0 0 [] None).

Lemma dindex_find nm (rfs : list field) :
  match find_field nm rfs with
  | Some rf => exists j, dindex nm (ftypes rfs) = Some j /\ j < length rfs /\ nth j rfs dummy_field = rf
  | None => dindex nm (ftypes rfs) = None
  end.
Proof.
  unfold find_field. induction rfs as [|f rfs IH]; [reflexivity|].
  cbn [find ftypes map dindex].
  change (dname (fname f, fnullable f, ptype (fcol f))) with (fname f).
  destruct (N.eqb (fname f) nm) eqn:E.
  - exists 0. repeat split; cbn [length]; lia.
  - fold (ftypes rfs). destruct (find (fun f0 : field => N.eqb (fname f0) nm) rfs) as [rf|].
    + destruct IH as (j & Hj & Hl & Hn). exists (S j). rewrite Hj. repeat split; cbn [length nth option_map]; try lia. exact Hn.
    + rewrite IH. reflexivity.
Qed.

Lemma nth_ftypes j fs : j < length fs ->
  nth j (ftypes fs) dflt = (fname (nth j fs dummy_field), fnullable (nth j fs dummy_field), ptype (fcol (nth j fs dummy_field))).
Proof.
  intro H. unfold ftypes.
  set (g := fun f : field => (fname f, fnullable f, ptype (fcol f))).
  rewrite (nth_indep _ dflt (g dummy_field)) by (rewrite map_length; exact H).
  rewrite map_nth. reflexivity.
Qed.

Lemma is_dstruct_ptype p : is_dstruct (ptype p) = is_pstruct p.
Proof. destruct p; reflexivity. Qed.

(* row i of a struct and its children *)
Definition srow (fs : list field) (nl : option bitview) (i : nat) : lval :=
  if valid nl i then VStruct (map (fun f : field => (fname f, nth i (logical (fcol f)) VNull)) fs) else VNull.

Lemma nth_logical_struct n fs nl i : i < n -> nth i (logical (PStruct n fs nl)) VNull = srow fs nl i.
Proof. intro H. rewrite nth_logical by exact H. reflexivity. Qed.

Lemma vchild_srow fs nl i k : k < length fs ->
  vchild (srow fs nl i) k = if valid nl i then nth i (logical (fcol (nth k fs dummy_field))) VNull else VNull.
Proof.
  intro H. unfold srow. destruct (valid nl i); [|reflexivity]. cbn [vchild]. rewrite map_map. cbn [snd].
  set (g := fun f : field => nth i (logical (fcol f)) VNull).
  rewrite (nth_indep _ VNull (g dummy_field)) by (rewrite map_length; exact H).
  rewrite map_nth. reflexivity.
Qed.

Lemma leak_false child parent n i :
  masked_values_leak child parent n = false -> i < n -> plen child = n -> valid parent i = false ->
  nth i (logical child) VNull = VNull.
Proof.
  intros H Hi Hn Hv. unfold masked_values_leak in H.
  rewrite nth_logical by lia.
  destruct (valid (pnulls child) i) eqn:E; [|reflexivity]. exfalso.
  assert (X : existsb (fun i0 : nat => negb (valid parent i0) && valid (pnulls child) i0) (seq 0 n) = true).
  { apply existsb_exists. exists i. split; [apply in_seq; lia|]. rewrite Hv, E. reflexivity. }
  congruence.
Qed.

Lemma adjust_entry (c0 : parr) (parent : option bitview) n (nm : N) (nb : bool) (cols1 : list field) :
  validity_offset_dropped c0 parent n = false -> plen c0 = n ->
  obind (adjust_child_validity c0 parent n) (fun a => Ok [(nm, nb, a)]) = Ok cols1 ->
  exists c : parr, cols1 = [(nm, nb, c)] /\ plen c = n /\
    forall i, i < n -> nth i (logical c) VNull = if valid parent i then nth i (logical c0) VNull else VNull.
Proof.
  intros HO Hn H. apply obind_ok in H as (a & Ha & Hc). inversion Hc; subst cols1.
  destruct (adjust_child_validity_ok c0 parent n a Hn HO Ha) as (P1 & _ & P3).
  exists a. repeat split; auto.
Qed.

Section MergeStep.
  Variables (n : nat) (lfs rfs : list field) (lnl rnl : option bitview).
  Hypothesis Wl : Forall (fun f : field => plen (snd f) = n /\ wfb (snd f) = true) lfs.
  Hypothesis Wr : Forall (fun f : field => plen (snd f) = n /\ wfb (snd f) = true) rfs.
  Hypothesis IH : Forall (fun f : field => forall r m,
      wfb (snd f) = true -> wfb r = true -> merge_clean (snd f) r = true -> merge (snd f) r = Ok m ->
      plen m = plen (snd f) /\
      logical m = map2 (merge_val (ptype (snd f)) (ptype r)) (logical (snd f)) (logical r)) lfs.

  Definition Fl (lf : field) : outcome (list field) :=
    match find_field (fst (fst lf)) rfs with
    | Some rf =>
        match snd lf with
        | PStruct _ _ _ =>
            if is_pstruct (fcol rf)
            then obind (merge (snd lf) (fcol rf)) (fun m => Ok [(fst (fst lf), snd (fst lf), m)])
            else obind (adjust_child_validity (snd lf) lnl n) (fun a => Ok [(fst (fst lf), snd (fst lf), a)])
        | PList false _ lv _ =>
            if is_pstruct lv && is_list_of_struct (fcol rf)
            then
              obind (merge_list_struct (snd lf) (fcol rf) (merge lv (pvalues (fcol rf)))) (fun m =>
              Ok ((if dtype_eqb (ptype lv) (ptype (pvalues (fcol rf))) then [lf] else [])
                  ++ [(fst (fst lf), snd (fst lf), m)]))
            else obind (adjust_child_validity (snd lf) lnl n) (fun a => Ok [(fst (fst lf), snd (fst lf), a)])
        | _ => obind (adjust_child_validity (snd lf) lnl n) (fun a => Ok [(fst (fst lf), snd (fst lf), a)])
        end
    | None => obind (adjust_child_validity (snd lf) lnl n) (fun a => Ok [(fst (fst lf), snd (fst lf), a)])
    end.

  Definition cleanl (lf : field) : bool :=
    match find_field (fst (fst lf)) rfs with
    | Some rf =>
        match snd lf with
        | PStruct _ _ _ =>
            if is_pstruct (fcol rf)
            then negb (masked_values_leak (snd lf) lnl n) && negb (masked_values_leak (fcol rf) rnl n)
                 && merge_clean (snd lf) (fcol rf)
            else negb (validity_offset_dropped (snd lf) lnl n)
        | PList false _ lv _ =>
            negb (is_pstruct lv && is_list_of_struct (fcol rf))
            && negb (validity_offset_dropped (snd lf) lnl n)
        | _ => negb (validity_offset_dropped (snd lf) lnl n)
        end
    | None => negb (validity_offset_dropped (snd lf) lnl n)
    end.

  (* one left column *)
  Lemma left_entry : forall pre lf post cols1,
    lfs = pre ++ lf :: post -> cleanl lf = true -> Fl lf = Ok cols1 ->
    exists c : parr, cols1 = [(fname lf, fnullable lf, c)] /\ plen c = n /\
      forall i, i < n ->
        (fname lf, nth i (logical c) VNull) =
        hd (0%N, VNull) (mfields (ftypes rfs) (srow lfs lnl i) (srow rfs rnl i) (length pre) (ftypes [lf])).
  Proof.
    intros pre lf post cols1 Hlfs Hc HF.
    assert (Hin : In lf lfs) by (rewrite Hlfs; apply in_or_app; right; left; reflexivity).
    rewrite Forall_forall in Wl, Wr, IH. destruct (Wl lf Hin) as [Wl1 Wl2].
    assert (Hk : length pre < length lfs) by (rewrite Hlfs, app_length; cbn [length]; lia).
    assert (Hnth : nth (length pre) lfs dummy_field = lf) by (rewrite Hlfs, app_nth2, Nat.sub_diag by lia; reflexivity).
    assert (Hv : forall i, vchild (srow lfs lnl i) (length pre) = if valid lnl i then nth i (logical (snd lf)) VNull else VNull).
    { intro i. rewrite vchild_srow by exact Hk. rewrite Hnth. reflexivity. }
    (* the adjust branch, shared by most cases *)
    assert (Adj : forall (X : dtype -> lval -> lval),
              validity_offset_dropped (snd lf) lnl n = false ->
              obind (adjust_child_validity (snd lf) lnl n) (fun a => Ok [(fst (fst lf), snd (fst lf), a)]) = Ok cols1 ->
              exists c : parr, cols1 = [(fname lf, fnullable lf, c)] /\ plen c = n /\
                forall i, i < n -> nth i (logical c) VNull = vchild (srow lfs lnl i) (length pre)).
    { intros _ HO H. destruct (adjust_entry _ _ _ _ _ _ HO Wl1 H) as (c & E1 & E2 & E3).
      exists c. repeat split; auto. intros i Hi. rewrite Hv. apply E3. exact Hi. }
    unfold Fl in HF. unfold cleanl in Hc. cbn [ftypes map mfields hd].
    change (fst (fst (fname lf, fnullable lf, ptype (fcol lf)))) with (fname lf).
    change (snd (fname lf, fnullable lf, ptype (fcol lf))) with (ptype (snd lf)).
    change (fst (fst lf)) with (fname lf) in *. change (snd (fst lf)) with (fnullable lf) in *.
    pose proof (dindex_find (fname lf) rfs) as DF.
    destruct (find_field (fname lf) rfs) as [rf|] eqn:Ef.
    2:{ rewrite DF. apply negb_true_iff in Hc.
        destruct (Adj (fun _ v => v) Hc HF) as (c & E1 & E2 & E3). exists c. repeat split; auto.
        intros i Hi. rewrite E3 by exact Hi. reflexivity. }
    destruct DF as (j & Hj & Hjl & Hjn). rewrite Hj.
    rewrite nth_ftypes by exact Hjl. rewrite Hjn. unfold dftype. cbn [snd]. rewrite is_dstruct_ptype.
    assert (Hinr : In rf rfs) by (apply (find_some _ _ Ef)).
    destruct (Wr rf Hinr) as [Wr1 Wr2].
    destruct (snd lf) as [k a vals nl | len fs nl | lg offs v nl | sz len v nl] eqn:El.
    - (* leaf *) apply negb_true_iff in Hc.
      destruct (Adj (fun _ v => v) Hc HF) as (c & E1 & E2 & E3). exists c. repeat split; auto.
      intros i Hi. rewrite E3 by exact Hi. reflexivity.
    - (* struct *)
      cbn [ptype]. destruct (is_pstruct (fcol rf)) eqn:Ers.
      + apply andb_true_iff in Hc as [Hc Hc3]. apply andb_true_iff in Hc as [Hc1 Hc2].
        apply negb_true_iff in Hc1. apply negb_true_iff in Hc2.
        apply obind_ok in HF as (m & Hm & Hcols). inversion Hcols; subst cols1.
        rewrite <- El in Hm, Hc3, Hc1, Wl1, Wl2, Hv.
        destruct (IH lf Hin (fcol rf) m Wl2 Wr2 Hc3 Hm) as [P1 P2].
        exists m. split; [reflexivity|]. split; [lia|]. intros i Hi. f_equal.
        rewrite P2. rewrite (nth_map2 _ VNull VNull VNull) by (rewrite logical_length by assumption; unfold fcol in *; lia).
        rewrite El. cbn [ptype]. rewrite <- El.
        f_equal.
        * rewrite Hv. destruct (valid lnl i) eqn:V; [reflexivity|].
          apply (leak_false _ _ _ _ Hc1 Hi Wl1 V).
        * assert (Hjk : vchild (srow rfs rnl i) j = if valid rnl i then nth i (logical (fcol rf)) VNull else VNull).
          { rewrite vchild_srow by exact Hjl. rewrite Hjn. reflexivity. }
          rewrite Hjk. destruct (valid rnl i) eqn:V; [reflexivity|].
          apply (leak_false _ _ _ _ Hc2 Hi Wr1 V).
      + apply negb_true_iff in Hc.
        destruct (Adj (fun _ v => v) Hc HF) as (c & E1 & E2 & E3). exists c. repeat split; auto.
        intros i Hi. rewrite E3 by exact Hi. reflexivity.
    - (* list *)
      cbn [ptype]. destruct lg.
      + apply negb_true_iff in Hc.
        destruct (Adj (fun _ v => v) Hc HF) as (c & E1 & E2 & E3). exists c. repeat split; auto.
        intros i Hi. rewrite E3 by exact Hi. reflexivity.
      + apply andb_true_iff in Hc as [Hc1 Hc2]. apply negb_true_iff in Hc1. rewrite Hc1 in HF.
        apply negb_true_iff in Hc2.
        destruct (Adj (fun _ v => v) Hc2 HF) as (c & E1 & E2 & E3). exists c. repeat split; auto.
        intros i Hi. rewrite E3 by exact Hi. reflexivity.
    - (* fixed size list *)
      apply negb_true_iff in Hc.
      destruct (Adj (fun _ v => v) Hc HF) as (c & E1 & E2 & E3). exists c. repeat split; auto.
      intros i Hi. rewrite E3 by exact Hi. reflexivity.
  Qed.
End MergeStep.

Lemma mfields_cons rfs lv rv k f fs :
  mfields rfs lv rv k (f :: fs) = hd (0%N, VNull) (mfields rfs lv rv k [f]) :: mfields rfs lv rv (S k) fs.
Proof. reflexivity. Qed.

Section MergeCols.
  Variables (n : nat) (lfs rfs : list field) (lnl rnl : option bitview).
  Hypothesis Wl : Forall (fun f : field => plen (snd f) = n /\ wfb (snd f) = true) lfs.
  Hypothesis Wr : Forall (fun f : field => plen (snd f) = n /\ wfb (snd f) = true) rfs.
  Hypothesis IH : Forall (fun f : field => forall r m,
      wfb (snd f) = true -> wfb r = true -> merge_clean (snd f) r = true -> merge (snd f) r = Ok m ->
      plen m = plen (snd f) /\
      logical m = map2 (merge_val (ptype (snd f)) (ptype r)) (logical (snd f)) (logical r)) lfs.

  Lemma left_cols : forall suffix pre colss,
    lfs = pre ++ suffix -> forallb (cleanl n rfs lnl rnl) suffix = true ->
    omap (Fl n rfs lnl) suffix = Ok colss ->
    Forall (fun g : field => plen (fcol g) = n) (concat colss) /\
    (suffix <> [] -> concat colss <> []) /\
    forall i, i < n ->
      map (fun g : field => (fname g, nth i (logical (fcol g)) VNull)) (concat colss) =
      mfields (ftypes rfs) (srow lfs lnl i) (srow rfs rnl i) (length pre) (ftypes suffix).
  Proof.
    induction suffix as [|lf suffix IHs]; intros pre colss Hlfs Hc HF.
    - cbn [omap] in HF. inversion HF; subst colss. cbn [concat]. split; [constructor|]. split; [congruence|]. reflexivity.
    - cbn [omap] in HF. apply obind_ok in HF as (cols1 & H1 & HF). apply obind_ok in HF as (colss' & H2 & HF).
      inversion HF; subst colss. clear HF.
      cbn [forallb] in Hc. apply andb_true_iff in Hc as [Hc1 Hc2].
      destruct (left_entry n lfs rfs lnl rnl Wl Wr IH pre lf suffix cols1 Hlfs Hc1 H1) as (c & E1 & E2 & E3).
      assert (Hlfs' : lfs = (pre ++ [lf]) ++ suffix) by (rewrite <- app_assoc; exact Hlfs).
      destruct (IHs (pre ++ [lf]) colss' Hlfs' Hc2 H2) as (I1 & _ & I3).
      subst cols1. cbn [concat app]. split; [constructor; [exact E2 | exact I1]|]. split; [congruence|].
      intros i Hi. cbn [map ftypes]. fold (ftypes suffix).
      change ((fname lf, fnullable lf, ptype (fcol lf)) :: ftypes suffix) with (ftypes [lf] ++ ftypes suffix).
      cbn [ftypes map app]. rewrite mfields_cons. f_equal.
      + cbn [fname fcol fst snd]. apply (E3 i Hi).
      + rewrite (I3 i Hi). rewrite app_length. cbn [length]. f_equal. lia.
  Qed.

  (* the right-only columns *)
  Definition Fr (rf : field) : outcome field :=
    obind (adjust_child_validity (fcol rf) rnl n) (fun a => Ok (fname rf, fnullable rf, a)).

  Lemma right_cols : forall suffix pre rcols,
    rfs = pre ++ suffix ->
    forallb (fun rf : field => negb (validity_offset_dropped (fcol rf) rnl n))
            (filter (fun rf => negb (has_field (fname rf) lfs)) suffix) = true ->
    omap Fr (filter (fun rf => negb (has_field (fname rf) lfs)) suffix) = Ok rcols ->
    Forall (fun g : field => plen (fcol g) = n) rcols /\
    forall i, i < n ->
      map (fun g : field => (fname g, nth i (logical (fcol g)) VNull)) rcols =
      map (fun jf : nat * dfield => (dname (snd jf), vchild (srow rfs rnl i) (fst jf)))
          (filter (fun jf : nat * dfield => negb (existsb (fun f => N.eqb (dname f) (dname (snd jf))) (ftypes lfs)))
                  (combine (seq (length pre) (length suffix)) (ftypes suffix))).
  Proof.
    assert (Hex : forall nm, existsb (fun f : dfield => N.eqb (dname f) nm) (ftypes lfs) = has_field nm lfs).
    { intro nm. unfold has_field, ftypes. induction lfs as [|f l IHl]; [reflexivity|].
      cbn [map existsb]. rewrite IHl by (inversion Wl; inversion IH; assumption). reflexivity. }
    induction suffix as [|rf suffix IHs]; intros pre rcols Hrfs Hc HF.
    - cbn [filter omap] in HF. inversion HF; subst rcols. split; [constructor | reflexivity].
    - cbn [filter length seq ftypes map combine] in *. fold (ftypes suffix).
      rewrite Hex.
      change (dname (snd (length pre, (fname rf, fnullable rf, ptype (fcol rf))))) with (fname rf).
      assert (Hrfs' : rfs = (pre ++ [rf]) ++ suffix) by (rewrite <- app_assoc; exact Hrfs).
      destruct (negb (has_field (fname rf) lfs)) eqn:En.
      + cbn [omap forallb] in *. apply obind_ok in HF as (g & H1 & HF). apply obind_ok in HF as (rcols' & H2 & HF).
        inversion HF; subst rcols. clear HF. apply andb_true_iff in Hc as [Hc1 Hc2]. apply negb_true_iff in Hc1.
        destruct (IHs (pre ++ [rf]) rcols' Hrfs' Hc2 H2) as (I1 & I2).
        assert (Hin : In rf rfs) by (rewrite Hrfs; apply in_or_app; right; left; reflexivity).
        rewrite Forall_forall in Wr. destruct (Wr rf Hin) as [Wr1 Wr2].
        unfold Fr in H1. apply obind_ok in H1 as (a & Ha & Hg). inversion Hg; subst g.
        destruct (adjust_child_validity_ok (fcol rf) rnl n a Wr1 Hc1 Ha) as (P1 & _ & P3).
        split; [constructor; [exact P1 | exact I1]|].
        intros i Hi. cbn [map fname fcol fst snd dname]. f_equal.
        * f_equal. rewrite (P3 i Hi).
          assert (Hk : length pre < length rfs) by (rewrite Hrfs, app_length; cbn [length]; lia).
          rewrite vchild_srow by exact Hk.
          rewrite Hrfs, app_nth2, Nat.sub_diag by lia. reflexivity.
        * rewrite (I2 i Hi). rewrite app_length. cbn [length].
          replace (length pre + 1) with (S (length pre)) by lia. reflexivity.
      + destruct (IHs (pre ++ [rf]) rcols Hrfs' Hc HF) as (I1 & I2). split; [exact I1|].
        intros i Hi. rewrite (I2 i Hi). rewrite app_length. cbn [length].
        replace (length pre + 1) with (S (length pre)) by lia. reflexivity.
  Qed.
End MergeCols.

Lemma map2_map_same {A B C D} (f : B -> C -> D) (g : A -> B) (h : A -> C) (l : list A) :
  map2 f (map g l) (map h l) = map (fun x => f (g x) (h x)) l.
Proof. induction l as [|x l IH]; [reflexivity|]. cbn [map map2]. rewrite IH. reflexivity. Qed.

Theorem merge_ok : forall l r m,
  wfb l = true -> wfb r = true -> merge_clean l r = true -> merge l r = Ok m ->
  plen m = plen l /\
  logical m = map2 (merge_val (ptype l) (ptype r)) (logical l) (logical r).
Proof.
  induction l as [k a vals nl | n lfs lnl IH | lg offs v nl IH | sz len v nl IH] using parr_ind';
    intros r m Wl Wr Hc Hm; try (cbn [merge_clean] in Hc; discriminate).
  destruct r as [| rlen rfs rnl | |]; try (cbn [merge_clean] in Hc; discriminate).
  cbn [merge_clean] in Hc.
  apply andb_true_iff in Hc as [Hc Hcr]. apply andb_true_iff in Hc as [Hc Hcl].
  apply andb_true_iff in Hc as [Hc HB]. apply andb_true_iff in Hc as [Hlen HA].
  apply Nat.eqb_eq in Hlen. subst rlen. apply negb_true_iff in HA. apply negb_true_iff in HB.
  change (forallb (cleanl n rfs lnl rnl) lfs = true) in Hcl.
  cbn [merge] in Hm.
  apply obind_ok in Hm as (mv & Hmv & Hm).
  apply obind_ok in Hm as (lcols & Hl & Hm).
  apply obind_ok in Hm as (rcols & Hr & Hm).
  apply unwrap_ok in Hm.
  change (omap (Fl n rfs lnl) lfs = Ok lcols) in Hl.
  change (omap (Fr n rnl) (filter (fun rf : field => negb (has_field (fname rf) lfs)) rfs) = Ok rcols) in Hr.
  apply wfb_struct in Wl. apply wfb_struct in Wr.
  destruct (left_cols n lfs rfs lnl rnl Wl Wr IH lfs [] lcols eq_refl Hcl Hl) as (L1 & L2 & L3).
  destruct (right_cols n lfs rfs rnl Wl Wr IH rfs [] rcols eq_refl Hcr Hr) as (R1 & R3).
  destruct (merge_struct_validity_ok lnl rnl n HA HB) as (mv' & Hmv' & Hval).
  rewrite Hmv in Hmv'. inversion Hmv'; subst mv'. clear Hmv'.
  apply struct_try_new_ok in Hm as (f0 & rest & Hfs & Hq & _).
  assert (Hall : Forall (fun g : field => plen (fcol g) = n) (concat lcols ++ rcols)).
  { apply Forall_app. split; assumption. }
  assert (Hn0 : plen (fcol f0) = n).
  { rewrite Hfs in Hall. inversion Hall; assumption. }
  rewrite Hn0 in Hq. subst m. cbn [plen]. split; [reflexivity|].
  rewrite (logical_rows (PStruct n lfs lnl)), (logical_rows (PStruct n rfs rnl)). cbn [plen pnulls].
  rewrite map2_map_same. rewrite logical_rows. cbn [plen pnulls].
  apply map_ext_in. intros i Hi. apply in_seq in Hi. cbn [Nat.add] in Hi.
  rewrite valid_drop_empty by lia. rewrite (Hval i ltac:(lia)).
  change (if valid lnl i then row (PStruct n lfs lnl) i else VNull) with (srow lfs lnl i).
  change (if valid rnl i then row (PStruct n rfs rnl) i else VNull) with (srow rfs rnl i).
  rewrite !ptype_struct. rewrite merge_val_struct. cbn [dfields].
  assert (Hf : map (fun g : field => (fname g, nth i (logical (fcol g)) VNull)) (concat lcols ++ rcols) =
               mfields (ftypes rfs) (srow lfs lnl i) (srow rfs rnl i) 0 (ftypes lfs)
               ++ rfields (ftypes lfs) (ftypes rfs) (srow rfs rnl i)).
  { rewrite map_app. f_equal.
    - exact (L3 i ltac:(lia)).
    - etransitivity; [exact (R3 i ltac:(lia))|]. unfold rfields. cbn [length].
      replace (length (ftypes rfs)) with (length rfs) by (unfold ftypes; rewrite map_length; reflexivity).
      reflexivity. }
  cbn [row]. rewrite Hf.
  remember (srow lfs lnl i) as LV eqn:ELV. remember (srow rfs rnl i) as RV eqn:ERV.
  unfold srow in ELV, ERV.
  destruct (valid lnl i), (valid rnl i); subst LV RV; reflexivity.
Qed.
