(* Model of the Lance v2 file container (C25): what is AROUND the page codecs.
   Executable definitions only (+ the chk_* correspondence checkers at the end).

   Transcribed from
     rust/lance-encoding/src/utils/accumulation.rs        AccumulationQueue::{insert,flush}
     rust/lance-encoding/src/previous/encodings/logical/primitive.rs
                                                          PrimitiveFieldEncoder::do_flush (2.0 page split),
                                                          PrimitiveFieldSchedulingJob::schedule_next
     rust/lance-encoding/src/encodings/logical/primitive.rs
                                                          PrimitiveStructuralEncoder::{maybe_encode,flush},
                                                          StructuralPrimitiveFieldSchedulingJob::schedule_next,
                                                          StructuralPrimitiveFieldDecoder::drain
     rust/lance-encoding/src/encodings/logical/struct.rs  RepDefStructSchedulingJob::schedule_next
     rust/lance-encoding/src/decoder.rs                   DecodeBatchScheduler::{schedule_take,indices_to_ranges,
                                                          do_schedule_ranges_structural}, RequestedRows,
                                                          schedule_and_decode, {Structural,}BatchDecodeStream /
                                                          BatchDecodeIterator::next_batch_task
     rust/lance-file/src/writer.rs                        FileWriter::{write_batch,finish,version_to_numbers}
     rust/lance-file/src/reader.rs                        FileReader::{decode_footer,read_all_metadata,
                                                          read_all_column_metadata,do_decode_gbo_table,
                                                          validate_projection,read_tasks}

   A page's payload is opaque here: [encode]/[decode] are Section variables with
   [decode (encode p) = p] (the codecs are property C26, the rep/def layer is C27).

   Debug-build semantics: usize/u64 underflow, index out of bounds, unwrap on None, division by
   zero, debug_assert are [Panic]; Err(..) returns are [Err].  Row counts and byte positions are [N];
   sums of row counts / byte positions of one file are assumed < 2^64 (the writer refuses more rows;
   additions are not checked).  [nat] only for list positions and fuel. *)
From LanceV Require Import Common.Base.
Local Open Scope N_scope.

Definition obind {X Y} (x : outcome X) (f : X -> outcome Y) : outcome Y :=
  match x with Ok a => f a | Err => Err | Panic => Panic end.
Definition omap {X Y} (f : X -> Y) (x : outcome X) : outcome Y :=
  match x with Ok a => Ok (f a) | Err => Err | Panic => Panic end.

(* Range<u64> = (start, end), end exclusive *)
Definition range := (N * N)%type.
Definition rlen (r : range) : N := snd r - fst r.
Definition nlen {X} (l : list X) : N := N.of_nat (length l).
Definition nsum (l : list N) : N := fold_right N.add 0 l.

(* rows [s, e) of a row list: the specification side of the property *)
Definition slice {X} (l : list X) (r : range) : list X :=
  firstn (N.to_nat (snd r - fst r)) (skipn (N.to_nat (fst r)) l).

(* ------------------------------------------------------------------------------------------ *)
(* 1. Writer: how a column's batches become pages                                             *)
(* ------------------------------------------------------------------------------------------ *)

(* One column of one write_batch call.  [wb_mem] = array.get_array_memory_size() and [wb_buf] =
   array.get_buffer_memory_size(): byte sizes are an oracle (any values). *)
Record wbatch (A : Type) := { wb_rows : list A; wb_mem : N; wb_buf : N }.
Arguments wb_rows {A} _.
Arguments wb_mem {A} _.
Arguments wb_buf {A} _.

(* a page as the writer hands it to write_page: decoded contents, EncodedPage.num_rows,
   EncodedPage.row_number (stored as `priority`) *)
Record wpage (A : Type) := { wp_rows : list A; wp_num_rows : N; wp_row_number : N }.
Arguments wp_rows {A} _.
Arguments wp_num_rows {A} _.
Arguments wp_row_number {A} _.

(* AccumulationQueue; row_number == u64::MAX ("unset") is None *)
Record aqueue (A : Type) := {
  aq_buffered : list (wbatch A);
  aq_bytes : N;
  aq_row_number : option N;
  aq_num_rows : N }.
Arguments aq_buffered {A} _.
Arguments aq_bytes {A} _.
Arguments aq_row_number {A} _.
Arguments aq_num_rows {A} _.

Definition aq_new {A} : aqueue A :=
  {| aq_buffered := []; aq_bytes := 0; aq_row_number := None; aq_num_rows := 0 |}.

(* a flushed group: (arrays, row_number, num_rows) *)
Definition flushed (A : Type) := (list (wbatch A) * N * N)%type.

Definition aq_insert {A} (cache_bytes : N) (q : aqueue A) (b : wbatch A) (row_number num_rows : N)
  : option (flushed A) * aqueue A :=
  let rn := match aq_row_number q with None => row_number | Some r => r end in
  let nr := aq_num_rows q + num_rows in
  let cb := aq_bytes q + wb_mem b in
  if cache_bytes <? cb then
    (Some (aq_buffered q ++ [b], rn, nr), aq_new)
  else
    (None, {| aq_buffered := aq_buffered q ++ [b]; aq_bytes := cb; aq_row_number := Some rn; aq_num_rows := nr |}).

Definition aq_flush {A} (q : aqueue A) : option (flushed A) * aqueue A :=
  match aq_buffered q with
  | [] => (None, q)
  | _ :: _ =>
      (* row_number is MAX only while nothing is buffered *)
      (Some (aq_buffered q, match aq_row_number q with Some r => r | None => 18446744073709551615 end, aq_num_rows q), aq_new)
  end.

(* arrow bit_util::ceil(value, divisor) *)
Definition ceil_div (v d : N) : N := v / d + (if v mod d =? 0 then 0 else 1).

(* the `for _ in 0..num_parts` loop of the 2.0 do_flush *)
Fixpoint split_parts {A} (k : nat) (rows : list A) (part_size : N) : list (list A) :=
  match k with
  | O => []
  | S k' =>
      let avail := nlen rows in
      if avail =? 0 then []
      else
        let chunk := N.min avail part_size in
        firstn (N.to_nat chunk) rows :: split_parts k' (skipn (N.to_nat chunk) rows) part_size
  end.

Definition mk_page {A} (row_number : N) (rows : list A) : wpage A :=
  {| wp_rows := rows; wp_num_rows := nlen rows; wp_row_number := row_number |}.

(* PrimitiveFieldEncoder::do_flush (file version 2.0); pages carry row_number 0 *)
Definition do_flush_v20 {A} (max_page_bytes : N) (arrays : list (wbatch A)) : outcome (list (wpage A)) :=
  match arrays with
  | [a] =>
      if max_page_bytes =? 0 then Panic          (* bit_util::ceil divides by zero *)
      else
        let num_parts := N.min (ceil_div (wb_buf a) max_page_bytes) (nlen (wb_rows a)) in
        if num_parts <=? 1 then Ok [mk_page 0 (wb_rows a)]
        else
          let part_size := ceil_div (nlen (wb_rows a)) num_parts in
          Ok (map (mk_page 0) (split_parts (N.to_nat num_parts) (wb_rows a) part_size))
  | _ => Ok [mk_page 0 (concat (map wb_rows arrays))]
  end.

(* PrimitiveStructuralEncoder::do_flush (2.1 / 2.2): one page per flush, never split on write *)
Definition do_flush_v21 {A} (fl : flushed A) : list (wpage A) :=
  let '(arrays, row_number, num_rows) := fl in
  [{| wp_rows := concat (map wb_rows arrays); wp_num_rows := num_rows; wp_row_number := row_number |}].

Definition do_flush {A} (v21 : bool) (max_page_bytes : N) (fl : flushed A) : outcome (list (wpage A)) :=
  if v21 then Ok (do_flush_v21 fl) else do_flush_v20 max_page_bytes (fst (fst fl)).

(* FileWriter::write_batch per column, then finish().  [written] = self.rows_written. *)
Fixpoint write_batches {A} (v21 : bool) (cache_bytes max_page_bytes : N) (q : aqueue A) (written : N)
  (bs : list (wbatch A)) : outcome (list (wpage A) * N) :=
  match bs with
  | [] =>
      match fst (aq_flush q) with
      | None => Ok ([], written)
      | Some fl => omap (fun ps => (ps, written)) (do_flush v21 max_page_bytes fl)
      end
  | b :: rest =>
      let n := nlen (wb_rows b) in
      if n =? 0 then write_batches v21 cache_bytes max_page_bytes q written rest   (* num_rows == 0: return Ok(()) *)
      else
        let '(fl, q') := aq_insert cache_bytes q b written n in
        obind (match fl with None => Ok [] | Some f => do_flush v21 max_page_bytes f end) (fun ps =>
        obind (write_batches v21 cache_bytes max_page_bytes q' (written + n) rest) (fun '(ps', w) =>
        Ok (ps ++ ps', w)))
  end.

(* pages of the column and FileDescriptor.length *)
Definition write_column {A} (v21 : bool) (cache_bytes max_page_bytes : N) (bs : list (wbatch A))
  : outcome (list (wpage A) * N) :=
  write_batches v21 cache_bytes max_page_bytes aq_new 0 bs.

(* ------------------------------------------------------------------------------------------ *)
(* 2. Reader: ranges -> per-page sub-ranges                                                   *)
(* ------------------------------------------------------------------------------------------ *)

(* what one schedule_next call hands to one page: the page index, the ranges re-based to the page
   (`ranges_in_page`) and the priority (2.1: `range.start` of the first range looked at) *)
Record scanline := { sl_page : nat; sl_ranges : list range; sl_priority : N }.

Definition sl_rows (l : scanline) : N := nsum (map rlen (sl_ranges l)).

(* the scheduling job: pages[page_idx..] as their row counts, page_idx, global_row_offset,
   ranges[range_idx..] *)
Record sjob := { sj_pages : list N; sj_idx : nat; sj_off : N; sj_ranges : list range }.

(* `while cur_page.num_rows + self.global_row_offset <= range.start { ...; cur_page = &pages[page_idx] }` *)
Fixpoint skip_pages (rest : list N) (cur start off : N) (idx : nat) : outcome (N * list N * N * nat) :=
  if cur + off <=? start then
    match rest with
    | [] => Panic                                    (* page_schedulers[page_idx]: index out of bounds *)
    | c :: rest' => skip_pages rest' c start (off + cur) (S idx)
    end
  else Ok (cur, rest, off, idx).

(* `while cur_page.num_rows + self.global_row_offset > range.start { ... }`; [rs] = ranges[range_idx..].
   The clamped range.start is local to the call: an unfinished range is re-read from self.ranges. *)
Fixpoint in_page (cur off : N) (rs : list range) (acc : list range) : outcome (list range * list range) :=
  match rs with
  | [] => Ok (acc, [])                               (* range_idx == ranges.len(): break *)
  | (s, e) :: rest =>
      if s <? cur + off then
        let s' := N.max s off in
        let start_in_page := s' - off in
        if e <? s' then Panic                        (* range.end - range.start underflows *)
        else
          let end_in_page := N.min (start_in_page + (e - s')) cur in
          let last_in_range := e <=? end_in_page + off in
          let acc' := acc ++ [(start_in_page, end_in_page)] in
          if last_in_range then in_page cur off rest acc' else Ok (acc', rs)
      else Ok (acc, rs)
  end.

Definition schedule_next (st : sjob) : outcome (option (scanline * sjob)) :=
  match sj_ranges st with
  | [] => Ok None                                    (* range_idx >= ranges.len(): Ok(Vec::new()) *)
  | (s, _) :: _ =>
      match sj_pages st with
      | [] => Panic                                  (* page_schedulers[page_idx] *)
      | cur0 :: rest0 =>
          obind (skip_pages rest0 cur0 s (sj_off st) (sj_idx st)) (fun '(cur, rest, off, idx) =>
          obind (in_page cur off (sj_ranges st) []) (fun '(inpage, rs') =>
          Ok (Some ({| sl_page := idx; sl_ranges := inpage; sl_priority := s |},
                    {| sj_pages := rest; sj_idx := S idx; sj_off := off + cur; sj_ranges := rs' |}))))
      end
  end.

(* do_schedule_ranges_*: call schedule_next until it returns nothing.  Every call consumes at least
   one page, so [S (length pages)] calls suffice for EVERY input (Proofs_File.schedule_loop_fuel:
   more fuel never changes the result); the out-of-fuel value is therefore never observed. *)
Fixpoint schedule_loop (fuel : nat) (st : sjob) : outcome (list scanline) :=
  match fuel with
  | O => Panic
  | S f =>
      obind (schedule_next st) (fun r =>
      match r with
      | None => Ok []
      | Some (l, st') => omap (cons l) (schedule_loop f st')
      end)
  end.

Definition schedule_ranges (pages : list N) (rs : list range) : outcome (list scanline) :=
  schedule_loop (S (length pages)) {| sj_pages := pages; sj_idx := 0; sj_off := 0; sj_ranges := rs |}.

(* DecodeBatchScheduler::indices_to_ranges (indices sorted, non-empty) *)
Fixpoint itr_go (start prev : N) (rest : list N) : list range :=
  match rest with
  | [] => [(start, prev + 1)]
  | x :: rest' => if x =? prev + 1 then itr_go start x rest' else (start, prev + 1) :: itr_go x x rest'
  end.
Definition indices_to_ranges (idx : list N) : outcome (list range) :=
  match idx with [] => Panic | i :: rest => Ok (itr_go i i rest) end.

Fixpoint sorted_le (l : list N) : bool :=
  match l with
  | a :: ((b :: _) as t) => (a <=? b) && sorted_le t
  | _ => true
  end.

(* ------------------------------------------------------------------------------------------ *)
(* 3. Reader: decoder side (page shards -> batches of batch_size rows)                        *)
(* ------------------------------------------------------------------------------------------ *)

Section Decode.
Context {A : Type}.

(* StructuralPrimitiveFieldDecoder::drain.  A queued page shard is modelled by the rows it has not
   handed out yet, so `num_rows() - rows_drained_in_current` is its length. *)
Fixpoint drain (q : list (list A)) (n : N) : outcome (list A * list (list A)) :=
  if n =? 0 then Ok ([], q)
  else
    match q with
    | [] => Panic                                    (* page_decoders.front_mut().unwrap() *)
    | p :: q' =>
        let num_in_page := nlen p in
        let to_take := N.min num_in_page n in
        if to_take =? num_in_page then
          obind (drain q' (n - to_take)) (fun '(out, q'') => Ok (p ++ out, q''))
        else Ok (firstn (N.to_nat to_take) p, skipn (N.to_nat to_take) p :: q')
    end.

(* a DecoderMessage of a one-column read: scheduled_so_far and the shard of the scan line;
   MErr = the scheduler sent Err(..) *)
Inductive msg := MLine (scheduled_so_far : N) (shard : list A) | MErr.

Record dstate := {
  d_remaining : N; d_drained : N; d_scheduled : N; d_exhausted : bool;
  d_msgs : list msg; d_queue : list (list A) }.

(* wait_for_scheduled: returns (value returned, rows_scheduled, scheduler_exhausted, msgs, queue) *)
Fixpoint wait_for_scheduled (msgs : list msg) (sched need : N) (q : list (list A))
  : outcome (N * N * bool * list msg * list (list A)) :=
  if sched <? need then
    match msgs with
    | [] => Ok (sched, sched, true, [], q)           (* channel closed *)
    | MErr :: _ => Err
    | MLine s sh :: m' => wait_for_scheduled m' s need (q ++ [sh])
    end
  else Ok (need, sched, false, msgs, q).

(* next_batch_task *)
Definition next_batch (bs : N) (st : dstate) : outcome (option (list A * dstate)) :=
  if d_remaining st =? 0 then Ok None
  else
    let to_take := N.min (d_remaining st) bs in
    let remaining := d_remaining st - to_take in
    let scheduled_need := (d_drained st + to_take) - d_scheduled st in     (* saturating_sub *)
    obind
      (if 0 <? scheduled_need then
         let desired := scheduled_need + d_scheduled st in
         obind (if d_exhausted st then Ok (d_scheduled st, d_scheduled st, true, d_msgs st, d_queue st)
                else wait_for_scheduled (d_msgs st) (d_scheduled st) desired (d_queue st))
           (fun '(actually, sched, exh, msgs, q) =>
            if actually <? desired then
              let under := desired - actually in
              if to_take <? under then Panic          (* to_take -= under_scheduled underflows *)
              else Ok (to_take - under, sched, exh, msgs, q)
            else Ok (to_take, sched, exh, msgs, q))
       else Ok (to_take, d_scheduled st, d_exhausted st, d_msgs st, d_queue st))
      (fun '(to_take', sched, exh, msgs, q) =>
       if to_take' =? 0 then Ok None
       else
         obind (drain q to_take') (fun '(rows, q') =>
         Ok (Some (rows, {| d_remaining := remaining; d_drained := d_drained st + to_take';
                            d_scheduled := sched; d_exhausted := exh; d_msgs := msgs; d_queue := q' |})))).

(* into_stream: unfold(next_batch_task).  A step that yields a batch lowers rows_remaining by at
   least one, so [S (N.to_nat rows_remaining)] steps suffice for every input
   (Proofs_File.decode_loop_fuel). *)
Fixpoint decode_loop (fuel : nat) (bs : N) (st : dstate) : outcome (list (list A)) :=
  match fuel with
  | O => Panic
  | S f =>
      obind (next_batch bs st) (fun r =>
      match r with
      | None => Ok []
      | Some (b, st') => omap (cons b) (decode_loop f bs st')
      end)
  end.

Definition decode_stream (num_rows bs : N) (msgs : list msg) : outcome (list (list A)) :=
  decode_loop (S (N.to_nat num_rows)) bs
    {| d_remaining := num_rows; d_drained := 0; d_scheduled := 0; d_exhausted := false;
       d_msgs := msgs; d_queue := [] |}.

End Decode.
Arguments msg : clear implicits.
Arguments dstate : clear implicits.

(* ------------------------------------------------------------------------------------------ *)
(* 4. Reader: one column, FileReader::read_tasks down to the batches                           *)
(* ------------------------------------------------------------------------------------------ *)

(* ReadBatchParams *)
Inductive request :=
| RRange (r : range)            (* Range(a..b) *)
| RRanges (rs : list range)     (* Ranges *)
| RFull                         (* RangeFull *)
| RTo (e : N)                   (* RangeTo(..e) *)
| RFrom (s : N)                 (* RangeFrom(s..) *)
| RIndices (idx : list N).      (* Indices *)

Inductive requested := QRanges (rs : list range) | QIndices (idx : list N).

(* verify_bound *)
Definition verify_bound (num_rows bound : N) (inclusive : bool) : bool :=
  negb ((num_rows <? bound) || ((bound =? num_rows) && inclusive)).

(* read_tasks: bounds -> RequestedRows *)
Definition resolve_request (num_rows : N) (rq : request) : outcome requested :=
  match rq with
  | RIndices idx =>
      if forallb (fun i => verify_bound num_rows i true) idx then Ok (QIndices idx) else Err
  | RRange (s, e) => if verify_bound num_rows e false then Ok (QRanges [(s, e)]) else Err
  | RRanges rs =>
      if forallb (fun r => verify_bound num_rows (snd r) false) rs then Ok (QRanges rs) else Err
  | RFrom s => if verify_bound num_rows s true then Ok (QRanges [(s, num_rows)]) else Err
  | RTo e => if verify_bound num_rows e false then Ok (QRanges [(0, e)]) else Err
  | RFull => Ok (QRanges [(0, num_rows)])
  end.

(* RequestedRows::num_rows: sum of end - start (checked subtraction) *)
Fixpoint ranges_rows (rs : list range) : outcome N :=
  match rs with
  | [] => Ok 0
  | (s, e) :: rest => if e <? s then Panic else omap (N.add (e - s)) (ranges_rows rest)
  end.

(* trim_empty_ranges: retain(!r.is_empty()) *)
Definition trim_empty (rs : list range) : list range := filter (fun r => fst r <? snd r) rs.

(* running totals: scheduled_so_far of the messages *)
Fixpoint cumulate (acc : N) (l : list N) : list N :=
  match l with [] => [] | x :: r => (acc + x) :: cumulate (acc + x) r end.

Section Column.
Context {A E : Type}.
Variable encode : list A -> E.
Variable decode : E -> list A.

(* a stored column: ColumnMetadata.pages as (length, payload) *)
Definition column := list (N * E).

Definition store_column (pages : list (wpage A)) : column :=
  map (fun p => (wp_num_rows p, encode (wp_rows p))) pages.

(* what a page scheduler + decoder return for `ranges_in_page`.  The real decoders fetch and decode
   only the chunks that hold these rows; here: decode the page, take the rows (C26/C27). *)
Definition page_read (e : E) (rs : list range) : list A := concat (map (slice (decode e)) rs).

Definition line_shard (col : column) (l : scanline) : outcome (list A) :=
  match nth_error col (sl_page l) with
  | None => Panic
  | Some (_, e) => Ok (page_read e (sl_ranges l))
  end.

Fixpoint line_msgs (col : column) (acc : N) (ls : list scanline) : outcome (list (msg A)) :=
  match ls with
  | [] => Ok []
  | l :: rest =>
      obind (line_shard col l) (fun sh =>
      let acc' := acc + sl_rows l in
      omap (cons (MLine acc' sh)) (line_msgs col acc' rest))
  end.

(* schedule_and_decode for one column.  [trim] = the request passes through trim_empty_ranges:
   schedule_and_decode does it, schedule_and_decode_blocking does not. *)
Definition read_requested (trim : bool) (col : column) (rq : requested) (bs : N) : outcome (list (list A)) :=
  obind (match rq with
         | QRanges rs => ranges_rows rs
         | QIndices idx => Ok (nlen idx)
         end) (fun num_rows =>
  if num_rows =? 0 then Ok []                       (* stream::empty() *)
  else
    obind (match rq with
           | QRanges rs => Ok (if trim then trim_empty rs else rs)
           | QIndices idx =>
               if sorted_le idx then indices_to_ranges idx
               else Panic                           (* debug_assert!(indices sorted) in schedule_take *)
           end) (fun rs =>
    obind (schedule_ranges (map fst col) rs) (fun lines =>
    obind (line_msgs col 0 lines) (fun msgs =>
    decode_stream num_rows bs msgs)))).

(* FileReader::read_tasks (blocking = false) / read_stream_projected_blocking (blocking = true) for one
   column; [num_rows] is FileDescriptor.length *)
Definition read_column (blocking : bool) (num_rows : N) (col : column) (rq : request) (bs : N) : outcome (list (list A)) :=
  obind (resolve_request num_rows rq) (fun q => read_requested (negb blocking) col q bs).

End Column.

(* ------------------------------------------------------------------------------------------ *)
(* 5. Several columns: projection, and the struct scheduling job                               *)
(* ------------------------------------------------------------------------------------------ *)

Fixpoint has_dup (l : list N) : bool :=
  match l with [] => false | x :: r => existsb (N.eqb x) r || has_dup r end.

(* FileReader::validate_projection: [nfields] = projection.schema.fields.len() *)
Definition validate_projection (nfields : nat) (column_indices : list N) (ncols : N) : bool :=
  negb (Nat.eqb nfields 0) && negb (has_dup column_indices) && forallb (fun i => i <? ncols) column_indices.

Section FileRead.
Context {A E : Type}.
Variable decode : E -> list A.

(* a file of top-level leaf columns; a batch is the list of its column chunks *)
Definition file := list (list (N * E)).

Fixpoint transpose_batches (cols : list (list (list A))) (nb : nat) : list (list (list A)) :=
  match nb with
  | O => []
  | S k => map (fun c => hd [] c) cols :: transpose_batches (map (fun c => tl c) cols) k
  end.

(* read_stream_projected with a projection of top-level leaf columns (column_indices select and
   reorder the ColumnInfos): every selected column is scheduled with the same ranges and drained
   with the same batch size. *)
Definition read_file (num_rows : N) (f : file) (column_indices : list N) (rq : request) (bs : N)
  : outcome (list (list (list A))) :=
  if negb (validate_projection (length column_indices) column_indices (nlen f)) then Err
  else
    let fix go (idx : list N) : outcome (list (list (list A))) :=
      match idx with
      | [] => Ok []
      | i :: rest =>
          match nth_error f (N.to_nat i) with
          | None => Panic
          | Some col => obind (read_column decode false num_rows col rq bs) (fun b =>
                        omap (cons b) (go rest))
          end
      end in
    omap (fun cols => transpose_batches cols (match cols with [] => O | c :: _ => length c end)) (go column_indices).

End FileRead.

(* RepDefStructSchedulingJob::schedule_next over the children's scan lines.  A child is
   (rows_scheduled, scan lines not yet handed out: their row counts).  [pick] abstracts
   BinaryHeap::pop on the min-heap keyed by rows_scheduled: it returns the position of a child.
   One call = one message: (rows scheduled by the struct in this call, [(child, rows)] handed out). *)
Definition schild := (N * list N)%type.

Definition set_nth {X} (k : nat) (x : X) (l : list X) : list X := firstn k l ++ x :: skipn (S k) l.

(* position of the leftmost child with minimal rows_scheduled among those still in the heap *)
Fixpoint argmin_go (l : list (option schild)) (pos : nat) (best : option (nat * N)) : option nat :=
  match l with
  | [] => option_map fst best
  | None :: r => argmin_go r (S pos) best
  | Some (rs, _) :: r =>
      match best with
      | Some (_, b) => if rs <? b then argmin_go r (S pos) (Some (pos, rs)) else argmin_go r (S pos) best
      | None => argmin_go r (S pos) (Some (pos, rs))
      end
  end.
Definition pick_leftmost (l : list (option schild)) : option nat := argmin_go l O None.

Definition heap_min (l : list (option schild)) : option N :=
  match pick_leftmost l with
  | Some k => match nth_error l k with Some (Some (rs, _)) => Some rs | _ => None end
  | None => None
  end.

(* the `while old_rows_scheduled == self.rows_scheduled` loop; a child is None once it left the heap.
   [cur] = self.rows_scheduled *)
Fixpoint struct_step (fuel : nat) (pick : list (option schild) -> option nat)
  (children : list (option schild)) (old cur : N) (decs : list (nat * N))
  : outcome (option (N * list (nat * N)) * list (option schild) * N) :=
  if negb (old =? cur) then Ok (Some (cur - old, decs), children, cur)
  else
    match fuel with
    | O => Panic
    | S f =>
        match pick children with
        | None => Ok (None, children, cur)           (* children.is_empty(): return Ok(Vec::new()) *)
        | Some k =>
            match nth_error children k with
            | Some (Some (rs, lines)) =>
                match lines with
                | [] => struct_step f pick (set_nth k None children) old cur decs   (* child done: not pushed back *)
                | n :: lines' =>
                    let children' := set_nth k (Some (rs + n, lines')) children in
                    match heap_min children' with
                    | Some m => struct_step f pick children' old m (decs ++ [(k, n)])
                    | None => Panic
                    end
                end
            | _ => Panic
            end
        end
    end.

Definition struct_fuel (children : list (option schild)) : nat :=
  S (length children + length (concat (map (fun c => match c with Some (_, l) => l | None => [] end) children))).

(* do_schedule_ranges_structural: messages (scheduled_so_far, decoders) until a call returns nothing *)
Fixpoint struct_loop (fuel : nat) (pick : list (option schild) -> option nat)
  (children : list (option schild)) (cur so_far : N) : outcome (list (N * list (nat * N))) :=
  match fuel with
  | O => Panic
  | S f =>
      obind (struct_step (struct_fuel children) pick children cur cur []) (fun '(r, children', cur') =>
      match r with
      | None => Ok []
      | Some (rows, decs) =>
          omap (cons (so_far + rows, decs)) (struct_loop f pick children' cur' (so_far + rows))
      end)
  end.

Definition struct_messages (pick : list (option schild) -> option nat) (lines : list (list N))
  : outcome (list (N * list (nat * N))) :=
  let children := map (fun l => Some (0, l)) lines in
  struct_loop (struct_fuel children) pick children 0 0.

(* ------------------------------------------------------------------------------------------ *)
(* 6. Footer and the offset tables in front of it                                             *)
(* ------------------------------------------------------------------------------------------ *)

Definition bytes := list N.

Fixpoint le_bytes (k : nat) (x : N) : bytes :=
  match k with O => [] | S k' => (x mod 256) :: le_bytes k' (x / 256) end.
Fixpoint le_val (b : bytes) : N :=
  match b with [] => 0 | x :: r => x + 256 * le_val r end.

Definition MAGIC : bytes := [76; 65; 78; 67].      (* b"LANC" *)
Definition FOOTER_LEN : N := 40.

Record footer := {
  ft_col_meta_start : N;      (* u64 *)
  ft_cmo_start : N;           (* u64 *)
  ft_gbo_start : N;           (* u64 *)
  ft_num_gbuf : N;            (* u32 *)
  ft_num_cols : N;            (* u32 *)
  ft_major : N;               (* u16 *)
  ft_minor : N }.             (* u16 *)

Definition footer_eqb (a b : footer) : bool :=
  (ft_col_meta_start a =? ft_col_meta_start b) && (ft_cmo_start a =? ft_cmo_start b) &&
  (ft_gbo_start a =? ft_gbo_start b) && (ft_num_gbuf a =? ft_num_gbuf b) &&
  (ft_num_cols a =? ft_num_cols b) && (ft_major a =? ft_major b) && (ft_minor a =? ft_minor b).

(* FileWriter::finish step 7 *)
Definition footer_bytes (f : footer) : bytes :=
  le_bytes 8 (ft_col_meta_start f) ++ le_bytes 8 (ft_cmo_start f) ++ le_bytes 8 (ft_gbo_start f) ++
  le_bytes 4 (ft_num_gbuf f) ++ le_bytes 4 (ft_num_cols f) ++
  le_bytes 2 (ft_major f) ++ le_bytes 2 (ft_minor f) ++ MAGIC.

Definition take_at (b : bytes) (pos len : nat) : bytes := firstn len (skipn pos b).

(* FileReader::decode_footer on the tail bytes *)
Definition decode_footer (tail : bytes) : outcome footer :=
  let len := length tail in
  if (len <? 40)%nat then Err
  else
    let base := (len - 40)%nat in
    let f := {| ft_col_meta_start := le_val (take_at tail base 8);
                ft_cmo_start := le_val (take_at tail (base + 8) 8);
                ft_gbo_start := le_val (take_at tail (base + 16) 8);
                ft_num_gbuf := le_val (take_at tail (base + 24) 4);
                ft_num_cols := le_val (take_at tail (base + 28) 4);
                ft_major := le_val (take_at tail (base + 32) 2);
                ft_minor := le_val (take_at tail (base + 34) 2) |} in
    if (ft_major f =? 0) && (ft_minor f =? 2) then Err        (* legacy file *)
    else if negb (list_eqb N.eqb (take_at tail (len - 4) 4) MAGIC) then Err
    else Ok f.

(* LanceFileVersion::try_from_major_minor: 0 = Legacy, 1 = V2_0, 2 = V2_1, 3 = V2_2 *)
Definition version_of (major minor : N) : outcome N :=
  match major, minor with
  | 0, 0 | 0, 1 | 0, 2 => Ok 0
  | 0, 3 | 2, 0 => Ok 1
  | 2, 1 => Ok 2
  | 2, 2 => Ok 3
  | _, _ => Err
  end.

(* FileWriter::version_to_numbers of the resolved version (1 = V2_0, 2 = V2_1, 3 = V2_2) *)
Definition version_to_numbers (v : N) : outcome (N * N) :=
  match v with
  | 1 => Ok (0, 3)
  | 2 => Ok (2, 1)
  | 3 => Ok (2, 2)
  | _ => Panic
  end.

(* an offset table: (position, length) pairs as u64 le *)
Definition table_bytes (t : list (N * N)) : bytes :=
  concat (map (fun e => le_bytes 8 (fst e) ++ le_bytes 8 (snd e)) t).

Fixpoint read_table (k : nat) (b : bytes) : list (N * N) :=
  match k with
  | O => []
  | S k' => (le_val (firstn 8 b), le_val (firstn 8 (skipn 8 b))) :: read_table k' (skipn 16 b)
  end.

(* FileWriter::finish steps 4-7.  [pos] = writer.tell() after the global buffers, [meta_lens] the
   encoded column metadata lengths, [gbo] the global buffer table (file descriptor first).
   Returns the column metadata positions and the bytes written after the column metadatas. *)
Fixpoint meta_positions (pos : N) (lens : list N) : list (N * N) :=
  match lens with [] => [] | l :: r => (pos, l) :: meta_positions (pos + l) r end.

Definition finish_tail (pos : N) (meta_lens : list N) (gbo : list (N * N)) (major minor : N)
  : list (N * N) * bytes :=
  let cmo := meta_positions pos meta_lens in
  let cmo_start := pos + nsum meta_lens in
  let gbo_start := cmo_start + 16 * nlen meta_lens in
  (cmo,
   table_bytes cmo ++ table_bytes gbo ++
   footer_bytes {| ft_col_meta_start := pos; ft_cmo_start := cmo_start; ft_gbo_start := gbo_start;
                   ft_num_gbuf := nlen gbo; ft_num_cols := nlen meta_lens;
                   ft_major := major; ft_minor := minor |}).

(* What read_all_metadata derives from the bytes of a file.  Only the last bytes [tail] =
   file[file_len - length tail .. file_len) are given; a read that would start before them is
   outside the model ([Panic]; the correspondence always passes everything from the first global
   buffer on).  Result: footer, version, column metadata (position, length) table, global buffer
   table, and the four byte counts of CachedFileMetadata (num_data_bytes,
   num_column_metadata_bytes, num_global_buffer_bytes, num_footer_bytes).  Protobuf decoding of the
   schema and of the column metadatas is not modelled (assumed to succeed). *)
Record tailinfo := {
  ti_footer : footer; ti_version : N; ti_cmo : list (N * N); ti_gbo : list (N * N);
  ti_counts : N * N * N * N }.

(* do_decode_gbo_table: per entry read_u64 (Err at end of data), the alignment assertion, read_u64 *)
Fixpoint read_gbo (k : nat) (aligned : bool) (b : bytes) : outcome (list (N * N)) :=
  match k with
  | O => Ok []
  | S k' =>
      if (length b <? 8)%nat then Err
      else
        let pos := le_val (firstn 8 b) in
        if aligned && negb (pos mod 64 =? 0) then Panic
        else if (length b <? 16)%nat then Err
        else omap (cons (pos, le_val (firstn 8 (skipn 8 b)))) (read_gbo k' aligned (skipn 16 b))
  end.

(* file[a..file_len) out of the tail *)
Definition from_pos (file_len : N) (tail : bytes) (a : N) : outcome bytes :=
  if file_len <? a then Panic                                    (* file_len - start_pos underflows *)
  else if nlen tail <? file_len - a then Panic                   (* before the given tail: not modelled *)
  else Ok (skipn (N.to_nat (nlen tail - (file_len - a))) tail).

(* read_all_column_metadata: the (position, length) entries and their bounds checks *)
Fixpoint read_cmo (k : nat) (col_meta_start meta_len : N) (b : bytes) : outcome (list (N * N)) :=
  match k with
  | O => Ok []
  | S k' =>
      let position := le_val (firstn 8 b) in
      let length := le_val (firstn 8 (skipn 8 b)) in
      if position <? col_meta_start then Panic                   (* position - column_metadata_start *)
      else if meta_len <? position - col_meta_start + length then Panic   (* slice index out of range *)
      else omap (cons (position, length)) (read_cmo k' col_meta_start meta_len (skipn 16 b))
  end.

Definition parse_tail (file_len : N) (tail : bytes) : outcome tailinfo :=
  if file_len <? nlen tail then Panic else
  obind (decode_footer tail) (fun f =>
  obind (version_of (ft_major f) (ft_minor f)) (fun v =>
  obind (from_pos file_len tail (ft_gbo_start f)) (fun gbo_bytes =>
  obind (read_gbo (N.to_nat (ft_num_gbuf f)) (2 <=? v) gbo_bytes) (fun gbo =>
  match gbo with
  | [] => Err                                                    (* no global buffers: schema expected *)
  | (schema_start, schema_size) :: _ =>
      obind (from_pos file_len tail schema_start) (fun all_meta =>
      if nlen all_meta <? schema_size then Panic                 (* all_metadata_bytes.slice(0..schema_size) *)
      else if ft_col_meta_start f <? schema_start then Panic     (* footer.column_meta_start - schema_start *)
      else if ft_gbo_start f <? schema_start then Panic
      else if ft_gbo_start f <? ft_col_meta_start f then Panic   (* Bytes::slice(start..end): start <= end *)
      else
        let meta_len := ft_gbo_start f - ft_col_meta_start f in  (* column_metadata_bytes.len() *)
        let cmo_size := 16 * ft_num_cols f in
        if meta_len <? cmo_size then Panic                       (* len - cmo_table_size underflows *)
        else
          obind (from_pos file_len tail (ft_gbo_start f - cmo_size)) (fun cmo_bytes =>
          obind (read_cmo (N.to_nat (ft_num_cols f)) (ft_col_meta_start f) meta_len cmo_bytes) (fun cmo =>
          let gsum := nsum (map snd gbo) in
          if ft_col_meta_start f <? gsum then Panic              (* num_data_bytes underflows *)
          else Ok {| ti_footer := f; ti_version := v; ti_cmo := cmo; ti_gbo := gbo;
                     ti_counts := (ft_col_meta_start f - gsum, meta_len, gsum, file_len - schema_start) |})))
  end)))).

(* ------------------------------------------------------------------------------------------ *)
(* 7. Correspondence checkers (A := N, payload = the rows themselves)                          *)
(* ------------------------------------------------------------------------------------------ *)

Definition range_eqb (a b : range) : bool := (fst a =? fst b) && (snd a =? snd b).
Definition nn_eqb (a b : N * N) : bool := (fst a =? fst b) && (snd a =? snd b).

Fixpoint N_seq (start : N) (k : nat) : list N :=
  match k with O => [] | S k' => start :: N_seq (start + 1) k' end.

(* writer paging: ((v21, cache_bytes, max_page_bytes), batches as (rows, mem bytes, buffer bytes))
   vs the pages of the written file as (length, priority), and FileDescriptor.length *)
Definition chk_pages (i : (bool * N * N) * list (N * N * N)) (o : outcome (list (N * N) * N)) : bool :=
  let '((v21, cache, maxp), bl) := i in
  let batches := map (fun '(n, m, b) => {| wb_rows := repeat tt (N.to_nat n); wb_mem := m; wb_buf := b |}) bl in
  outcome_eqb (pair_eqb (list_eqb nn_eqb) N.eqb)
    (omap (fun '(ps, w) => (map (fun p => (wp_num_rows p, wp_row_number p)) ps, w))
          (write_column v21 cache maxp batches))
    o.

(* request printed as ranges or indices *)
Definition resolve_q (q : bool * list range * list N) : requested :=
  let '(is_idx, rs, idx) := q in if is_idx then QIndices idx else QRanges rs.

(* scheduling: (page row counts, requested rows) vs (rows per scan line, pages touched by reads) *)
Definition sched_obs (pages : list N) (rq : requested) : outcome (list N * list N) :=
  obind (match rq with
         | QRanges rs => Ok rs                        (* DecodeBatchScheduler::schedule_ranges called directly *)
         | QIndices idx => if sorted_le idx then indices_to_ranges idx else Panic
         end) (fun rs =>
  omap (fun ls => (map sl_rows ls, map (fun l => N.of_nat (sl_page l)) ls)) (schedule_ranges pages rs)).

Definition chk_sched (i : list N * (bool * list range * list N)) (o : outcome (list N * list N)) : bool :=
  let '(pages, q) := i in
  outcome_eqb (pair_eqb (list_eqb N.eqb) (list_eqb N.eqb)) (sched_obs pages (resolve_q q)) o.

(* expand recorded runs (start, end) of consecutive values *)
Definition expand_runs (rs : list range) : list N :=
  concat (map (fun r => N_seq (fst r) (N.to_nat (snd r - fst r))) rs).

Fixpoint split_by (rows : list N) (lens : list N) : list (list N) :=
  match lens with
  | [] => []
  | n :: r => firstn (N.to_nat n) rows :: split_by (skipn (N.to_nat n) rows) r
  end.

Definition mk_request (tag : N) (rs : list range) (idx : list N) : request :=
  match tag with
  | 0 => RFull
  | 1 => match rs with r :: _ => RRange r | [] => RFull end
  | 2 => RRanges rs
  | 3 => RIndices idx
  | 4 => match rs with r :: _ => RFrom (fst r) | [] => RFull end
  | _ => match rs with r :: _ => RTo (snd r) | [] => RFull end
  end.

(* whole read path of a column whose row i holds the value i:
   ((num_rows, page row counts), (request tag, ranges, indices), (batch_size, blocking API))
   vs the batches read, each as runs of consecutive values *)
Definition chk_read (i : (N * list N) * (N * list range * list N) * (N * bool)) (o : outcome (list (list range))) : bool :=
  let '((num_rows, pages), (tag, rs, idx), (bs, blocking)) := i in
  let data := N_seq 0 (N.to_nat (nsum pages)) in
  let col := combine pages (split_by data pages) in
  outcome_eqb (list_eqb (list_eqb N.eqb))
    (read_column (fun x => x) blocking num_rows col (mk_request tag rs idx) bs)
    (omap (map expand_runs) o).

(* struct scheduling: scan-line row counts per child vs the messages as
   (scheduled_so_far, number of decoders) *)
Definition chk_struct (i : list (list N)) (o : outcome (list (N * N))) : bool :=
  outcome_eqb (list_eqb nn_eqb)
    (omap (map (fun m => (fst m, nlen (snd m)))) (struct_messages pick_leftmost i)) o.

(* footer: (file length, last bytes of a real file) vs what the reader reports:
   ((major, minor, number of columns), global buffer table, the four byte counts) *)
Definition chk_footer (i : N * bytes) (o : outcome ((N * N * N) * list (N * N) * (N * N * N * N))) : bool :=
  let '(file_len, tail) := i in
  outcome_eqb (fun a b =>
      let '((ma, mi, nc), gbo, (c1, c2, c3, c4)) := a in
      let '((ma', mi', nc'), gbo', (c1', c2', c3', c4')) := b in
      (ma =? ma') && (mi =? mi') && (nc =? nc') && list_eqb nn_eqb gbo gbo' &&
      (c1 =? c1') && (c2 =? c2') && (c3 =? c3') && (c4 =? c4'))
    (omap (fun t => ((ft_major (ti_footer t), ft_minor (ti_footer t), ft_num_cols (ti_footer t)),
                     ti_gbo t, ti_counts t)) (parse_tail file_len tail))
    o.

(* writer tail: (position of the first column metadata, column metadata lengths, global buffer
   table, resolved version) vs the bytes of the real file after the column metadatas *)
Definition chk_tail (i : N * list N * list (N * N) * N) (o : bytes) : bool :=
  let '(pos, lens, gbo, v) := i in
  match version_to_numbers v with
  | Ok (ma, mi) => list_eqb N.eqb (snd (finish_tail pos lens gbo ma mi)) o
  | _ => false
  end.
