(* C40 - model of the Arrow helper transformations of rust/lance-arrow/src:
     lib.rs      RecordBatchExt::{merge, merge_with_schema, project_by_schema, take}, merge / merge_with_schema /
                 merge_list_struct* / merge_struct_validity / adjust_child_validity / project
     list.rs     ListArrayExt::{filter_garbage_nulls, trimmed_values}
     struct.rs   StructArrayExt::pushdown_nulls
     deepcopy.rs deep_copy_array, deep_copy_array_sliced
     json.rs     JSON <-> JSONB column conversion (codec as Section variables)
   Executable definitions only (+ the chk_* correspondence checkers at the end).

   Physical arrays ([parr]) follow what arrow-rs 56 holds in memory: value buffers are already sliced
   (pointer + length), validity is a bitmap *view* (raw buffer bits, bit offset), list offsets are a
   window of the offsets buffer over an unsliced child, struct / fixed-size-list children are sliced
   recursively.  [logical] reads the value of every row (what the typed accessors return). *)
From LanceV Require Import Common.Base.
Local Open Scope nat_scope.

(* ------------------------------------------------------------------ small list helpers *)
Definition sub {A} (o n : nat) (l : list A) : list A := firstn n (skipn o l).

Section Map2.
  Context {A B C : Type} (f : A -> B -> C).
  Fixpoint map2 (la : list A) (lb : list B) : list C :=
    match la, lb with
    | a :: la', b :: lb' => f a b :: map2 la' lb'
    | _, _ => []
    end.
End Map2.

Definition obind {A B} (x : outcome A) (f : A -> outcome B) : outcome B :=
  match x with Ok a => f a | Err => Err | Panic => Panic end.
(* Result::unwrap / expect *)
Definition unwrap {A} (x : outcome A) : outcome A := match x with Err => Panic | o => o end.

Section OMap.
  Context {A B : Type} (f : A -> outcome B).
  Fixpoint omap (l : list A) : outcome (list B) :=
    match l with
    | [] => Ok []
    | a :: l' => obind (f a) (fun b => obind (omap l') (fun bs => Ok (b :: bs)))
    end.
End OMap.

(* ------------------------------------------------------------------ validity bitmaps *)
(* (raw bits of the whole buffer, bit offset of this view); the length comes from the array *)
Definition bitview := (list bool * nat)%type.
Definition bit (bv : bitview) (i : nat) : bool := nth (snd bv + i) (fst bv) false.
Definition valid (nl : option bitview) (i : nat) : bool :=
  match nl with None => true | Some bv => bit bv i end.
Definition validity (nl : option bitview) (n : nat) : list bool := map (valid nl) (seq 0 n).
Definition count_nulls (nl : option bitview) (n : nat) : nat := length (filter negb (validity nl n)).
(* a freshly allocated bitmap: bit offset 0, zero padding up to a whole byte *)
Definition pad8 (l : list bool) : list bool := l ++ repeat false ((8 - length l mod 8) mod 8).
Definition fresh (l : list bool) : bitview := (pad8 l, 0).
(* NullBuffer::slice *)
Definition nslice (o : nat) (nl : option bitview) : option bitview :=
  match nl with None => None | Some bv => Some (fst bv, snd bv + o) end.

(* ------------------------------------------------------------------ arrays, types, values *)
Inductive leafval := VI (z : Z) | VS (b : list N).

(* leaf kinds: 0 Int32, 1 Int64, 2 Utf8, 3 Boolean.  [aoff] is what Array::offset() reports
   (always 0 except for Boolean, whose values are a bit view). *)
Inductive parr :=
| PLeaf (ty : N) (aoff : nat) (vals : list leafval) (nl : option bitview)
| PStruct (len : nat) (fields : list (N * bool * parr)) (nl : option bitview)   (* (name, nullable, column) *)
| PList (large : bool) (offs : list Z) (values : parr) (nl : option bitview)
| PFsl (size : nat) (len : nat) (values : parr) (nl : option bitview).

Definition field := (N * bool * parr)%type.
Definition fname (f : field) : N := fst (fst f).
Definition fnullable (f : field) : bool := snd (fst f).
Definition fcol (f : field) : parr := snd f.

Inductive dtype :=
| DLeaf (k : N)
| DStruct (fs : list (N * bool * dtype))
| DList (large : bool) (t : dtype)
| DFsl (size : nat) (t : dtype).
Definition dfield := (N * bool * dtype)%type.
Definition dname (f : dfield) : N := fst (fst f).
Definition dnullable (f : dfield) : bool := snd (fst f).
Definition dftype (f : dfield) : dtype := snd f.

Inductive lval :=
| VNull
| VLeaf (v : leafval)
| VStruct (fs : list (N * lval))
| VList (xs : list lval).

Definition plen (p : parr) : nat :=
  match p with
  | PLeaf _ _ vals _ => length vals
  | PStruct len _ _ => len
  | PList _ offs _ _ => length offs - 1
  | PFsl _ len _ _ => len
  end.
Definition pnulls (p : parr) : option bitview :=
  match p with
  | PLeaf _ _ _ nl | PStruct _ _ nl | PList _ _ _ nl | PFsl _ _ _ nl => nl
  end.
Definition null_count (p : parr) : nat := count_nulls (pnulls p) (plen p).

Fixpoint ptype (p : parr) : dtype :=
  match p with
  | PLeaf k _ _ _ => DLeaf k
  | PStruct _ fs _ => DStruct (map (fun f => (fst (fst f), snd (fst f), ptype (snd f))) fs)
  | PList lg _ v _ => DList lg (ptype v)
  | PFsl n _ v _ => DFsl n (ptype v)
  end.

Definition off_at (offs : list Z) (i : nat) : nat := Z.to_nat (nth i offs 0%Z).

(* logical value of every row *)
Fixpoint logical (p : parr) : list lval :=
  match p with
  | PLeaf _ _ vals nl =>
      map2 (fun (b : bool) v => if b then VLeaf v else VNull) (validity nl (length vals)) vals
  | PStruct len fs nl =>
      let cols := map (fun f => (fst (fst f), logical (snd f))) fs in
      map (fun i => if valid nl i
                    then VStruct (map (fun c => (fst c, nth i (snd c) VNull)) cols)
                    else VNull) (seq 0 len)
  | PList _ offs v nl =>
      let lv := logical v in
      map (fun i => if valid nl i
                    then VList (sub (off_at offs i) (off_at offs (S i) - off_at offs i) lv)
                    else VNull) (seq 0 (length offs - 1))
  | PFsl sz len v nl =>
      let lv := logical v in
      map (fun i => if valid nl i then VList (sub (i * sz) sz lv) else VNull) (seq 0 len)
  end.

(* ------------------------------------------------------------------ well-formedness (what arrow-rs guarantees by construction) *)
Fixpoint wfb (p : parr) : bool :=
  match p with
  | PLeaf _ _ _ _ => true
  | PStruct len fs _ => forallb (fun f => Nat.eqb (plen (snd f)) len && wfb (snd f)) fs
  | PList _ offs v _ =>
      Nat.leb 1 (length offs)
      && forallb (fun i => Z.leb 0 (nth i offs 0%Z) && Z.leb (nth i offs 0%Z) (nth (S i) offs 0%Z)) (seq 0 (length offs - 1))
      && Nat.leb (off_at offs (length offs - 1)) (plen v)
      && wfb v
  | PFsl sz len v _ => Nat.eqb (plen v) (len * sz) && wfb v
  end.

(* ------------------------------------------------------------------ decidable equalities *)
Definition leafval_eqb (a b : leafval) : bool :=
  match a, b with
  | VI x, VI y => Z.eqb x y
  | VS x, VS y => list_eqb N.eqb x y
  | _, _ => false
  end.

Fixpoint lval_eqb (a b : lval) : bool :=
  match a, b with
  | VNull, VNull => true
  | VLeaf x, VLeaf y => leafval_eqb x y
  | VStruct xs, VStruct ys =>
      (fix go (xs ys : list (N * lval)) : bool :=
         match xs, ys with
         | [], [] => true
         | (n, x) :: xs', (m, y) :: ys' => N.eqb n m && lval_eqb x y && go xs' ys'
         | _, _ => false
         end) xs ys
  | VList xs, VList ys =>
      (fix go (xs ys : list lval) : bool :=
         match xs, ys with
         | [], [] => true
         | x :: xs', y :: ys' => lval_eqb x y && go xs' ys'
         | _, _ => false
         end) xs ys
  | _, _ => false
  end.
Definition rows_eqb : list lval -> list lval -> bool := list_eqb lval_eqb.

Fixpoint dtype_eqb (a b : dtype) : bool :=
  match a, b with
  | DLeaf x, DLeaf y => N.eqb x y
  | DStruct xs, DStruct ys =>
      (fix go (xs ys : list dfield) : bool :=
         match xs, ys with
         | [], [] => true
         | (n, nb, x) :: xs', (m, mb, y) :: ys' => N.eqb n m && Bool.eqb nb mb && dtype_eqb x y && go xs' ys'
         | _, _ => false
         end) xs ys
  | DList l1 x, DList l2 y => Bool.eqb l1 l2 && dtype_eqb x y
  | DFsl n x, DFsl m y => Nat.eqb n m && dtype_eqb x y
  | _, _ => false
  end.

Definition bitview_eqb (a b : bitview) : bool := list_eqb Bool.eqb (fst a) (fst b) && Nat.eqb (snd a) (snd b).
Definition nulls_eqb : option bitview -> option bitview -> bool := option_eqb bitview_eqb.

(* physical equality *)
Fixpoint parr_eqb (a b : parr) : bool :=
  match a, b with
  | PLeaf k1 o1 v1 n1, PLeaf k2 o2 v2 n2 =>
      N.eqb k1 k2 && Nat.eqb o1 o2 && list_eqb leafval_eqb v1 v2 && nulls_eqb n1 n2
  | PStruct l1 f1 n1, PStruct l2 f2 n2 =>
      Nat.eqb l1 l2 && nulls_eqb n1 n2 &&
      (fix go (xs ys : list field) : bool :=
         match xs, ys with
         | [], [] => true
         | (n, nb, x) :: xs', (m, mb, y) :: ys' => N.eqb n m && Bool.eqb nb mb && parr_eqb x y && go xs' ys'
         | _, _ => false
         end) f1 f2
  | PList g1 o1 v1 n1, PList g2 o2 v2 n2 =>
      Bool.eqb g1 g2 && list_eqb Z.eqb o1 o2 && parr_eqb v1 v2 && nulls_eqb n1 n2
  | PFsl s1 l1 v1 n1, PFsl s2 l2 v2 n2 =>
      Nat.eqb s1 s2 && Nat.eqb l1 l2 && parr_eqb v1 v2 && nulls_eqb n1 n2
  | _, _ => false
  end.

(* ------------------------------------------------------------------ arrow-rs Array::slice (transcription) *)
Fixpoint pslice (o n : nat) (p : parr) : parr :=
  match p with
  | PLeaf k aoff vals nl =>
      PLeaf k (if N.eqb k 3 then aoff + o else aoff) (sub o n vals) (nslice o nl)
  | PStruct _ fs nl =>
      PStruct n (map (fun f => (fst (fst f), snd (fst f), pslice o n (snd f))) fs) (nslice o nl)
  | PList lg offs v nl => PList lg (sub o (S n) offs) v (nslice o nl)
  | PFsl sz _ v nl => PFsl sz n (pslice (o * sz) (n * sz) v) (nslice o nl)
  end.

(* ------------------------------------------------------------------ reference gather (arrow_select::take / filter,
   MutableArrayData::extend): builds offset-free arrays.  Index None = null index. *)
Definition default_leaf (k : N) : leafval := if N.eqb k 2 then VS [] else VI 0%Z.

Definition take_bits (nl : option bitview) (idx : list (option nat)) : option bitview :=
  Some (fresh (map (fun oi => match oi with Some i => valid nl i | None => false end) idx)).

(* the child positions selected by taking list rows [idx] *)
Definition list_ranges (offs : list Z) (nl : option bitview) (idx : list (option nat)) : list (list nat) :=
  map (fun oi => match oi with
                 | Some i => if valid nl i then seq (off_at offs i) (off_at offs (S i) - off_at offs i) else []
                 | None => []
                 end) idx.
Fixpoint running (acc : Z) (lens : list nat) : list Z :=
  match lens with [] => [acc] | l :: ls => acc :: running (acc + Z.of_nat l)%Z ls end.

Fixpoint ptake (idx : list (option nat)) (p : parr) : parr :=
  match p with
  | PLeaf k _ vals nl =>
      PLeaf k 0 (map (fun oi => match oi with Some i => nth i vals (default_leaf k) | None => default_leaf k end) idx)
            (take_bits nl idx)
  | PStruct _ fs nl =>
      PStruct (length idx) (map (fun f => (fst (fst f), snd (fst f), ptake idx (snd f))) fs) (take_bits nl idx)
  | PList lg offs v nl =>
      let rs := list_ranges offs nl idx in
      PList lg (running 0%Z (map (@length nat) rs)) (ptake (map Some (concat rs)) v) (take_bits nl idx)
  | PFsl sz _ v nl =>
      let cidx := concat (map (fun oi => match oi with
                                         | Some i => map (fun j => Some (i * sz + j)) (seq 0 sz)
                                         | None => repeat None sz
                                         end) idx) in
      PFsl sz (length idx) (ptake cidx v) (take_bits nl idx)
  end.

Fixpoint true_positions (i : nat) (m : list bool) : list nat :=
  match m with
  | [] => []
  | b :: m' => if b then i :: true_positions (S i) m' else true_positions (S i) m'
  end.
Definition pfilter (m : list bool) (p : parr) : parr := ptake (map Some (true_positions 0 m)) p.
Definition pcompact (p : parr) : parr := ptake (map Some (seq 0 (plen p))) p.

(* arrow_array::new_null_array *)
Fixpoint null_array (t : dtype) (n : nat) : parr :=
  match t with
  | DLeaf k => PLeaf k 0 (repeat (default_leaf k) n) (Some (fresh (repeat false n)))
  | DStruct fs => PStruct n (map (fun f => (fst (fst f), snd (fst f), null_array (snd f) n)) fs) (Some (fresh (repeat false n)))
  | DList lg t' => PList lg (repeat 0%Z (S n)) (null_array t' 0) (Some (fresh (repeat false n)))
  | DFsl sz t' => PFsl sz n (null_array t' (n * sz)) (Some (fresh (repeat false n)))
  end.

(* physical facts *)
Definition nulls_offset_free (nl : option bitview) : bool :=
  match nl with None => true | Some bv => Nat.eqb (snd bv) 0 end.
Fixpoint offset_free (p : parr) : bool :=
  match p with
  | PLeaf _ aoff _ nl => Nat.eqb aoff 0 && nulls_offset_free nl
  | PStruct _ fs nl => nulls_offset_free nl && forallb (fun f => offset_free (snd f)) fs
  | PList _ offs v nl =>
      nulls_offset_free nl && Nat.eqb (off_at offs 0) 0 && Nat.eqb (off_at offs (length offs - 1)) (plen v) && offset_free v
  | PFsl sz len v nl => nulls_offset_free nl && Nat.eqb (plen v) (len * sz) && offset_free v
  end.

(* ------------------------------------------------------------------ StructArray::try_new / ListArray::try_new checks *)
(* NullBuffer::contains: every null of the child is masked by a null of the parent *)
Definition nulls_contain (parent : option bitview) (child : option bitview) (n : nat) : bool :=
  forallb (fun i => implb (valid parent i) (valid child i)) (seq 0 n).

Definition nonnull_ok (nl : option bitview) (len : nat) (f : field) : bool :=
  fnullable f ||
  match pnulls (fcol f) with
  | None => true
  | Some a =>
      Nat.eqb (count_nulls (Some a) len) 0 ||
      match nl with Some _ => nulls_contain nl (Some a) len | None => false end
  end.

(* nulls.filter(|n| n.null_count() > 0) *)
Definition drop_empty_nulls (nl : option bitview) (len : nat) : option bitview :=
  if Nat.eqb (count_nulls nl len) 0 then None else nl.

(* StructArray::try_new(fields, arrays, nulls): the data types agree by construction at the call sites that
   use this function; [type_ok] carries the check where they may not. *)
Definition struct_try_new (fs : list field) (nl : option bitview) : outcome parr :=
  match fs with
  | [] => Err
  | f :: _ =>
      let len := plen (fcol f) in
      if forallb (fun g => Nat.eqb (plen (fcol g)) len) fs && forallb (nonnull_ok nl len) fs
      then Ok (PStruct len fs (drop_empty_nulls nl len))
      else Err
  end.

(* ListArray::try_new with a nullable item field of the right type *)
Definition list_try_new (lg : bool) (offs : list Z) (v : parr) (nl : option bitview) : outcome parr :=
  if Nat.leb (off_at offs (length offs - 1)) (plen v) then Ok (PList lg offs v nl) else Err.

(* FixedSizeListArray::try_new: len = values.len / size *)
Definition fsl_try_new (sz : nat) (v : parr) (nl : option bitview) : outcome parr :=
  match sz with
  | 0 => Err   (* not generated *)
  | _ => Ok (PFsl sz (plen v / sz) v nl)
  end.

(* ------------------------------------------------------------------ lib.rs: validity helpers *)
(* normalize_validity: all-null validity (placeholder) becomes None *)
Definition normalize_validity (nl : option bitview) (len : nat) : option bitview :=
  match nl with
  | None => None
  | Some v => if Nat.eqb (count_nulls nl len) len then None else Some v
  end.

(* merge_struct_validity; the BitOr of two BooleanBuffers asserts equal lengths *)
Definition merge_struct_validity (l : option bitview) (llen : nat) (r : option bitview) (rlen : nat)
  : outcome (option bitview) :=
  match normalize_validity l llen, normalize_validity r rlen with
  | None, None => Ok None
  | Some a, None => Ok (Some a)
  | None, Some b => Ok (Some b)
  | Some a, Some b =>
      if Nat.eqb (count_nulls (Some a) llen) 0 && Nat.eqb (count_nulls (Some b) rlen) 0 then Ok (Some a)
      else if Nat.eqb llen rlen then Ok (Some (fresh (map2 orb (validity (Some a) llen) (validity (Some b) rlen))))
      else Panic
  end.

Definition set_nulls (p : parr) (nl : option bitview) : parr :=
  match p with
  | PLeaf k aoff vals _ => PLeaf k aoff vals nl
  | PStruct len fs _ => PStruct len fs nl
  | PList lg offs v _ => PList lg offs v nl
  | PFsl sz len v _ => PFsl sz len v nl
  end.
Definition parr_offset (p : parr) : nat := match p with PLeaf _ aoff _ _ => aoff | _ => 0 end.

(* adjust_child_validity(child, parent_validity): the new bitmap is handed to ArrayData::try_new as a raw
   buffer together with child.offset(), i.e. the bit offset of the parent's view is NOT carried over.
   ArrayData::try_new(..).unwrap() panics when the buffer is too short for offset + len. *)
Definition adjust_child_validity (child : parr) (parent : option bitview) (plen_parent : nat) : outcome parr :=
  match parent with
  | None => Ok child
  | Some pv =>
      if Nat.eqb (count_nulls parent plen_parent) 0 then Ok child
      else
        let n := plen child in
        let raw : list bool :=
          match pnulls child with
          | None => fst pv                                            (* parent_validity.clone() -> raw buffer *)
          | Some cv => pad8 (map2 andb (validity (Some cv) n) (validity parent n))   (* child & parent: fresh *)
          end in
        let off := parr_offset child in
        if Nat.leb (off + n) (length raw) then
          Ok (set_nulls child (Some (raw, off)))
        else Panic
  end.

Definition find_field (n : N) (fs : list field) : option field := find (fun f => N.eqb (fname f) n) fs.
Definition has_field (n : N) (fs : list field) : bool := existsb (fun f => N.eqb (fname f) n) fs.
Definition is_pstruct (p : parr) : bool := match p with PStruct _ _ _ => true | _ => false end.
Definition pfields (p : parr) : list field := match p with PStruct _ fs _ => fs | _ => [] end.
Definition pvalues (p : parr) : parr := match p with PList _ _ v _ | PFsl _ _ v _ => v | _ => p end.
Definition poffs (p : parr) : list Z := match p with PList _ offs _ _ => offs | _ => [] end.

(* ------------------------------------------------------------------ lib.rs: merge_list_struct* *)
(* merge_list_struct_null_helper: one side is entirely null; take the other side's lists and add the
   missing struct children as null arrays *)
Definition merge_list_struct_null (left right not_null : parr) : outcome parr :=
  let ls := pvalues left in
  let ns := pvalues not_null in
  let rs := pvalues right in
  let values_len := plen ns in
  let pick (f : field) : field :=
    (fname f, fnullable f,
     match find_field (fname f) (pfields ns) with
     | Some g => fcol g
     | None => null_array (ptype (fcol f)) values_len
     end) in
  let cols :=
    map pick (pfields ls)
    ++ map pick (filter (fun f => negb (has_field (fname f) (pfields ls))) (pfields rs)) in
  (* StructArray::new: data types must agree with the (left) fields *)
  let types_ok := forallb (fun fg => dtype_eqb (ptype (fcol (fst fg))) (ptype (fcol (snd fg))))
                          (combine (pfields ls ++ filter (fun f => negb (has_field (fname f) (pfields ls))) (pfields rs)) cols) in
  if negb types_ok then Panic else
  obind (unwrap (struct_try_new cols (pnulls ns))) (fun ms =>
  unwrap (list_try_new false (poffs not_null) ms (pnulls not_null))).

(* merge_list_struct, given the result of merging the two item structs *)
Definition merge_list_struct (left right : parr) (merged_items : outcome parr) : outcome parr :=
  if Nat.eqb (null_count left) (plen left) then merge_list_struct_null left right right
  else if Nat.eqb (null_count right) (plen right) then merge_list_struct_null left right left
  else if negb (list_eqb Z.eqb (poffs left) (poffs right)) then Panic
  else obind merged_items (fun mi => unwrap (list_try_new false (poffs left) mi (pnulls left))).

(* ------------------------------------------------------------------ lib.rs: merge *)
Definition is_list_of_struct (p : parr) : bool :=
  match p with PList false _ (PStruct _ _ _) _ => true | _ => false end.

Fixpoint merge (l r : parr) {struct l} : outcome parr :=
  match l with
  | PStruct llen lfs lnl =>
      match r with
      | PStruct rlen rfs rnl =>
          obind (merge_struct_validity lnl llen rnl rlen) (fun mv =>
          obind (omap (fun lf : field =>
                   match find_field (fst (fst lf)) rfs with
                   | Some rf =>
                       match snd lf with
                       | PStruct _ _ _ =>
                           if is_pstruct (fcol rf)
                           then obind (merge (snd lf) (fcol rf)) (fun m => Ok [(fst (fst lf), snd (fst lf), m)])
                           else obind (adjust_child_validity (snd lf) lnl llen)
                                      (fun a => Ok [(fst (fst lf), snd (fst lf), a)])
                       | PList false _ lv _ =>
                           if is_pstruct lv && is_list_of_struct (fcol rf)
                           then
                             obind (merge_list_struct (snd lf) (fcol rf) (merge lv (pvalues (fcol rf)))) (fun m =>
                             Ok ((if dtype_eqb (ptype lv) (ptype (pvalues (fcol rf))) then [lf] else [])
                                 ++ [(fst (fst lf), snd (fst lf), m)]))
                           else obind (adjust_child_validity (snd lf) lnl llen)
                                      (fun a => Ok [(fst (fst lf), snd (fst lf), a)])
                       | _ => obind (adjust_child_validity (snd lf) lnl llen)
                                    (fun a => Ok [(fst (fst lf), snd (fst lf), a)])
                       end
                   | None => obind (adjust_child_validity (snd lf) lnl llen)
                                   (fun a => Ok [(fst (fst lf), snd (fst lf), a)])
                   end) lfs) (fun lcols =>
          obind (omap (fun rf : field =>
                   obind (adjust_child_validity (fcol rf) rnl rlen) (fun a => Ok (fname rf, fnullable rf, a)))
                   (filter (fun rf => negb (has_field (fname rf) lfs)) rfs)) (fun rcols =>
          unwrap (struct_try_new (concat lcols ++ rcols) mv))))
      | _ => Panic
      end
  | _ => Panic
  end.

(* RecordBatchExt::merge: a batch is a struct without validity *)
Definition batch_merge (l r : parr) : outcome parr :=
  if negb (Nat.eqb (plen l) (plen r)) then Err else merge l r.

(* ------------------------------------------------------------------ list.rs *)
Definition trimmed_values (p : parr) : parr :=
  match p with
  | PList _ offs v _ =>
      let first := off_at offs 0 in
      let last := off_at offs (length offs - 1) in
      pslice first (last - first) v
  | _ => p
  end.

Fixpoint kept_offsets (acc : Z) (lens : list Z) (vs : list bool) : list Z :=
  match lens, vs with
  | len :: lens', v :: vs' => let acc' := if v then (acc + len)%Z else acc in acc' :: kept_offsets acc' lens' vs'
  | _, _ => []
  end.

Definition filter_garbage_nulls (p : parr) : outcome parr :=
  match p with
  | PList lg offs v nl =>
      if Nat.eqb (plen p) 0 then Ok p else
      match nl with
      | None => Ok p
      | Some _ =>
          let vs := validity nl (plen p) in
          let lens := map2 (fun a b => (b - a)%Z) offs (tl offs) in
          let preamble := off_at offs 0 in
          let body := concat (map2 (fun (len : Z) (b : bool) => repeat b (Z.to_nat len)) lens vs) in
          let covered := preamble + length body in
          if Nat.ltb (plen v) covered then Panic        (* usize underflow in `values.len() - should_keep.len()` *)
          else
            let keep := repeat false preamble ++ body ++ repeat false (plen v - covered) in
            Ok (PList lg (0%Z :: kept_offsets 0%Z lens vs) (pfilter keep v) nl)
      end
  | _ => Panic
  end.

(* every null entry has length zero; offsets start at 0 and cover the whole child *)
Definition no_garbage (p : parr) : bool :=
  match p with
  | PList _ offs v nl =>
      forallb (fun i => valid nl i || Nat.eqb (off_at offs (S i)) (off_at offs i)) (seq 0 (plen p))
  | _ => false
  end.
Definition list_tight (p : parr) : bool :=
  match p with
  | PList _ offs v _ => Nat.eqb (off_at offs 0) 0 && Nat.eqb (off_at offs (length offs - 1)) (plen v)
  | _ => false
  end.

(* ------------------------------------------------------------------ struct.rs: pushdown_nulls *)
Definition pushdown_nulls (p : parr) : outcome parr :=
  match p with
  | PStruct len fs nl =>
      match nl with
      | None => Ok p
      | Some v =>
          Ok (PStruct len
                (map (fun f : field =>
                        (fname f, fnullable f,
                         set_nulls (fcol f)
                           match pnulls (fcol f) with
                           | Some c => Some (fresh (map2 andb (validity (Some c) len) (validity nl len)))
                           | None => Some v
                           end)) fs) nl)
      end
  | _ => Panic
  end.

(* ------------------------------------------------------------------ deepcopy.rs *)
(* deep_copy_nulls copies the raw buffer and keeps (offset, len); ArrayDataBuilder::build_unchecked then
   drops a bitmap that has no null in its window *)
Definition deep_copy_nulls (nl : option bitview) (len : nat) : option bitview :=
  drop_empty_nulls (match nl with None => None | Some bv => Some (fst bv, snd bv) end) len.
Fixpoint deep_copy (p : parr) : parr :=
  match p with
  | PLeaf k aoff vals nl => PLeaf k aoff vals (deep_copy_nulls nl (length vals))
  | PStruct len fs nl =>
      PStruct len (map (fun f => (fst (fst f), snd (fst f), deep_copy (snd f))) fs) (deep_copy_nulls nl len)
  | PList lg offs v nl => PList lg offs (deep_copy v) (deep_copy_nulls nl (length offs - 1))
  | PFsl sz len v nl => PFsl sz len (deep_copy v) (deep_copy_nulls nl len)
  end.
(* deep_copy_array_sliced: MutableArrayData::extend(0, offset, offset + len) + freeze *)
(* deep_copy_array_data_sliced calls extend(0, data.offset(), data.offset() + data.len()) although
   MutableArrayData already works relative to the array's own offset: rows [aoff, aoff + len) are copied.
   Array::offset() is non-zero only for a (top-level) Boolean array; the rows past the view are whatever
   the buffers hold there (the model has the validity bits but not the value bits: such inputs are in the
   class Known_C40_bool_offset and are not part of the correspondence stream). *)
Definition deep_copy_sliced (p : parr) : parr := ptake (map Some (seq (parr_offset p) (plen p))) p.

(* ------------------------------------------------------------------ lib.rs: project *)
Definition find_dfield (n : N) (fs : list dfield) : option dfield := find (fun f => N.eqb (dname f) n) fs.

(* StructArray::try_new(fields.clone(), columns, nulls) with the *schema's* fields: types and lengths checked *)
Definition struct_try_new_typed (sch : list dfield) (cols : list parr) (nl : option bitview) : outcome parr :=
  let fs := map2 (fun (d : dfield) c => (dname d, dnullable d, c)) sch cols in
  if forallb (fun dc => dtype_eqb (dftype (fst dc)) (ptype (snd dc))) (combine sch cols)
  then struct_try_new fs nl else Err.

(* project(struct_array, fields), recursion carried by the schema type *)
Fixpoint project_t (t : dtype) (p : parr) {struct t} : outcome parr :=
  match t with
  | DStruct sch =>
      match p with
      | PStruct len fs nl =>
          match sch with
          | [] => Ok (PStruct len [] nl)
          | _ =>
              obind (omap (fun d : dfield =>
                       match find_field (fst (fst d)) fs with
                       | None => Err
                       | Some f =>
                           match snd d with
                           | DStruct _ => if is_pstruct (fcol f) then project_t (snd d) (fcol f) else Panic
                           | _ => Ok (fcol f)
                           end
                       end) sch) (fun cols => struct_try_new_typed sch cols nl)
          end
      | _ => Panic
      end
  | _ => Ok p
  end.
Definition project (p : parr) (sch : list dfield) : outcome parr := project_t (DStruct sch) p.

(* ------------------------------------------------------------------ lib.rs: merge_with_schema *)
Definition same_type_kind (a b : dtype) : bool :=
  match a, b with
  | DStruct _, DStruct _ => true
  | DStruct _, _ => false
  | _, DStruct _ => false
  | _, _ => true
  end.
Definition find_kind (d : dfield) (fs : list field) : option field :=
  find (fun f => N.eqb (fname f) (dname d) && same_type_kind (ptype (fcol f)) (dftype d)) fs.
Definition is_plist (lg : bool) (p : parr) : bool :=
  match p with PList g _ _ _ => Bool.eqb g lg | _ => false end.
Definition is_pfsl (p : parr) : bool := match p with PFsl _ _ _ _ => true | _ => false end.

(* [mws t trim l r]: both sides have the column; merge it as dictated by the schema type [t].
   trim = true at struct-field level (list values are trimmed_values()), false below a list. *)
Fixpoint mws (t : dtype) (trim : bool) (l r : parr) {struct t} : outcome parr :=
  match t with
  | DStruct sch =>
      match l, r with
      | PStruct llen lfs lnl, PStruct rlen rfs rnl =>
          obind (merge_struct_validity lnl llen rnl rlen) (fun mv =>
          obind (omap (fun d : dfield =>
                   match find_kind d lfs, find_kind d rfs with
                   | None, Some rf =>
                       obind (adjust_child_validity (fcol rf) rnl rlen) (fun a => Ok [(fname rf, fnullable rf, a)])
                   | Some lf, None =>
                       obind (adjust_child_validity (fcol lf) lnl llen) (fun a => Ok [(fname lf, fnullable lf, a)])
                   | Some lf, Some rf =>
                       match snd d with
                       | DLeaf _ =>
                           obind (adjust_child_validity (fcol lf) lnl llen) (fun a => Ok [(fname lf, fnullable lf, a)])
                       | DStruct _ =>
                           obind (mws (snd d) true (fcol lf) (fcol rf)) (fun m => Ok [(fst (fst d), snd (fst d), m)])
                       | DList lg _ =>
                           if is_plist lg (fcol lf) && is_plist lg (fcol rf)
                           then obind (mws (snd d) true (fcol lf) (fcol rf)) (fun m => Ok [(fst (fst d), snd (fst d), m)])
                           else Panic
                       | DFsl _ _ =>
                           if is_pfsl (fcol lf) && is_pfsl (fcol rf)
                           then obind (mws (snd d) true (fcol lf) (fcol rf)) (fun m => Ok [(fst (fst d), snd (fst d), m)])
                           else Panic
                       end
                   | None, None => Ok []
                   end) sch) (fun cols =>
          unwrap (struct_try_new (concat cols) mv)))
      | _, _ => Panic
      end
  | DList lg g =>
      match l, r with
      | PList llg loffs lv lnl, PList rlg roffs rv rnl =>
          if Bool.eqb llg lg && Bool.eqb rlg lg then
            obind (mws g false (if trim then trimmed_values l else lv) (if trim then trimmed_values r else rv)) (fun mvals =>
            obind (merge_struct_validity lnl (plen l) rnl (plen r)) (fun mv =>
            if dtype_eqb (ptype mvals) g then unwrap (list_try_new lg loffs mvals mv) else Panic))
          else Panic
      | _, _ => Panic
      end
  | DFsl sz g =>
      match l, r with
      | PFsl _ llen lv lnl, PFsl _ rlen rv rnl =>
          obind (mws g false lv rv) (fun mvals =>
          obind (merge_struct_validity lnl llen rnl rlen) (fun mv =>
          if dtype_eqb (ptype mvals) g then
            match unwrap (fsl_try_new sz mvals mv) with
            | Ok m => Ok m
            | o => o
            end
          else Panic))
      | _, _ => Panic
      end
  | DLeaf _ => Ok l
  end.

Definition merge_with_schema (l r : parr) (sch : list dfield) : outcome parr := mws (DStruct sch) true l r.
Definition batch_merge_with_schema (l r : parr) (sch : list dfield) : outcome parr :=
  if negb (Nat.eqb (plen l) (plen r)) then Err else merge_with_schema l r sch.

(* ------------------------------------------------------------------ lib.rs: take *)
(* arrow_select::take on the struct + RecordBatch::from(StructArray), which asserts the absence of struct nulls *)
Definition batch_take (p : parr) (idx : list (option nat)) : outcome parr :=
  if negb (forallb (fun oi => match oi with Some i => Nat.ltb i (plen p) | None => true end) idx) then Panic
  else if existsb (fun oi => match oi with None => true | Some _ => false end) idx then Panic
  else Ok (ptake idx p).

(* ------------------------------------------------------------------ json.rs (codec = Section variables) *)
Section Json.
  Variable enc : list N -> option (list N).      (* jsonb::parse_value + to_vec; None = parse error *)
  Variable dec : list N -> list N.               (* RawJsonb::to_string *)

  (* JsonArray::try_from(&StringArray) / convert_json_columns on one column *)
  Definition json_to_jsonb (col : list (option (list N))) : outcome (list (option (list N))) :=
    omap (fun o => match o with
                   | None => Ok None
                   | Some s => match enc s with Some b => Ok (Some b) | None => Err end
                   end) col.
  (* convert_lance_json_to_arrow / JsonArray::to_arrow_json on one column *)
  Definition jsonb_to_json (col : list (option (list N))) : list (option (list N)) :=
    map (option_map dec) col.

  (* JSONPath extraction: [select b p] = first match printed, Ok None when nothing matches, Err on a bad path *)
  Variable select : list N -> list N -> outcome (option (list N)).
  (* JsonArray::json_path row by row *)
  Definition json_path_col (col : list (option (list N))) (path : list N) : outcome (list (option (list N))) :=
    omap (fun o => match o with None => Ok None | Some b => select b path end) col.
  (* udf/json.rs json_extract_impl: path column, a one-element column is broadcast *)
  Definition path_at (paths : list (option (list N))) (i : nat) : option (list N) :=
    nth (if Nat.eqb (length paths) 1 then 0 else i) paths None.
  Definition json_extract_udf (col paths : list (option (list N))) : outcome (list (option (list N))) :=
    omap (fun io : nat * option (list N) =>
            match snd io with
            | None => Ok None
            | Some b => match path_at paths (fst io) with Some p => select b p | None => Ok None end
            end) (combine (seq 0 (length col)) col).
End Json.

(* ================================================================== row-wise specifications and class predicates *)
(* k-th child of a struct value; a null struct reads as null children *)
Definition vchild (v : lval) (k : nat) : lval :=
  match v with VStruct fs => nth k (map snd fs) VNull | _ => VNull end.
Fixpoint dindex (n : N) (fs : list dfield) : option nat :=
  match fs with
  | [] => None
  | f :: fs' => if N.eqb (dname f) n then Some 0 else option_map S (dindex n fs')
  end.
Definition is_dstruct (t : dtype) : bool := match t with DStruct _ => true | _ => false end.
Definition dfields (t : dtype) : list dfield := match t with DStruct fs => fs | _ => [] end.

(* RecordBatchExt::merge, what one output row must be: null iff both rows are null; the left columns in
   order (a column on both sides: two structs are merged, anything else is the left one), then the
   right-only columns; the columns of a null row read as null. *)
Fixpoint merge_val (tl tr : dtype) (lv rv : lval) {struct tl} : lval :=
  match tl with
  | DStruct lfs =>
      match lv, rv with
      | VNull, VNull => VNull
      | _, _ =>
          let rfs := dfields tr in
          VStruct
            ((fix go (k : nat) (fs : list dfield) : list (N * lval) :=
                match fs with
                | [] => []
                | f :: fs' =>
                    (fst (fst f),
                     match dindex (fst (fst f)) rfs with
                     | Some j =>
                         match snd f with
                         | DStruct _ =>
                             if is_dstruct (dftype (nth j rfs (0%N, true, DLeaf 0)))
                             then merge_val (snd f) (dftype (nth j rfs (0%N, true, DLeaf 0))) (vchild lv k) (vchild rv j)
                             else vchild lv k
                         | _ => vchild lv k
                         end
                     | None => vchild lv k
                     end) :: go (S k) fs'
                end) 0 lfs
             ++ map (fun jf : nat * dfield => (dname (snd jf), vchild rv (fst jf)))
                    (filter (fun jf : nat * dfield => negb (existsb (fun f => N.eqb (dname f) (dname (snd jf))) lfs))
                            (combine (seq 0 (length rfs)) rfs)))
      end
  | _ => lv
  end.

(* the property of one merge call *)
Definition merge_rows_ok (l r m : parr) : bool :=
  rows_eqb (logical m) (map2 (merge_val (ptype l) (ptype r)) (logical l) (logical r)).

(* classes of inputs on which merge_struct_validity / adjust_child_validity deviate (KNOWN_FINDINGS.txt) *)
Definition one_sided_nulls (l r : option bitview) (n : nat) : bool :=
  let a := count_nulls l n in
  let b := count_nulls r n in
  (Nat.ltb 0 a && Nat.ltb a n && Nat.eqb b 0) || (Nat.ltb 0 b && Nat.ltb b n && Nat.eqb a 0).
Definition both_all_null (l r : option bitview) (n : nat) : bool :=
  Nat.ltb 0 n && Nat.eqb (count_nulls l n) n && Nat.eqb (count_nulls r n) n.
(* the bit offset of the parent validity is not the one the adjusted child will be read with *)
Definition validity_offset_dropped (child : parr) (parent : option bitview) (n : nat) : bool :=
  match parent with
  | None => false
  | Some pv =>
      negb (Nat.eqb (count_nulls parent n) 0) &&
      match pnulls child with
      | None => negb (Nat.eqb (parr_offset child) (snd pv))
      | Some _ => negb (Nat.eqb (parr_offset child) 0)
      end
  end.
(* a child is physically valid in a row where its parent is null *)
Definition masked_values_leak (child : parr) (parent : option bitview) (n : nat) : bool :=
  existsb (fun i => negb (valid parent i) && valid (pnulls child) i) (seq 0 n).

(* [merge_clean l r]: the merge of l and r meets none of the classes, and no List<Struct> column is on
   both sides (that arm of merge has no row-wise specification here). *)
Fixpoint merge_clean (l r : parr) {struct l} : bool :=
  match l, r with
  | PStruct llen lfs lnl, PStruct rlen rfs rnl =>
      Nat.eqb llen rlen
      && negb (one_sided_nulls lnl rnl llen) && negb (both_all_null lnl rnl llen)
      && forallb (fun lf : field =>
           match find_field (fst (fst lf)) rfs with
           | Some rf =>
               match snd lf with
               | PStruct _ _ _ =>
                   if is_pstruct (fcol rf)
                   then negb (masked_values_leak (snd lf) lnl llen) && negb (masked_values_leak (fcol rf) rnl rlen)
                        && merge_clean (snd lf) (fcol rf)
                   else negb (validity_offset_dropped (snd lf) lnl llen)
               | PList false _ lv _ =>
                   negb (is_pstruct lv && is_list_of_struct (fcol rf))
                   && negb (validity_offset_dropped (snd lf) lnl llen)
               | _ => negb (validity_offset_dropped (snd lf) lnl llen)
               end
           | None => negb (validity_offset_dropped (snd lf) lnl llen)
           end) lfs
      && forallb (fun rf : field => negb (validity_offset_dropped (fcol rf) rnl rlen))
                 (filter (fun rf => negb (has_field (fname rf) lfs)) rfs)
  | _, _ => false
  end.

(* [merge_class c l r]: class c occurs somewhere in the merge of l and r.
   0 one_sided_nulls, 1 both_all_null, 2 validity_offset_dropped, 3 masked_values_leak,
   4 list_struct_duplicate_column, 5 nonnullable_child_panics (a non-nullable child under a parent with nulls) *)
Definition adjust_class (c : N) (f : field) (parent : option bitview) (n : nat) : bool :=
  (N.eqb c 2 && validity_offset_dropped (fcol f) parent n)
  || (N.eqb c 5 && negb (fnullable f) && negb (Nat.eqb (count_nulls parent n) 0)).
Fixpoint merge_class (c : N) (l r : parr) {struct l} : bool :=
  match l, r with
  | PStruct llen lfs lnl, PStruct rlen rfs rnl =>
      (N.eqb c 0 && one_sided_nulls lnl rnl llen)
      || (N.eqb c 1 && both_all_null lnl rnl llen)
      || existsb (fun lf : field =>
           match find_field (fst (fst lf)) rfs with
           | Some rf =>
               match snd lf with
               | PStruct _ _ _ =>
                   if is_pstruct (fcol rf)
                   then (N.eqb c 3 && (masked_values_leak (snd lf) lnl llen || masked_values_leak (fcol rf) rnl rlen))
                        || merge_class c (snd lf) (fcol rf)
                   else adjust_class c lf lnl llen
               | PList false _ lv _ =>
                   if is_pstruct lv && is_list_of_struct (fcol rf)
                   then N.eqb c 4 && dtype_eqb (ptype lv) (ptype (pvalues (fcol rf)))
                   else adjust_class c lf lnl llen
               | _ => adjust_class c lf lnl llen
               end
           | None => adjust_class c lf lnl llen
           end) lfs
      || existsb (fun rf : field => adjust_class c rf rnl rlen)
                 (filter (fun rf => negb (has_field (fname rf) lfs)) rfs)
  | _, _ => false
  end.
Definition Known_C40_one_sided_nulls := merge_class 0.
Definition Known_C40_both_all_null := merge_class 1.
Definition Known_C40_validity_offset_dropped := merge_class 2.
Definition Known_C40_masked_values_leak := merge_class 3.
Definition Known_C40_list_struct_duplicate_column := merge_class 4.
Definition Known_C40_nonnullable_child_panics := merge_class 5.
(* merge_with_schema: a list column (present on both sides) whose first offset is not 0 / whose validity differs *)
Definition Known_C40_list_offsets_not_rebased (l r : parr) : bool :=
  existsb (fun lf : field =>
             match fcol lf, find_field (fname lf) (pfields r) with
             | PList _ offs _ _, Some _ => negb (Nat.eqb (off_at offs 0) 0)
             | _, _ => false
             end) (pfields l).
Definition Known_C40_list_validity_differs (l r : parr) : bool :=
  existsb (fun lf : field =>
             match fcol lf, find_field (fname lf) (pfields r) with
             | PList _ _ _ lnl, Some rf =>
                 match fcol rf with
                 | PList _ _ _ rnl => negb (list_eqb Bool.eqb (validity lnl (plen (fcol lf))) (validity rnl (plen (fcol rf))))
                 | _ => false
                 end
             | _, _ => false
             end) (pfields l).

(* ================================================================== correspondence checkers *)
Definition out_rows_eqb (a b : dtype * list lval) : bool := dtype_eqb (fst a) (fst b) && rows_eqb (snd a) (snd b).
Definition describe (p : parr) : dtype * list lval := (ptype p, logical p).
Definition omap_out {A B} (f : A -> B) (x : outcome A) : outcome B :=
  match x with Ok a => Ok (f a) | Err => Err | Panic => Panic end.

Definition chk_logical (p : parr) (out : dtype * list lval) : bool := out_rows_eqb (describe p) out.
Definition chk_slice (i : parr * (nat * nat)) (out : parr) : bool :=
  parr_eqb (pslice (fst (snd i)) (snd (snd i)) (fst i)) out.
(* besides model = implementation: on every pair outside the classes the model result satisfies the
   row-wise specification (a test of the statement of C40_merge on the generated inputs) *)
Definition chk_merge (i : parr * parr) (out : outcome (dtype * list lval)) : bool :=
  outcome_eqb out_rows_eqb (omap_out describe (batch_merge (fst i) (snd i))) out
  && (negb (wfb (fst i) && wfb (snd i) && merge_clean (fst i) (snd i))
      || match batch_merge (fst i) (snd i) with Ok m => merge_rows_ok (fst i) (snd i) m | _ => true end).
Definition chk_merge_schema (i : parr * parr * list dfield) (out : outcome (dtype * list lval)) : bool :=
  outcome_eqb out_rows_eqb (omap_out describe (batch_merge_with_schema (fst (fst i)) (snd (fst i)) (snd i))) out.
Definition chk_project (i : parr * list dfield) (out : outcome (dtype * list lval)) : bool :=
  outcome_eqb out_rows_eqb (omap_out describe (project (fst i) (snd i))) out.
Definition chk_take (i : parr * list (option nat)) (out : outcome (dtype * list lval)) : bool :=
  outcome_eqb out_rows_eqb (omap_out describe (batch_take (fst i) (snd i))) out.
(* deep_copy: physically identical (same views) *)
Definition chk_deep_copy (p : parr) (out : parr) : bool := parr_eqb (deep_copy p) out.
(* deep_copy_sliced: (type, rows, offset-free) *)
Definition chk_deep_copy_sliced (p : parr) (out : dtype * list lval * bool) : bool :=
  out_rows_eqb (describe (deep_copy_sliced p)) (fst out) && Bool.eqb (offset_free (deep_copy_sliced p)) (snd out).
(* filter_garbage_nulls: (rows, offsets, values length, no garbage) *)
Definition chk_filter_garbage (p : parr) (out : outcome (list lval * list Z * nat * bool)) : bool :=
  outcome_eqb (fun a b : list lval * list Z * nat * bool =>
                 rows_eqb (fst (fst (fst a))) (fst (fst (fst b))) && list_eqb Z.eqb (snd (fst (fst a))) (snd (fst (fst b)))
                 && Nat.eqb (snd (fst a)) (snd (fst b)) && Bool.eqb (snd a) (snd b))
    (omap_out (fun q => (logical q, poffs q, plen (pvalues q), no_garbage q)) (filter_garbage_nulls p)) out.
Definition chk_trimmed (p : parr) (out : dtype * list lval) : bool := out_rows_eqb (describe (trimmed_values p)) out.
Definition chk_pushdown (p : parr) (out : outcome parr) : bool :=
  (* physical structure may differ in buffer sharing; compare rows of the struct and of every child *)
  outcome_eqb (fun a b : parr =>
                 rows_eqb (logical a) (logical b) &&
                 list_eqb (fun f g : field => rows_eqb (logical (fcol f)) (logical (fcol g))) (pfields a) (pfields b))
    (pushdown_nulls p) out.

(* JSON: codec tables recorded by the harness instantiate the Section variables *)
Definition bytes_eqb : list N -> list N -> bool := list_eqb N.eqb.
Definition table_lookup {V} (t : list (list N * V)) (k : list N) : option V :=
  option_map snd (find (fun kv => bytes_eqb (fst kv) k) t).
Definition ocol_eqb : list (option (list N)) -> list (option (list N)) -> bool := list_eqb (option_eqb bytes_eqb).

(* input: (column of JSON texts, enc table text -> Some jsonb | None, dec table jsonb -> text);
   output: (to_jsonb result, round trip back to text) *)
Definition chk_json_roundtrip
  (i : list (option (list N)) * list (list N * option (list N)) * list (list N * list N))
  (out : outcome (list (option (list N)) * list (option (list N)))) : bool :=
  let enc := fun s => match table_lookup (snd (fst i)) s with Some o => o | None => None end in
  let dec := fun b => match table_lookup (snd i) b with Some s => s | None => [] end in
  outcome_eqb (fun a b => ocol_eqb (fst a) (fst b) && ocol_eqb (snd a) (snd b))
    (omap_out (fun c => (c, jsonb_to_json dec c)) (json_to_jsonb enc (fst (fst i)))) out.

(* input: (jsonb column, path column, select table (jsonb, path) -> Some result | None = error);
   output: (JsonArray::json_path with the first path, json_extract UDF) *)
Definition chk_json_extract
  (i : list (option (list N)) * list (option (list N)) * list (list N * list N * option (option (list N))))
  (out : outcome (list (option (list N))) * outcome (list (option (list N)))) : bool :=
  let sel := fun b p =>
    match find (fun kv => bytes_eqb (fst (fst kv)) b && bytes_eqb (snd (fst kv)) p) (snd i) with
    | Some (_, Some r) => Ok r
    | _ => Err
    end in
  let col := fst (fst i) in
  let paths := snd (fst i) in
  outcome_eqb ocol_eqb (match hd None paths with Some p => json_path_col sel col p | None => Ok [] end) (fst out)
  && outcome_eqb ocol_eqb (json_extract_udf sel col paths) (snd out).
