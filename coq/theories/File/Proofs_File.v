(* Proofs about File/Model_File.v (C25). *)
From LanceV Require Import Common.Base File.Model_File.
Local Open Scope N_scope.

(* ------------------------------------------------------------------------------------------ *)
(* slices                                                                                     *)
(* ------------------------------------------------------------------------------------------ *)

Lemma skipn_skipn' {X} (a b : nat) (l : list X) : skipn a (skipn b l) = skipn (b + a) l.
Proof.
  revert l; induction b as [|b IH]; intros l; [reflexivity|].
  destruct l as [|x l]; cbn [skipn plus]; [now rewrite skipn_nil | apply IH].
Qed.

Lemma firstn_add {X} (n m : nat) (l : list X) : firstn (n + m) l = firstn n l ++ firstn m (skipn n l).
Proof.
  revert l; induction n as [|n IH]; intros l; [reflexivity|].
  destruct l as [|x l]; cbn [firstn skipn plus app]; [now rewrite firstn_nil | now rewrite IH].
Qed.

(* slice l (a, c) = slice l (a, b) ++ slice l (b, c) *)
Lemma slice_split {X} (l : list X) (a b c : N) : a <= b -> b <= c ->
  slice l (a, c) = slice l (a, b) ++ slice l (b, c).
Proof.
  intros Hab Hbc. unfold slice; cbn [fst snd].
  replace (N.to_nat (c - a)) with (N.to_nat (b - a) + N.to_nat (c - b))%nat by lia.
  rewrite firstn_add, skipn_skipn'. do 3 f_equal. lia.
Qed.

Lemma slice_empty {X} (l : list X) (a b : N) : b <= a -> slice l (a, b) = [].
Proof. intros H. unfold slice; cbn [fst snd]. replace (N.to_nat (b - a)) with O by lia. reflexivity. Qed.

(* rows [a, b) of the page that holds rows [o, o + c) of l *)
Lemma slice_slice {X} (l : list X) (o c a b : N) : a <= b -> b <= c ->
  slice (slice l (o, o + c)) (a, b) = slice l (o + a, o + b).
Proof.
  intros Hab Hbc. unfold slice; cbn [fst snd].
  rewrite skipn_firstn_comm, firstn_firstn, skipn_skipn'.
  f_equal; [lia | f_equal; lia].
Qed.

Lemma slice_length {X} (l : list X) (a b : N) : a <= b -> b <= nlen l -> nlen (slice l (a, b)) = b - a.
Proof.
  intros Hab Hb. unfold nlen, slice in *; cbn [fst snd].
  rewrite firstn_length, skipn_length. lia.
Qed.

Lemma slice_all {X} (l : list X) : slice l (0, nlen l) = l.
Proof.
  unfold slice, nlen; cbn [fst snd]. rewrite N.sub_0_r, Nat2N.id. cbn [N.to_nat skipn]. apply firstn_all.
Qed.

(* ------------------------------------------------------------------------------------------ *)
(* ranges -> per-page sub-ranges                                                              *)
(* ------------------------------------------------------------------------------------------ *)

(* the domain: every range non-empty, and a range starts no earlier than the last row of the one
   before it (sorted, disjoint or adjacent ranges; the runs of a sorted index list with repeats) *)
Fixpoint chain (rs : list range) : Prop :=
  match rs with
  | [] => True
  | (s, e) :: rest => s < e /\ match rest with [] => True | (s', _) :: _ => e <= s' + 1 end /\ chain rest
  end.

Definition ends_le (t : N) (rs : list range) : Prop := Forall (fun r => snd r <= t) rs.

(* what is still to be delivered when the job stands at global row [o]: the first range is
   clipped to start at [o] *)
Definition clip (o : N) (r : range) : range := (N.max (fst r) o, snd r).
Definition reqd {X} (l : list X) (o : N) (rs : list range) : list X :=
  match rs with [] => [] | r :: rest => slice l (clip o r) ++ concat (map (slice l) rest) end.

Definition page_rows {X} (pg : list X) (rs : list range) : list X := concat (map (slice pg) rs).

Lemma page_rows_app {X} (pg : list X) a b : page_rows pg (a ++ b) = page_rows pg a ++ page_rows pg b.
Proof. unfold page_rows. now rewrite map_app, concat_app. Qed.

Definition first_end_gt (o : N) (rs : list range) : Prop :=
  match rs with [] => True | (_, e) :: _ => o < e end.

Lemma in_page_ok {X} (l : list X) (cur off : N) : forall rs acc,
  chain rs -> first_end_gt off rs ->
  exists inpage rs',
    in_page cur off rs acc = Ok (inpage, rs') /\
    chain rs' /\ first_end_gt (off + cur) rs' /\
    (exists k, rs' = skipn k rs) /\
    page_rows (slice l (off, off + cur)) inpage ++ reqd l (off + cur) rs'
      = page_rows (slice l (off, off + cur)) acc ++ reqd l off rs.
Proof.
  induction rs as [|[s e] rest IH]; intros acc Hch Hfe.
  - exists acc, []. cbn [in_page]. split; [reflexivity|]. split; [exact I|]. split; [exact I|].
    split; [exists O; reflexivity|]. reflexivity.
  - cbn [in_page]. cbn [chain] in Hch. destruct Hch as (Hse & Hnext & Hch). cbn [first_end_gt] in Hfe.
    destruct (s <? cur + off) eqn:Es.
    2:{ apply N.ltb_ge in Es. exists acc, ((s, e) :: rest).
        split; [reflexivity|]. split; [cbn [chain]; auto|]. split; [cbn [first_end_gt]; lia|].
        split; [exists O; reflexivity|].
        f_equal. cbn [reqd]. unfold clip; cbn [fst snd]. f_equal. f_equal. f_equal. lia. }
    apply N.ltb_lt in Es.
    destruct (e <? N.max s off) eqn:Ee; [apply N.ltb_lt in Ee; lia|]. clear Ee.
    set (s' := N.max s off).
    set (ep := N.min (s' - off + (e - s')) cur).
    destruct (e <=? ep + off) eqn:Elast.
    + (* the range ends in this page *)
      apply N.leb_le in Elast.
      assert (Hep : ep = e - off) by (subst ep s'; lia).
      assert (Hfe' : first_end_gt off rest).
      { destruct rest as [|[s2 e2] r2]; cbn [first_end_gt]; [exact I|]. cbn [chain] in Hch. lia. }
      destruct (IH (acc ++ [(s' - off, ep)]) Hch Hfe') as (inpage & rs' & Hin & Hc' & Hf' & (k & Hk) & Heq).
      exists inpage, rs'. split; [exact Hin|]. split; [exact Hc'|]. split; [exact Hf'|].
      split; [exists (S k); cbn [skipn]; exact Hk|].
      rewrite Heq. rewrite page_rows_app, <- app_assoc. f_equal.
      unfold page_rows at 1. cbn [map concat]. rewrite app_nil_r.
      rewrite slice_slice by (subst ep s'; lia).
      replace (off + (s' - off)) with s' by (subst s'; lia).
      replace (off + ep) with e by lia.
      destruct rest as [|[s2 e2] r2]; cbn [reqd map concat]; unfold clip; cbn [fst snd]; fold s'; [reflexivity|].
      cbn [chain] in Hch. replace (N.max s2 off) with s2 by lia. reflexivity.
    + (* the range goes on in the next page *)
      apply N.leb_gt in Elast.
      assert (Hep : ep = cur) by (subst ep s'; lia).
      exists (acc ++ [(s' - off, ep)]), ((s, e) :: rest).
      split; [reflexivity|]. split; [cbn [chain]; auto|]. split; [cbn [first_end_gt]; lia|].
      split; [exists O; reflexivity|].
      rewrite page_rows_app, <- app_assoc. f_equal.
      unfold page_rows. cbn [map concat]. rewrite app_nil_r.
      rewrite slice_slice by (subst s'; lia).
      cbn [reqd]. unfold clip; cbn [fst snd]. fold s'.
      replace (off + (s' - off)) with s' by (subst s'; lia).
      rewrite Hep. replace (N.max s (off + cur)) with (off + cur) by lia.
      rewrite app_assoc. f_equal.
      symmetry. apply slice_split; subst s'; lia.
Qed.

Lemma Forall_skipn' {X} (P : X -> Prop) (k : nat) : forall l, Forall P l -> Forall P (skipn k l).
Proof.
  induction k as [|k IH]; intros l H; [exact H|]. destruct l as [|x l]; [constructor|].
  cbn [skipn]. apply IH. now inversion H.
Qed.

(* page [i + k] of the column holds rows [off_k, off_k + ps_k) of the data *)
Fixpoint pages_at {X} (content : nat -> list X) (l : list X) (i : nat) (off : N) (ps : list N) : Prop :=
  match ps with
  | [] => True
  | c :: r => content i = slice l (off, off + c) /\ pages_at content l (S i) (off + c) r
  end.

Lemma skip_ok {X} (content : nat -> list X) (l : list X) (s e : N) : forall rest cur off idx,
  pages_at content l idx off (cur :: rest) -> s < e -> e <= off + nsum (cur :: rest) ->
  exists cur' rest' off' idx',
    skip_pages rest cur s off idx = Ok (cur', rest', off', idx') /\
    s < cur' + off' /\ (off' <= s \/ off' = off) /\ off <= off' /\
    pages_at content l idx' off' (cur' :: rest') /\
    off' + nsum (cur' :: rest') = off + nsum (cur :: rest) /\
    (length rest' <= length rest)%nat.
Proof.
  induction rest as [|c rest IH]; intros cur off idx Hp Hse He; cbn [skip_pages].
  - destruct (cur + off <=? s) eqn:E.
    + apply N.leb_le in E. cbn [nsum fold_right] in He. lia.
    + apply N.leb_gt in E. exists cur, [], off, idx.
      split; [reflexivity|]. split; [lia|]. split; [right; reflexivity|]. split; [lia|].
      split; [exact Hp|]. split; [reflexivity|]. lia.
  - destruct (cur + off <=? s) eqn:E.
    + apply N.leb_le in E. cbn [pages_at] in Hp. destruct Hp as (_ & Hp).
      assert (He' : e <= off + cur + nsum (c :: rest)).
      { change (nsum (cur :: c :: rest)) with (cur + nsum (c :: rest)) in He. lia. }
      destruct (IH c (off + cur) (S idx) Hp Hse He') as (cur' & rest' & off' & idx' & Hs & H1 & H2 & H3 & H4 & H5 & H6).
      exists cur', rest', off', idx'.
      split; [exact Hs|]. split; [exact H1|]. split; [left; lia|]. split; [lia|].
      split; [exact H4|]. split.
      * rewrite H5. change (nsum (cur :: c :: rest)) with (cur + nsum (c :: rest)). lia.
      * cbn [length]. lia.
    + apply N.leb_gt in E. exists cur, (c :: rest), off, idx.
      split; [reflexivity|]. split; [lia|]. split; [right; reflexivity|]. split; [lia|].
      split; [exact Hp|]. split; [reflexivity|]. lia.
Qed.

Definition line_rows {X} (content : nat -> list X) (ln : scanline) : list X :=
  page_rows (content (sl_page ln)) (sl_ranges ln).

Lemma reqd_clip_irrelevant {X} (l : list X) (o o' : N) (rs : list range) :
  (match rs with (s, _) :: _ => o' <= s \/ o' = o | [] => True end) -> o <= o' ->
  reqd l o' rs = reqd l o rs.
Proof.
  destruct rs as [|[s e] rest]; [reflexivity|]. intros [H|H] Ho; cbn [reqd]; unfold clip; cbn [fst snd].
  - replace (N.max s o') with s by lia. replace (N.max s o) with s by lia. reflexivity.
  - subst. reflexivity.
Qed.

Lemma loop_ok {X} (content : nat -> list X) (l : list X) : forall fuel ps idx off rs,
  (length ps < fuel)%nat -> pages_at content l idx off ps ->
  chain rs -> first_end_gt off rs -> ends_le (off + nsum ps) rs ->
  exists lines,
    schedule_loop fuel {| sj_pages := ps; sj_idx := idx; sj_off := off; sj_ranges := rs |} = Ok lines /\
    concat (map (line_rows content) lines) = reqd l off rs.
Proof.
  induction fuel as [|f IH]; intros ps idx off rs Hf Hp Hch Hfe Hend; [lia|].
  cbn [schedule_loop]. unfold schedule_next; cbn [sj_ranges sj_pages sj_off sj_idx].
  destruct rs as [|[s e] rest].
  - exists []. split; reflexivity.
  - assert (Hse : s < e) by (cbn [chain] in Hch; tauto).
    assert (He : e <= off + nsum ps) by (inversion Hend; assumption).
    cbn [first_end_gt] in Hfe.
    destruct ps as [|cur0 rest0]; [cbn [nsum fold_right] in He; lia|].
    destruct (skip_ok content l s e rest0 cur0 off idx Hp Hse He)
      as (cur & prest & off' & idx' & Hs & H1 & H2 & H3 & H4 & H5 & H6).
    rewrite Hs. cbv beta iota delta [obind].
    assert (Hfe' : first_end_gt off' ((s, e) :: rest)) by (cbn [first_end_gt]; destruct H2; lia).
    destruct (in_page_ok l cur off' ((s, e) :: rest) [] Hch Hfe')
      as (inpage & rs' & Hin & Hc' & Hf' & (k & Hk) & Heq).
    unfold range in *. rewrite Hin. cbv beta iota delta [obind].
    cbn [pages_at] in H4. destruct H4 as (Hcont & Hp').
    assert (Hend' : ends_le (off' + cur + nsum prest) rs').
    { subst rs'. apply Forall_skipn'. unfold ends_le in *.
      change (nsum (cur :: prest)) with (cur + nsum prest) in H5.
      replace (off' + cur + nsum prest) with (off + nsum (cur0 :: rest0)) by lia. exact Hend. }
    assert (Hlen : (length prest < f)%nat) by (cbn [length] in Hf; lia).
    destruct (IH prest (S idx') (off' + cur) rs' Hlen Hp' Hc' Hf' Hend') as (lines & Hl & Hrows).
    rewrite Hl. cbv beta iota delta [omap]. eexists. split; [reflexivity|].
    cbn [map concat]. rewrite Hrows. unfold line_rows at 1; cbn [sl_page sl_ranges].
    rewrite Hcont, Heq. unfold page_rows at 1; cbn [map concat app].
    apply reqd_clip_irrelevant; assumption.
Qed.

Lemma reqd_zero {X} (l : list X) (rs : list range) : reqd l 0 rs = concat (map (slice l) rs).
Proof.
  destruct rs as [|[s e] rest]; [reflexivity|]. cbn [reqd map concat]. unfold clip; cbn [fst snd].
  now rewrite N.max_0_r.
Qed.

(* The scheduling theorem: for every page layout of the data, every request in the domain is
   mapped to page-local ranges that deliver exactly the requested rows, in order, no panic. *)
Theorem schedule_ranges_exact {X} (content : nat -> list X) (l : list X) (ps : list N) (rs : list range) :
  pages_at content l 0 0 ps -> chain rs -> ends_le (nsum ps) rs ->
  exists lines, schedule_ranges ps rs = Ok lines /\
    concat (map (line_rows content) lines) = concat (map (slice l) rs).
Proof.
  intros Hp Hch Hend. unfold schedule_ranges.
  assert (Hfe : first_end_gt 0 rs).
  { destruct rs as [|[s e] r]; cbn [first_end_gt chain] in *; [exact I | lia]. }
  destruct (loop_ok content l (S (length ps)) ps 0%nat 0 rs (Nat.lt_succ_diag_r _) Hp Hch Hfe Hend) as (lines & H1 & H2).
  exists lines. split; [exact H1|]. rewrite H2. apply reqd_zero.
Qed.

(* ------------------------------------------------------------------------------------------ *)
(* footer                                                                                     *)
(* ------------------------------------------------------------------------------------------ *)

Lemma le_roundtrip : forall (k : nat) (x : N), x < 256 ^ N.of_nat k -> le_val (le_bytes k x) = x.
Proof.
  induction k as [|k IH]; intros x Hx.
  - cbn [le_bytes le_val]. change (256 ^ N.of_nat 0) with 1 in Hx. lia.
  - cbn [le_bytes le_val]. rewrite IH.
    + pose proof (N.div_mod x 256). lia.
    + rewrite Nat2N.inj_succ, N.pow_succ_r' in Hx. apply N.div_lt_upper_bound; lia.
Qed.

Lemma le_bytes_length (k : nat) (x : N) : length (le_bytes k x) = k.
Proof. revert x; induction k as [|k IH]; intros x; cbn [le_bytes length]; [reflexivity | now rewrite IH]. Qed.

Definition footer_in_range (f : footer) : Prop :=
  ft_col_meta_start f < 2 ^ 64 /\ ft_cmo_start f < 2 ^ 64 /\ ft_gbo_start f < 2 ^ 64 /\
  ft_num_gbuf f < 2 ^ 32 /\ ft_num_cols f < 2 ^ 32 /\ ft_major f < 2 ^ 16 /\ ft_minor f < 2 ^ 16.

Lemma take_at_prefix (pre t : bytes) (o n : nat) :
  take_at (pre ++ t) (length pre + o) n = take_at t o n.
Proof.
  unfold take_at. rewrite skipn_app. rewrite skipn_all2 by lia.
  replace (length pre + o - length pre)%nat with o by lia. reflexivity.
Qed.

Lemma decode_footer_suffix (pre t : bytes) : length t = 40%nat -> decode_footer (pre ++ t) = decode_footer t.
Proof.
  intros Ht. unfold decode_footer. rewrite app_length, Ht.
  replace (length pre + 40 <? 40)%nat with false by (symmetry; apply Nat.ltb_ge; lia).
  change (40 <? 40)%nat with false. cbv beta iota.
  replace (length pre + 40 - 40)%nat with (length pre + 0)%nat by lia.
  replace (length pre + 40 - 4)%nat with (length pre + 36)%nat by lia.
  change (40 - 40)%nat with 0%nat. change (40 - 4)%nat with 36%nat.
  replace (length pre + 0 + 8)%nat with (length pre + 8)%nat by lia.
  replace (length pre + 0 + 16)%nat with (length pre + 16)%nat by lia.
  replace (length pre + 0 + 24)%nat with (length pre + 24)%nat by lia.
  replace (length pre + 0 + 28)%nat with (length pre + 28)%nat by lia.
  replace (length pre + 0 + 32)%nat with (length pre + 32)%nat by lia.
  replace (length pre + 0 + 34)%nat with (length pre + 34)%nat by lia.
  rewrite !take_at_prefix. reflexivity.
Qed.

Lemma footer_bytes_length (f : footer) : length (footer_bytes f) = 40%nat.
Proof. unfold footer_bytes. rewrite !app_length, !le_bytes_length. reflexivity. Qed.

(* parse (serialize f) = f for all field values in range; the legacy version pair is refused *)
Lemma decode_footer_exact (f : footer) :
  footer_in_range f -> (ft_major f =? 0) && (ft_minor f =? 2) = false ->
  decode_footer (footer_bytes f) = Ok f.
Proof.
  intros (H1 & H2 & H3 & H4 & H5 & H6 & H7) Hv. destruct f as [a b c d e ma mi]; cbn [ft_col_meta_start ft_cmo_start ft_gbo_start ft_num_gbuf ft_num_cols ft_major ft_minor] in *.
  unfold decode_footer, footer_bytes.
  cbn [ft_col_meta_start ft_cmo_start ft_gbo_start ft_num_gbuf ft_num_cols ft_major ft_minor].
  cbn [le_bytes app length MAGIC Nat.ltb Nat.leb Nat.sub Nat.add take_at firstn skipn].
  change (le_val [a mod 256; a / 256 mod 256; a / 256 / 256 mod 256; a / 256 / 256 / 256 mod 256;
                  a / 256 / 256 / 256 / 256 mod 256; a / 256 / 256 / 256 / 256 / 256 mod 256;
                  a / 256 / 256 / 256 / 256 / 256 / 256 mod 256; a / 256 / 256 / 256 / 256 / 256 / 256 / 256 mod 256])
    with (le_val (le_bytes 8 a)).
  change (le_val [b mod 256; b / 256 mod 256; b / 256 / 256 mod 256; b / 256 / 256 / 256 mod 256;
                  b / 256 / 256 / 256 / 256 mod 256; b / 256 / 256 / 256 / 256 / 256 mod 256;
                  b / 256 / 256 / 256 / 256 / 256 / 256 mod 256; b / 256 / 256 / 256 / 256 / 256 / 256 / 256 mod 256])
    with (le_val (le_bytes 8 b)).
  change (le_val [c mod 256; c / 256 mod 256; c / 256 / 256 mod 256; c / 256 / 256 / 256 mod 256;
                  c / 256 / 256 / 256 / 256 mod 256; c / 256 / 256 / 256 / 256 / 256 mod 256;
                  c / 256 / 256 / 256 / 256 / 256 / 256 mod 256; c / 256 / 256 / 256 / 256 / 256 / 256 / 256 mod 256])
    with (le_val (le_bytes 8 c)).
  change (le_val [d mod 256; d / 256 mod 256; d / 256 / 256 mod 256; d / 256 / 256 / 256 mod 256]) with (le_val (le_bytes 4 d)).
  change (le_val [e mod 256; e / 256 mod 256; e / 256 / 256 mod 256; e / 256 / 256 / 256 mod 256]) with (le_val (le_bytes 4 e)).
  change (le_val [ma mod 256; ma / 256 mod 256]) with (le_val (le_bytes 2 ma)).
  change (le_val [mi mod 256; mi / 256 mod 256]) with (le_val (le_bytes 2 mi)).
  rewrite !le_roundtrip by assumption.
  rewrite Hv. reflexivity.
Qed.

Theorem footer_roundtrip (pre : bytes) (f : footer) :
  footer_in_range f -> (ft_major f =? 0) && (ft_minor f =? 2) = false ->
  decode_footer (pre ++ footer_bytes f) = Ok f.
Proof.
  intros Hr Hv. rewrite decode_footer_suffix by apply footer_bytes_length. now apply decode_footer_exact.
Qed.

Lemma footer_truncated (t : bytes) : (length t < 40)%nat -> decode_footer t = Err.
Proof. intros H. unfold decode_footer. apply Nat.ltb_lt in H. now rewrite H. Qed.

(* a tail whose last four bytes are not "LANC" is refused (Err or, for the legacy version pair, Err too) *)
Lemma footer_bad_magic (t : bytes) :
  list_eqb N.eqb (take_at t (length t - 4) 4) MAGIC = false -> decode_footer t = Err.
Proof.
  intros H. unfold decode_footer. destruct (length t <? 40)%nat; [reflexivity|].
  cbv zeta. match goal with |- (if ?c then _ else _) = _ => destruct c end; [reflexivity|].
  rewrite H. reflexivity.
Qed.

(* ------------------------------------------------------------------------------------------ *)
(* sorted indices -> ranges                                                                   *)
(* ------------------------------------------------------------------------------------------ *)

(* the rows of a take, in request order *)
Definition rows_at {X} (l : list X) (idx : list N) : list X := concat (map (fun i => slice l (i, i + 1)) idx).

Fixpoint sorted_from (prev : N) (l : list N) : Prop :=
  match l with [] => True | x :: r => prev <= x /\ sorted_from x r end.

Lemma itr_go_head (start prev : N) (rest : list N) :
  exists e tl, itr_go start prev rest = (start, e) :: tl.
Proof.
  revert start prev; induction rest as [|x rest IH]; intros start prev; cbn [itr_go].
  - eexists _, _; reflexivity.
  - destruct (x =? prev + 1); [apply IH | eexists _, _; reflexivity].
Qed.

Lemma itr_go_spec {X} (l : list X) (total : N) : forall rest start prev,
  start <= prev -> prev < total -> sorted_from prev rest -> Forall (fun i => i < total) rest ->
  chain (itr_go start prev rest) /\ ends_le total (itr_go start prev rest) /\
  concat (map (slice l) (itr_go start prev rest)) = slice l (start, prev + 1) ++ rows_at l rest.
Proof.
  induction rest as [|x rest IH]; intros start prev Hsp Hpt Hs Hb; cbn [itr_go].
  - cbn [chain map concat rows_at]. split; [split; [lia | split; exact I]|]. split.
    + constructor; [cbn [snd]; lia | constructor].
    + reflexivity.
  - cbn [sorted_from] in Hs. destruct Hs as (Hpx & Hs). inversion Hb as [|? ? Hx Hb']; subst.
    destruct (x =? prev + 1) eqn:E.
    + apply N.eqb_eq in E. destruct (IH start x ltac:(lia) Hx Hs Hb') as (H1 & H2 & H3).
      split; [exact H1|]. split; [exact H2|]. rewrite H3.
      unfold rows_at; cbn [map concat]. rewrite app_assoc. f_equal.
      rewrite E. apply slice_split; lia.
    + apply N.eqb_neq in E. destruct (IH x x ltac:(lia) Hx Hs Hb') as (H1 & H2 & H3).
      destruct (itr_go_head x x rest) as (e & tl & Hh).
      split.
      * cbn [chain]. split; [lia|]. split; [|exact H1]. rewrite Hh. lia.
      * split; [constructor; [cbn [snd]; lia | exact H2]|].
        cbn [map concat]. rewrite H3. unfold rows_at; cbn [map concat]. reflexivity.
Qed.

(* take: a sorted (non-strict: rows may repeat) in-bounds index list becomes a request in the domain
   of the scheduling theorem whose rows are the indexed rows, in order *)
Theorem indices_to_ranges_exact {X} (l : list X) (i0 : N) (rest : list N) :
  sorted_from i0 rest -> Forall (fun i => i < nlen l) (i0 :: rest) ->
  exists rs, indices_to_ranges (i0 :: rest) = Ok rs /\ chain rs /\ ends_le (nlen l) rs /\
             concat (map (slice l) rs) = rows_at l (i0 :: rest).
Proof.
  intros Hs Hb. inversion Hb as [|? ? H0 Hb']; subst. cbn [indices_to_ranges].
  destruct (itr_go_spec l (nlen l) rest i0 i0 (N.le_refl _) H0 Hs Hb') as (H1 & H2 & H3).
  eexists. split; [reflexivity|]. split; [exact H1|]. split; [exact H2|]. exact H3.
Qed.
