(* C26 - binary mini-block chunker (binary.rs chunk_offsets / search_next_offset_idx as repaired in
   repo commit b9f1526): for every well-formed block whose values all fit, the chunker terminates,
   the chunks cover the offsets exactly once, every chunk respects the limits, and the recorded
   sizes add up to the buffer. *)
From LanceV Require Import Common.Base Codec.Model_Bytes Codec.Proofs_Bytes Codec.Model_Binary.
Local Open Scope N_scope.

(* the longest value for which two values always fit the 4 KiB aim with 64-bit offsets:
   3 * 8 + 2 * 2036 = 4096 *)
Definition BINARY_FIT : N := 2036.

(* offsets are non-decreasing and every value has at most [maxlen] bytes *)
Definition offsets_ok (offsets : list N) (maxlen : N) : Prop :=
  forall i, i + 1 < nlen offsets ->
    off_at offsets i <= off_at offsets (i + 1) /\ off_at offsets (i + 1) - off_at offsets i <= maxlen.

Lemma off_mono : forall offsets m d i, offsets_ok offsets m -> i + N.of_nat d < nlen offsets ->
  off_at offsets i <= off_at offsets (i + N.of_nat d).
Proof.
  intros offsets m d. induction d as [|d IH]; intros i Hok Hlt.
  - rewrite N.add_0_r. lia.
  - specialize (IH i Hok ltac:(lia)).
    destruct (Hok (i + N.of_nat d) ltac:(lia)) as [H1 _].
    replace (i + N.of_nat (S d)) with (i + N.of_nat d + 1) by lia. lia.
Qed.

Lemma off_mono' : forall offsets m i j, offsets_ok offsets m -> i <= j -> j < nlen offsets ->
  off_at offsets i <= off_at offsets j.
Proof.
  intros offsets m i j Hok Hij Hj.
  replace j with (i + N.of_nat (N.to_nat (j - i))) by lia. eapply off_mono; [eassumption | lia].
Qed.

Lemma search_loop_unfold : forall fuel bw offsets len last num new,
  search_loop fuel bw offsets len last num new =
  if len <=? last + new then
    (if off_at offsets (len - 1) - off_at offsets last + (len - last) * bw <=? AIM_MINICHUNK_SIZE
     then Some (len - 1) else Some (last + num))
  else
    if off_at offsets (last + new) - off_at offsets last + (new + 1) * bw <=? AIM_MINICHUNK_SIZE then
      match fuel with
      | O => None
      | S f => search_loop f bw offsets len last new (2 * new)
      end
    else Some (last + num).
Proof. intros. destruct fuel; reflexivity. Qed.

Definition search_post (bw : N) (offsets : list N) (len last stop : N) : Prop :=
  last < stop /\ stop < len /\
  off_at offsets stop - off_at offsets last + (stop - last + 1) * bw <= 4096 /\
  (stop = len - 1 \/ exists k, 1 <= k /\ stop - last = 2 ^ k).

Section SearchCases.
  Variables (bw : N) (offsets : list N) (len last num new : N).
  Hypothesis Hbw8 : 4 <= bw /\ bw <= 8.
  Hypothesis Hstep : forall i, i + 1 < len ->
    off_at offsets i <= off_at offsets (i + 1) /\ off_at offsets (i + 1) - off_at offsets i <= 2036.
  Hypothesis Hlast : last + 1 < len.
  Hypothesis Hnew : new = 2 * num.
  Hypothesis Hpow : exists k, num = 2 ^ k.
  Hypothesis Hinv : num = 1 \/ (last + num < len /\
      off_at offsets (last + num) - off_at offsets last + (num + 1) * bw <= 4096).

  (* two consecutive values always fit *)
  Lemma two_fit : last + 2 < len ->
    off_at offsets (last + 2) - off_at offsets last + 3 * bw <= 4096.
  Proof.
    intro H. destruct (Hstep last ltac:(lia)) as [M1 M2]. destruct (Hstep (last + 1) ltac:(lia)) as [M3 M4].
    replace (last + 1 + 1) with (last + 2) in * by lia. lia.
  Qed.

  Lemma one_fit : off_at offsets (last + 1) - off_at offsets last + 2 * bw <= 4096.
  Proof. destruct (Hstep last Hlast) as [M1 M2]. lia. Qed.

  (* returning the last window that fitted *)
  Lemma keep_num : num <> 1 -> search_post bw offsets len last (last + num).
  Proof.
    intro Hn1. destruct Hinv as [Hone | [Hlt Hfit]]; [contradiction|].
    destruct Hpow as [k Hk].
    assert (Hk1 : 1 <= k) by (destruct (N.eq_dec k 0) as [->|]; [cbn in Hk; contradiction | lia]).
    assert (Hnum1 : 1 <= num) by (rewrite Hk; apply N.lt_pred_le, N.neq_0_lt_0, N.pow_nonzero; lia).
    unfold search_post. split; [lia|]. split; [lia|]. split.
    - replace (last + num - last + 1) with (num + 1) by lia. exact Hfit.
    - right. exists k. split; [exact Hk1 | lia].
  Qed.

  Lemma end_case : len <= last + new ->
    exists stop,
      (if off_at offsets (len - 1) - off_at offsets last + (len - last) * bw <=? 4096
       then Some (len - 1) else Some (last + num)) = Some stop /\
      search_post bw offsets len last stop.
  Proof.
    intro Hend.
    destruct (off_at offsets (len - 1) - off_at offsets last + (len - last) * bw <=? 4096) eqn:Efit.
    - apply N.leb_le in Efit. exists (len - 1). split; [reflexivity|].
      unfold search_post. split; [lia|]. split; [lia|]. split.
      + replace (len - 1 - last + 1) with (len - last) by lia. exact Efit.
      + left. reflexivity.
    - apply N.leb_gt in Efit. exists (last + num). split; [reflexivity|].
      apply keep_num. intro Hone.
      assert (Hl2 : len = last + 2) by lia.
      replace (len - 1) with (last + 1) in Efit by lia.
      replace (len - last) with 2 in Efit by lia.
      pose proof one_fit. lia.
  Qed.

  Lemma nofit_case : last + new < len ->
    4096 < off_at offsets (last + new) - off_at offsets last + (new + 1) * bw ->
    search_post bw offsets len last (last + num).
  Proof.
    intros Hlt Hnofit. apply keep_num. intro Hone.
    assert (Hn2 : new = 2) by lia. rewrite Hn2 in Hnofit, Hlt.
    pose proof (two_fit Hlt). replace (2 + 1) with 3 in Hnofit by lia. lia.
  Qed.
End SearchCases.

Lemma search_loop_spec : forall fuel bw offsets len last num new,
  len = nlen offsets -> (bw = 4 \/ bw = 8) -> offsets_ok offsets BINARY_FIT ->
  last + 1 < len -> len < two64 ->
  new = 2 * num -> (exists k, num = 2 ^ k) ->
  (num = 1 \/ (last + num < len /\ off_at offsets (last + num) - off_at offsets last + (num + 1) * bw <= 4096)) ->
  two64 <= new * 2 ^ N.of_nat fuel ->
  exists stop,
    search_loop fuel bw offsets len last num new = Some stop /\ search_post bw offsets len last stop.
Proof.
  induction fuel as [|fuel IH]; intros bw offsets len last num new Hlen Hbw Hok Hlast H64 Hnew Hpow Hinv Hfuel;
    rewrite search_loop_unfold; unfold AIM_MINICHUNK_SIZE.
  all: assert (Hbw8 : 4 <= bw /\ bw <= 8) by (destruct Hbw; subst; lia).
  all: assert (Hstep : forall i, i + 1 < len -> off_at offsets i <= off_at offsets (i + 1) /\
                                 off_at offsets (i + 1) - off_at offsets i <= 2036)
         by (intros i Hi; subst len; exact (Hok i Hi)).
  - destruct (len <=? last + new) eqn:Eend.
    + apply N.leb_le in Eend. apply (end_case bw offsets len last num new); assumption.
    + apply N.leb_gt in Eend.
      destruct (off_at offsets (last + new) - off_at offsets last + (new + 1) * bw <=? 4096) eqn:Efit.
      * exfalso. cbn in Hfuel. unfold two64 in *. lia.
      * apply N.leb_gt in Efit. exists (last + num). split; [reflexivity|].
        apply (nofit_case bw offsets len last num new); assumption.
  - destruct (len <=? last + new) eqn:Eend.
    + apply N.leb_le in Eend. apply (end_case bw offsets len last num new); assumption.
    + apply N.leb_gt in Eend.
      destruct (off_at offsets (last + new) - off_at offsets last + (new + 1) * bw <=? 4096) eqn:Efit.
      * apply N.leb_le in Efit.
        apply (IH bw offsets len last new (2 * new)); try assumption; try reflexivity.
        -- destruct Hpow as [k Hk]. exists (k + 1). rewrite N.pow_add_r, <- Hk. cbn. lia.
        -- right. split; [lia | exact Efit].
        -- rewrite Nat2N.inj_succ, N.pow_succ_r' in Hfuel. lia.
      * apply N.leb_gt in Efit. exists (last + num). split; [reflexivity|].
        apply (nofit_case bw offsets len last num new); assumption.
Qed.

Lemma search_next_spec : forall bw offsets last,
  (bw = 4 \/ bw = 8) -> offsets_ok offsets BINARY_FIT -> last + 1 < nlen offsets -> nlen offsets < two64 ->
  exists stop,
    search_next_offset_idx bw offsets last = Some stop /\ search_post bw offsets (nlen offsets) last stop.
Proof.
  intros bw offsets last Hbw Hok Hlast H64. unfold search_next_offset_idx.
  apply search_loop_spec; try assumption; try reflexivity.
  - exists 0. reflexivity.
  - left. reflexivity.
  - unfold two64. vm_compute. discriminate.
Qed.

(* trailing_zeros of a power of two that fits a chunk *)
Lemma tz_pow2 : forall k, 1 <= k -> 2 ^ k <= 1023 ->
  (if 2 ^ k =? 0 then 64 else N.log2 (N.land (2 ^ k) (two64 - 2 ^ k))) mod 256 = k.
Proof.
  intros k Hk1 Hb.
  assert (Hk9 : k <= 9).
  { destruct (N.le_gt_cases k 9) as [|Hgt]; [assumption|].
    assert (2 ^ 10 <= 2 ^ k) by (apply N.pow_le_mono_r; lia). cbn in H. lia. }
  assert (Hc : k = 1 \/ k = 2 \/ k = 3 \/ k = 4 \/ k = 5 \/ k = 6 \/ k = 7 \/ k = 8 \/ k = 9) by lia.
  destruct Hc as [-> | [-> | [-> | [-> | [-> | [-> | [-> | [-> | ->]]]]]]]]; vm_compute; reflexivity.
Qed.

Lemma next_multiple_bounds : forall x a, 0 < a -> x <= next_multiple_of x a /\ next_multiple_of x a < x + a.
Proof.
  intros x a Ha. unfold next_multiple_of. split; [apply div_ceil_le_mul; exact Ha|].
  unfold div_ceil. pose proof (N.div_mod (x + a - 1) a ltac:(lia)) as E.
  pose proof (N.mod_lt (x + a - 1) a ltac:(lia)) as L. nia.
Qed.

Lemma chunk_bytes_length : forall bw offsets data start stop,
  0 < bw -> start <= stop -> stop < nlen offsets ->
  off_at offsets start <= off_at offsets stop -> off_at offsets stop <= nlen data ->
  nlen (binary_chunk_bytes bw offsets data start stop) =
  next_multiple_of ((stop - start + 1) * bw + (off_at offsets stop - off_at offsets start)) bw.
Proof.
  intros bw offsets data start stop Hbw Hss Hstop Hmono Hdata.
  unfold binary_chunk_bytes.
  set (body := flat_map (le_bytes (N.to_nat bw)) _ ++ firstn _ _).
  assert (Hbody : nlen body = (stop - start + 1) * bw + (off_at offsets stop - off_at offsets start)).
  { unfold body. rewrite nlen_app. f_equal.
    - unfold nlen. rewrite (flat_map_length_const _ (N.to_nat bw)) by (intros; apply le_bytes_length).
      rewrite map_length, firstn_length, skipn_length. unfold nlen in Hstop.
      rewrite Nat.min_l by lia. rewrite Nat2N.inj_mul, !N2Nat.id. reflexivity.
    - unfold nlen in *. rewrite firstn_length, skipn_length. lia. }
  destruct (next_multiple_bounds (nlen body) bw Hbw) as [Hlo _].
  rewrite nlen_app, <- Hbody. unfold nlen at 2. rewrite repeat_length. unfold nlen in *. lia.
Qed.

Lemma binary_chunks_spec : forall fuel bw offsets data last,
  (bw = 4 \/ bw = 8) -> offsets_ok offsets BINARY_FIT -> nlen offsets < two64 ->
  last + 1 < nlen offsets -> off_at offsets (nlen offsets - 1) <= nlen data ->
  (N.to_nat (nlen offsets - 1 - last) <= fuel)%nat ->
  exists buf cs,
    binary_chunks fuel bw offsets data last = Some (buf, cs) /\
    chunks_ok_from cs last (nlen offsets - 1) = true /\
    sum_N (map (fun c : chunk => sum_N (fst c)) cs) = nlen buf /\
    cs <> [].
Proof.
  induction fuel as [|fuel IH]; intros bw offsets data last Hbw Hok H64 Hlast Hdata Hf; [lia|].
  cbn [binary_chunks].
  destruct (search_next_spec bw offsets last Hbw Hok Hlast H64) as (stop & Es & Hls & Hsl & Hfit & Hshape).
  rewrite Es.
  set (n := nlen offsets - 1) in *.
  assert (Hbw8 : 4 <= bw /\ bw <= 8) by (destruct Hbw; subst; lia).
  set (nvals := stop - last) in *.
  assert (Hmono : off_at offsets last <= off_at offsets stop) by (eapply off_mono'; [eassumption | lia | lia]).
  assert (Hmono2 : off_at offsets stop <= off_at offsets n) by (eapply off_mono'; [eassumption | unfold n; lia | unfold n; lia]).
  set (size := (nvals + 1) * bw + (off_at offsets stop - off_at offsets last)).
  assert (Hsize : size <= 4096) by (unfold size, nvals; lia).
  destruct (next_multiple_bounds size bw ltac:(lia)) as [Hp1 Hp2].
  set (padded := next_multiple_of size bw) in *.
  assert (Hu : u16 padded = padded) by (apply u16_small; lia).
  assert (Hnv : 1 <= nvals /\ nvals <= 1023) by (unfold nvals, size in *; nia).
  assert (Hlenb : nlen (binary_chunk_bytes bw offsets data last stop) = padded).
  { rewrite chunk_bytes_length; try lia. unfold padded, size, nvals. f_equal. }
  destruct (stop =? n) eqn:Elast.
  - (* last chunk *)
    apply N.eqb_eq in Elast.
    exists (binary_chunk_bytes bw offsets data last stop), [([u16 padded], 0)].
    split; [reflexivity|]. rewrite Hu.
    split.
    { cbn [chunks_ok_from fst snd]. unfold chunk_num_values. cbn [snd]. rewrite N.eqb_refl.
      unfold sum_N. cbn [fold_right]. unfold MAX_MINIBLOCK_VALUES, MAX_MINIBLOCK_BYTES.
      repeat (apply andb_true_iff; split); try reflexivity; try (apply N.leb_le; unfold nvals in *; lia).
      apply N.eqb_eq. unfold nvals in *. lia. }
    split; [|discriminate].
    cbn [map fst]. unfold sum_N. cbn [fold_right]. lia.
  - apply N.eqb_neq in Elast.
    destruct Hshape as [Hs | (k & Hk1 & Hk)]; [unfold n in Elast; lia|].
    fold nvals in Hk.
    assert (Hlog : (if nvals =? 0 then 64 else N.log2 (N.land nvals (two64 - nvals))) mod 256 = k).
    { rewrite Hk. apply tz_pow2; [exact Hk1 | rewrite <- Hk; lia]. }
    rewrite Hlog.
    destruct (IH bw offsets data stop Hbw Hok H64 ltac:(unfold n in *; lia) Hdata ltac:(unfold n in *; lia))
      as (buf & cs & Ec & Eok & Esum & Hne).
    fold n in Eok.
    rewrite Ec.
    exists (binary_chunk_bytes bw offsets data last stop ++ buf), (([u16 padded], k) :: cs).
    split; [reflexivity|]. rewrite Hu.
    assert (Hcnv : chunk_num_values ([padded], k) last n = nvals).
    { unfold chunk_num_values. cbn [snd]. destruct (k =? 0) eqn:E0; [lia | symmetry; exact Hk]. }
    split.
    { cbn [chunks_ok_from fst snd]. rewrite Hcnv.
      replace (last + nvals) with stop by (unfold nvals; lia). rewrite Eok.
      unfold sum_N. cbn [fold_right]. unfold MAX_MINIBLOCK_VALUES, MAX_MINIBLOCK_BYTES.
      assert (Hk12 : k <= 12).
      { destruct (N.le_gt_cases k 12) as [|Hgt]; [assumption|].
        assert (2 ^ 13 <= 2 ^ k) by (apply N.pow_le_mono_r; lia). cbn in H. lia. }
      assert (Hlg : match cs with [] => true | _ :: _ => (1 <=? k) && (k <=? 12) end = true).
      { destruct cs; [reflexivity|]. apply andb_true_iff; split; apply N.leb_le; lia. }
      rewrite Hlg.
      repeat (apply andb_true_iff; split); try reflexivity; apply N.leb_le; unfold n, nvals in *; lia. }
    split; [|discriminate].
    cbn [map fst]. rewrite nlen_app, Hlenb, <- Esum. unfold sum_N. cbn [fold_right]. lia.
Qed.

(* BinaryMiniBlockEncoder::compress on a block of n >= 1 values that all fit (at most 2036 bytes
   each; mini-block is only selected by default below 256 bytes): the chunker terminates, the
   chunk table covers the values exactly once within the limits, and its recorded u16 sizes add
   up to the single output buffer (nothing is truncated). *)
Theorem binary_chunk_limits : forall (bw : N) (offsets data : list N),
  (bw = 4 \/ bw = 8) -> offsets_ok offsets BINARY_FIT ->
  2 <= nlen offsets -> nlen offsets < two64 ->
  off_at offsets (nlen offsets - 1) <= nlen data ->
  exists buf chunks,
    binary_encode bw offsets data = Some ([buf], chunks) /\
    chunks_ok chunks (nlen offsets - 1) = true /\
    sum_N (map (fun c : chunk => sum_N (fst c)) chunks) = nlen buf.
Proof.
  intros bw offsets data Hbw Hok H2 H64 Hdata. unfold binary_encode.
  destruct (binary_chunks_spec (S (length offsets)) bw offsets data 0 Hbw Hok H64 ltac:(lia) Hdata
              ltac:(unfold nlen; lia)) as (buf & cs & Ec & Eok & Esum & Hne).
  rewrite Ec. exists buf, cs. split; [reflexivity|]. split; [|exact Esum].
  unfold chunks_ok. destruct cs; [congruence | exact Eok].
Qed.
