(* C26 - value (flat) codec: chunk sizing, chunk limits, page round trip. *)
From LanceV Require Import Common.Base Codec.Model_Bytes Codec.Proofs_Bytes Codec.Model_Value.
Local Open Scope N_scope.

(* ---------- pages whose chunks own consecutive slices of ONE buffer ---------- *)
Definition single_sizes (cs : list chunk) : Prop := Forall (fun c : chunk => exists s, fst c = [s]) cs.

Lemma decode_single_buffer : forall (cs : list chunk) (data : list N) (prev total : N),
  single_sizes cs ->
  sum_N (map (fun c : chunk => sum_N (fst c)) cs) = nlen data ->
  exists pieces, decode_chunks value_decode [data] cs prev total = Ok pieces /\ concat pieces = data.
Proof.
  induction cs as [|c cs IH]; intros data prev total Hs Hsum.
  - exists []. cbn in *. split; [reflexivity|]. destruct data; [reflexivity | unfold nlen in Hsum; cbn in Hsum; lia].
  - inversion Hs as [|? ? [s Es] Hs']; subst.
    destruct c as [sizes log]. cbn [fst] in Es. subst sizes.
    cbn [map fst] in Hsum. unfold sum_N in Hsum at 1. cbn [fold_right] in Hsum. fold (sum_N (map (fun c : chunk => sum_N (fst c)) cs)) in Hsum.
    unfold sum_N at 1 in Hsum. cbn [fold_right] in Hsum.
    assert (Hsl : (N.to_nat s <= length data)%nat) by (unfold nlen in Hsum; lia).
    destruct (IH (skipn (N.to_nat s) data) (prev + chunk_num_values ([s], log) prev total) total Hs') as (pieces & Ed & Ec).
    { unfold nlen in *. rewrite skipn_length. lia. }
    exists (firstn (N.to_nat s) data :: pieces). split.
    + cbn [decode_chunks fst take_bufs drop_bufs]. cbn [value_decode rev app]. rewrite Ed. reflexivity.
    + cbn [concat]. rewrite Ec. apply firstn_skipn.
Qed.

(* ---------- find_log_vals_per_chunk ---------- *)
Lemma flv_loop_spec : forall fuel log size nv,
  nv = 2 ^ log -> 1 <= log -> log <= 12 -> size < MAX_MINIBLOCK_BYTES ->
  (12 - N.to_nat log <= fuel)%nat ->
  exists log' ,
    flv_loop fuel log size nv = Some (log', 2 ^ log') /\ log <= log' /\ log' <= 12 /\
    size * 2 ^ (log' - log) < MAX_MINIBLOCK_BYTES.
Proof.
  induction fuel as [|fuel IH]; intros log size nv Hnv Hl1 Hl12 Hsz Hf.
  - assert (log = 12) by lia. subst log. subst nv. cbn [flv_loop].
    assert (E : (2 * 2 ^ 12 <=? MAX_MINIBLOCK_VALUES) = false) by (vm_compute; reflexivity).
    rewrite E, andb_false_r. exists 12. rewrite N.sub_diag, N.pow_0_r. repeat split; try lia.
  - cbn [flv_loop].
    destruct ((2 * size <? MAX_MINIBLOCK_BYTES) && (2 * nv <=? MAX_MINIBLOCK_VALUES)) eqn:Ec.
    + apply andb_true_iff in Ec as [E1 E2].
      assert (Hl11 : log <= 11).
      { subst nv. unfold MAX_MINIBLOCK_VALUES in E2. apply N.leb_le in E2.
        destruct (N.le_gt_cases log 11) as [|Hgt]; [assumption|].
        assert (log = 12) by lia. subst log. vm_compute in E2. exfalso. apply E2. reflexivity. }
      destruct (IH (log + 1) (2 * size) (2 * nv)) as (log' & El & Hle & Hle12 & Hs); try lia.
      { subst nv. rewrite N.pow_add_r. cbn. lia. }
      exists log'. split; [exact El|]. repeat split; try lia.
      replace (log' - log) with (1 + (log' - (log + 1))) by lia.
      rewrite N.pow_add_r. cbn. nia.
    + exists log. subst nv. rewrite N.sub_diag, N.pow_0_r. repeat split; try lia.
Qed.

(* ---------- the chunk loop ---------- *)
Lemma value_chunks_spec : forall fuel log vpc bpc n data_len j,
  vpc = 2 ^ log -> 1 <= log -> log <= 12 ->
  0 < bpc -> bpc <= MAX_MINIBLOCK_BYTES ->
  (* the bytes: q full chunks of bpc bytes, then t bytes for the r leftover values *)
  let q := n / vpc in let r := n mod vpc in
  j <= q ->
  (exists t, data_len = q * bpc + t /\ t <= bpc /\ (r = 0 -> t = 0) /\ (0 < r -> 0 < t)) ->
  (N.to_nat (q - j) < fuel)%nat ->
  exists cs,
    value_chunks fuel log vpc bpc n data_len (j * vpc) (j * bpc) = Some (Ok cs) /\
    chunks_ok_from cs (j * vpc) n = true /\
    single_sizes cs /\
    sum_N (map (fun c : chunk => sum_N (fst c)) cs) = data_len - j * bpc.
Proof.
  induction fuel as [|fuel IH]; intros log vpc bpc n data_len j Hvpc Hl1 Hl12 Hb0 HbM q r Hjq Ht Hf; [lia|].
  assert (Hvpc0 : 0 < vpc) by (subst vpc; apply N.neq_0_lt_0, N.pow_nonzero; lia).
  assert (Hvpc4096 : vpc <= 4096).
  { subst vpc. change 4096 with (2 ^ 12). apply N.pow_le_mono_r; lia. }
  pose proof (N.div_mod n vpc ltac:(lia)) as Edm. fold q r in Edm.
  pose proof (N.mod_lt n vpc ltac:(lia)) as Hr. fold r in Hr.
  destruct Ht as (t & Edl & Htb & Ht0 & Htp).
  cbn [value_chunks].
  destruct (j * vpc + vpc <=? n) eqn:Efull.
  - (* a full chunk *)
    apply N.leb_le in Efull.
    assert (Hj1 : j + 1 <= q).
    { destruct (N.le_gt_cases (j + 1) q) as [|Hgt]; [assumption|]. assert (j = q) by lia. subst j. nia. }
    destruct (IH log vpc bpc n data_len (j + 1) Hvpc Hl1 Hl12 Hb0 HbM) as (cs & Ec & Eok & Hss & Hsum); try lia.
    { exists t. repeat split; assumption. }
    replace ((j + 1) * vpc) with (j * vpc + vpc) in * by lia.
    replace ((j + 1) * bpc) with (j * bpc + bpc) in * by lia.
    rewrite Ec. exists (([bpc], log) :: cs).
    split; [reflexivity|].
    assert (Hcnv : chunk_num_values ([bpc], log) (j * vpc) n = vpc).
    { unfold chunk_num_values. cbn [snd]. destruct (log =? 0) eqn:E0; [lia | symmetry; exact Hvpc]. }
    split.
    { cbn [chunks_ok_from fst snd]. rewrite Hcnv, Eok. unfold sum_N. cbn [fold_right].
      unfold MAX_MINIBLOCK_VALUES.
      assert (Hlg : match cs with [] => true | _ :: _ => (1 <=? log) && (log <=? 12) end = true).
      { destruct cs; [reflexivity|]. apply andb_true_iff; split; apply N.leb_le; lia. }
      rewrite Hlg.
      repeat (apply andb_true_iff; split); try reflexivity; apply N.leb_le; lia. }
    split.
    { constructor; [exists bpc; reflexivity | exact Hss]. }
    { cbn [map fst]. unfold sum_N at 1. cbn [fold_right]. fold (sum_N (map (fun c : chunk => sum_N (fst c)) cs)).
      rewrite Hsum. unfold sum_N. cbn [fold_right]. nia. }
  - apply N.leb_gt in Efull.
    assert (Hjq' : j = q) by nia. subst j.
    destruct (q * vpc <? n) eqn:Epart.
    + (* the final, partial chunk *)
      apply N.ltb_lt in Epart.
      assert (Hrpos : 0 < r) by lia. specialize (Htp Hrpos).
      assert (E1 : (data_len <? q * bpc) = false) by (apply N.ltb_ge; lia).
      assert (E2 : (65535 <? data_len - q * bpc) = false) by (apply N.ltb_ge; unfold MAX_MINIBLOCK_BYTES in HbM; lia).
      rewrite E1, E2. exists [([data_len - q * bpc], 0)].
      split; [reflexivity|].
      split.
      { cbn [chunks_ok_from fst snd]. unfold chunk_num_values. cbn [snd]. rewrite N.eqb_refl.
        unfold sum_N. cbn [fold_right]. unfold MAX_MINIBLOCK_VALUES.
        repeat (apply andb_true_iff; split); try reflexivity; try (apply N.leb_le; lia).
        apply N.eqb_eq. lia. }
      split.
      { constructor; [eexists; reflexivity | constructor]. }
      { cbn [map fst]. unfold sum_N. cbn [fold_right]. lia. }
    + apply N.ltb_ge in Epart.
      assert (Hr0 : r = 0) by lia. specialize (Ht0 Hr0). subst t.
      exists []. split; [reflexivity|].
      split; [cbn [chunks_ok_from]; apply N.eqb_eq; lia|].
      split; [constructor|]. cbn. lia.
Qed.

(* ---------- ValueEncoder::chunk_data ---------- *)
(* bytes of a fixed-width buffer of n values of [bits] bits *)
Definition value_data_len (bits n : N) : N := div_ceil (n * bits) 8.

(* the widths the mini-block value encoder accepts (the assert! of find_log_vals_per_chunk) *)
Definition value_width_ok (bits : N) : bool :=
  (0 <? bits) && (if bits mod 8 =? 0 then 2 * (bits / 8) <? MAX_MINIBLOCK_BYTES else 2 * bits <? MAX_MINIBLOCK_BYTES).

Theorem value_roundtrip : forall (bits n : N) (data : list N),
  value_width_ok bits = true -> nlen data = value_data_len bits n ->
  exists cs,
    value_chunk_data bits n (nlen data) = Some (Ok cs) /\
    chunks_ok cs n = true /\
    value_decode_page [data] cs n = Ok data.
Proof.
  intros bits n data Hw Hlen. unfold value_width_ok in Hw. apply andb_true_iff in Hw as [Hb0 Hw].
  apply N.ltb_lt in Hb0.
  unfold value_chunk_data.
  set (bpw := if bits mod 8 =? 0 then bits / 8 else bits).
  set (vpw := if bits mod 8 =? 0 then 1 else 8).
  assert (Epair : (if bits mod 8 =? 0 then (bits / 8, 1) else (bits, 8)) = (bpw, vpw)).
  { unfold bpw, vpw. destruct (bits mod 8 =? 0); reflexivity. }
  rewrite Epair.
  assert (Hbpw : 0 < bpw /\ 2 * bpw < MAX_MINIBLOCK_BYTES).
  { unfold bpw. destruct (bits mod 8 =? 0) eqn:E8.
    - apply N.ltb_lt in Hw. split; [|exact Hw].
      assert (bits mod 8 = 0) by lia. pose proof (N.div_mod bits 8 ltac:(lia)). lia.
    - apply N.ltb_lt in Hw. split; [lia | exact Hw]. }
  destruct Hbpw as [Hbpw0 Hbpw2].
  assert (Hvpw : (vpw = 1 /\ bits = 8 * bpw) \/ (vpw = 8 /\ bpw = bits)).
  { unfold vpw, bpw. destruct (bits mod 8 =? 0) eqn:E8; [left | right; split; reflexivity].
    split; [reflexivity|]. assert (bits mod 8 = 0) by lia. pose proof (N.div_mod bits 8 ltac:(lia)). lia. }
  unfold find_log_vals_per_chunk.
  assert (Evp : negb ((vpw =? 1) || (vpw =? 8)) = false).
  { destruct Hvpw as [[-> _]|[-> _]]; reflexivity. }
  rewrite Evp.
  assert (Eas : negb (2 * bpw <? MAX_MINIBLOCK_BYTES) = false) by (apply negb_false_iff, N.ltb_lt; exact Hbpw2).
  rewrite Eas.
  set (log0 := if vpw =? 1 then 1 else 3).
  set (nv0 := if vpw =? 1 then 2 else 8).
  assert (Ep2 : (if vpw =? 1 then (1, 2) else (3, 8)) = (log0, nv0)).
  { unfold log0, nv0. destruct (vpw =? 1); reflexivity. }
  rewrite Ep2.
  assert (Hnv0 : nv0 = 2 ^ log0 /\ 1 <= log0 /\ log0 <= 3).
  { unfold nv0, log0. destruct (vpw =? 1); repeat split; try lia; reflexivity. }
  destruct Hnv0 as (Hnv0 & Hl01 & Hl03).
  destruct (flv_loop_spec 16 log0 (2 * bpw) nv0 Hnv0 Hl01 ltac:(lia) Hbpw2 ltac:(lia)) as (log & Efl & Hlo & Hl12 & Hsz).
  rewrite Efl.
  set (vpc := 2 ^ log) in *.
  set (bpc := bpw * (vpc / vpw)).
  (* vpc is a multiple of vpw and bpc * (something) is bounded by the doubled size *)
  assert (Hvpcdiv : vpc = nv0 * 2 ^ (log - log0)).
  { unfold vpc. rewrite Hnv0, <- N.pow_add_r. f_equal. lia. }
  assert (Hbpc : 0 < bpc /\ bpc <= MAX_MINIBLOCK_BYTES /\ vpc / vpw * vpw = vpc).
  { unfold bpc. rewrite Hvpcdiv. unfold nv0.
    assert (Hp : 0 < 2 ^ (log - log0)) by (apply N.neq_0_lt_0, N.pow_nonzero; lia).
    destruct Hvpw as [[Ev _]|[Ev _]]; rewrite Ev; cbn [N.eqb].
    - change (1 =? 1) with true. cbv iota. rewrite N.div_1_r. nia.
    - change (8 =? 1) with false. cbv iota.
      rewrite (N.mul_comm 8), N.div_mul by lia. nia. }
  destruct Hbpc as (Hbpc0 & HbpcM & Hvdiv).
  assert (E65 : (65535 <? bpc) = false) by (apply N.ltb_ge; unfold MAX_MINIBLOCK_BYTES in HbpcM; lia).
  fold bpc. rewrite E65.
  assert (Hvpc0 : 0 < vpc) by (unfold vpc; apply N.neq_0_lt_0, N.pow_nonzero; lia).
  (* the byte split of the buffer *)
  pose proof (N.div_mod n vpc ltac:(lia)) as Edm.
  pose proof (N.mod_lt n vpc ltac:(lia)) as Hr.
  set (q := n / vpc) in *. set (r := n mod vpc) in *.
  assert (Ht : exists t, nlen data = q * bpc + t /\ t <= bpc /\ (r = 0 -> t = 0) /\ (0 < r -> 0 < t)).
  { rewrite Hlen. unfold value_data_len.
    destruct Hvpw as [[Ev Eb]|[Ev Eb]].
    - (* byte aligned: bits = 8 * bpw, bpc = bpw * vpc *)
      assert (Ebpc : bpc = bpw * vpc) by (unfold bpc; rewrite Ev, N.div_1_r; reflexivity).
      exists (r * bpw).
      replace (n * bits) with ((n * bpw) * 8) by (rewrite Eb; lia).
      rewrite div_ceil_exact by lia. rewrite Ebpc. repeat split; try nia.
    - (* sub-byte: 8 values per word of [bits] bytes; vpc = 8 * m *)
      set (m := vpc / vpw) in *. rewrite Ev in Hvdiv.
      assert (Ebpc : bpc = bits * m) by (unfold bpc; rewrite Eb; reflexivity).
      exists (div_ceil (r * bits) 8).
      assert (E1 : n * bits = (q * bpc) * 8 + r * bits) by (rewrite Ebpc; nia).
      assert (E2 : div_ceil (n * bits) 8 = q * bpc + div_ceil (r * bits) 8).
      { unfold div_ceil. rewrite E1.
        replace (q * bpc * 8 + r * bits + 8 - 1) with ((r * bits + 8 - 1) + (q * bpc) * 8) by lia.
        rewrite N.div_add by lia. lia. }
      split; [exact E2|].
      split.
      { (* r <= vpc = 8 m, so ceil(r*bits/8) <= bits*m *)
        unfold div_ceil. rewrite Ebpc.
        assert (Hrm : r * bits <= 8 * (bits * m)) by nia.
        assert (L : (r * bits + 8 - 1) / 8 < bits * m + 1) by (apply N.div_lt_upper_bound; lia).
        lia. }
      split.
      { intro Hr0. rewrite Hr0. reflexivity. }
      { intro Hrp. unfold div_ceil. apply N.div_str_pos. nia. } }
  destruct (value_chunks_spec (S (N.to_nat (n / vpc))) log vpc bpc n (nlen data) 0 eq_refl ltac:(lia) Hl12 Hbpc0 HbpcM
              ltac:(lia) Ht ltac:(fold q; lia)) as (cs & Ec & Eok & Hss & Hsum).
  rewrite !N.mul_0_l in *. unfold q in *. rewrite Ec. exists cs. split; [reflexivity|].
  split.
  - unfold chunks_ok. destruct cs as [|c cs'].
    + cbn [chunks_ok_from] in Eok. apply N.eqb_eq in Eok. apply N.eqb_eq. lia.
    + exact Eok.
  - unfold value_decode_page.
    destruct (decode_single_buffer cs data 0 n Hss ltac:(rewrite Hsum; lia)) as (pieces & Ed & Econ).
    rewrite Ed. cbn [outcome_map]. rewrite Econ. reflexivity.
Qed.

(* block / per-value value compressors return the buffer itself; the constant decompressor
   expands to n copies of the scalar *)
Lemma constant_expand_length : forall scalar n,
  length (constant_expand scalar n) = (N.to_nat n * length scalar)%nat.
Proof.
  intros scalar n. unfold constant_expand.
  induction (N.to_nat n) as [|k IH]; [reflexivity|].
  cbn [repeat concat]. rewrite app_length, IH. lia.
Qed.
