(* Proofs about the FSST model (Codec/Model_Fsst.v).
   Structure:
     1. decoder: the block-structured loop of decompress_bulk (dec_str) equals a one-code-at-a-time
        reference decoder on every well-formed code stream (strong induction on the stream)
     2. tokens (symbol / escape), code streams as concatenated tokens
     3. encoder lookup: every code find_code returns is either the escape or a symbol of the table whose
        bytes are a prefix of the 8-byte word (whatever the hash/short-code structures contain)
     4. one chunk of compress_bulk emits tokens that expand to exactly the chunk: the terminator sentinel
        stops every multi-byte symbol at the chunk's end (hypothesis: no symbol carries the terminator
        after its first byte)
     5. values (511-byte chunks), arrays, fsst::decompress (fsst::compress x) = x *)
From LanceV Require Import Common.Base Codec.Model_Fsst.
Local Open Scope N_scope.

(* ------------------------------------------------------------------ 1. decoder *)
(* well-formed code streams: symbols (any byte but 255) and escapes (255 followed by a literal byte) *)
Inductive wfb : list N -> Prop :=
| wfb_nil : wfb []
| wfb_sym c r : c <> 255 -> wfb r -> wfb (c :: r)
| wfb_esc b r : wfb r -> wfb (255 :: b :: r).

(* reference decoder: one code at a time *)
Fixpoint dec_ref (so : N -> list N) (cs : list N) : list N :=
  match cs with
  | [] => []
  | c :: r =>
    if c =? 255 then match r with b :: r' => b :: dec_ref so r' | [] => [] end
    else so c ++ dec_ref so r
  end.

Lemma dec_ref_sym so c r : c <> 255 -> dec_ref so (c :: r) = so c ++ dec_ref so r.
Proof. intro H. cbn [dec_ref]. apply N.eqb_neq in H. rewrite H. reflexivity. Qed.

Lemma dec_ref_esc so b r : dec_ref so (255 :: b :: r) = b :: dec_ref so r.
Proof. reflexivity. Qed.

Lemma oapp_ok l x : oapp l (Ok x) = Ok (l ++ x).
Proof. reflexivity. Qed.

Ltac neq255 :=
  repeat match goal with
         | H : ?c <> 255 |- context [?c =? FSST_ESC] =>
             replace (c =? FSST_ESC) with false by (symmetry; apply N.eqb_neq; exact H)
         | |- context [255 =? FSST_ESC] => change (255 =? FSST_ESC) with true
         end.

Ltac inv_wfb :=
  repeat match goal with
         | H : wfb (_ :: _) |- _ => inversion H; subst; clear H
         end.

Lemma wfb_inv_sym c r : c <> 255 -> wfb (c :: r) -> wfb r.
Proof. intros Hc H. inversion H; subst; [assumption | congruence]. Qed.

Lemma wfb_inv_esc r : wfb (255 :: r) -> exists b r', r = b :: r' /\ wfb r'.
Proof. intro H. inversion H; subst; [congruence | eauto]. Qed.

(* one unfolding of dec_str on at least four bytes, recursive calls kept folded *)
Lemma dec_str_4 so la c0 c1 c2 c3 r4 :
  dec_str so la (c0 :: c1 :: c2 :: c3 :: r4) =
  if c0 =? FSST_ESC then oapp [c1] (dec_str so la (c2 :: c3 :: r4))
  else if c1 =? FSST_ESC then oapp (so c0 ++ [c2]) (dec_str so la (c3 :: r4))
  else if c2 =? FSST_ESC then oapp (so c0 ++ so c1 ++ [c3]) (dec_str so la r4)
  else if c3 =? FSST_ESC then
         match r4 with
         | b :: r5 => oapp (so c0 ++ so c1 ++ so c2 ++ [b]) (dec_str so la r5)
         | [] => oapp (so c0 ++ so c1 ++ so c2) (over_read la)
         end
  else oapp (so c0 ++ so c1 ++ so c2 ++ so c3) (dec_str so la r4).
Proof. reflexivity. Qed.

Ltac eq255 c H := destruct (N.eqb_spec c 255) as [->|H].

(* the block-structured decoder of decompress_bulk agrees with the reference decoder on well-formed input *)
Lemma dec_str_ref (so : N -> list N) (la : option N) :
  forall n cs, (length cs <= n)%nat -> wfb cs -> dec_str so la cs = Ok (dec_ref so cs).
Proof.
  induction n as [|n IH]; intros cs Hlen Hwf.
  - destruct cs; [reflexivity | cbn in Hlen; lia].
  - destruct cs as [|c0 [|c1 [|c2 [|c3 r4]]]].
    + reflexivity.
    + eq255 c0 Nc0; [apply wfb_inv_esc in Hwf as (b & r' & E & _); discriminate|].
      rewrite dec_ref_sym by assumption. cbn [dec_ref dec_str]. rewrite app_nil_r. reflexivity.
    + cbn [dec_str]. unfold FSST_ESC. eq255 c0 Nc0.
      * cbn. reflexivity.
      * apply wfb_inv_sym in Hwf; [|assumption]. eq255 c1 Nc1.
        -- apply wfb_inv_esc in Hwf as (b & r' & E & _); discriminate.
        -- apply N.eqb_neq in Nc0, Nc1. cbn [dec_ref]. rewrite Nc0, Nc1. rewrite app_nil_r. reflexivity.
    + cbn [dec_str]. unfold FSST_ESC. eq255 c0 Nc0.
      * apply wfb_inv_esc in Hwf as (b & r' & E & Hw). inversion E; subst. eq255 c2 Nc2.
        -- apply wfb_inv_esc in Hw as (b2 & r2 & E' & _); discriminate.
        -- rewrite dec_ref_esc, dec_ref_sym by assumption. cbn [dec_ref]. rewrite app_nil_r. reflexivity.
      * apply wfb_inv_sym in Hwf; [|assumption]. rewrite (dec_ref_sym so c0) by assumption. eq255 c1 Nc1.
        -- reflexivity.
        -- apply wfb_inv_sym in Hwf; [|assumption]. rewrite (dec_ref_sym so c1) by assumption. eq255 c2 Nc2.
           ++ apply wfb_inv_esc in Hwf as (b & r' & E' & _); discriminate.
           ++ rewrite dec_ref_sym by assumption. cbn [dec_ref]. rewrite app_nil_r. reflexivity.
    + rewrite dec_str_4. unfold FSST_ESC. cbn [length] in Hlen. eq255 c0 Nc0.
      * apply wfb_inv_esc in Hwf as (b & r' & E & Hw). inversion E; subst.
        rewrite IH; [| cbn [length] in *; lia | eassumption]. reflexivity.
      * apply wfb_inv_sym in Hwf; [|assumption]. rewrite (dec_ref_sym so c0) by assumption. eq255 c1 Nc1.
        -- apply wfb_inv_esc in Hwf as (b & r' & E & Hw). inversion E; subst.
           rewrite IH; [| cbn [length] in *; lia | eassumption]. rewrite oapp_ok, dec_ref_esc, <- app_assoc. reflexivity.
        -- apply wfb_inv_sym in Hwf; [|assumption]. rewrite (dec_ref_sym so c1) by assumption. eq255 c2 Nc2.
           ++ apply wfb_inv_esc in Hwf as (b & r' & E & Hw). inversion E; subst.
              rewrite IH; [| cbn [length] in *; lia | eassumption]. rewrite oapp_ok, dec_ref_esc, <- !app_assoc. reflexivity.
           ++ apply wfb_inv_sym in Hwf; [|assumption]. rewrite (dec_ref_sym so c2) by assumption. eq255 c3 Nc3.
              ** apply wfb_inv_esc in Hwf as (b & r' & E & Hw). subst r4.
                 rewrite IH; [| cbn [length] in *; lia | eassumption]. rewrite oapp_ok, dec_ref_esc, <- !app_assoc. reflexivity.
              ** apply wfb_inv_sym in Hwf; [|assumption]. rewrite (dec_ref_sym so c3) by assumption.
                 rewrite IH; [| cbn [length] in *; lia | eassumption]. rewrite oapp_ok, <- !app_assoc. reflexivity.
Qed.

(* ------------------------------------------------------------------ 2-3. tokens; lookup soundness *)
(* ---- tokens *)
Inductive tok := TSym (c : N) | TEsc (b : N).
Definition emit (t : tok) : list N := match t with TSym c => [c] | TEsc b => [255; b] end.
Definition expand (so : N -> list N) (t : tok) : list N := match t with TSym c => so c | TEsc b => [b] end.
Definition tok_ok (t : tok) : Prop := match t with TSym c => c <> 255 | TEsc _ => True end.

Lemma wfb_emit (toks : list tok) : Forall tok_ok toks -> wfb (flat_map emit toks).
Proof.
  induction 1 as [|t toks Ht _ IH]; cbn [flat_map]; [constructor|].
  destruct t as [c|b]; cbn [emit app]; [apply wfb_sym; assumption | apply wfb_esc; assumption].
Qed.

Lemma dec_ref_emit (so : N -> list N) (toks : list tok) :
  Forall tok_ok toks -> dec_ref so (flat_map emit toks) = flat_map (expand so) toks.
Proof.
  induction 1 as [|t toks Ht _ IH]; cbn [flat_map]; [reflexivity|].
  destruct t as [c|b]; cbn [emit app expand].
  - rewrite dec_ref_sym by exact Ht. rewrite IH. reflexivity.
  - rewrite dec_ref_esc, IH. reflexivity.
Qed.

Lemma dec_str_emit (so : N -> list N) (la : option N) (toks : list tok) :
  Forall tok_ok toks -> dec_str so la (flat_map emit toks) = Ok (flat_map (expand so) toks).
Proof.
  intro H. rewrite (dec_str_ref so la _ _ (le_n _) (wfb_emit toks H)). rewrite dec_ref_emit by exact H. reflexivity.
Qed.

(* ---- where the entries of the rebuilt lookup structures come from *)
Lemma in_combine_seq {A} (l : list A) (k a : nat) (c : N) (x : A) :
  In (c, x) (combine (map N.of_nat (seq a k)) l) ->
  exists i, (i < k)%nat /\ c = N.of_nat (a + i) /\ nth_error l i = Some x.
Proof.
  revert a l. induction k as [|k IH]; intros a l H; [destruct H|].
  cbn [seq map combine] in H. destruct l as [|y l]; [destruct H|]. cbn [combine] in H.
  destruct H as [E|H].
  - inversion E; subst. exists 0%nat. repeat split; [lia | f_equal; lia].
  - apply IH in H as (i & Hi & Hc & Hn). exists (S i). repeat split; [lia | rewrite Hc; f_equal; lia | exact Hn].
Qed.

Lemma in_isyms (t : table) (c : N) (x : list N * N) :
  In (c, x) (isyms t) -> c < t_n t /\ nth_error (t_syms t) (N.to_nat c) = Some x.
Proof.
  unfold isyms, nrange. intro H. apply in_combine_seq in H as (i & Hi & Hc & Hn).
  cbn [Nat.add] in Hc. subst c. rewrite Nat2N.id. split; [lia | exact Hn].
Qed.

Lemma assoc_in {A} (k : N) (l : list (N * A)) (v : A) : assoc k l = Some v -> In (k, v) l.
Proof.
  unfold assoc. destruct (find (fun e => fst e =? k) l) as [e|] eqn:F; [|discriminate].
  intro E. inversion E; subst. apply find_some in F as [Hin Hk]. apply N.eqb_eq in Hk.
  destruct e as [k' v']. cbn [fst snd] in *. subst k'. exact Hin.
Qed.

(* the hypothesis on symbols, as propositions *)
Definition wf_symP (term : N) (s : list N * N) : Prop :=
  let '(val8, len) := s in
  1 <= len /\ len <= 8 /\ length val8 = 8%nat /\ Forall (fun b => b < 256) val8 /\
  Forall (fun b => b <> term) (skipn 1 (firstn (N.to_nat len) val8)).

Lemma wf_sym_P term s : wf_sym term s = true -> wf_symP term s.
Proof.
  destruct s as [val8 len]. unfold wf_sym, wf_symP. intro H.
  repeat (apply andb_true_iff in H as [H ?]).
  repeat split.
  - apply N.leb_le. assumption.
  - apply N.leb_le. assumption.
  - apply Nat.eqb_eq. assumption.
  - apply Forall_forall. intros b Hb. apply N.ltb_lt. rewrite forallb_forall in H1. apply H1. exact Hb.
  - apply Forall_forall. intros b Hb. rewrite forallb_forall in H0. specialize (H0 b Hb).
    apply negb_true_iff in H0. apply N.eqb_neq. exact H0.
Qed.

Definition WF (t : table) : Prop :=
  t_n t < 256 /\ Forall (wf_symP (t_term t)) (t_syms t).

(* ---- the code computed by one iteration of compress_bulk *)
Definition code_spec (t : table) (w : list N) (code : N) : Prop :=
  code = 4607 \/
  exists c val8 len, code = len * 4096 + c /\ c < t_n t /\
                     nth_error (t_syms t) (N.to_nat c) = Some (val8, len) /\
                     firstn (N.to_nat len) w = firstn (N.to_nat len) val8.

Lemma nlist_eqb_eq (a b : list N) : nlist_eqb a b = true -> a = b.
Proof. apply list_eqb_eq. intros x y. apply N.eqb_eq. Qed.

Lemma find_code_sound (t : table) (dead : option N) (w : list N) :
  WF t -> length w = 8%nat -> nth 0 w 0 < 256 ->
  code_spec t w (find_code (mk_enc t dead) w).
Proof.
  intros [Hn Hsyms] Hw Hb0. unfold find_code.
  set (e := mk_enc t dead).
  assert (Hsym : forall c val8 len, In (c, (val8, len)) (isyms t) -> wf_symP (t_term t) (val8, len)).
  { intros c val8 len Hin. apply in_isyms in Hin as [_ Hn']. apply nth_error_In in Hn'.
    rewrite Forall_forall in Hsyms. apply Hsyms. exact Hn'. }
  (* short_code is sound *)
  assert (Hshort : code_spec t w (short_code e (nth 0 w 0) (nth 1 w 0))).
  { unfold short_code. destruct (assoc _ (e_short e)) as [c|] eqn:A.
    - apply assoc_in in A. unfold e, mk_enc in A. cbn [e_short] in A.
      apply in_map_iff in A as ([c' [val8 len]] & E & Hin). cbn [fst snd] in E. inversion E; subst c'. clear E.
      assert (Hin' : In (c, (val8, len)) (isyms t) /\ len = 2).
      { apply in_app_iff in Hin. destruct Hin as [Hin|Hin]; [apply in_rev in Hin|];
          apply filter_In in Hin as [Hin _]; apply filter_In in Hin as [Hin Hl]; cbn [fst snd] in Hl;
          apply andb_true_iff in Hl as [Hl _]; apply N.eqb_eq in Hl; split; assumption. }
      destruct Hin' as [Hin' ->]. pose proof (Hsym _ _ _ Hin') as (_ & _ & Hl8 & Hb & _).
      apply in_isyms in Hin' as [Hc Hnth]. right. exists c, val8, 2. repeat split; try assumption; [lia|].
      destruct val8 as [|v0 [|v1 val8]]; try (cbn in Hl8; lia).
      destruct w as [|b0 [|b1 w]]; try (cbn in Hw; lia).
      cbn [nth firstn le_val fold_right] in *. change (N.to_nat 2) with 2%nat. cbn [firstn].
      inversion Hb as [|? ? Hv0 Hb']; subst. 
      assert (b0 = v0 /\ b1 = v1) as [-> ->] by lia. reflexivity.
    - unfold byte_code. destruct (assoc _ (e_single e)) as [c|] eqn:B.
      + apply assoc_in in B. unfold e, mk_enc in B. cbn [e_single] in B.
        apply in_map_iff in B as ([c' [val8 len]] & E & Hin). cbn [fst snd] in E. inversion E; subst c'.
        apply in_rev in Hin. apply filter_In in Hin as [Hin Hl]. cbn [fst snd] in Hl. apply N.eqb_eq in Hl. subst len.
        pose proof (Hsym _ _ _ Hin) as (_ & _ & Hl8 & _ & _).
        apply in_isyms in Hin as [Hc Hnth]. right. exists c, val8, 1. repeat split; try assumption; [lia|].
        destruct val8 as [|v0 val8]; try (cbn in Hl8; lia).
        destruct w as [|b0 w]; try (cbn in Hw; lia).
        cbn [nth] in *. change (N.to_nat 1) with 1%nat. cbn [firstn]. congruence.
      + left. reflexivity. }
  destruct (assoc _ (e_hash e)) as [[[val8 len] c]|] eqn:H; [|exact Hshort].
  destruct (nlist_eqb _ val8) eqn:M; [|exact Hshort].
  apply nlist_eqb_eq in M. apply assoc_in in H. unfold e, mk_enc in H. cbn [e_hash] in H.
  apply in_map_iff in H as ([c' [val8' len']] & E & Hin). cbn [fst snd] in E. injection E as _ Ev El Ec. subst val8' len' c'.
  apply filter_In in Hin as [Hin Hl]. cbn [fst snd] in Hl. apply andb_true_iff in Hl as [Hl3 Hl8].
  apply N.leb_le in Hl3, Hl8.
  apply in_isyms in Hin as [Hc Hnth]. right. exists c, val8, len. repeat split; try assumption.
  rewrite <- M. rewrite firstn_app. rewrite firstn_firstn, Nat.min_id.
  rewrite firstn_length, Hw. replace (N.to_nat len - Nat.min (N.to_nat len) 8)%nat with 0%nat by lia.
  cbn [firstn]. rewrite app_nil_r. reflexivity.
Qed.

(* ------------------------------------------------------------------ 4. one chunk *)
Lemma code_sym_fields (len c : N) : len <= 8 -> c < 256 ->
  (len * 4096 + c) / 4096 = len /\ (len * 4096 + c) mod 256 = c /\ ((len * 4096 + c) / 256) mod 2 = 0.
Proof. intros H1 H2. repeat split; lia. Qed.

Lemma sym_out_eq (t : table) (c : N) (val8 : list N) (len : N) :
  nth_error (t_syms t) (N.to_nat c) = Some (val8, len) -> len <= 8 ->
  sym_out t c = firstn (N.to_nat len) val8.
Proof.
  intros H Hl. unfold sym_out. rewrite H.
  replace (N.to_nat len - 8)%nat with 0%nat by lia. cbn [repeat]. rewrite app_nil_r. reflexivity.
Qed.

Lemma nth_firstn_lt {A} (l : list A) (n i : nat) (d : A) : (i < n)%nat -> nth i (firstn n l) d = nth i l d.
Proof.
  revert n i. induction l as [|x l IH]; intros [|n] [|i] H; cbn [firstn nth]; try reflexivity; try lia.
  apply IH. lia.
Qed.

Lemma nth_skipn_add {A} (l : list A) (n i : nat) (d : A) : nth i (skipn n l) d = nth (n + i) l d.
Proof.
  revert l. induction n as [|n IH]; intro l; [reflexivity|].
  destruct l as [|x l]; cbn [skipn Nat.add nth]; [destruct i; reflexivity | apply IH].
Qed.

Section Comp.
  Variable t : table.
  Variable dead : option N.
  Hypothesis HWF : WF t.
  Let e := mk_enc t dead.
  Let so := sym_out t.

  (* one chunk: rest = bytes ++ sentinel :: tail *)
  Lemma comp_chunk_spec : forall (fuel : nat) (bytes tail : list N),
    (1 <= length bytes)%nat -> (length bytes <= fuel)%nat ->
    Forall (fun b => b < 256) bytes -> (7 <= length tail)%nat ->
    exists toks,
      comp_chunk e fuel (bytes ++ t_term t :: tail) (N.of_nat (length bytes)) = flat_map emit toks /\
      flat_map (expand so) toks = bytes /\ Forall tok_ok toks.
  Proof.
    subst e. induction fuel as [|f IH]; intros bytes tail Hne Hfuel Hb Htail; [lia|].
    destruct bytes as [|x xs]; [cbn in Hne; lia|]. clear Hne.
    set (rest := (x :: xs) ++ t_term t :: tail).
    set (w := firstn 8 rest).
    assert (Hrestlen : (length rest = length xs + 1 + (1 + length tail))%nat).
    { unfold rest. rewrite app_length. cbn [length]. lia. }
    assert (Hw : length w = 8%nat) by (unfold w; rewrite firstn_length; lia).
    assert (Hw0 : nth 0 w 0 = x) by reflexivity.
    assert (Hx : x < 256) by (inversion Hb; assumption).
    assert (Hxs : Forall (fun b => b < 256) xs) by (inversion Hb; assumption).
    pose proof (find_code_sound t dead w HWF Hw ltac:(rewrite Hw0; exact Hx)) as Hcode.
    cbn [comp_chunk]. fold rest. fold w.
    replace (N.of_nat (length (x :: xs)) =? 0) with false by (symmetry; apply N.eqb_neq; cbn [length]; lia).
    set (code := find_code (mk_enc t dead) w) in *.
    (* continuation after consuming k bytes, 1 <= k <= length (x :: xs) *)
    assert (Hcont : forall k : nat, (1 <= k)%nat -> (k <= length (x :: xs))%nat ->
              exists toks,
                (if N.of_nat k <? N.of_nat (length (x :: xs))
                 then comp_chunk (mk_enc t dead) f (skipn k rest) (N.of_nat (length (x :: xs)) - N.of_nat k) else [])
                = flat_map emit toks /\
                flat_map (expand so) toks = skipn k (x :: xs) /\ Forall tok_ok toks).
    { intros k Hk1 Hk2. destruct (N.ltb_spec (N.of_nat k) (N.of_nat (length (x :: xs)))) as [Hlt|Hge].
      - assert (Hsk : skipn k rest = skipn k (x :: xs) ++ t_term t :: tail).
        { unfold rest. rewrite skipn_app. replace (k - length (x :: xs))%nat with 0%nat by lia. reflexivity. }
        rewrite Hsk. replace (N.of_nat (length (x :: xs)) - N.of_nat k) with (N.of_nat (length (skipn k (x :: xs))))
          by (rewrite skipn_length; lia).
        apply IH.
        + rewrite skipn_length. lia.
        + rewrite skipn_length. cbn [length] in *. lia.
        + apply Forall_forall. intros b Hin. rewrite Forall_forall in Hb. apply Hb.
          rewrite <- (firstn_skipn k (x :: xs)). apply in_or_app. right. exact Hin.
        + exact Htail.
      - exists []. cbn [flat_map]. repeat split; [|constructor].
        symmetry. apply skipn_all2. lia. }
    destruct Hcode as [Hesc | (c & val8 & len & Hc & Hcn & Hnth & Hpre)].
    - (* escape *)
      rewrite Hesc. change (4607 / 4096) with 1. change ((4607 / 256) mod 2 =? 1) with true.
      change (4607 mod 256) with 255. cbv iota. rewrite Hw0.
      destruct (Hcont 1%nat ltac:(lia) ltac:(cbn [length]; lia)) as (toks & H1 & H2 & H3).
      change (N.of_nat 1) with 1 in H1. change (N.to_nat 1) with 1%nat.
      exists (TEsc x :: toks). cbn [flat_map emit expand app]. repeat split.
      + rewrite <- H1. reflexivity.
      + rewrite H2. reflexivity.
      + constructor; [exact I | exact H3].
    - (* a symbol *)
      destruct HWF as [Hn Hsyms].
      assert (Hwf : wf_symP (t_term t) (val8, len)).
      { rewrite Forall_forall in Hsyms. apply Hsyms. apply nth_error_In in Hnth. exact Hnth. }
      destruct Hwf as (Hl1 & Hl8 & Hv8 & _ & Hterm).
      assert (Hc256 : c < 256) by lia.
      destruct (code_sym_fields len c Hl8 Hc256) as (F1 & F2 & F3).
      rewrite Hc, F1, F2, F3. change (0 =? 1) with false. cbv iota.
      (* the symbol does not run over the sentinel *)
      assert (Hfit : (N.to_nat len <= length (x :: xs))%nat).
      { destruct (le_lt_dec (N.to_nat len) (length (x :: xs))) as [Hle|Hgt]; [exact Hle | exfalso].
        set (r := length (x :: xs)) in *.
        assert (Hr1 : (1 <= r)%nat) by (unfold r; cbn [length]; lia).
        assert (Eq : nth r (firstn (N.to_nat len) w) 0 = nth r (firstn (N.to_nat len) val8) 0) by (rewrite Hpre; reflexivity).
        rewrite !nth_firstn_lt in Eq by lia.
        assert (Ew : nth r w 0 = t_term t).
        { unfold w. rewrite nth_firstn_lt by lia. unfold rest, r. apply nth_middle. }
        rewrite Ew in Eq.
        rewrite Forall_forall in Hterm. apply (Hterm (t_term t)); [|reflexivity].
        rewrite Eq.
        replace (nth r val8 0) with (nth (r - 1) (skipn 1 (firstn (N.to_nat len) val8)) 0).
        - apply nth_In. rewrite skipn_length, firstn_length. lia.
        - rewrite nth_skipn_add, nth_firstn_lt by lia. f_equal. lia. }
      destruct (Hcont (N.to_nat len) ltac:(lia) Hfit) as (toks & H1 & H2 & H3).
      rewrite N2Nat.id in H1.
      exists (TSym c :: toks). cbn [flat_map emit expand app]. repeat split.
      + rewrite <- H1. reflexivity.
      + rewrite H2. unfold so. rewrite (sym_out_eq t c val8 len Hnth Hl8). rewrite <- Hpre.
        unfold w. rewrite firstn_firstn. replace (Nat.min (N.to_nat len) 8) with (N.to_nat len) by lia.
        unfold rest. rewrite firstn_app. replace (N.to_nat len - length (x :: xs))%nat with 0%nat by lia.
        cbn [firstn]. rewrite app_nil_r. apply firstn_skipn.
      + constructor; [cbn [tok_ok]; lia | exact H3].
  Qed.
End Comp.

(* ------------------------------------------------------------------ 5a. values and arrays *)
Definition bytes_ok (s : list N) : Prop := Forall (fun b => b < 256) s.

Lemma comp_str_cons e f buf x xs :
  comp_str e (S f) buf (x :: xs) =
  comp_chunk e (length (firstn 511 (x :: xs)))
             (firstn 511 (x :: xs) ++ e_term e :: skipn (length (firstn 511 (x :: xs)) + 1) buf)
             (N.of_nat (length (firstn 511 (x :: xs))))
  ++ comp_str e f (firstn 511 (x :: xs) ++ e_term e :: skipn (length (firstn 511 (x :: xs)) + 1) buf)
              (skipn 511 (x :: xs)).
Proof. reflexivity. Qed.

Lemma e_term_mk t dead : e_term (mk_enc t dead) = t_term t.
Proof. reflexivity. Qed.

Section Comp2.
  Variable t : table.
  Variable dead : option N.
  Hypothesis HWF : WF t.

  Lemma comp_str_spec : forall (fuel : nat) (buf s : list N),
    length buf = 520%nat -> (length s <= fuel)%nat -> bytes_ok s ->
    exists toks, comp_str (mk_enc t dead) fuel buf s = flat_map emit toks /\
                 flat_map (expand (sym_out t)) toks = s /\ Forall tok_ok toks.
  Proof.
    induction fuel as [|f IH]; intros buf s Hbuf Hfuel Hb.
    - destruct s; [|cbn in Hfuel; lia]. exists []. repeat split. constructor.
    - destruct s as [|x xs]; [exists []; repeat split; constructor|].
      rewrite comp_str_cons, e_term_mk. set (s := x :: xs) in *.
      set (chunk := firstn 511 s).
      assert (Hc1 : (1 <= length chunk)%nat) by (unfold chunk, s; cbn [firstn length]; lia).
      assert (Hc2 : (length chunk <= 511)%nat) by (unfold chunk; rewrite firstn_length; lia).
      set (tail := skipn (length chunk + 1) buf).
      set (buf' := chunk ++ t_term t :: tail).
      assert (Htail : (7 <= length tail)%nat) by (unfold tail; rewrite skipn_length; lia).
      assert (Hbuf' : length buf' = 520%nat).
      { unfold buf'. rewrite app_length. cbn [length]. unfold tail. rewrite skipn_length. lia. }
      assert (Hbc : bytes_ok chunk).
      { apply Forall_forall. intros b Hin. unfold bytes_ok in Hb. rewrite Forall_forall in Hb. apply Hb.
        rewrite <- (firstn_skipn 511 s). apply in_or_app. left. exact Hin. }
      assert (Hbr : bytes_ok (skipn 511 s)).
      { apply Forall_forall. intros b Hin. unfold bytes_ok in Hb. rewrite Forall_forall in Hb. apply Hb.
        rewrite <- (firstn_skipn 511 s). apply in_or_app. right. exact Hin. }
      destruct (comp_chunk_spec t dead HWF (length chunk) chunk tail Hc1 (le_n _) Hbc Htail) as (toks1 & A1 & A2 & A3).
      destruct (IH buf' (skipn 511 s) Hbuf') as (toks2 & B1 & B2 & B3).
      + rewrite skipn_length. unfold s in *. cbn [length] in *. lia.
      + exact Hbr.
      + exists (toks1 ++ toks2). rewrite !flat_map_app. repeat split.
        * fold buf' in A1. rewrite A1, B1. reflexivity.
        * rewrite A2, B2. apply firstn_skipn.
        * apply Forall_app. split; assumption.
  Qed.

  (* decompress_bulk (compress_bulk strs) = strs *)
  Lemma dec_comp_bulk (strs : list (list N)) :
    Forall bytes_ok strs -> dec_bulk (sym_out t) (comp_bulk (mk_enc t dead) strs) = Ok strs.
  Proof.
    induction 1 as [|s strs Hs _ IH]; [reflexivity|].
    unfold comp_bulk in *. cbn [map dec_bulk].
    destruct (comp_str_spec (length s) (repeat 0 520) s (repeat_length _ _) (le_n _) Hs) as (toks & A1 & A2 & A3).
    rewrite A1. rewrite dec_str_emit by exact A3. rewrite A2. rewrite IH. reflexivity.
  Qed.
End Comp2.

(* ---- from the table bytes *)
Lemma wf_table_WF (tb : list N) : wf_table tb = true ->
  WF (parse_table tb) /\ N.of_nat (length tb) = FSST_SYMBOL_TABLE_SIZE /\ magic_ok tb = true.
Proof.
  unfold wf_table. intro H. repeat (apply andb_true_iff in H as [H ?]).
  apply N.eqb_eq in H. apply N.ltb_lt in H1. repeat split; try assumption.
  apply Forall_forall. intros s Hs. apply wf_sym_P. rewrite forallb_forall in H0. apply H0. exact Hs.
Qed.

Theorem fsst_bulk_roundtrip (tb : list N) (dead : option N) (strs : list (list N)) (out_cap offs_cap : N) :
  wf_table tb = true -> t_switch (parse_table tb) = true ->
  Forall bytes_ok strs ->
  let comp := comp_bulk (mk_enc (parse_table tb) dead) strs in
  total_len comp * 3 <= out_cap -> N.of_nat (length strs) + 1 <= offs_cap ->
  fsst_decompress tb comp out_cap offs_cap = Ok strs.
Proof.
  intros Hwf Hsw Hb comp Hcap Hoffs.
  destruct (wf_table_WF tb Hwf) as (HWF & Hlen & Hmagic).
  unfold fsst_decompress. rewrite Hlen, Hmagic, Hsw. cbn [negb andb].
  change (FSST_SYMBOL_TABLE_SIZE <? 8) with false. rewrite N.eqb_refl. cbn [negb].
  replace (out_cap <? total_len comp * 3) with false by (symmetry; apply N.ltb_ge; exact Hcap).
  assert (Hl : length comp = length strs) by (unfold comp, comp_bulk; apply map_length).
  rewrite Hl. replace (offs_cap <? N.of_nat (length strs) + 1) with false by (symmetry; apply N.ltb_ge; exact Hoffs).
  apply dec_comp_bulk; assumption.
Qed.

(* ------------------------------------------------------------------ 5b. the public functions *)
(* the copy path: a table with the switch off returns its input *)
Lemma copy_table_decompress (tb0 : list N) (strs : list (list N)) (out_cap offs_cap : N) :
  N.of_nat (length tb0) = FSST_SYMBOL_TABLE_SIZE ->
  total_len strs <= out_cap -> N.of_nat (length strs) + 1 <= offs_cap ->
  fsst_decompress (default_header ++ skipn 8 tb0) strs out_cap offs_cap = Ok strs.
Proof.
  intros Hlen Hcap Hoffs.
  assert (Hl : N.of_nat (length (default_header ++ skipn 8 tb0)) = FSST_SYMBOL_TABLE_SIZE).
  { rewrite app_length, skipn_length. unfold default_header. cbn [length].
    unfold FSST_SYMBOL_TABLE_SIZE in *. lia. }
  unfold fsst_decompress. rewrite Hl. change (FSST_SYMBOL_TABLE_SIZE <? 8) with false. rewrite N.eqb_refl.
  assert (Hm : magic_ok (default_header ++ skipn 8 tb0) = true) by reflexivity.
  rewrite Hm. cbn [negb].
  assert (Hs : t_switch (parse_table (default_header ++ skipn 8 tb0)) = false) by reflexivity.
  rewrite Hs. cbn [negb andb].
  replace (out_cap <? total_len strs) with false by (symmetry; apply N.ltb_ge; exact Hcap).
  replace (offs_cap <? N.of_nat (length strs) + 1) with false by (symmetry; apply N.ltb_ge; exact Hoffs).
  reflexivity.
Qed.

Section Api.
  (* symbol-table construction (build_symbol_table on a random sample) is external: any function of the
     input that, when it succeeds, yields table bytes satisfying wf_table with the switch bit set *)
  Variable build : list (list N) -> option (list N * option N).
  Hypothesis build_wf : forall strs tb dead,
      build strs = Some (tb, dead) -> wf_table tb = true /\ t_switch (parse_table tb) = true.

  Theorem fsst_api_roundtrip (tb0 : list N) (strs : list (list N)) (out_cap offs_cap : N)
          (tb : list N) (comp : list (list N)) :
    Forall bytes_ok strs ->
    fsst_compress (build strs) tb0 strs out_cap offs_cap = Ok (tb, comp) ->
    fsst_decompress tb comp (8 * total_len comp) (N.of_nat (length comp) + 1) = Ok strs.
  Proof.
    intros Hb. unfold fsst_compress.
    destruct (N.eqb_spec (N.of_nat (length tb0)) FSST_SYMBOL_TABLE_SIZE) as [Hlen|_]; cbn [negb]; [|discriminate].
    destruct (total_len strs <? FSST_LEAST_INPUT_SIZE).
    - intro E. inversion E; subst. apply copy_table_decompress; [exact Hlen | lia | lia].
    - destruct (out_cap <? total_len strs); [discriminate|].
      destruct (offs_cap <? N.of_nat (length strs) + 1); [discriminate|].
      destruct (build strs) as [[tb' dead]|] eqn:B; [|discriminate].
      intro E. inversion E; subst. destruct (build_wf _ _ _ B) as [Hwf Hsw].
      assert (Hl : length (comp_bulk (mk_enc (parse_table tb) dead) strs) = length strs) by apply map_length.
      apply fsst_bulk_roundtrip; try assumption; [lia | rewrite Hl; lia].
  Qed.

  Theorem fsst_compress_no_panic (tb0 : list N) (strs : list (list N)) (out_cap offs_cap : N) :
    fsst_compress (build strs) tb0 strs out_cap offs_cap <> Panic.
  Proof.
    unfold fsst_compress.
    destruct (negb _); [discriminate|]. destruct (_ <? _); [discriminate|].
    destruct (_ <? _); [discriminate|]. destruct (_ <? _); [discriminate|].
    destruct (build strs) as [[? ?]|]; discriminate.
  Qed.
End Api.

(* ------------------------------------------------------------------ a small concrete table (for the non-vacuity example) *)
(* n_symbols 3, terminator 0, suffix_lim 1, switch on; symbols "ab" (2), "abc" (3), "a" (1) *)
Definition ex_table : list N :=
  [3; 0; 1; 1; 84; 83; 83; 70]
  ++ [97; 98; 0; 0; 0; 0; 0; 0] ++ [97; 98; 99; 0; 0; 0; 0; 0] ++ [97; 0; 0; 0; 0; 0; 0; 0]
  ++ [2; 3; 1] ++ repeat 0 (2312 - 8 - 24 - 3).
