(* C26 - value (flat) codec: transcription of rust/lance-encoding/src/encodings/physical/value.rs
   ValueEncoder::{find_log_vals_per_chunk, chunk_data} (mini-block), the block / per-value
   compressors (identity on the buffer), ValueDecompressor for flat data, and the constant
   decompressor of constant.rs. Definitions only. *)
From LanceV Require Import Common.Base Codec.Model_Bytes.
Local Open Scope N_scope.

(* the doubling loop: while 2*size_bytes < MAX_MINIBLOCK_BYTES && 2*num_vals <= MAX_MINIBLOCK_VALUES *)
Fixpoint flv_loop (fuel : nat) (log size nv : N) : option (N * N) :=
  if (2 * size <? MAX_MINIBLOCK_BYTES) && (2 * nv <=? MAX_MINIBLOCK_VALUES) then
    match fuel with
    | O => None
    | S f => flv_loop f (log + 1) (2 * size) (2 * nv)
    end
  else Some (log, nv).

(* find_log_vals_per_chunk(bytes_per_word, values_per_word) *)
Definition find_log_vals_per_chunk (bytes_per_word values_per_word : N) : option (outcome (N * N)) :=
  let size := 2 * bytes_per_word in
  if negb ((values_per_word =? 1) || (values_per_word =? 8)) then Some Panic      (* unreachable!() *)
  else if negb (size <? MAX_MINIBLOCK_BYTES) then Some Panic                          (* assert! *)
  else
    let '(log0, nv0) := if values_per_word =? 1 then (1, 2) else (3, 8) in
    match flv_loop 16 log0 size nv0 with
    | Some r => Some (Ok r)
    | None => None
    end.

(* the `loop` of chunk_data; [counter] = bytes_counter, [off] = row_offset *)
Fixpoint value_chunks (fuel : nat) (log vpc bpc num_values data_len off counter : N) : option (outcome (list chunk)) :=
  match fuel with
  | O => None
  | S f =>
      if off + vpc <=? num_values then
        match value_chunks f log vpc bpc num_values data_len (off + vpc) (counter + bpc) with
        | Some (Ok cs) => Some (Ok ((([bpc], log) : chunk) :: cs))
        | r => r
        end
      else if off <? num_values then
        if data_len <? counter then Some Panic                      (* u64 underflow *)
        else if 65535 <? data_len - counter then Some Panic         (* u16::try_from(..).unwrap() *)
        else Some (Ok [(([data_len - counter], 0) : chunk)])
      else Some (Ok [])
  end.

(* ValueEncoder::chunk_data on a FixedWidth block: the data buffer is passed through untouched,
   so the model returns the chunk table only. *)
Definition value_chunk_data (bits_per_value num_values data_len : N) : option (outcome (list chunk)) :=
  let '(bpw, vpw) := if bits_per_value mod 8 =? 0 then (bits_per_value / 8, 1) else (bits_per_value, 8) in
  match find_log_vals_per_chunk bpw vpw with
  | Some (Ok (log, vpc)) =>
      let bpc := bpw * (vpc / vpw) in
      if 65535 <? bpc then Some Panic
      else value_chunks (S (N.to_nat (num_values / vpc))) log vpc bpc num_values data_len 0 0
  | Some Err => Some Err
  | Some Panic => Some Panic
  | None => None
  end.

(* ValueDecompressor (flat): the chunk buffer is the decoded block *)
Definition value_decode (bufs : list (list N)) (n : N) : outcome (list N) :=
  match rev bufs with
  | b :: _ => Ok b
  | [] => Panic
  end.

Definition value_decode_page (bufs : list (list N)) (chunks : list chunk) (total : N) : outcome (list N) :=
  outcome_map (@concat N) (decode_chunks value_decode bufs chunks 0 total).

(* constant.rs: a constant block of [n] copies of the scalar *)
Definition constant_expand (scalar : list N) (n : N) : list N := concat (repeat scalar (N.to_nat n)).

(* ---- correspondence checker ---- *)
(* input (bits_per_value, num_values, data_len) ; output chunk table *)
Definition chk_value_chunks (i : N * N * N) (o : outcome (list chunk)) : bool :=
  let '(bits, n, len) := i in
  match value_chunk_data bits n len, o with
  | Some (Ok c), Ok c' => list_eqb chunk_eqb c c'
  | Some Err, Err => true
  | Some Panic, Panic => true
  | _, _ => false
  end.
