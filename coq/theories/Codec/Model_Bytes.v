(* C26 - shared executable definitions for the codec models: little-endian byte strings,
   fixed-size grouping, and the mini-block chunk table with the per-chunk decode glue
   (MiniBlockChunk::num_values, buffer slicing by buffer_sizes).
   Bytes are [N] values < 256; words are [N]. Definitions only. *)
From LanceV Require Import Common.Base.
Local Open Scope N_scope.

(* ---- little endian ---- *)
Fixpoint le_bytes (w : nat) (v : N) : list N :=
  match w with
  | O => []
  | S w' => (v mod 256) :: le_bytes w' (v / 256)
  end.

Fixpoint le_val (bs : list N) : N :=
  match bs with
  | [] => 0
  | b :: r => b + 256 * le_val r
  end.

(* n consecutive groups of w elements *)
Fixpoint groups {A} (w : nat) (n : nat) (l : list A) : list (list A) :=
  match n with
  | O => []
  | S n' => firstn w l :: groups w n' (skipn w l)
  end.

Definition bytes_of_words (w : nat) (ws : list N) : list N := flat_map (le_bytes w) ws.
Definition words_of_bytes (w : nat) (bs : list N) : list N :=
  map le_val (groups w (Nat.div (length bs) w) bs).

Definition nlen {A} (l : list A) : N := N.of_nat (length l).

Definition div_ceil (a b : N) : N := (a + b - 1) / b.

Definition is_pow2 (n : N) : bool := (0 <? n) && (2 ^ N.log2 n =? n).

Definition u16 (x : N) : N := x mod 65536.

Definition nlist_eqb := list_eqb N.eqb.

(* ---- mini-block chunk table ---- *)
Definition MAX_MINIBLOCK_BYTES : N := 8186.
Definition MAX_MINIBLOCK_VALUES : N := 4096.

(* (buffer_sizes, log_num_values) *)
Definition chunk : Type := (list N * N)%type.
Definition chunk_eqb (a b : chunk) : bool := nlist_eqb (fst a) (fst b) && (snd a =? snd b).

(* MiniBlockChunk::num_values *)
Definition chunk_num_values (c : chunk) (prev total : N) : N :=
  if snd c =? 0 then total - prev else 2 ^ snd c.

Fixpoint take_bufs (sizes : list N) (bufs : list (list N)) : list (list N) :=
  match sizes, bufs with
  | s :: ss, b :: bs => firstn (N.to_nat s) b :: take_bufs ss bs
  | _, _ => []
  end.
Fixpoint drop_bufs (sizes : list N) (bufs : list (list N)) : list (list N) :=
  match sizes, bufs with
  | s :: ss, b :: bs => skipn (N.to_nat s) b :: drop_bufs ss bs
  | _, bs => bs
  end.

(* decode every chunk of a page with the chunk decompressor [dec] and collect the outputs *)
Fixpoint decode_chunks {A} (dec : list (list N) -> N -> outcome A)
         (bufs : list (list N)) (chunks : list chunk) (prev total : N) : outcome (list A) :=
  match chunks with
  | [] => Ok []
  | c :: cs =>
      let n := chunk_num_values c prev total in
      match dec (take_bufs (fst c) bufs) n with
      | Ok out =>
          match decode_chunks dec (drop_bufs (fst c) bufs) cs (prev + n) total with
          | Ok outs => Ok (out :: outs)
          | Err => Err
          | Panic => Panic
          end
      | Err => Err
      | Panic => Panic
      end
  end.

(* value counts of the chunks of a page as the reader computes them *)
Fixpoint chunk_counts (chunks : list chunk) (prev total : N) : list N :=
  match chunks with
  | [] => []
  | c :: cs => let n := chunk_num_values c prev total in n :: chunk_counts cs (prev + n) total
  end.

Definition sum_N (l : list N) : N := fold_right N.add 0 l.

(* The documented limits of a chunk table for a page of [total] values:
   counts add up to the page, every chunk has 1..4096 values, every chunk but the last is
   flagged with 1 <= log <= 12 (log = 0 is reserved for "the rest of the page"; the last chunk
   may carry 0 or, when it is full, its power of two), and the buffers of a chunk take at most
   MAX_MINIBLOCK_BYTES bytes. *)
Fixpoint chunks_ok_from (chunks : list chunk) (prev total : N) : bool :=
  match chunks with
  | [] => prev =? total
  | c :: cs =>
      let n := chunk_num_values c prev total in
      (1 <=? n) && (n <=? MAX_MINIBLOCK_VALUES) && (prev + n <=? total)
      && (sum_N (fst c) <=? MAX_MINIBLOCK_BYTES)
      && (match cs with
          | [] => true
          | _ => (1 <=? snd c) && (snd c <=? 12)
          end)
      && chunks_ok_from cs (prev + n) total
  end.
Definition chunks_ok (chunks : list chunk) (total : N) : bool :=
  match chunks with
  | [] => total =? 0
  | _ => chunks_ok_from chunks 0 total
  end.

(* same, without the byte bound (used where the byte bound is a separate statement) *)
Fixpoint chunks_counts_ok_from (chunks : list chunk) (prev total : N) : bool :=
  match chunks with
  | [] => prev =? total
  | c :: cs =>
      let n := chunk_num_values c prev total in
      (1 <=? n) && (n <=? MAX_MINIBLOCK_VALUES) && (prev + n <=? total)
      && (match cs with
          | [] => true
          | _ => (1 <=? snd c) && (snd c <=? 12)
          end)
      && chunks_counts_ok_from cs (prev + n) total
  end.

Definition outcome_map {A B} (f : A -> B) (x : outcome A) : outcome B :=
  match x with Ok a => Ok (f a) | Err => Err | Panic => Panic end.
