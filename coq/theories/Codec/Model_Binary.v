(* C26 - variable-width (binary) codecs: transcription of
   rust/lance-encoding/src/encodings/physical/binary.rs
   (chunk_offsets, search_next_offset_idx, BinaryMiniBlockDecompressor::decompress,
    VariableEncoder as BlockCompressor, BinaryBlockDecompressor::decompress).
   A variable-width block is (offsets, data): offsets has num_values+1 entries starting at 0.
   [bw] = bytes per offset (4 or 8); the chunk alignment equals bw. Definitions only. *)
From LanceV Require Import Common.Base Codec.Model_Bytes.
Local Open Scope N_scope.

Definition AIM_MINICHUNK_SIZE : N := 4096.
Definition PAD_BYTE : N := 72.

Definition off_at (offsets : list N) (i : N) : N := nth (N.to_nat i) offsets 0.

(* the values of a block *)
Fixpoint var_values_from (offsets : list N) (data : list N) : list (list N) :=
  match offsets with
  | a :: ((b :: _) as rest) => firstn (N.to_nat (b - a)) (skipn (N.to_nat a) data) :: var_values_from rest data
  | _ => []
  end.

(* search_next_offset_idx; [len] = offsets.len(); out of fuel = None *)
Fixpoint search_loop (fuel : nat) (bw : N) (offsets : list N) (len last num new : N) : option N :=
  if len <=? last + new then
    let existing := off_at offsets (len - 1) - off_at offsets last in
    let new_size := existing + (len - last) * bw in
    if new_size <=? AIM_MINICHUNK_SIZE then Some (len - 1) else Some (last + num)
  else
    let existing := off_at offsets (last + new) - off_at offsets last in
    let new_size := existing + (new + 1) * bw in
    if new_size <=? AIM_MINICHUNK_SIZE then
      match fuel with
      | O => None
      | S f => search_loop f bw offsets len last new (2 * new)
      end
    else Some (last + num).   (* the last window that fitted (repo commit b9f1526) *)

Definition search_next_offset_idx (bw : N) (offsets : list N) (last : N) : option N :=
  search_loop 64 bw offsets (nlen offsets) last 1 2.

Definition next_multiple_of (x a : N) : N := div_ceil x a * a.

(* one chunk: offsets [start..=stop] rebased behind the offset table, the bytes, the padding *)
Definition binary_chunk_bytes (bw : N) (offsets data : list N) (start stop : N) : list N :=
  let nvals := stop - start in
  let bytes_start := (nvals + 1) * bw in
  let s := off_at offsets start in
  let e := off_at offsets stop in
  let offs := map (fun o => o - s + bytes_start)
                  (firstn (N.to_nat (nvals + 1)) (skipn (N.to_nat start) offsets)) in
  let body := flat_map (le_bytes (N.to_nat bw)) offs ++ firstn (N.to_nat (e - s)) (skipn (N.to_nat s) data) in
  body ++ repeat PAD_BYTE (N.to_nat (next_multiple_of (nlen body) bw) - length body).

(* the `loop` of chunk_offsets *)
Fixpoint binary_chunks (fuel : nat) (bw : N) (offsets data : list N) (last : N) : option (list N * list chunk) :=
  match fuel with
  | O => None
  | S f =>
      match search_next_offset_idx bw offsets last with
      | None => None
      | Some this_last =>
          let nvals := this_last - last in
          let chunk_bytes := off_at offsets this_last - off_at offsets last in
          let size := (nvals + 1) * bw + chunk_bytes in
          let padded := next_multiple_of size bw in
          let is_last := this_last =? nlen offsets - 1 in
          (* trailing_zeros of a usize; nvals = 0 gives 64 *)
          let log := if is_last then 0 else
                       (if nvals =? 0 then 64 else N.log2 (N.land nvals (two64 - nvals))) mod 256 in
          let c : chunk := ([u16 padded], log) in
          let bytes := binary_chunk_bytes bw offsets data last this_last in
          if is_last then Some (bytes, [c])
          else match binary_chunks f bw offsets data this_last with
               | Some (b, cs) => Some (bytes ++ b, c :: cs)
               | None => None
               end
      end
  end.

(* BinaryMiniBlockEncoder::compress *)
Definition binary_encode (bw : N) (offsets data : list N) : option (list (list N) * list chunk) :=
  match binary_chunks (S (length offsets)) bw offsets data 0 with
  | Some (b, cs) => Some ([b], cs)
  | None => None
  end.

(* the chunk table describes the buffer: no chunk above MAX_MINIBLOCK_BYTES and the recorded u16
   sizes add up to the buffer (regression check of the defect repaired in repo commit b9f1526,
   where the chunker returned the doubled window that had NOT fitted) *)
Definition binary_table_ok (i : N * list N * list N) : bool :=
  let '(bw, offsets, data) := i in
  match binary_encode bw offsets data with
  | Some ([buf], chunks) =>
      forallb (fun c : chunk => sum_N (fst c) <=? MAX_MINIBLOCK_BYTES) chunks
      && (sum_N (map (fun c : chunk => sum_N (fst c)) chunks) =? nlen buf)
  | _ => false
  end.

(* BinaryMiniBlockDecompressor::decompress of one chunk: (rebased offsets, bytes) *)
Definition binary_decode (bw : N) (bufs : list (list N)) (n : N) : outcome (list N * list N) :=
  match bufs with
  | [b] =>
      if nlen b <? 2 * bw then Panic
      else
        let words := words_of_bytes (N.to_nat bw) b in
        if nlen words <? n + 1 then Panic                          (* slice index out of range *)
        else
          let o0 := off_at words 0 in
          let on := off_at words n in
          let offs := firstn (N.to_nat (n + 1)) words in
          if existsb (fun o => o <? o0) offs then Panic            (* subtraction overflow, debug *)
          else if (on <? o0) || (nlen b <? on) then Panic          (* slice index out of range *)
          else Ok (map (fun o => o - o0) offs,
                   firstn (N.to_nat (on - o0)) (skipn (N.to_nat o0) b))
  | _ => Panic
  end.

Definition binary_decode_values (bw : N) (bufs : list (list N)) (n : N) : outcome (list (list N)) :=
  outcome_map (fun r => var_values_from (fst r) (snd r)) (binary_decode bw bufs n).

Definition binary_decode_page (bw : N) (bufs : list (list N)) (chunks : list chunk) (total : N)
  : outcome (list (list N)) :=
  outcome_map (@concat (list N)) (decode_chunks (binary_decode_values bw) bufs chunks 0 total).

(* ---- block layout: VariableEncoder (BlockCompressor) / BinaryBlockDecompressor ---- *)
(* offsets_bytes = the raw offsets buffer *)
Definition variable_block_encode (bw : N) (offsets_bytes data : list N) : list N :=
  let start := 2 * bw + nlen offsets_bytes in
  le_bytes (N.to_nat bw) (8 * bw) ++ le_bytes (N.to_nat bw) (start mod 2 ^ (8 * bw)) ++ offsets_bytes ++ data.

Definition slice (l : list N) (a b : nat) : list N := firstn (b - a) (skipn a l).

(* returns (bits_per_offset, offsets bytes, data bytes) *)
Definition variable_block_decode (buf : list N) (num_values : N) : outcome (N * list N * list N) :=
  if nlen buf <? 4 then Panic
  else
  let is_old := negb ((nth 1 buf 0 =? 0) && (nth 2 buf 0 =? 0) && (nth 3 buf 0 =? 0)) in
  let hdr : outcome (N * N * N) :=
    if is_old then
      let bits := nth 0 buf 0 in
      if bits =? 32 then
        if nlen buf <? 9 then Panic
        else if negb (le_val (slice buf 1 5) =? num_values mod two32) then Panic     (* debug_assert_eq *)
        else Ok (bits, le_val (slice buf 5 9), 9)
      else if bits =? 64 then
        if nlen buf <? 17 then Panic
        else if negb (le_val (slice buf 1 9) =? num_values) then Panic
        else Ok (bits, le_val (slice buf 9 17), 17)
      else Err
    else
      let bits := le_val (slice buf 0 4) mod 256 in
      if bits =? 32 then
        if nlen buf <? 8 then Panic else Ok (bits, le_val (slice buf 4 8), 8)
      else if bits =? 64 then
        if nlen buf <? 16 then Panic else Ok (bits, le_val (slice buf 8 16), 16)
      else Err in
  match hdr with
  | Ok (bits, start, ostart) =>
      if (start <? ostart) || (nlen buf <? start) then Panic
      else Ok (bits, slice buf (N.to_nat ostart) (N.to_nat start), skipn (N.to_nat start) buf)
  | Err => Err
  | Panic => Panic
  end.

(* ---- correspondence checkers ---- *)
(* input (bw, offsets, data) ; output (buffers, chunk table) *)
Definition chk_binary_encode (i : N * list N * list N) (o : outcome (list (list N) * list chunk)) : bool :=
  let '(bw, offsets, data) := i in
  match binary_encode bw offsets data, o with
  | Some (b, c), Ok (b', c') => list_eqb nlist_eqb b b' && list_eqb chunk_eqb c c'
  | _, _ => false
  end.

(* input (bw, chunk buffer, n) ; output (offsets, data) *)
Definition chk_binary_decode (i : N * list N * N) (o : outcome (list N * list N)) : bool :=
  let '(bw, b, n) := i in
  outcome_eqb (pair_eqb nlist_eqb nlist_eqb) (binary_decode bw [b] n) o.

(* input (bw, offsets bytes, data) ; output buffer *)
Definition chk_variable_block_encode (i : N * list N * list N) (o : list N) : bool :=
  let '(bw, ob, d) := i in nlist_eqb (variable_block_encode bw ob d) o.

(* input (buffer, num_values) ; output (bits, offsets bytes, data) *)
Definition chk_variable_block_decode (i : list N * N) (o : outcome (N * list N * list N)) : bool :=
  outcome_eqb (fun a b => (fst (fst a) =? fst (fst b)) && nlist_eqb (snd (fst a)) (snd (fst b)) && nlist_eqb (snd a) (snd b))
              (variable_block_decode (fst i) (snd i)) o.
