(* C26 - byte-stream-split: transposition round trip, page round trip, chunk limits. *)
From LanceV Require Import Common.Base Codec.Model_Bytes Codec.Proofs_Bytes Codec.Model_Bss.
Local Open Scope N_scope.

(* ---------- indexing a concatenation of equal-length pieces ---------- *)
Lemma nth_flat_map_seq : forall (f : nat -> list N) (k w s a b : nat),
  (forall j, (s <= j < s + w)%nat -> length (f j) = k) ->
  (a < w)%nat -> (b < k)%nat ->
  nth (a * k + b) (flat_map f (seq s w)) 0 = nth b (f (s + a)%nat) 0.
Proof.
  intros f k w. induction w as [|w IH]; intros s a b Hlen Ha Hb; [lia|].
  cbn [seq flat_map].
  destruct a as [|a].
  - rewrite Nat.mul_0_l, Nat.add_0_l, Nat.add_0_r.
    rewrite app_nth1 by (rewrite Hlen by lia; exact Hb). reflexivity.
  - rewrite app_nth2 by (rewrite Hlen by lia; nia).
    rewrite Hlen by lia.
    replace (S a * k + b - k)%nat with (a * k + b)%nat by nia.
    rewrite IH by (try lia; intros; apply Hlen; lia).
    f_equal. f_equal. lia.
Qed.

Lemma nth_map_seq : forall (g : nat -> N) (n j : nat), (j < n)%nat -> nth j (map g (seq 0 n)) 0 = g j.
Proof.
  intros g n j Hj.
  rewrite (nth_indep _ 0 (g 0%nat)) by (rewrite map_length, seq_length; exact Hj).
  rewrite map_nth, seq_nth by exact Hj. reflexivity.
Qed.

Lemma bss_split_length : forall w k src, length (bss_split w k src) = (w * k)%nat.
Proof.
  intros. unfold bss_split. rewrite (flat_map_length_const _ k).
  - rewrite seq_length. reflexivity.
  - intros; rewrite map_length, seq_length; reflexivity.
Qed.

Lemma bss_join_length : forall w n src, length (bss_join w n src) = (n * w)%nat.
Proof.
  intros. unfold bss_join. rewrite (flat_map_length_const _ w).
  - rewrite seq_length. reflexivity.
  - intros; rewrite map_length, seq_length; reflexivity.
Qed.

(* the decoder's gather undoes the encoder's scatter, for every width and every chunk size *)
Lemma bss_join_split : forall (w k : nat) (src : list N),
  length src = (k * w)%nat -> bss_join w k (bss_split w k src) = src.
Proof.
  intros w k src Hlen.
  apply (nth_ext _ _ 0 0).
  - rewrite bss_join_length. symmetry. exact Hlen.
  - intros idx Hidx. rewrite bss_join_length in Hidx.
    assert (Hw : (0 < w)%nat) by (destruct w; [lia | lia]).
    pose proof (Nat.div_mod idx w ltac:(lia)) as Edm.
    pose proof (Nat.mod_upper_bound idx w ltac:(lia)) as Hj.
    set (i := (idx / w)%nat) in *. set (j := (idx mod w)%nat) in *.
    assert (Hi : (i < k)%nat) by nia.
    replace idx with (i * w + j)%nat by lia.
    unfold bss_join.
    rewrite (nth_flat_map_seq _ w k 0 i j) by (try lia; intros; rewrite map_length, seq_length; reflexivity).
    rewrite Nat.add_0_l, nth_map_seq by exact Hj.
    unfold bss_split.
    rewrite (nth_flat_map_seq _ k w 0 j i) by (try lia; intros; rewrite map_length, seq_length; reflexivity).
    rewrite Nat.add_0_l, nth_map_seq by exact Hi.
    reflexivity.
Qed.

(* ---------- the chunk loop ---------- *)
Definition bss_params_ok (w maxc : N) : Prop := (w = 4 /\ maxc = 1024) \/ (w = 8 /\ maxc = 512).

Lemma bss_max_chunk_ok : forall w maxc, bss_max_chunk w = Some maxc -> bss_params_ok w maxc.
Proof.
  intros w maxc H. unfold bss_max_chunk in H.
  destruct (w =? 4) eqn:E4; [inversion H; left; split; lia|].
  destruct (w =? 8) eqn:E8; [inversion H; right; split; lia|]. discriminate.
Qed.

Lemma bss_decode_piece : forall w maxc k (src : list N),
  bss_max_chunk w = Some maxc -> 0 < k -> nlen src = k * w ->
  bss_decode w [bss_split (N.to_nat w) (N.to_nat k) src] k = Ok src.
Proof.
  intros w maxc k src Hm Hk Hlen. unfold bss_decode. rewrite Hm.
  destruct (k =? 0) eqn:E0; [lia|].
  assert (Hl : length src = (N.to_nat k * N.to_nat w)%nat) by (unfold nlen in Hlen; lia).
  unfold nlen. rewrite bss_split_length.
  assert (E : (N.of_nat (N.to_nat w * N.to_nat k) =? k * w) = true) by (apply N.eqb_eq; lia).
  rewrite E. rewrite bss_join_split by exact Hl. reflexivity.
Qed.

Lemma bss_loop_correct : forall fuel w maxc rest remaining prev total,
  bss_max_chunk w = Some maxc ->
  (N.to_nat remaining <= fuel)%nat ->
  nlen rest = remaining * w -> prev + remaining = total ->
  exists buf cs outs,
    bss_loop fuel w maxc rest remaining = Some (buf, cs) /\
    decode_chunks (bss_decode w) [buf] cs prev total = Ok outs /\ concat outs = rest /\
    chunks_ok_from cs prev total = true /\
    nlen buf = remaining * w /\
    sum_N (map (fun c => sum_N (fst c)) cs) = nlen buf.
Proof.
  induction fuel as [|fuel IH]; intros w maxc rest remaining prev total Hm Hf Hlen Htot.
  - assert (remaining = 0) by lia. subst remaining. cbn [bss_loop]. cbn.
    exists [], [], []. repeat split; try reflexivity.
    + destruct rest; [reflexivity | unfold nlen in Hlen; cbn in Hlen; lia].
    + apply N.eqb_eq. lia.
  - cbn [bss_loop]. destruct (remaining =? 0) eqn:E0.
    + assert (remaining = 0) by lia. subst remaining.
      exists [], [], []. cbn. repeat split; try reflexivity.
      * destruct rest; [reflexivity | unfold nlen in Hlen; cbn in Hlen; lia].
      * apply N.eqb_eq. lia.
    + assert (Hrem : 0 < remaining) by lia.
      pose proof (bss_max_chunk_ok _ _ Hm) as Hp.
      remember (N.min remaining maxc) as k eqn:Ek.
      assert (Hk1 : 1 <= k) by (destruct Hp as [[? ?]|[? ?]]; lia).
      assert (Hkr : k <= remaining) by lia.
      assert (Hkm : k <= maxc) by lia.
      assert (Hkw : k * w <= 4096) by (destruct Hp as [[? ?]|[? ?]]; subst; nia).
      set (nb := N.to_nat (k * w)).
      assert (Hkwr : k * w <= remaining * w) by (apply N.mul_le_mono_r; exact Hkr).
      assert (Hnb : (nb <= length rest)%nat) by (unfold nb, nlen in *; lia).
      specialize (IH w maxc (skipn nb rest) (remaining - k) (prev + k) total Hm).
      destruct IH as (buf & cs & outs & Eloop & Edec & Econcat & Eok & Ebuflen & Esum).
      { lia. }
      { unfold nlen in *. rewrite skipn_length. unfold nb. nia. }
      { lia. }
      rewrite Eloop.
      set (piece := bss_split (N.to_nat w) (N.to_nat k) (firstn nb rest)).
      set (log := if k =? remaining then 0 else N.log2 k).
      assert (Hpl : nlen piece = k * w).
      { unfold piece, nlen. rewrite bss_split_length. lia. }
      assert (Hu : u16 (k * w) = k * w) by (apply u16_small; lia).
      assert (Hcnv : chunk_num_values ([u16 (k * w)], log) prev total = k).
      { unfold chunk_num_values, log. cbn [snd].
        destruct (k =? remaining) eqn:Ekr.
        - rewrite N.eqb_refl. assert (k = remaining) by lia. lia.
        - assert (Hkmax : k = maxc) by lia.
          destruct Hp as [[? ?]|[? ?]]; subst maxc; rewrite Hkmax; vm_compute; reflexivity. }
      exists (piece ++ buf), (([u16 (k * w)], log) :: cs), (firstn nb rest :: outs).
      split; [reflexivity|].
      split.
      { cbn [decode_chunks fst]. rewrite Hcnv. rewrite Hu.
        destruct (take_bufs_concat1 (k * w) piece buf Hpl) as [Et Ed]. rewrite Et, Ed.
        unfold piece. rewrite (bss_decode_piece w maxc k (firstn nb rest) Hm) by
          (try lia; unfold nlen; rewrite firstn_length; unfold nb in *; lia).
        fold piece. rewrite Edec. reflexivity. }
      split.
      { cbn [concat]. rewrite Econcat. apply firstn_skipn. }
      split.
      { cbn [chunks_ok_from fst snd]. rewrite Hcnv. cbn [sum_N fold_right]. rewrite Hu.
        unfold MAX_MINIBLOCK_VALUES, MAX_MINIBLOCK_BYTES.
        rewrite Eok.
        assert (Hk4096 : k <= 4096) by (destruct Hp as [[? ?]|[? ?]]; subst; lia).
        assert (Hlogc : match cs with [] => true | _ => (1 <=? log) && (log <=? 12) end = true).
        { destruct cs as [|c0 cs']; [reflexivity|].
          (* a following chunk exists, so k < remaining and k = maxc *)
          assert (Hne : k <> remaining).
          { intro Eeq. rewrite Eeq, N.sub_diag in Eloop.
            destruct fuel; cbn [bss_loop] in Eloop; rewrite N.eqb_refl in Eloop; inversion Eloop. }
          unfold log. destruct (k =? remaining) eqn:Ekr; [lia|].
          assert (Hkmax : k = maxc) by lia.
          destruct Hp as [[? ?]|[? ?]]; subst maxc; rewrite Hkmax; vm_compute; reflexivity. }
        rewrite Hlogc.
        repeat (apply andb_true_iff; split); try reflexivity; try (apply N.leb_le; lia). }
      split.
      { rewrite nlen_app, Hpl, Ebuflen. nia. }
      { cbn [map fst]. rewrite nlen_app, Hpl, Hu. rewrite <- Esum.
        unfold sum_N. cbn [fold_right]. lia. }
Qed.

(* ---------- page level statements ---------- *)
Theorem bss_roundtrip : forall (w : N) (bytes : list N) (n : N),
  (w = 4 \/ w = 8) -> nlen bytes = n * w ->
  exists bufs chunks,
    bss_encode w bytes n = Some (Ok (bufs, chunks)) /\
    bss_decode_page w bufs chunks n = Ok bytes /\
    chunks_ok chunks n = true.
Proof.
  intros w bytes n Hw Hlen.
  assert (Hm : exists maxc, bss_max_chunk w = Some maxc).
  { destruct Hw; subst; [exists 1024 | exists 512]; reflexivity. }
  destruct Hm as [maxc Hm]. unfold bss_encode. rewrite Hm.
  destruct (n =? 0) eqn:E0.
  - assert (n = 0) by lia. subst n.
    exists [], []. split; [reflexivity|]. split; [|reflexivity].
    destruct bytes; [reflexivity | unfold nlen in Hlen; cbn in Hlen; lia].
  - destruct (bss_loop_correct (S (N.to_nat n)) w maxc bytes n 0 n Hm) as (buf & cs & outs & El & Ed & Ec & Eok & _ & _);
      try lia; try assumption.
    rewrite El. exists [buf], cs. split; [reflexivity|].
    split.
    + unfold bss_decode_page. rewrite Ed. cbn [outcome_map]. rewrite Ec. reflexivity.
    + unfold chunks_ok. destruct cs as [|c cs'].
      * cbn in Eok. lia.
      * exact Eok.
Qed.
