(* C26 - lemmas about the shared byte-level definitions (little endian, grouping, chunk glue). *)
From LanceV Require Import Common.Base Codec.Model_Bytes.
Local Open Scope N_scope.

(* ---------- little endian ---------- *)
Lemma le_bytes_length : forall w v, length (le_bytes w v) = w.
Proof. induction w as [|w IH]; intro v; cbn [le_bytes length]; [reflexivity | now rewrite IH]. Qed.

Lemma le_bytes_lt256 : forall w v b, In b (le_bytes w v) -> b < 256.
Proof.
  induction w as [|w IH]; intros v b Hin; cbn [le_bytes] in Hin; [contradiction|].
  destruct Hin as [<- | Hin]; [apply N.mod_lt; lia | eapply IH; eassumption].
Qed.

Lemma le_val_le_bytes : forall w v, v < 256 ^ N.of_nat w -> le_val (le_bytes w v) = v.
Proof.
  induction w as [|w IH]; intros v Hv.
  - cbn in Hv. cbn [le_bytes le_val]. lia.
  - cbn [le_bytes le_val]. rewrite IH.
    + pose proof (N.div_mod v 256). lia.
    + rewrite Nat2N.inj_succ, N.pow_succ_r' in Hv.
      apply N.div_lt_upper_bound; lia.
Qed.

Lemma le_bytes_le_val : forall bs, Forall (fun b => b < 256) bs ->
  le_bytes (length bs) (le_val bs) = bs.
Proof.
  induction bs as [|b r IH]; intro H; [reflexivity|].
  inversion H as [|? ? Hb Hr]; subst. cbn [length le_bytes le_val].
  assert (E1 : (b + 256 * le_val r) mod 256 = b).
  { replace (b + 256 * le_val r) with (b + le_val r * 256) by lia.
    rewrite N.mod_add by lia. apply N.mod_small; exact Hb. }
  assert (E2 : (b + 256 * le_val r) / 256 = le_val r).
  { replace (b + 256 * le_val r) with (b + le_val r * 256) by lia.
    rewrite N.div_add by lia. rewrite (N.div_small b 256) by exact Hb. lia. }
  rewrite E1, E2, IH by assumption. reflexivity.
Qed.

Lemma le_val_lt : forall bs, Forall (fun b => b < 256) bs -> le_val bs < 256 ^ N.of_nat (length bs).
Proof.
  induction bs as [|b r IH]; intro H; cbn [le_val length].
  - cbn. lia.
  - inversion H as [|? ? Hb Hr]; subst. specialize (IH Hr).
    rewrite Nat2N.inj_succ, N.pow_succ_r'. lia.
Qed.

(* ---------- lists ---------- *)
Lemma nlen_app {A} (a b : list A) : nlen (a ++ b) = nlen a + nlen b.
Proof. unfold nlen. rewrite app_length. lia. Qed.

Lemma flat_map_length_const {A B} (f : A -> list B) (k : nat) (l : list A) :
  (forall a, In a l -> length (f a) = k) -> length (flat_map f l) = (length l * k)%nat.
Proof.
  induction l as [|a l IH]; intro H; cbn [flat_map length]; [reflexivity|].
  rewrite app_length, H by (left; reflexivity). rewrite IH by (intros; apply H; right; assumption). lia.
Qed.

Lemma firstn_flat_map_const {A B} (f : A -> list B) (k : nat) (a : A) (l : list A) :
  length (f a) = k -> firstn k (flat_map f (a :: l)) = f a.
Proof. intro H. cbn [flat_map]. rewrite firstn_app, H, Nat.sub_diag, firstn_O, app_nil_r. rewrite <- H. apply firstn_all. Qed.

Lemma skipn_flat_map_const {A B} (f : A -> list B) (k : nat) (a : A) (l : list A) :
  length (f a) = k -> skipn k (flat_map f (a :: l)) = flat_map f l.
Proof. intro H. cbn [flat_map]. rewrite skipn_app, H, Nat.sub_diag, skipn_O. rewrite <- H, skipn_all. reflexivity. Qed.

(* grouping the bytes of words gives the words back *)
Lemma groups_bytes_of_words : forall (w : nat) (ws : list N),
  groups w (length ws) (bytes_of_words w ws) = map (le_bytes w) ws.
Proof.
  intros w ws. induction ws as [|x r IH]; [reflexivity|].
  cbn [length groups map]. unfold bytes_of_words in *.
  rewrite firstn_flat_map_const, skipn_flat_map_const by apply le_bytes_length.
  rewrite IH. reflexivity.
Qed.

Lemma bytes_of_words_length : forall w ws, length (bytes_of_words w ws) = (length ws * w)%nat.
Proof. intros. unfold bytes_of_words. apply flat_map_length_const. intros; apply le_bytes_length. Qed.

Lemma words_of_bytes_of_words : forall (w : nat) (ws : list N), (0 < w)%nat ->
  Forall (fun v => v < 256 ^ N.of_nat w) ws ->
  words_of_bytes w (bytes_of_words w ws) = ws.
Proof.
  intros w ws Hw Hall. unfold words_of_bytes.
  rewrite bytes_of_words_length, Nat.div_mul by lia.
  rewrite groups_bytes_of_words, map_map.
  induction Hall as [|x r Hx Hr IH]; [reflexivity|].
  cbn [map]. rewrite le_val_le_bytes by exact Hx. now rewrite IH.
Qed.

(* ---------- N helpers ---------- *)
Lemma is_pow2_spec : forall n, is_pow2 n = true -> 2 ^ N.log2 n = n /\ 0 < n.
Proof. intros n H. unfold is_pow2 in H. apply andb_true_iff in H as [H1 H2]. split; lia. Qed.

Lemma pow2_is_pow2 : forall k, is_pow2 (2 ^ k) = true.
Proof.
  intro k. unfold is_pow2. rewrite N.log2_pow2 by lia.
  assert (0 < 2 ^ k) by (apply N.neq_0_lt_0, N.pow_nonzero; lia).
  apply andb_true_iff; split; lia.
Qed.

Lemma u16_small : forall x, x < 65536 -> u16 x = x.
Proof. intros. unfold u16. apply N.mod_small; assumption. Qed.

Lemma div_ceil_le_mul : forall a b, 0 < b -> a <= div_ceil a b * b.
Proof.
  intros a b Hb. unfold div_ceil.
  pose proof (N.div_mod (a + b - 1) b) as E. pose proof (N.mod_lt (a + b - 1) b) as L.
  rewrite (N.mul_comm ((a + b - 1) / b) b). nia.
Qed.

Lemma div_ceil_exact : forall a b, 0 < b -> div_ceil (a * b) b = a.
Proof.
  intros a b Hb. unfold div_ceil.
  replace (a * b + b - 1) with (b - 1 + a * b) by lia.
  rewrite N.div_add by lia. rewrite N.div_small by lia. lia.
Qed.

(* ---------- decode glue ---------- *)
Lemma take_bufs_concat1 : forall (s : N) (a rest : list N),
  nlen a = s -> take_bufs [s] [a ++ rest] = [a] /\ drop_bufs [s] [a ++ rest] = [rest].
Proof.
  intros s a rest H. unfold nlen in H. subst s. cbn [take_bufs drop_bufs]. rewrite Nat2N.id.
  rewrite firstn_app, Nat.sub_diag, firstn_O, app_nil_r, firstn_all.
  rewrite skipn_app, Nat.sub_diag, skipn_O, skipn_all. split; reflexivity.
Qed.

Lemma sum_N_app : forall a b, sum_N (a ++ b) = sum_N a + sum_N b.
Proof.
  unfold sum_N. induction a as [|x a IH]; intro b.
  - cbn [app fold_right]. lia.
  - cbn [app fold_right]. rewrite IH. lia.
Qed.
