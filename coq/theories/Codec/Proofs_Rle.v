(* C26 - RLE mini-block codec: decoder semantics, encoder invariant, progress, page round trip,
   chunk limits (DESIGN.md Appendix A, "RLE mini-block chunks"). *)
From LanceV Require Import Common.Base Codec.Model_Bytes Codec.Proofs_Bytes Codec.Model_Rle.
Local Open Scope N_scope.

(* ---------- the meaning of a run list ---------- *)
Definition expand (runs : list run) : list N :=
  flat_map (fun r : run => repeat (fst r) (N.to_nat (snd r))) runs.

Definition runs_wf (runs : list run) : Prop := Forall (fun r : run => 1 <= snd r /\ snd r <= 255) runs.

Lemma expand_app : forall a b, expand (a ++ b) = expand a ++ expand b.
Proof. intros. unfold expand. apply flat_map_app. Qed.

Lemma runs_wf_app : forall a b, runs_wf a -> runs_wf b -> runs_wf (a ++ b).
Proof. intros. unfold runs_wf in *. apply Forall_app; split; assumption. Qed.

Lemma runs_wf_firstn : forall n a, runs_wf a -> runs_wf (firstn n a).
Proof.
  intros n a H. unfold runs_wf in *. rewrite Forall_forall in *. intros x Hx. apply H.
  rewrite <- (firstn_skipn n a). apply in_or_app; left; exact Hx.
Qed.

Lemma nlen_expand_ge : forall runs, runs_wf runs -> nlen runs <= nlen (expand runs).
Proof.
  induction runs as [|[v l] rs IH]; intro H; [cbn; lia|].
  inversion H as [|? ? [H1 H2] Hr]; subst. cbn [snd] in *. specialize (IH Hr).
  unfold nlen in *. cbn [expand flat_map length fst snd]. fold (expand rs).
  rewrite app_length, repeat_length. lia.
Qed.

Lemma repeat_app_N : forall (v : N) (a b : nat), repeat v (a + b) = repeat v a ++ repeat v b.
Proof. intros. apply repeat_app. Qed.

Lemma expand_repeat255 : forall v k, expand (repeat (v, 255) k) = repeat v (k * 255).
Proof.
  intros v k. induction k as [|k IH]; [reflexivity|].
  cbn [repeat expand flat_map fst snd]. fold (expand (repeat (v, 255) k)). rewrite IH.
  replace (S k * 255)%nat with (255 + k * 255)%nat by lia. rewrite repeat_app. reflexivity.
Qed.

Lemma add_run_expand : forall v len, expand (add_run v len) = repeat v (N.to_nat len).
Proof.
  intros v len. unfold add_run. rewrite expand_app, expand_repeat255.
  pose proof (N.div_mod len 255 ltac:(lia)) as E. pose proof (N.mod_lt len 255 ltac:(lia)) as L.
  destruct (0 <? len mod 255) eqn:Er.
  - cbn [expand flat_map fst snd]. rewrite app_nil_r, <- repeat_app. f_equal. lia.
  - cbn [expand flat_map]. rewrite app_nil_r. f_equal. apply N.ltb_ge in Er. lia.
Qed.

Lemma add_run_wf : forall v len, runs_wf (add_run v len).
Proof.
  intros v len. unfold add_run. apply runs_wf_app.
  - unfold runs_wf. rewrite Forall_forall. intros x Hx. apply repeat_spec in Hx. subst x. cbn. lia.
  - destruct (0 <? len mod 255) eqn:Er; [|constructor].
    constructor; [|constructor]. cbn [snd]. apply N.ltb_lt in Er.
    pose proof (N.mod_lt len 255 ltac:(lia)). lia.
Qed.

Lemma add_run_nlen : forall v len, nlen (add_run v len) = div_ceil len 255.
Proof.
  intros v len. unfold add_run, nlen, div_ceil. rewrite app_length, repeat_length.
  pose proof (N.div_mod len 255 ltac:(lia)) as E. pose proof (N.mod_lt len 255 ltac:(lia)) as L.
  destruct (0 <? len mod 255) eqn:Er.
  - apply N.ltb_lt in Er. cbn [length].
    replace (len + 255 - 1) with ((len mod 255 + 254) + (len / 255) * 255) by lia.
    rewrite N.div_add by lia.
    assert (E1 : (len mod 255 + 254) / 255 = 1).
    { symmetry. apply (N.div_unique _ 255 1 (len mod 255 - 1)); lia. }
    rewrite E1. lia.
  - apply N.ltb_ge in Er. cbn [length].
    replace (len + 255 - 1) with (254 + (len / 255) * 255) by lia.
    rewrite N.div_add by lia. rewrite (N.div_small 254 255) by lia. lia.
Qed.

Lemma add_run_bytes_eq : forall ts len, add_run_bytes ts len = div_ceil len 255 * (ts + 1).
Proof.
  intros ts len. rewrite <- (add_run_nlen 0 len). unfold add_run_bytes, add_run, nlen.
  rewrite app_length, repeat_length. destruct (0 <? len mod 255); cbn [length]; lia.
Qed.

Lemma div_ceil_255_le : forall len, div_ceil len 255 <= len.
Proof.
  intro len. unfold div_ceil. destruct (N.eq_dec len 0) as [->|Hn]; [vm_compute; discriminate|].
  apply N.div_le_upper_bound; lia.
Qed.

Lemma nlen_expand_cons : forall (r : run) (rs : list run),
  nlen (expand (r :: rs)) = snd r + nlen (expand rs).
Proof.
  intros [v len] rs. unfold nlen. cbn [expand flat_map fst snd]. fold (expand rs).
  rewrite app_length, repeat_length. lia.
Qed.

(* ---------- decoder semantics: decode chunk n = firstn n (expand runs) ---------- *)
Lemma rle_expand_spec : forall runs d n, d <= n -> n <= d + nlen (expand runs) ->
  rle_expand runs d n = firstn (N.to_nat (n - d)) (expand runs).
Proof.
  induction runs as [|[v len] rs IH]; intros d n Hd Hn.
  - cbn. rewrite firstn_nil. reflexivity.
  - cbn [rle_expand expand flat_map fst snd]. fold (expand rs).
    rewrite nlen_expand_cons in Hn. cbn [snd] in Hn.
    destruct (n <? d + len) eqn:E.
    + apply N.ltb_lt in E.
      rewrite firstn_app, repeat_length.
      replace (N.to_nat (n - d) - N.to_nat len)%nat with 0%nat by lia.
      rewrite firstn_O, app_nil_r.
      replace (N.to_nat len) with (N.to_nat (n - d) + (N.to_nat len - N.to_nat (n - d)))%nat by lia.
      rewrite repeat_app, firstn_app, repeat_length, Nat.sub_diag, firstn_O, app_nil_r.
      rewrite firstn_all2 by (rewrite repeat_length; lia). reflexivity.
    + apply N.ltb_ge in E.
      rewrite IH by lia.
      rewrite firstn_app, repeat_length.
      rewrite (@firstn_all2 N (N.to_nat (n - d)) (repeat v (N.to_nat len))) by (rewrite repeat_length; lia).
      f_equal. f_equal. lia.
Qed.

Definition ts_ok (ts : N) : Prop := ts = 1 \/ ts = 2 \/ ts = 4 \/ ts = 8.
Definition vals_ok (ts : N) (vals : list N) : Prop := Forall (fun v => v < 256 ^ ts) vals.

Lemma vals_ok_expand_fst : forall ts (runs : list run), vals_ok ts (map fst runs) ->
  Forall (fun v => v < 256 ^ N.of_nat (N.to_nat ts)) (map fst runs).
Proof. intros. rewrite N2Nat.id. exact H. Qed.

Lemma combine_fst_snd : forall (rr : list run), combine (map fst rr) (map snd rr) = rr.
Proof. induction rr as [|[a b] r IH]; [reflexivity | cbn; now rewrite IH]. Qed.

Lemma rle_buffers_values : forall ts rr,
  flat_map (fun r : run => le_bytes (N.to_nat ts) (fst r)) rr = bytes_of_words (N.to_nat ts) (map fst rr).
Proof. intros. unfold bytes_of_words. rewrite flat_map_concat_map, flat_map_concat_map, map_map. reflexivity. Qed.

(* one chunk: the decompressor returns the first p values of the chunk's runs *)
Lemma rle_decode_chunk : forall ts rr p,
  ts_ok ts -> rr <> [] -> vals_ok ts (map fst rr) -> 1 <= p -> p <= nlen (expand rr) ->
  rle_decode ts (rle_buffers ts rr) p = Ok (bytes_of_words (N.to_nat ts) (firstn (N.to_nat p) (expand rr))).
Proof.
  intros ts rr p Hts Hne Hv Hp1 Hp.
  assert (Hts0 : (0 < N.to_nat ts)%nat) by (destruct Hts as [-> | [-> | [-> | ->]]]; cbn; lia).
  unfold rle_decode, rle_buffers. destruct (p =? 0) eqn:E0; [lia|].
  rewrite rle_buffers_values.
  assert (Hvl : length (bytes_of_words (N.to_nat ts) (map fst rr)) = (length rr * N.to_nat ts)%nat)
    by (rewrite bytes_of_words_length, map_length; reflexivity).
  destruct (bytes_of_words (N.to_nat ts) (map fst rr)) as [|b0 bt] eqn:Ev.
  { destruct rr; [congruence | cbn [length] in Hvl; nia]. }
  destruct (map snd rr) as [|l0 lt] eqn:El.
  { destruct rr; [congruence | discriminate]. }
  rewrite <- Ev, <- El. rewrite <- Ev in Hvl.
  assert (E1 : negb (N.of_nat (length (bytes_of_words (N.to_nat ts) (map fst rr))) mod ts =? 0) = false).
  { rewrite Hvl. apply negb_false_iff, N.eqb_eq.
    rewrite Nat2N.inj_mul, N2Nat.id. apply N.mod_mul. lia. }
  rewrite E1.
  assert (E2 : negb (N.of_nat (length (bytes_of_words (N.to_nat ts) (map fst rr))) / ts =? nlen (map snd rr)) = false).
  { rewrite Hvl. apply negb_false_iff, N.eqb_eq.
    rewrite Nat2N.inj_mul, N2Nat.id, N.div_mul by lia. unfold nlen. rewrite map_length. reflexivity. }
  rewrite E2.
  rewrite words_of_bytes_of_words by (try exact Hts0; apply vals_ok_expand_fst; exact Hv).
  rewrite combine_fst_snd.
  rewrite rle_expand_spec by lia. rewrite N.sub_0_r.
  assert (E3 : (nlen (firstn (N.to_nat p) (expand rr)) =? p) = true).
  { apply N.eqb_eq. unfold nlen in *. rewrite firstn_length. lia. }
  rewrite E3. reflexivity.
Qed.

(* ---------- small list facts ---------- *)
Lemma firstn_app_le : forall (A : Type) (a b : list A) (c : nat),
  (c <= length a)%nat -> firstn c (a ++ b) = firstn c a.
Proof.
  intros A a b c H. rewrite firstn_app.
  replace (c - length a)%nat with 0%nat by lia. rewrite firstn_O, app_nil_r. reflexivity.
Qed.

Lemma expand_firstn_prefix : forall (nr : nat) (runs : list run),
  expand runs = expand (firstn nr runs) ++ expand (skipn nr runs).
Proof. intros. rewrite <- expand_app, firstn_skipn. reflexivity. Qed.

Lemma nlen_firstn_le : forall (A : Type) (n : nat) (l : list A), nlen (firstn n l) <= nlen l.
Proof. intros. unfold nlen. rewrite firstn_length. lia. Qed.

Lemma div_ceil_255_small : forall cl, cl <= 2048 -> div_ceil cl 255 <= 9.
Proof.
  intros cl H. unfold div_ceil.
  assert (L : (cl + 255 - 1) / 255 < 10) by (apply N.div_lt_upper_bound; lia). lia.
Qed.

(* ---------- the checkpoints ---------- *)
Lemma checkpoints_cases : forall ts, ts_ok ts ->
  rle_checkpoints ts = [256; 512; 1024; 2048; 4096] \/
  rle_checkpoints ts = [128; 256; 512; 1024; 2048; 4096] \/
  rle_checkpoints ts = [64; 128; 256; 512; 1024; 2048; 4096].
Proof.
  intros ts Hts. destruct Hts as [-> | [-> | [-> | ->]]];
    [left | right; left | right; right | right; right]; reflexivity.
Qed.

Lemma checkpoints_in : forall ts c, ts_ok ts -> In c (rle_checkpoints ts) ->
  is_pow2 c = true /\ 64 <= c /\ c <= 4096.
Proof.
  intros ts c Hts Hin.
  destruct (checkpoints_cases ts Hts) as [E | [E | E]]; rewrite E in Hin; cbn [In] in Hin;
    repeat (destruct Hin as [<- | Hin]; [repeat split; try lia; vm_compute; reflexivity|]); contradiction.
Qed.

Lemma checkpoints_256 : forall ts, ts_ok ts -> In 256 (rle_checkpoints ts).
Proof.
  intros ts Hts. destruct (checkpoints_cases ts Hts) as [E | [E | E]]; rewrite E; cbn [In]; tauto.
Qed.

Lemma checkpoints_head : forall ts rem c0 tl, ts_ok ts ->
  filter (fun p => p <=? rem) (rle_checkpoints ts) = c0 :: tl -> c0 <= 256.
Proof.
  intros ts rem c0 tl Hts H.
  destruct (checkpoints_cases ts Hts) as [E | [E | E]]; rewrite E in H; cbn [filter] in H.
  all: repeat match type of H with
       | context [if ?b <=? ?r then _ else _] =>
           let E := fresh "E" in destruct (b <=? r) eqn:E;
           [ inversion H; subst; lia
           | apply N.leb_gt in E ]
       end.
  all: try discriminate.
Qed.

Section Chunk.
  Variable ts : N.
  Hypothesis Hts : ts_ok ts.
  Variable remaining : N.
  Variable typed : list N.
  Hypothesis Htyped : nlen typed = N.min remaining 2048.

  Let cps := filter (fun p => p <=? remaining) (rle_checkpoints ts).

  Lemma ts_le8 : 1 <= ts /\ ts <= 8.
  Proof. destruct Hts as [-> | [-> | [-> | ->]]]; lia. Qed.

  Lemma cps_in : forall c, In c cps -> is_pow2 c = true /\ 64 <= c /\ c <= 4096 /\ c <= remaining.
  Proof.
    intros c Hin. unfold cps in Hin. apply filter_In in Hin as [Hin Hp].
    destruct (checkpoints_in ts c Hts Hin) as (H1 & H2 & H3). apply N.leb_le in Hp. tauto.
  Qed.

  Lemma cps_nil : cps = [] -> remaining < 256.
  Proof.
    intro E. destruct (N.lt_ge_cases remaining 256) as [|Hge]; [assumption|].
    assert (Hin : In 256 cps).
    { unfold cps. apply filter_In. split; [apply checkpoints_256; exact Hts | apply N.leb_le; exact Hge]. }
    rewrite E in Hin. contradiction.
  Qed.

  Definition Inv0 (s : rst) (consumed : list N) : Prop :=
    consumed = expand (r_runs s) ++ repeat (r_cv s) (N.to_nat (r_cl s)) /\
    1 <= r_cl s /\
    r_total s = nlen (expand (r_runs s)) /\
    r_used s = nlen (r_runs s) * (ts + 1) /\
    r_used s <= MAX_MINIBLOCK_BYTES /\
    runs_wf (r_runs s) /\
    match r_last s with
    | Some (nr, c) => (nr <= length (r_runs s))%nat /\ In c cps /\ c <= nlen (expand (firstn nr (r_runs s)))
    | None => r_cpi s = 0%nat
    end.

  Definition Inv8 (s : rst) : Prop :=
    r_cpi s = 0%nat -> cps = [] \/ exists c0 tl, cps = c0 :: tl /\ r_total s < c0.

  Definition Inv (s : rst) (consumed : list N) : Prop := Inv0 s consumed /\ Inv8 s.

  Lemma checkpoint_inv : forall s consumed, Inv0 s consumed -> Inv (rle_checkpoint cps s) consumed.
  Proof.
    intros s consumed (I1 & I2 & I3 & I4 & I5 & I6 & I7).
    unfold rle_checkpoint.
    destruct (nth_error cps (r_cpi s)) as [c|] eqn:En.
    - destruct (c <=? r_total s) eqn:Ec.
      + apply N.leb_le in Ec. split.
        * unfold Inv0. cbn [r_runs r_cv r_cl r_total r_used r_last r_cpi].
          repeat split; try assumption.
          -- lia.
          -- eapply nth_error_In; eassumption.
          -- rewrite firstn_all. lia.
        * unfold Inv8. cbn [r_cpi]. intro H. discriminate.
      + apply N.leb_gt in Ec. split; [repeat split; assumption|].
        unfold Inv8. intro H0. rewrite H0 in En.
        destruct cps as [|c0 tl] eqn:Ecps; [left; reflexivity|].
        cbn in En. inversion En; subst c0. right. exists c, tl. split; [reflexivity | exact Ec].
    - split; [repeat split; assumption|].
      unfold Inv8. intro H0. rewrite H0 in En.
      destruct cps as [|c0 tl]; [left; reflexivity | cbn in En; discriminate].
  Qed.

  Lemma inv_consumed_len : forall s consumed, Inv0 s consumed -> nlen consumed = r_total s + r_cl s.
  Proof.
    intros s consumed (I1 & I2 & I3 & _). rewrite I1, nlen_app, <- I3.
    unfold nlen at 1. rewrite repeat_length. lia.
  Qed.

  (* the byte budget cannot be exhausted before the first checkpoint is recorded *)
  Lemma no_overflow_without_checkpoint : forall s consumed,
    Inv s consumed -> nlen consumed <= nlen typed -> r_last s = None ->
    r_used s + div_ceil (r_cl s) 255 * (ts + 1) <= MAX_MINIBLOCK_BYTES.
  Proof.
    intros s consumed [I0 I8] Hc Hnone.
    pose proof (inv_consumed_len s consumed I0) as Hlen.
    destruct I0 as (I1 & I2 & I3 & I4 & I5 & I6 & I7).
    rewrite Hnone in I7. specialize (I8 I7).
    pose proof ts_le8 as [Ht1 Ht8].
    pose proof (nlen_expand_ge _ I6) as Hruns. rewrite <- I3 in Hruns.
    assert (Hcl : r_cl s <= 2048) by lia.
    pose proof (div_ceil_255_small _ Hcl) as Hd.
    assert (Htot : r_total s <= 255).
    { destruct I8 as [Enil | (c0 & tl & Ecps & Hlt)].
      - pose proof (cps_nil Enil). lia.
      - pose proof (checkpoints_head ts remaining c0 tl Hts Ecps). lia. }
    unfold MAX_MINIBLOCK_BYTES. rewrite I4. nia.
  Qed.

  Definition ChunkOK (rr : list run) (p : N) : Prop :=
    runs_wf rr /\ nlen rr * (ts + 1) <= MAX_MINIBLOCK_BYTES /\ 1 <= p /\ p <= nlen (expand rr) /\
    firstn (N.to_nat p) (expand rr) = firstn (N.to_nat p) typed /\ p <= nlen typed /\
    (exists tail, typed = expand rr ++ tail).

  (* rolling back to a recorded checkpoint yields a valid chunk *)
  Lemma rollback_ok : forall s consumed rest nr c,
    Inv0 s consumed -> typed = consumed ++ rest -> r_last s = Some (nr, c) ->
    ChunkOK (firstn nr (r_runs s)) c /\ In c cps /\ c <= r_total s.
  Proof.
    intros s consumed rest nr c (I1 & I2 & I3 & I4 & I5 & I6 & I7) Ety Hl.
    rewrite Hl in I7. destruct I7 as (Hnr & Hin & Hc).
    destruct (cps_in c Hin) as (Hp2 & H64 & H4096 & Hrem).
    assert (Hpre : nlen (expand (firstn nr (r_runs s))) <= r_total s).
    { rewrite I3, (expand_firstn_prefix nr (r_runs s)), nlen_app. lia. }
    assert (Htyp : typed = expand (firstn nr (r_runs s)) ++ (expand (skipn nr (r_runs s)) ++ repeat (r_cv s) (N.to_nat (r_cl s)) ++ rest)).
    { rewrite Ety, I1, (expand_firstn_prefix nr (r_runs s)), <- !app_assoc. reflexivity. }
    split; [|split; [exact Hin | lia]].
    unfold ChunkOK. repeat split.
    - apply runs_wf_firstn; exact I6.
    - pose proof (nlen_firstn_le run nr (r_runs s)). nia.
    - lia.
    - exact Hc.
    - rewrite Htyp. symmetry. apply firstn_app_le. unfold nlen in Hc. lia.
    - rewrite Htyp, nlen_app. lia.
    - eexists. exact Htyp.
  Qed.

  Lemma rle_loop_spec : forall rest s consumed,
    Inv s consumed -> typed = consumed ++ rest ->
    match rle_loop ts cps rest s with
    | inl s' => Inv s' typed
    | inr (rr, c) => ChunkOK rr c /\ In c cps /\ c < nlen typed
    end.
  Proof.
    induction rest as [|v rest IH]; intros s consumed HI Ety.
    - cbn [rle_loop]. rewrite app_nil_r in Ety. subst consumed. exact HI.
    - cbn [rle_loop].
      assert (Hclen : nlen consumed + 1 <= nlen typed).
      { rewrite Ety, nlen_app. unfold nlen. cbn [length]. lia. }
      assert (Ety' : typed = (consumed ++ [v]) ++ rest) by (rewrite <- app_assoc; exact Ety).
      destruct HI as [I0 I8]. pose proof I0 as (I1 & I2 & I3 & I4 & I5 & I6 & I7).
      destruct (v =? r_cv s) eqn:Ev.
      + apply N.eqb_eq in Ev. subst v.
        apply (IH _ (consumed ++ [r_cv s])); [|exact Ety'].
        apply checkpoint_inv. unfold Inv0. cbn [r_runs r_cv r_cl r_total r_used r_last r_cpi].
        repeat split; try assumption; try lia.
        rewrite I1, <- app_assoc. f_equal.
        replace (N.to_nat (r_cl s + 1)) with (N.to_nat (r_cl s) + 1)%nat by lia.
        rewrite repeat_app. reflexivity.
      + destruct (MAX_MINIBLOCK_BYTES <? r_used s + div_ceil (r_cl s) 255 * (ts + 1)) eqn:Eov.
        * apply N.ltb_lt in Eov.
          destruct (r_last s) as [[nr c]|] eqn:El.
          -- destruct (rollback_ok s consumed (v :: rest) nr c I0 Ety El) as (Hok & Hin & Hct).
             split; [exact Hok|]. split; [exact Hin|].
             pose proof (inv_consumed_len s consumed I0). lia.
          -- exfalso.
             pose proof (no_overflow_without_checkpoint s consumed (conj I0 I8) ltac:(lia) El). lia.
        * apply N.ltb_ge in Eov.
          apply (IH _ (consumed ++ [v])); [|exact Ety'].
          apply checkpoint_inv. unfold Inv0. cbn [r_runs r_cv r_cl r_total r_used r_last r_cpi].
          split.
          { rewrite expand_app, add_run_expand, I1, <- !app_assoc. reflexivity. }
          split; [lia|].
          split.
          { rewrite expand_app, nlen_app, add_run_expand, <- I3. unfold nlen. rewrite repeat_length. lia. }
          split.
          { rewrite nlen_app, add_run_nlen, add_run_bytes_eq, I4. lia. }
          split.
          { rewrite add_run_bytes_eq. exact Eov. }
          split.
          { apply runs_wf_app; [exact I6 | apply add_run_wf]. }
          destruct (r_last s) as [[nr c]|]; [|exact I7].
          destruct I7 as (Hnr & Hin & Hc). split; [rewrite app_length; lia|]. split; [exact Hin|].
          rewrite firstn_app_le by exact Hnr. exact Hc.
  Qed.

  (* encode_chunk_rolling: every call on a non-empty slice returns a valid, non-empty chunk *)
  Lemma rle_encode_chunk_spec : forall rr p is_last,
    1 <= remaining ->
    rle_encode_chunk ts remaining typed = (rr, p, is_last) ->
    ChunkOK rr p /\
    (is_last = true -> p = remaining) /\
    (is_last = false -> is_pow2 p = true /\ 64 <= p /\ p < remaining).
  Proof.
    intros rr p is_last Hrem Henc.
    unfold rle_encode_chunk in Henc.
    destruct typed as [|v0 rest] eqn:Etyped.
    { exfalso. unfold nlen in Htyped. cbn in Htyped. lia. }
    fold cps in Henc. rewrite <- Etyped in *.
    set (s0 := mk_rst v0 1 0 0 [] 0 None) in *.
    assert (HI0 : Inv s0 [v0]).
    { split.
      - unfold Inv0, s0. cbn [r_runs r_cv r_cl r_total r_used r_last r_cpi].
        repeat split; try reflexivity; try lia. constructor.
      - unfold Inv8, s0. cbn [r_cpi r_total]. intros _.
        destruct cps as [|c0 tl] eqn:Ec; [left; reflexivity|].
        right. exists c0, tl. split; [reflexivity|].
        assert (Hin : In c0 cps) by (rewrite Ec; left; reflexivity).
        destruct (cps_in c0 Hin) as (_ & H64 & _). lia. }
    pose proof (rle_loop_spec rest s0 [v0] HI0 ltac:(rewrite Etyped; reflexivity)) as Hloop.
    destruct (rle_loop ts cps rest s0) as [s|[rr' c]] eqn:El.
    - (* the loop ran to the end of the slice *)
      destruct Hloop as [I0 I8]. pose proof I0 as (I1 & I2 & I3 & I4 & I5 & I6 & I7).
      pose proof (inv_consumed_len s typed I0) as Hlen.
      set (needed := div_ceil (r_cl s) 255 * (ts + 1)) in *.
      destruct ((0 <? r_cl s) && (r_used s + needed <=? MAX_MINIBLOCK_BYTES)) eqn:Efits.
      + apply andb_true_iff in Efits as [_ Efits]. apply N.leb_le in Efits.
        assert (Hexp : expand (r_runs s ++ add_run (r_cv s) (r_cl s)) = typed)
          by (rewrite expand_app, add_run_expand; symmetry; exact I1).
        assert (Hok : ChunkOK (r_runs s ++ add_run (r_cv s) (r_cl s)) (r_total s + r_cl s)).
        { unfold ChunkOK. rewrite Hexp. repeat split.
          - apply runs_wf_app; [exact I6 | apply add_run_wf].
          - rewrite nlen_app, add_run_nlen. fold needed. rewrite I4 in Efits. lia.
          - lia.
          - lia.
          - lia.
          - exists []. rewrite app_nil_r. reflexivity. }
        destruct (r_total s + r_cl s =? remaining) eqn:Elast.
        * inversion Henc; subst rr p is_last. apply N.eqb_eq in Elast.
          split; [exact Hok|]. split; [intros _; exact Elast | discriminate].
        * apply N.eqb_neq in Elast.
          assert (H2048 : r_total s + r_cl s = 2048) by lia.
          assert (Ep : is_pow2 (r_total s + r_cl s) = true) by (rewrite H2048; vm_compute; reflexivity).
          rewrite Ep in Henc. inversion Henc; subst rr p is_last.
          split; [exact Hok|]. split; [discriminate|]. intros _. split; [exact Ep|]. lia.
      + (* the pending run does not fit: a checkpoint exists *)
        assert (Hov : MAX_MINIBLOCK_BYTES < r_used s + needed).
        { apply andb_false_iff in Efits as [E|E]; [apply N.ltb_ge in E; lia | apply N.leb_gt in E; exact E]. }
        destruct (r_last s) as [[nr c]|] eqn:Elst.
        2:{ exfalso. pose proof (no_overflow_without_checkpoint s typed (conj I0 I8) ltac:(lia) Elst). fold needed in H. lia. }
        destruct (rollback_ok s typed [] nr c I0 ltac:(rewrite app_nil_r; reflexivity) Elst) as (Hok & Hin & Hct).
        destruct (cps_in c Hin) as (Hp2 & H64 & H4096 & Hcrem).
        assert (Hnl : (r_total s =? remaining) = false) by (apply N.eqb_neq; lia).
        rewrite Hnl in Henc.
        destruct (is_pow2 (r_total s)) eqn:Ep.
        * inversion Henc; subst rr p is_last.
          split.
          { unfold ChunkOK. repeat split; try assumption; try lia.
            - rewrite I1. rewrite firstn_app_le by (unfold nlen in I3; lia). reflexivity.
            - eexists. exact I1. }
          split; [discriminate|]. intros _. split; [exact Ep|]. lia.
        * inversion Henc; subst rr p is_last.
          split; [exact Hok|]. split; [discriminate|]. intros _. split; [exact Hp2|]. lia.
    - (* early return with a roll back *)
      destruct Hloop as (Hok & Hin & Hlt).
      inversion Henc; subst rr p is_last.
      destruct (cps_in c Hin) as (Hp2 & H64 & H4096 & Hcrem).
      split; [exact Hok|]. split; [discriminate|]. intros _. split; [exact Hp2|]. lia.
  Qed.
End Chunk.
