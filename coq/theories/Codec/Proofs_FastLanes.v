(* Proofs about the FastLanes model (Codec/Model_FastLanes.v).
   Structure (DESIGN.md Appendix A):
     1. positional numbers: val b ds = sum ds_i * b^i, digit extraction, injectivity
     2. bit-level facts (testbit calculus for mod/div/mul by powers of two; lor = add on disjoint bits)
     3. one lane: pack_lane emits the base-2^T digits of the number whose base-2^W digits are the
        (masked) values; unpack_lane emits the base-2^W digits of the number whose base-2^T digits are the words
     4. scatter/gather over the 1024-element arrays; the index maps are injective and onto [0,1024)
        (finite: computed for the four types)
     5. unchecked_unpack (unchecked_pack v) = v mod 2^W *)
From LanceV Require Import Common.Base Codec.Model_FastLanes.
Local Open Scope N_scope.

(* ------------------------------------------------------------------ 0. small helpers *)
Lemma pow2_pos (n : N) : 0 < 2 ^ n.
Proof. apply N.neq_0_lt_0. apply N.pow_nonzero. discriminate. Qed.

Lemma pow2_ne0 (n : N) : 2 ^ n <> 0.
Proof. apply N.pow_nonzero. discriminate. Qed.

Lemma pow2_split (a b : N) : a <= b -> 2 ^ b = 2 ^ a * 2 ^ (b - a).
Proof. intro H. rewrite <- N.pow_add_r. f_equal. lia. Qed.

Lemma pow2_le (a b : N) : a <= b -> 2 ^ a <= 2 ^ b.
Proof. intro H. apply N.pow_le_mono_r; [discriminate | exact H]. Qed.

Lemma pow2_lt (a b : N) : a < b -> 2 ^ a < 2 ^ b.
Proof. intro H. apply N.pow_lt_mono_r; [reflexivity | exact H]. Qed.

Lemma shiftl1 (n : N) : N.shiftl 1 n = 2 ^ n.
Proof. rewrite N.shiftl_mul_pow2. apply N.mul_1_l. Qed.

Lemma ones_pred (n : N) : N.shiftl 1 n - 1 = N.ones n.
Proof. unfold N.ones. rewrite N.pred_sub. reflexivity. Qed.

Lemma land_mask (x n : N) : N.land x (N.shiftl 1 n - 1) = x mod 2 ^ n.
Proof. rewrite ones_pred. apply N.land_ones. Qed.

Lemma trunc_mod (T x : N) : trunc T x = x mod 2 ^ T.
Proof. apply N.land_ones. Qed.

Lemma mod_lt2 (x n : N) : x mod 2 ^ n < 2 ^ n.
Proof. apply N.mod_lt. apply pow2_ne0. Qed.

(* ------------------------------------------------------------------ 1. positional numbers *)
Fixpoint val (b : N) (ds : list N) : N :=
  match ds with
  | [] => 0
  | d :: r => d + b * val b r
  end.

Lemma val_app (b : N) (l1 l2 : list N) :
  val b (l1 ++ l2) = val b l1 + b ^ N.of_nat (length l1) * val b l2.
Proof.
  induction l1 as [|d l1 IH]; cbn [val app length].
  - change (N.of_nat 0) with 0. rewrite N.pow_0_r. lia.
  - rewrite IH. rewrite Nat2N.inj_succ, N.pow_succ_r'. lia.
Qed.

Lemma val_snoc (b : N) (l : list N) (d : N) :
  val b (l ++ [d]) = val b l + b ^ N.of_nat (length l) * d.
Proof. rewrite val_app. cbn [val]. f_equal. lia. Qed.

Lemma val_bound (b : N) (ds : list N) :
  Forall (fun d => d < b) ds -> val b ds < b ^ N.of_nat (length ds).
Proof.
  induction 1 as [|d ds Hd _ IH]; cbn [val length].
  - change (N.of_nat 0) with 0. rewrite N.pow_0_r. lia.
  - rewrite Nat2N.inj_succ, N.pow_succ_r'. nia.
Qed.

(* two digit lists of the same length over the same base with the same value are equal *)
Lemma val_inj (b : N) (l1 l2 : list N) :
  length l1 = length l2 ->
  Forall (fun d => d < b) l1 -> Forall (fun d => d < b) l2 ->
  val b l1 = val b l2 -> l1 = l2.
Proof.
  revert l2. induction l1 as [|d1 l1 IH]; intros [|d2 l2] Hlen H1 H2 Hv; try discriminate; [reflexivity|].
  inversion H1 as [|? ? Hd1 H1']; subst. inversion H2 as [|? ? Hd2 H2']; subst.
  cbn [val] in Hv. cbn [length] in Hlen.
  assert (Hb : b <> 0) by lia.
  assert (Hd : d1 = d2).
  { assert (E1 : (d1 + b * val b l1) mod b = d1).
    { rewrite N.mul_comm, N.mod_add by exact Hb. apply N.mod_small. exact Hd1. }
    assert (E2 : (d2 + b * val b l2) mod b = d2).
    { rewrite N.mul_comm, N.mod_add by exact Hb. apply N.mod_small. exact Hd2. }
    rewrite Hv in E1. rewrite E1 in E2. exact E2. }
  subst d2. f_equal. apply IH; [lia | exact H1' | exact H2' |].
  assert (E : b * val b l1 = b * val b l2) by lia.
  apply N.mul_cancel_l in E; [exact E | exact Hb].
Qed.

(* ------------------------------------------------------------------ 2. bit-level facts *)
Lemma tb_mod (a n i : N) : N.testbit (a mod 2 ^ n) i = (i <? n) && N.testbit a i.
Proof.
  destruct (N.ltb_spec i n) as [H|H].
  - rewrite N.mod_pow2_bits_low by exact H. reflexivity.
  - rewrite N.mod_pow2_bits_high by exact H. reflexivity.
Qed.

Lemma tb_div (a n i : N) : N.testbit (a / 2 ^ n) i = N.testbit a (i + n).
Proof. apply N.div_pow2_bits. Qed.

Lemma tb_mul (a n i : N) : N.testbit (a * 2 ^ n) i = (n <=? i) && N.testbit a (i - n).
Proof.
  destruct (N.leb_spec n i) as [H|H].
  - replace i with ((i - n) + n) at 1 by lia. rewrite N.mul_pow2_bits_add. reflexivity.
  - rewrite N.mul_pow2_bits_low by exact H. reflexivity.
Qed.

Ltac tb_norm :=
  repeat first [ rewrite tb_mod | rewrite tb_div | rewrite tb_mul | rewrite N.lor_spec | rewrite N.land_spec ].

Ltac tb_cases :=
  repeat match goal with
         | |- context [?a <? ?b] => destruct (N.ltb_spec a b)
         | |- context [?a <=? ?b] => destruct (N.leb_spec a b)
         end;
  cbn [andb orb]; try reflexivity; try lia;
  repeat rewrite Bool.orb_false_r; repeat rewrite Bool.andb_true_r;
  try reflexivity; try lia; try (f_equal; lia).

(* lor is addition when the bits are disjoint: a below bit s, b a multiple of 2^s *)
Lemma lor_disjoint_add (a b s : N) : a < 2 ^ s -> N.lor a (b * 2 ^ s) = a + b * 2 ^ s.
Proof.
  intro Ha.
  assert (Hl : N.land a (b * 2 ^ s) = 0).
  { apply N.bits_inj_0. intro i. rewrite N.land_spec.
    rewrite <- (N.mod_small a (2 ^ s)) by exact Ha. tb_norm. tb_cases. }
  rewrite (N.add_nocarry_lxor _ _ Hl). symmetry. apply N.lxor_lor. exact Hl.
Qed.

(* ------------------------------------------------------------------ 3a. pack!: arithmetic of one step *)
Lemma packA (tmp0 src s T W : N) :
  s + W < T -> tmp0 < 2 ^ s -> src < 2 ^ W ->
  (src * 2 ^ s) mod 2 ^ T = src * 2 ^ s /\ tmp0 + src * 2 ^ s < 2 ^ (s + W).
Proof.
  intros HsW Ht Hs.
  assert (Hp : 2 ^ (s + W) = 2 ^ s * 2 ^ W) by apply N.pow_add_r.
  assert (Hle : 2 ^ (s + W) <= 2 ^ T) by (apply pow2_le; lia).
  pose proof (pow2_pos s). pose proof (pow2_pos W).
  split.
  - apply N.mod_small. nia.
  - nia.
Qed.

Lemma packB (tmp0 src s T W : N) :
  s < T -> W < T -> T <= s + W -> tmp0 < 2 ^ s -> src < 2 ^ W ->
  (src * 2 ^ s) mod 2 ^ T = (src mod 2 ^ (T - s)) * 2 ^ s /\
  tmp0 + (src mod 2 ^ (T - s)) * 2 ^ s < 2 ^ T /\
  src / 2 ^ (T - s) < 2 ^ (s + W - T) /\
  (tmp0 + (src mod 2 ^ (T - s)) * 2 ^ s) + 2 ^ T * (src / 2 ^ (T - s)) = tmp0 + 2 ^ s * src.
Proof.
  intros HsT HWT HTsW Ht Hs.
  assert (HT : 2 ^ T = 2 ^ (T - s) * 2 ^ s).
  { rewrite <- N.pow_add_r. f_equal. lia. }
  assert (HW : 2 ^ W = 2 ^ (T - s) * 2 ^ (s + W - T)).
  { rewrite <- N.pow_add_r. f_equal. lia. }
  pose proof (pow2_pos s) as Hps. pose proof (pow2_pos (T - s)) as Hpd.
  pose proof (N.div_mod src (2 ^ (T - s)) (pow2_ne0 _)) as Hdm.
  pose proof (mod_lt2 src (T - s)) as Hml.
  repeat split.
  - rewrite HT. rewrite N.mul_mod_distr_r by (apply pow2_ne0). reflexivity.
  - rewrite HT. nia.
  - apply N.div_lt_upper_bound; [apply pow2_ne0|]. rewrite <- HW. exact Hs.
  - rewrite HT. nia.
Qed.

(* ------------------------------------------------------------------ 3b. pack!: loop invariant *)
Definition rows (r : nat) : list N := map N.of_nat (seq 0 r).

Lemma rows_S (r : nat) : rows (S r) = rows r ++ [N.of_nat r].
Proof. unfold rows. rewrite seq_S, map_app. reflexivity. Qed.

Lemma rows_length (r : nat) : length (rows r) = r.
Proof. unfold rows. rewrite map_length, seq_length. reflexivity. Qed.

Lemma nseq_rows (n : N) : nseq n = rows (N.to_nat n).
Proof. reflexivity. Qed.

Lemma div_stepA (P W T : N) : 0 < T -> P mod T + W < T ->
  (P + W) / T = P / T /\ (P + W) mod T = P mod T + W.
Proof.
  intros HT H. pose proof (N.div_mod P T ltac:(lia)) as E.
  split; symmetry.
  - apply N.div_unique with (r := P mod T + W); [exact H | lia].
  - apply N.mod_unique with (q := P / T); [exact H | lia].
Qed.

Lemma div_stepB (P W T : N) : 0 < T -> W < T -> T <= P mod T + W ->
  (P + W) / T = P / T + 1 /\ (P + W) mod T = P mod T + W - T.
Proof.
  intros HT HW H. pose proof (N.div_mod P T ltac:(lia)) as E.
  pose proof (N.mod_lt P T ltac:(lia)) as Hs.
  split; symmetry.
  - apply N.div_unique with (r := P mod T + W - T); [lia | lia].
  - apply N.mod_unique with (q := P / T + 1); [lia | lia].
Qed.

Section PackLane.
  Variables T W : N.
  Hypothesis HW0 : 0 < W.
  Hypothesis HWT : W < T.
  Variable src_of : N -> N.

  Definition lv (r : N) : N := src_of r mod 2 ^ W.
  Definition lvals (r : nat) : list N := map lv (rows r).

  Lemma lvals_S r : lvals (S r) = lvals r ++ [lv (N.of_nat r)].
  Proof. unfold lvals. rewrite rows_S, map_app. reflexivity. Qed.

  Lemma lvals_length r : length (lvals r) = r.
  Proof. unfold lvals. rewrite map_length. apply rows_length. Qed.

  Lemma lvals_bound r : Forall (fun d => d < 2 ^ W) (lvals r).
  Proof. unfold lvals. apply Forall_forall. intros x Hx. apply in_map_iff in Hx as [y [<- _]]. apply mod_lt2. Qed.

  Definition pack_inv (r : nat) (st : N * list (N * N)) : Prop :=
    let P := N.of_nat r * W in
    map fst (snd st) = rows (N.to_nat (P / T)) /\
    Forall (fun w => w < 2 ^ T) (map snd (snd st)) /\
    fst st < 2 ^ (P mod T) /\
    val (2 ^ T) (map snd (snd st)) + 2 ^ (T * (P / T)) * fst st = val (2 ^ W) (lvals r).

  Lemma pack_inv_0 : pack_inv 0 (0, []).
  Proof.
    unfold pack_inv. cbn [fst snd map]. change (N.of_nat 0) with 0. rewrite N.mul_0_l.
    rewrite N.div_0_l, N.mod_0_l by lia. repeat split.
    - constructor.
    - cbn. lia.
  Qed.

  Lemma pack_inv_step r st : pack_inv r st -> pack_inv (S r) (pack_step T W src_of st (N.of_nat r)).
  Proof.
    destruct st as [tmp ws]. unfold pack_inv. cbn [fst snd].
    set (row := N.of_nat r). set (P := row * W).
    intros (Hfst & Hws & Htmp & Hval).
    assert (HT0 : 0 < T) by lia.
    pose proof (N.mod_lt P T ltac:(lia)) as Hs.
    set (s := P mod T) in *. set (c := P / T) in *.
    assert (HP : P = T * c + s) by (apply N.div_mod; lia).
    assert (HP1 : N.of_nat (S r) * W = P + W).
    { rewrite Nat2N.inj_succ. fold row. unfold P. lia. }
    rewrite HP1.
    (* the step *)
    unfold pack_step. fold row. fold P. replace ((row + 1) * W) with (P + W) by (unfold P; lia).
    fold s. fold c.
    rewrite land_mask. fold (lv row). set (src := lv row).
    assert (Hsrc : src < 2 ^ W) by apply mod_lt2.
    (* tmp after the or *)
    assert (Htmp1 : (if row =? 0 then src else N.lor tmp (trunc T (N.shiftl src s)))
                    = tmp + (src mod 2 ^ (T - s)) * 2 ^ s).
    { assert (HTs : 2 ^ T = 2 ^ (T - s) * 2 ^ s) by (rewrite <- N.pow_add_r; f_equal; lia).
      destruct (N.eqb_spec row 0) as [E|E].
      - assert (s = 0) by (unfold s, P; rewrite E, N.mul_0_l; apply N.mod_0_l; lia).
        subst s. replace (P mod T) with 0 in * by lia.
        rewrite N.pow_0_r in *. rewrite N.sub_0_r. rewrite N.mul_1_r.
        assert (tmp = 0) by lia. subst tmp.
        rewrite N.mod_small; [lia|]. apply N.lt_trans with (2 ^ W); [exact Hsrc | apply pow2_lt; exact HWT].
      - rewrite trunc_mod, N.shiftl_mul_pow2. rewrite HTs at 1.
        rewrite N.mul_mod_distr_r by apply pow2_ne0.
        apply lor_disjoint_add. exact Htmp. }
    rewrite Htmp1. clear Htmp1.
    assert (Hlen : N.of_nat (length (map snd ws)) = c).
    { rewrite map_length, <- (map_length fst), Hfst, rows_length. apply N2Nat.id. }
    assert (HvS : val (2 ^ W) (lvals (S r)) = val (2 ^ W) (lvals r) + 2 ^ (T * c) * 2 ^ s * src).
    { rewrite lvals_S, val_snoc, lvals_length. fold row. fold src.
      rewrite <- N.pow_mul_r. replace (W * row) with (T * c + s) by (unfold P in HP; lia).
      rewrite N.pow_add_r. reflexivity. }
    destruct (N.lt_ge_cases (s + W) T) as [HA|HB].
    - (* no word completed *)
      destruct (div_stepA P W T HT0 HA) as [Hd Hm]. fold c in Hd. fold s in Hm.
      rewrite Hd, Hm. rewrite N.ltb_irrefl. cbn [fst snd].
      destruct (packA tmp src s T W HA Htmp Hsrc) as [_ Hb].
      assert (Hsm : src mod 2 ^ (T - s) = src).
      { apply N.mod_small. apply N.lt_le_trans with (2 ^ W); [exact Hsrc | apply pow2_le; lia]. }
      rewrite Hsm. repeat split; try assumption.
      rewrite HvS. rewrite <- Hval. ring.
    - (* a word is completed *)
      destruct (div_stepB P W T HT0 HWT HB) as [Hd Hm]. fold c in Hd. fold s in Hm.
      rewrite Hd, Hm. replace (c <? c + 1) with true by (symmetry; apply N.ltb_lt; lia).
      cbn [fst snd]. replace (W - (s + W - T)) with (T - s) by lia.
      rewrite N.shiftr_div_pow2.
      destruct (packB tmp src s T W Hs HWT HB Htmp Hsrc) as (_ & Hw & Ht' & Heq).
      rewrite !map_app. cbn [map fst snd]. repeat split.
      + rewrite Hfst. replace (N.to_nat (c + 1)) with (S (N.to_nat c)) by lia.
        rewrite rows_S. rewrite N2Nat.id. reflexivity.
      + apply Forall_app. split; [exact Hws | constructor; [exact Hw | constructor]].
      + exact Ht'.
      + rewrite val_snoc, Hlen. rewrite <- N.pow_mul_r.
        replace (T * (c + 1)) with (T * c + T) by lia. rewrite N.pow_add_r.
        rewrite HvS. rewrite <- Hval.
        set (A := 2 ^ (T * c)). set (w := tmp + src mod 2 ^ (T - s) * 2 ^ s) in *.
        set (t' := src / 2 ^ (T - s)) in *.
        transitivity (val (2 ^ T) (map snd ws) + A * (w + 2 ^ T * t')); [ring|].
        rewrite Heq. ring.
  Qed.
End PackLane.

(* ------------------------------------------------------------------ 3c. digit extraction, pack_lane, unpack! arithmetic *)
Lemma val_nth (b : N) (ds : list N) (i : nat) :
  0 < b -> Forall (fun d => d < b) ds -> (i < length ds)%nat ->
  (val b ds / b ^ N.of_nat i) mod b = nth i ds 0.
Proof.
  intros Hb. revert i. induction ds as [|d ds IH]; intros i HF Hi; [cbn in Hi; lia|].
  inversion HF as [|? ? Hd HF']; subst. cbn [val].
  assert (Hdiv : (d + b * val b ds) / b = val b ds).
  { rewrite N.mul_comm, N.div_add by lia. rewrite N.div_small by exact Hd. lia. }
  destruct i as [|j].
  - change (N.of_nat 0) with 0. rewrite N.pow_0_r, N.div_1_r.
    rewrite N.mul_comm, N.mod_add by lia. cbn [nth]. apply N.mod_small. exact Hd.
  - rewrite Nat2N.inj_succ, N.pow_succ_r'. rewrite <- N.div_div by (try apply N.pow_nonzero; lia).
    rewrite Hdiv. cbn [nth]. apply IH; [exact HF' | cbn [length] in Hi; lia].
Qed.

Lemma fold_rows {A} (f : A -> N -> A) (P : nat -> A -> Prop) (a0 : A) :
  P 0%nat a0 -> (forall r a, P r a -> P (S r) (f a (N.of_nat r))) ->
  forall r, P r (fold_left f (rows r) a0).
Proof.
  intros H0 HS. induction r as [|r IH]; [exact H0|].
  rewrite rows_S, fold_left_app. cbn [fold_left]. apply HS. exact IH.
Qed.

Lemma fold_rows_bounded {A} (f : A -> N -> A) (P : nat -> A -> Prop) (a0 : A) (n : nat) :
  P 0%nat a0 -> (forall r a, (r < n)%nat -> P r a -> P (S r) (f a (N.of_nat r))) ->
  forall r, (r <= n)%nat -> P r (fold_left f (rows r) a0).
Proof.
  intros H0 HS. induction r as [|r IH]; intro Hr; [exact H0|].
  rewrite rows_S, fold_left_app. cbn [fold_left]. apply HS; [lia | apply IH; lia].
Qed.

(* ---- pack_lane, general widths 0 < W < T *)
Lemma pack_lane_spec (T W : N) (src_of : N -> N) :
  0 < W -> W < T ->
  let ws := pack_lane T W src_of in
  map fst ws = rows (N.to_nat W) /\
  Forall (fun w => w < 2 ^ T) (map snd ws) /\
  val (2 ^ T) (map snd ws) = val (2 ^ W) (lvals W src_of (N.to_nat T)).
Proof.
  intros HW0 HWT. unfold pack_lane.
  destruct (N.eqb_spec W 0) as [E|_]; [lia|]. destruct (N.eqb_spec W T) as [E|_]; [lia|].
  rewrite nseq_rows.
  pose proof (fold_rows (pack_step T W src_of) (pack_inv T W src_of) (0, [])
                (pack_inv_0 T W HW0 HWT src_of) (fun r a => pack_inv_step T W HW0 HWT src_of r a) (N.to_nat T)) as H.
  destruct (fold_left (pack_step T W src_of) (rows (N.to_nat T)) (0, [])) as [tmp ws].
  unfold pack_inv in H. cbn [fst snd] in *. rewrite N2Nat.id in H.
  replace (T * W / T) with W in H by (symmetry; rewrite N.mul_comm; apply N.div_mul; lia).
  replace ((T * W) mod T) with 0 in H by (symmetry; rewrite N.mul_comm; apply N.mod_mul; lia).
  destruct H as (H1 & H2 & H3 & H4). rewrite N.pow_0_r in H3. assert (tmp = 0) by lia. subst tmp.
  repeat split; [exact H1 | exact H2 | lia].
Qed.

(* ---- unpack!: the two ways a value is assembled *)
Lemma unpackA (X s W T : N) : s + W <= T ->
  ((X mod 2 ^ T) / 2 ^ s) mod 2 ^ W = (X / 2 ^ s) mod 2 ^ W.
Proof. intro H. apply N.bits_inj. intro i. tb_norm. tb_cases. Qed.

Lemma unpackB (X s W T : N) : s < T -> W <= T -> T <= s + W ->
  N.lor (((X mod 2 ^ T) / 2 ^ s) mod 2 ^ (T - s))
        (((((X / 2 ^ T) mod 2 ^ T) mod 2 ^ (s + W - T)) * 2 ^ (T - s)) mod 2 ^ T)
  = (X / 2 ^ s) mod 2 ^ W.
Proof. intros H1 H2 H3. apply N.bits_inj. intro i. tb_norm. tb_cases. Qed.

(* ------------------------------------------------------------------ 3d. unpack!: loop invariant *)
Lemma mask_small (T w x : N) : w < T -> N.land x (unpack_mask T w) = x mod 2 ^ w.
Proof.
  intro H. unfold unpack_mask. destruct (N.eqb_spec w T) as [E|_]; [lia|].
  rewrite N.mod_small by exact H. apply land_mask.
Qed.

Lemma div_pow_add (X a b : N) : X / 2 ^ (a + b) = X / 2 ^ a / 2 ^ b.
Proof. rewrite N.pow_add_r. symmetry. apply N.div_div; apply pow2_ne0. Qed.

Section UnpackLane.
  Variables T W : N.
  Hypothesis HW0 : 0 < W.
  Hypothesis HWT : W < T.
  Variable packed_of : N -> N.
  Variable X : N.
  Hypothesis Hdig : forall k, k < W -> packed_of k = (X / 2 ^ (T * k)) mod 2 ^ T.

  Definition dig (i : N) : N := (X / 2 ^ (W * i)) mod 2 ^ W.

  Definition unpack_inv (r : nat) (st : N * list (N * N)) : Prop :=
    let P := N.of_nat r * W in
    (P / T < W -> fst st = packed_of (P / T)) /\
    map fst (snd st) = rows r /\
    map snd (snd st) = map dig (rows r).

  Lemma unpack_inv_0 : unpack_inv 0 (packed_of 0, []).
  Proof.
    unfold unpack_inv. cbn [fst snd map]. change (N.of_nat 0) with 0. rewrite N.mul_0_l.
    rewrite N.div_0_l by lia. repeat split.
  Qed.

  Lemma unpack_inv_step r st : (r < N.to_nat T)%nat ->
    unpack_inv r st -> unpack_inv (S r) (unpack_step T W packed_of st (N.of_nat r)).
  Proof.
    intros Hr. destruct st as [src outs]. unfold unpack_inv. cbn [fst snd].
    set (row := N.of_nat r).
    intros (Hsrc & Hfst & Hsnd).
    assert (HT0 : 0 < T) by lia.
    assert (Hrow : row < T) by (unfold row; lia).
    assert (HP1 : N.of_nat (S r) * W = row * W + W).
    { rewrite Nat2N.inj_succ. fold row. lia. }
    rewrite HP1. unfold unpack_step. fold row.
    replace ((row + 1) * W) with (row * W + W) by lia.
    remember (row * W) as P eqn:HPdef.
    pose proof (N.mod_lt P T ltac:(lia)) as Hs.
    assert (Hc : P / T < W).
    { apply N.div_lt_upper_bound; [lia|]. subst P. clear - Hrow HW0. nia. }
    specialize (Hsrc Hc).
    pose proof (N.div_mod P T ltac:(lia)) as HP.
    pose proof (div_stepA P W T HT0) as DA. pose proof (div_stepB P W T HT0 HWT) as DB.
    pose proof (N.mul_div_le (P + W) T ltac:(lia)) as Hle.
    assert (Hmm : (P + W = T * W) -> (P + W) mod T = 0).
    { intros ->. rewrite N.mul_comm. apply N.mod_mul. lia. }
    remember (P mod T) as s eqn:Hsdef. remember (P / T) as c eqn:Hcdef.
    clear Hsdef Hcdef.
    assert (HPle : P + W <= T * W) by (subst P; clear - Hrow; nia).
    assert (HWr : W * row = T * c + s) by (subst P; lia).
    clear HPdef.
    set (X' := X / 2 ^ (T * c)).
    assert (Hsrc' : src = X' mod 2 ^ T) by (rewrite Hsrc; apply Hdig; exact Hc).
    assert (Hdigrow : dig row = (X' / 2 ^ s) mod 2 ^ W).
    { unfold dig. rewrite HWr. rewrite div_pow_add. reflexivity. }
    clear HWr.
    assert (Hrows : forall v, map fst (outs ++ [(row, v)]) = rows (S r) /\
                              (v = dig row -> map snd (outs ++ [(row, v)]) = map dig (rows (S r)))).
    { intro v. rewrite !map_app, rows_S, map_app. cbn [map fst snd]. rewrite Hfst, Hsnd.
      split; [reflexivity | intros ->; reflexivity]. }
    clear Hfst Hsnd HP1.
    destruct (N.lt_ge_cases (s + W) T) as [HA|HB].
    - destruct (DA HA) as [Hd Hm]. clear DA DB.
      rewrite Hd. rewrite N.ltb_irrefl. cbn [fst snd].
      destruct (Hrows (N.land (N.shiftr src s) (unpack_mask T W))) as [R1 R2].
      split; [intros _; exact Hsrc | split; [exact R1 | apply R2]].
      rewrite mask_small by exact HWT. rewrite N.shiftr_div_pow2, Hsrc', Hdigrow.
      apply unpackA. clear - HA. lia.
    - destruct (DB HB) as [Hd Hm]. clear DA DB.
      rewrite Hd, Hm.
      assert (E0 : (c <? c + 1) = true) by (apply N.ltb_lt; clear; lia).
      assert (E1 : W - (s + W - T) = T - s) by (clear - HB Hs; lia).
      assert (Hs1 : T - s < T) by (clear - HB HWT Hs; lia).
      assert (Hs2 : s + W - T < T) by (clear - HB HWT Hs; lia).
      rewrite E0, E1.
      rewrite (mask_small T (T - s)) by exact Hs1. rewrite N.shiftr_div_pow2.
      destruct (N.ltb_spec (c + 1) W) as [HB1|HB2]; cbn [fst snd].
      + set (v := N.lor _ _). destruct (Hrows v) as [R1 R2].
        split; [intros _; reflexivity | split; [exact R1 | apply R2]].
        unfold v. rewrite mask_small by exact Hs2. rewrite trunc_mod, N.shiftl_mul_pow2.
        rewrite (Hdig (c + 1) HB1). replace (T * (c + 1)) with (T * c + T) by (clear; lia).
        rewrite div_pow_add. fold X'. rewrite Hsrc', Hdigrow.
        apply unpackB; [exact Hs | clear - HWT; lia | exact HB].
      + set (v := (src / 2 ^ s) mod 2 ^ (T - s)). destruct (Hrows v) as [R1 R2].
        assert (HPW : P + W = T * W).
        { rewrite Hd in Hle. assert (c + 1 = W) by (clear - HB2 Hc; lia). clear - Hle HPle H. nia. }
        assert (Hrem : s + W = T).
        { specialize (Hmm HPW). clear - Hmm Hm HB. lia. }
        split; [intro Hlt; clear - Hlt HB2; lia | split; [exact R1 | apply R2]].
        unfold v. replace (T - s) with W by (clear - Hrem; lia). rewrite Hsrc', Hdigrow. apply unpackA.
        clear - Hrem. lia.
  Qed.

  Lemma unpack_lane_general :
    let outs := snd (fold_left (unpack_step T W packed_of) (rows (N.to_nat T)) (packed_of 0, [])) in
    map fst outs = rows (N.to_nat T) /\ map snd outs = map dig (rows (N.to_nat T)).
  Proof.
    pose proof (fold_rows_bounded (unpack_step T W packed_of) unpack_inv (packed_of 0, []) (N.to_nat T)
                  unpack_inv_0 (fun r a Hr => unpack_inv_step r a Hr) (N.to_nat T) (le_n _)) as H.
    destruct H as (_ & H1 & H2). split; assumption.
  Qed.
End UnpackLane.

(* ------------------------------------------------------------------ 4a. functional arrays, scatter, finite facts about the index maps *)
(* ---- functional arrays *)
Lemma upd_length {A} (l : list A) (i : nat) (v : A) : length (upd l i v) = length l.
Proof. revert i. induction l as [|x l IH]; intros [|i]; cbn [upd length]; try reflexivity. rewrite IH. reflexivity. Qed.

Lemma nth_upd_eq {A} (l : list A) (i : nat) (v d : A) : (i < length l)%nat -> nth i (upd l i v) d = v.
Proof.
  revert i. induction l as [|x l IH]; intros [|i] H; cbn [length] in H; try lia; cbn [upd nth]; [reflexivity|].
  apply IH. lia.
Qed.

Lemma nth_upd_neq {A} (l : list A) (i j : nat) (v d : A) : i <> j -> nth i (upd l j v) d = nth i l d.
Proof.
  revert i j. induction l as [|x l IH]; intros [|i] [|j] H; cbn [upd nth]; try reflexivity; try congruence.
  apply IH. congruence.
Qed.

Lemma scatter_cons (out : list N) (w : N * N) (ws : list (N * N)) :
  scatter out (w :: ws) = scatter (upd out (N.to_nat (fst w)) (snd w)) ws.
Proof. reflexivity. Qed.

Lemma scatter_length (out : list N) (ws : list (N * N)) : length (scatter out ws) = length out.
Proof.
  revert out. induction ws as [|w ws IH]; intro out; [reflexivity|].
  rewrite scatter_cons, IH. apply upd_length.
Qed.

Lemma scatter_notin (out : list N) (ws : list (N * N)) (i : N) :
  ~ In i (map fst ws) -> nth (N.to_nat i) (scatter out ws) 0 = nth (N.to_nat i) out 0.
Proof.
  revert out. induction ws as [|w ws IH]; intros out H; [reflexivity|].
  rewrite scatter_cons, IH.
  - apply nth_upd_neq. intro E. apply H. left. apply N2Nat.inj. symmetry. exact E.
  - intro Hin. apply H. right. exact Hin.
Qed.

Lemma scatter_nth (out : list N) (ws : list (N * N)) (i v : N) :
  NoDup (map fst ws) -> In (i, v) ws -> (N.to_nat i < length out)%nat ->
  nth (N.to_nat i) (scatter out ws) 0 = v.
Proof.
  revert out. induction ws as [|w ws IH]; intros out Hnd Hin Hlen; [destruct Hin|].
  cbn [map] in Hnd. inversion Hnd as [|? ? Hnotin Hnd']; subst.
  rewrite scatter_cons. destruct Hin as [->|Hin].
  - cbn [fst snd] in *. rewrite scatter_notin by exact Hnotin. apply nth_upd_eq. exact Hlen.
  - apply IH; [exact Hnd' | exact Hin | rewrite upd_length; exact Hlen].
Qed.

(* ---- decidable NoDup on N *)
Fixpoint nodupb (l : list N) : bool :=
  match l with
  | [] => true
  | x :: r => negb (existsb (N.eqb x) r) && nodupb r
  end.

Lemma nodupb_NoDup (l : list N) : nodupb l = true -> NoDup l.
Proof.
  induction l as [|x l IH]; intro H; [constructor|].
  cbn [nodupb] in H. apply andb_true_iff in H as [H1 H2]. constructor; [|apply IH; exact H2].
  intro Hin. apply negb_true_iff in H1.
  assert (E : existsb (N.eqb x) l = true) by (apply existsb_exists; exists x; split; [exact Hin | apply N.eqb_refl]).
  congruence.
Qed.

(* ---- lists of pairs *)
Lemma in_pairs (l : list (N * N)) (n k : nat) :
  map fst l = rows n -> (k < n)%nat -> In (N.of_nat k, nth k (map snd l) 0) l.
Proof.
  intros Hf Hk.
  assert (Hlen : length l = n) by (rewrite <- (map_length fst), Hf; apply rows_length).
  assert (E : nth k l (0, 0) = (N.of_nat k, nth k (map snd l) 0)).
  { rewrite (surjective_pairing (nth k l (0, 0))). f_equal.
    - rewrite <- (map_nth fst l (0, 0) k). rewrite Hf. unfold rows.
      change (fst (0, 0)) with (N.of_nat 0). rewrite map_nth. rewrite seq_nth by exact Hk. reflexivity.
    - rewrite <- (map_nth snd l (0, 0) k). reflexivity. }
  rewrite <- E. apply nth_In. lia.
Qed.

Lemma in_rows (n : nat) (x : N) : In x (rows n) <-> x < N.of_nat n.
Proof.
  unfold rows. rewrite in_map_iff. split.
  - intros [k [<- Hk]]. apply in_seq in Hk. lia.
  - intro H. exists (N.to_nat x). split; [apply N2Nat.id | apply in_seq; lia].
Qed.

(* ---- positions written by the array-level loops *)
Definition pack_pos (L W : N) : list N :=
  flat_map (fun lane => map (fun k => L * k + lane) (rows (N.to_nat W))) (rows (N.to_nat L)).

Definition unpack_pos (T : N) : list N :=
  flat_map (fun lane => map (fun row => fl_index row lane) (rows (N.to_nat T))) (rows (N.to_nat (fl_lanes T))).

Definition types : list N := [8; 16; 32; 64].

Lemma pack_pos_ok :
  forallb (fun T => forallb (fun W => nodupb (pack_pos (fl_lanes T) W)
                                      && forallb (fun p => p <? fl_lanes T * W) (pack_pos (fl_lanes T) W))
                            (rows (N.to_nat (T + 1)))) types = true.
Proof. vm_compute. reflexivity. Qed.

Lemma unpack_pos_ok :
  forallb (fun T => nodupb (unpack_pos T) && forallb (fun p => p <? 1024) (unpack_pos T)
                    && forallb (fun i => existsb (N.eqb i) (unpack_pos T)) (rows 1024)
                    && (fl_lanes T * T =? 1024)) types = true.
Proof. vm_compute. reflexivity. Qed.

(* ------------------------------------------------------------------ 3e. one lane, all widths; lane round trip *)
Lemma nth_rows (n i : nat) : (i < n)%nat -> nth i (rows n) 0 = N.of_nat i.
Proof.
  intro H. unfold rows. change 0 with (N.of_nat 0). rewrite map_nth, seq_nth by exact H. reflexivity.
Qed.

Lemma map_fst_pairs {A} (f : N -> A) (l : list N) : map fst (map (fun x => (x, f x)) l) = l.
Proof. rewrite map_map. cbn [fst]. apply map_id. Qed.

Lemma map_snd_pairs {A} (f : N -> A) (l : list N) : map snd (map (fun x => (x, f x)) l) = map f l.
Proof. rewrite map_map. reflexivity. Qed.

Lemma pow_pow2 (a b : N) : (2 ^ a) ^ b = 2 ^ (a * b).
Proof. symmetry. apply N.pow_mul_r. Qed.

(* ---- one lane, all widths 0 < W <= T *)
Lemma pack_lane_sum (T W : N) (src_of : N -> N) :
  0 < W -> W <= T -> (forall r, src_of r < 2 ^ T) ->
  let ws := pack_lane T W src_of in
  map fst ws = rows (N.to_nat W) /\
  Forall (fun w => w < 2 ^ T) (map snd ws) /\
  val (2 ^ T) (map snd ws) = val (2 ^ W) (lvals W src_of (N.to_nat T)).
Proof.
  intros HW0 HWT Hb. destruct (N.eq_dec W T) as [->|Hne].
  - unfold pack_lane. destruct (N.eqb_spec T 0) as [E|_]; [lia|]. rewrite N.eqb_refl.
    rewrite nseq_rows, map_fst_pairs, map_snd_pairs. repeat split.
    + apply Forall_forall. intros x Hx. apply in_map_iff in Hx as [r [<- _]]. apply Hb.
    + f_equal. unfold lvals, lv. apply map_ext. intro r. symmetry. apply N.mod_small. apply Hb.
  - apply pack_lane_spec; lia.
Qed.

Lemma unpack_lane_sum (T W : N) (packed_of : N -> N) (X : N) :
  0 < W -> W <= T ->
  (forall k, k < W -> packed_of k = (X / 2 ^ (T * k)) mod 2 ^ T) ->
  let outs := unpack_lane T W packed_of in
  map fst outs = rows (N.to_nat T) /\ map snd outs = map (dig W X) (rows (N.to_nat T)).
Proof.
  intros HW0 HWT Hdig. destruct (N.eq_dec W T) as [->|Hne].
  - unfold unpack_lane. destruct (N.eqb_spec T 0) as [E|_]; [lia|]. rewrite N.eqb_refl.
    rewrite nseq_rows, map_fst_pairs, map_snd_pairs. split; [reflexivity|].
    apply map_ext_in. intros r Hr. apply in_rows in Hr. rewrite N2Nat.id in Hr.
    unfold dig. apply Hdig. exact Hr.
  - unfold unpack_lane. destruct (N.eqb_spec W 0) as [E|_]; [lia|]. destruct (N.eqb_spec W T) as [E|_]; [lia|].
    rewrite nseq_rows. apply (unpack_lane_general T W ltac:(lia) ltac:(lia) packed_of X Hdig).
Qed.

Lemma lane_roundtrip (T W : N) (src_of packed_of : N -> N) :
  0 < W -> W <= T -> (forall r, src_of r < 2 ^ T) ->
  (forall k, k < W -> packed_of k = nth (N.to_nat k) (map snd (pack_lane T W src_of)) 0) ->
  let outs := unpack_lane T W packed_of in
  map fst outs = rows (N.to_nat T) /\
  map snd outs = map (fun r => src_of r mod 2 ^ W) (rows (N.to_nat T)).
Proof.
  intros HW0 HWT Hb Hp.
  destruct (pack_lane_sum T W src_of HW0 HWT Hb) as (Hf & Hw & Hv).
  set (words := map snd (pack_lane T W src_of)) in *.
  assert (Hlen : length words = N.to_nat W).
  { unfold words. rewrite map_length, <- (map_length fst), Hf. apply rows_length. }
  set (X := val (2 ^ T) words).
  assert (Hdig : forall k, k < W -> packed_of k = (X / 2 ^ (T * k)) mod 2 ^ T).
  { intros k Hk. rewrite (Hp k Hk). unfold X.
    rewrite <- (val_nth (2 ^ T) words (N.to_nat k)); [|apply pow2_pos | exact Hw | lia].
    rewrite N2Nat.id, pow_pow2. reflexivity. }
  destruct (unpack_lane_sum T W packed_of X HW0 HWT Hdig) as [H1 H2].
  split; [exact H1|]. rewrite H2. apply map_ext_in. intros r Hr. apply in_rows in Hr. rewrite N2Nat.id in Hr.
  unfold dig, X. rewrite Hv.
  replace (2 ^ (W * r)) with ((2 ^ W) ^ N.of_nat (N.to_nat r)) by (rewrite N2Nat.id; apply pow_pow2).
  rewrite val_nth; [| apply pow2_pos | apply lvals_bound | rewrite lvals_length; lia].
  unfold lvals. rewrite (nth_indep _ 0 (lv W src_of 0)) by (rewrite map_length, rows_length; lia).
  rewrite map_nth. rewrite nth_rows by lia. rewrite N2Nat.id. reflexivity.
Qed.

(* ------------------------------------------------------------------ 4b. the 1024-element arrays *)
Lemma map_fst_flat_map {A} (f : A -> list (N * N)) (l : list A) :
  map fst (flat_map f l) = flat_map (fun x => map fst (f x)) l.
Proof. induction l as [|x l IH]; cbn [flat_map map]; [reflexivity|]. rewrite map_app, IH. reflexivity. Qed.

Lemma flat_map_ext_in' {A B} (f g : A -> list B) (l : list A) :
  (forall a, In a l -> f a = g a) -> flat_map f l = flat_map g l.
Proof.
  induction l as [|x l IH]; intro H; cbn [flat_map]; [reflexivity|].
  rewrite (H x (or_introl eq_refl)), IH; [reflexivity|]. intros a Ha. apply H. right. exact Ha.
Qed.

Lemma nth_map_rows (f : N -> N) (n i : nat) : (i < n)%nat -> nth i (map f (rows n)) 0 = f (N.of_nat i).
Proof.
  intro H. rewrite (nth_indep _ 0 (f 0)) by (rewrite map_length, rows_length; lia).
  rewrite map_nth, nth_rows by lia. reflexivity.
Qed.

Lemma packed_len_spec (T W : N) : In T types -> packed_len T W = fl_lanes T * W.
Proof.
  unfold packed_len, fl_lanes, types. intros [<-|[<-|[<-|[<-|[]]]]].
  - change (8 / 8) with 1. change (1024 / 8) with 128. rewrite N.div_1_r. reflexivity.
  - change (16 / 8) with 2. change (1024 / 16) with 64. replace (128 * W) with (64 * W * 2) by lia.
    apply N.div_mul. discriminate.
  - change (32 / 8) with 4. change (1024 / 32) with 32. replace (128 * W) with (32 * W * 4) by lia.
    apply N.div_mul. discriminate.
  - change (64 / 8) with 8. change (1024 / 64) with 16. replace (128 * W) with (16 * W * 8) by lia.
    apply N.div_mul. discriminate.
Qed.

Lemma types_pos (T : N) : In T types -> 0 < T /\ 0 < fl_lanes T.
Proof. unfold types. intros [<-|[<-|[<-|[<-|[]]]]]; split; vm_compute; reflexivity. Qed.

Section Arrays.
  Variables T W : N.
  Hypothesis HT : In T types.
  Hypothesis HW0 : 0 < W.
  Hypothesis HWT : W <= T.
  Let L := fl_lanes T.

  Lemma pack_facts : NoDup (pack_pos L W) /\ forall p, In p (pack_pos L W) -> p < L * W.
  Proof.
    pose proof pack_pos_ok as H. rewrite forallb_forall in H. specialize (H T HT).
    rewrite forallb_forall in H. specialize (H W). 
    assert (Hin : In W (rows (N.to_nat (T + 1)))) by (apply in_rows; lia).
    specialize (H Hin). apply andb_true_iff in H as [H1 H2]. split.
    - apply nodupb_NoDup. exact H1.
    - intros p Hp. rewrite forallb_forall in H2. specialize (H2 p Hp). apply N.ltb_lt. exact H2.
  Qed.

  Lemma unpack_facts :
    NoDup (unpack_pos T) /\ (forall p, In p (unpack_pos T) -> p < 1024) /\
    (forall i, i < 1024 -> In i (unpack_pos T)) /\ L * T = 1024.
  Proof.
    pose proof unpack_pos_ok as H. rewrite forallb_forall in H. specialize (H T HT).
    apply andb_true_iff in H as [H H4]. apply andb_true_iff in H as [H H3]. apply andb_true_iff in H as [H1 H2].
    repeat split.
    - apply nodupb_NoDup. exact H1.
    - intros p Hp. rewrite forallb_forall in H2. apply N.ltb_lt. apply H2. exact Hp.
    - intros i Hi. rewrite forallb_forall in H3.
      assert (Hin : In i (rows 1024)) by (apply in_rows; exact Hi).
      specialize (H3 i Hin). apply existsb_exists in H3 as [x [Hx E]]. apply N.eqb_eq in E. subst x. exact Hx.
    - apply N.eqb_eq. exact H4.
  Qed.

  Variable input : list N.
  Hypothesis Hin_len : length input = 1024%nat.
  Hypothesis Hin_b : Forall (fun x => x < 2 ^ T) input.

  Lemma rd_bound (i : N) : rd input i < 2 ^ T.
  Proof.
    unfold rd. destruct (nth_in_or_default (N.to_nat i) input 0) as [H| ->].
    - rewrite Forall_forall in Hin_b. apply Hin_b. exact H.
    - apply pow2_pos.
  Qed.

  Definition src (lane : N) : N -> N := fun row => rd input (fl_index row lane).
  Definition words (lane : N) : list N := map snd (pack_lane T W (src lane)).

  Lemma pack_writes_fst : map fst (pack_writes T W input) = pack_pos L W.
  Proof.
    unfold pack_writes, pack_pos. rewrite map_fst_flat_map. fold L. rewrite nseq_rows.
    apply flat_map_ext. intro lane. rewrite map_map. cbn [fst].
    destruct (pack_lane_sum T W (src lane) HW0 HWT (fun r => rd_bound _)) as (Hf & _ & _).
    fold (src lane). rewrite <- Hf. rewrite map_map. reflexivity.
  Qed.

  Lemma pack_array (out0 : list N) :
    N.of_nat (length out0) = L * W ->
    forall lane k, lane < L -> k < W ->
      rd (scatter out0 (pack_writes T W input)) (L * k + lane) = nth (N.to_nat k) (words lane) 0.
  Proof.
    intros Hlen lane k Hlane Hk. destruct pack_facts as [Hnd Hb].
    unfold rd. apply scatter_nth.
    - rewrite pack_writes_fst. exact Hnd.
    - unfold pack_writes. apply in_flat_map. exists lane. split; [apply in_rows; fold L; lia|].
      apply in_map_iff. exists (k, nth (N.to_nat k) (words lane) 0). split; [reflexivity|].
      destruct (pack_lane_sum T W (src lane) HW0 HWT (fun r => rd_bound _)) as (Hf & _ & _).
      pose proof (in_pairs (pack_lane T W (src lane)) (N.to_nat W) (N.to_nat k) Hf ltac:(lia)) as H.
      rewrite N2Nat.id in H. exact H.
    - assert (L * k + lane < L * W) by nia. lia.
  Qed.

  Variable packed : list N.
  Hypothesis Hpacked : forall lane k, lane < L -> k < W -> rd packed (L * k + lane) = nth (N.to_nat k) (words lane) 0.

  Definition pk (lane : N) : N -> N := fun word => rd packed (L * word + lane).

  Lemma unpack_lane_ok (lane : N) : lane < L ->
    map fst (unpack_lane T W (pk lane)) = rows (N.to_nat T) /\
    map snd (unpack_lane T W (pk lane)) = map (fun r => src lane r mod 2 ^ W) (rows (N.to_nat T)).
  Proof.
    intro Hlane. apply lane_roundtrip; [exact HW0 | exact HWT | intro r; apply rd_bound |].
    intros k Hk. unfold pk. apply Hpacked; assumption.
  Qed.

  Lemma unpack_writes_fst : map fst (unpack_writes T W packed) = unpack_pos T.
  Proof.
    unfold unpack_writes, unpack_pos. rewrite map_fst_flat_map. fold L. rewrite nseq_rows.
    apply flat_map_ext_in'. intros lane Hlane. apply in_rows in Hlane. rewrite N2Nat.id in Hlane.
    rewrite map_map. cbn [fst]. destruct (unpack_lane_ok lane Hlane) as [Hf _].
    fold (pk lane). rewrite <- Hf. rewrite map_map. reflexivity.
  Qed.

  Lemma unpack_array (out1 : list N) :
    length out1 = 1024%nat ->
    scatter out1 (unpack_writes T W packed) = map (fun x => x mod 2 ^ W) input.
  Proof.
    intro Hlen. destruct unpack_facts as (Hnd & Hb & Hsurj & HLT).
    apply (nth_ext _ _ 0 0).
    - rewrite scatter_length, map_length. lia.
    - intros n Hn. rewrite scatter_length, Hlen in Hn.
      assert (Hi : N.of_nat n < 1024) by lia.
      pose proof (Hsurj _ Hi) as Hpos. unfold unpack_pos in Hpos. fold L in Hpos.
      apply in_flat_map in Hpos as [lane [Hlane Hpos]]. apply in_map_iff in Hpos as [row [Hidx Hrow]].
      apply in_rows in Hlane. apply in_rows in Hrow. rewrite N2Nat.id in Hlane, Hrow.
      destruct (unpack_lane_ok lane Hlane) as [Hf Hs].
      rewrite <- (Nat2N.id n). rewrite <- Hidx.
      rewrite (scatter_nth out1 (unpack_writes T W packed) (fl_index row lane) (src lane row mod 2 ^ W)).
      + symmetry. exact (map_nth (fun x => x mod 2 ^ W) input 0 (N.to_nat (fl_index row lane))).
      + rewrite unpack_writes_fst. exact Hnd.
      + unfold unpack_writes. apply in_flat_map. exists lane. split; [apply in_rows; fold L; lia|].
        apply in_map_iff. exists (row, src lane row mod 2 ^ W). split; [reflexivity|].
        pose proof (in_pairs (unpack_lane T W (pk lane)) (N.to_nat T) (N.to_nat row) Hf ltac:(lia)) as H.
        rewrite N2Nat.id in H. fold (pk lane). rewrite Hs in H.
        rewrite nth_map_rows in H by lia. rewrite N2Nat.id in H. exact H.
      + rewrite Hidx, Nat2N.id. lia.
  Qed.
End Arrays.

(* ------------------------------------------------------------------ 5. unchecked_pack / unchecked_unpack *)
Lemma map_const_len {A} (c : N) (l1 l2 : list A) : length l1 = length l2 -> map (fun _ => c) l1 = map (fun _ => c) l2.
Proof.
  revert l2. induction l1 as [|x l1 IH]; intros [|y l2] H; try discriminate; [reflexivity|].
  cbn [map]. f_equal. apply IH. cbn [length] in H. lia.
Qed.

(* BitPacking::unchecked_unpack(W, unchecked_pack(W, v)) = v mod 2^W, all four types, all widths *)
Theorem fl_roundtrip_gen (T W : N) (input out0 out1 : list N) :
  In T types -> W <= T ->
  length input = 1024%nat -> Forall (fun x => x < 2 ^ T) input ->
  N.of_nat (length out0) = packed_len T W -> length out1 = 1024%nat ->
  exists packed,
    unchecked_pack T W input out0 = Ok packed /\
    N.of_nat (length packed) = packed_len T W /\
    unchecked_unpack T W packed out1 = Ok (map (fun x => x mod 2 ^ W) input).
Proof.
  intros HT HWT Hlen Hb Hout0 Hout1.
  assert (E1024 : N.of_nat 1024 = 1024) by reflexivity.
  unfold unchecked_pack. rewrite Hout0, N.eqb_refl, Hlen, E1024. cbn [negb].
  change (1024 =? 1024) with true. cbn [negb].
  replace (T <? W) with false by (symmetry; apply N.ltb_ge; exact HWT).
  destruct (N.eqb_spec W 0) as [->|HW0].
  - exists out0. split; [reflexivity|]. split; [exact Hout0|].
    unfold unchecked_unpack. rewrite Hout0, N.eqb_refl, Hout1, E1024. cbn [negb].
    change (1024 =? 1024) with true. cbn [negb].
    replace (T <? 0) with false by (symmetry; apply N.ltb_ge; lia). rewrite N.eqb_refl.
    f_equal. rewrite (map_const_len 0 out1 input) by lia. apply map_ext. intro x.
    rewrite N.pow_0_r. symmetry. apply N.mod_1_r.
  - assert (HW0' : 0 < W) by lia.
    set (packed := scatter out0 (pack_writes T W input)).
    assert (Hplen : N.of_nat (length packed) = packed_len T W).
    { unfold packed. rewrite scatter_length. exact Hout0. }
    exists packed. split; [reflexivity|]. split; [exact Hplen|].
    unfold unchecked_unpack. rewrite Hplen, N.eqb_refl, Hout1, E1024. cbn [negb].
    change (1024 =? 1024) with true. cbn [negb].
    replace (T <? W) with false by (symmetry; apply N.ltb_ge; exact HWT).
    destruct (N.eqb_spec W 0) as [E|_]; [lia|]. f_equal.
    apply (unpack_array T W HT HW0' HWT input Hlen Hb packed); [|exact Hout1].
    intros lane k Hlane Hk. unfold packed.
    apply (pack_array T W HT HW0' HWT input Hlen Hb out0); [|exact Hlane | exact Hk].
    rewrite Hout0. apply packed_len_spec. exact HT.
Qed.

Lemma map_mod_small (W : N) (l : list N) : Forall (fun x => x < 2 ^ W) l -> map (fun x => x mod 2 ^ W) l = l.
Proof.
  intro H. rewrite <- (map_id l) at 2. apply map_ext_in. intros x Hx. apply N.mod_small.
  rewrite Forall_forall in H. apply H. exact Hx.
Qed.

Theorem fl_roundtrip (T W : N) (input out0 out1 : list N) :
  In T types -> W <= T ->
  length input = 1024%nat -> Forall (fun x => x < 2 ^ W) input ->
  N.of_nat (length out0) = packed_len T W -> length out1 = 1024%nat ->
  exists packed,
    unchecked_pack T W input out0 = Ok packed /\
    N.of_nat (length packed) = packed_len T W /\
    unchecked_unpack T W packed out1 = Ok input.
Proof.
  intros HT HWT Hlen Hb Hout0 Hout1.
  assert (HbT : Forall (fun x => x < 2 ^ T) input).
  { eapply Forall_impl; [|exact Hb]. cbn beta. intros x Hx.
    apply N.lt_le_trans with (2 ^ W); [exact Hx | apply pow2_le; exact HWT]. }
  destruct (fl_roundtrip_gen T W input out0 out1 HT HWT Hlen HbT Hout0 Hout1) as (packed & H1 & H2 & H3).
  exists packed. rewrite map_mod_small in H3 by exact Hb. repeat split; assumption.
Qed.

(* the lane-level statement holds for every word size T, not only the four instantiated ones *)
Theorem fl_lane_roundtrip_allT (T W : N) (vals : N -> N) :
  0 < W -> W <= T -> (forall r, vals r < 2 ^ W) ->
  let words := map snd (pack_lane T W vals) in
  length words = N.to_nat W /\
  Forall (fun w => w < 2 ^ T) words /\
  unpack_lane T W (fun k => nth (N.to_nat k) words 0) = map (fun r => (r, vals r)) (rows (N.to_nat T)).
Proof.
  intros HW0 HWT Hv.
  assert (HvT : forall r, vals r < 2 ^ T).
  { intro r. apply N.lt_le_trans with (2 ^ W); [apply Hv | apply pow2_le; exact HWT]. }
  destruct (pack_lane_sum T W vals HW0 HWT HvT) as (Hf & Hw & _).
  destruct (lane_roundtrip T W vals (fun k => nth (N.to_nat k) (map snd (pack_lane T W vals)) 0) HW0 HWT HvT
              (fun k _ => eq_refl)) as [H1 H2].
  cbn zeta. repeat split.
  - rewrite map_length, <- (map_length fst), Hf. apply rows_length.
  - exact Hw.
  - set (outs := unpack_lane T W _) in *.
    assert (E : outs = combine (map fst outs) (map snd outs)).
    { clear. induction outs as [|[a b] l IH]; cbn [map combine fst snd]; [reflexivity | f_equal; exact IH]. }
    rewrite E, H1, H2. clear - Hv.
    induction (rows (N.to_nat T)) as [|r l IH]; cbn [map combine]; [reflexivity|].
    rewrite IH. f_equal. f_equal. apply N.mod_small. apply Hv.
Qed.
