(* Proofs about the FastLanes model (Codec/Model_FastLanes.v).
   Structure (DESIGN.md Appendix A):
     1. positional numbers: val b ds = sum ds_i * b^i, digit extraction, injectivity
     2. bit-level facts (testbit calculus for mod/div/mul by powers of two; lor = add on disjoint bits)
     3. one lane: pack_lane emits the base-2^T digits of the number whose base-2^W digits are the
        (masked) values; unpack_lane emits the base-2^W digits of the number whose base-2^T digits are the words
     4. scatter/gather over the 1024-element arrays; the index maps are injective and onto [0,1024)
        (finite: computed for the four types)
     5. unchecked_unpack (unchecked_pack v) = v mod 2^W *)
From LanceV Require Import Common.Base Codec.Model_FastLanes.
Local Open Scope N_scope.

(* ------------------------------------------------------------------ 0. small helpers *)
Lemma pow2_pos (n : N) : 0 < 2 ^ n.
Proof. apply N.neq_0_lt_0. apply N.pow_nonzero. discriminate. Qed.

Lemma pow2_ne0 (n : N) : 2 ^ n <> 0.
Proof. apply N.pow_nonzero. discriminate. Qed.

Lemma pow2_split (a b : N) : a <= b -> 2 ^ b = 2 ^ a * 2 ^ (b - a).
Proof. intro H. rewrite <- N.pow_add_r. f_equal. lia. Qed.

Lemma pow2_le (a b : N) : a <= b -> 2 ^ a <= 2 ^ b.
Proof. intro H. apply N.pow_le_mono_r; [discriminate | exact H]. Qed.

Lemma pow2_lt (a b : N) : a < b -> 2 ^ a < 2 ^ b.
Proof. intro H. apply N.pow_lt_mono_r; [reflexivity | exact H]. Qed.

Lemma shiftl1 (n : N) : N.shiftl 1 n = 2 ^ n.
Proof. rewrite N.shiftl_mul_pow2. apply N.mul_1_l. Qed.

Lemma ones_pred (n : N) : N.shiftl 1 n - 1 = N.ones n.
Proof. unfold N.ones. rewrite N.pred_sub. reflexivity. Qed.

Lemma land_mask (x n : N) : N.land x (N.shiftl 1 n - 1) = x mod 2 ^ n.
Proof. rewrite ones_pred. apply N.land_ones. Qed.

Lemma trunc_mod (T x : N) : trunc T x = x mod 2 ^ T.
Proof. apply N.land_ones. Qed.

Lemma mod_lt2 (x n : N) : x mod 2 ^ n < 2 ^ n.
Proof. apply N.mod_lt. apply pow2_ne0. Qed.

(* ------------------------------------------------------------------ 1. positional numbers *)
Fixpoint val (b : N) (ds : list N) : N :=
  match ds with
  | [] => 0
  | d :: r => d + b * val b r
  end.

Lemma val_app (b : N) (l1 l2 : list N) :
  val b (l1 ++ l2) = val b l1 + b ^ N.of_nat (length l1) * val b l2.
Proof.
  induction l1 as [|d l1 IH]; cbn [val app length].
  - change (N.of_nat 0) with 0. rewrite N.pow_0_r. lia.
  - rewrite IH. rewrite Nat2N.inj_succ, N.pow_succ_r'. lia.
Qed.

Lemma val_snoc (b : N) (l : list N) (d : N) :
  val b (l ++ [d]) = val b l + b ^ N.of_nat (length l) * d.
Proof. rewrite val_app. cbn [val]. f_equal. lia. Qed.

Lemma val_bound (b : N) (ds : list N) :
  Forall (fun d => d < b) ds -> val b ds < b ^ N.of_nat (length ds).
Proof.
  induction 1 as [|d ds Hd _ IH]; cbn [val length].
  - change (N.of_nat 0) with 0. rewrite N.pow_0_r. lia.
  - rewrite Nat2N.inj_succ, N.pow_succ_r'. nia.
Qed.

(* two digit lists of the same length over the same base with the same value are equal *)
Lemma val_inj (b : N) (l1 l2 : list N) :
  length l1 = length l2 ->
  Forall (fun d => d < b) l1 -> Forall (fun d => d < b) l2 ->
  val b l1 = val b l2 -> l1 = l2.
Proof.
  revert l2. induction l1 as [|d1 l1 IH]; intros [|d2 l2] Hlen H1 H2 Hv; try discriminate; [reflexivity|].
  inversion H1 as [|? ? Hd1 H1']; subst. inversion H2 as [|? ? Hd2 H2']; subst.
  cbn [val] in Hv. cbn [length] in Hlen.
  assert (Hb : b <> 0) by lia.
  assert (Hd : d1 = d2).
  { assert (E1 : (d1 + b * val b l1) mod b = d1).
    { rewrite N.mul_comm, N.mod_add by exact Hb. apply N.mod_small. exact Hd1. }
    assert (E2 : (d2 + b * val b l2) mod b = d2).
    { rewrite N.mul_comm, N.mod_add by exact Hb. apply N.mod_small. exact Hd2. }
    rewrite Hv in E1. rewrite E1 in E2. exact E2. }
  subst d2. f_equal. apply IH; [lia | exact H1' | exact H2' |].
  assert (E : b * val b l1 = b * val b l2) by lia.
  apply N.mul_cancel_l in E; [exact E | exact Hb].
Qed.

(* ------------------------------------------------------------------ 2. bit-level facts *)
Lemma tb_mod (a n i : N) : N.testbit (a mod 2 ^ n) i = (i <? n) && N.testbit a i.
Proof.
  destruct (N.ltb_spec i n) as [H|H].
  - rewrite N.mod_pow2_bits_low by exact H. reflexivity.
  - rewrite N.mod_pow2_bits_high by exact H. reflexivity.
Qed.

Lemma tb_div (a n i : N) : N.testbit (a / 2 ^ n) i = N.testbit a (i + n).
Proof. apply N.div_pow2_bits. Qed.

Lemma tb_mul (a n i : N) : N.testbit (a * 2 ^ n) i = (n <=? i) && N.testbit a (i - n).
Proof.
  destruct (N.leb_spec n i) as [H|H].
  - replace i with ((i - n) + n) at 1 by lia. rewrite N.mul_pow2_bits_add. reflexivity.
  - rewrite N.mul_pow2_bits_low by exact H. reflexivity.
Qed.

Ltac tb_norm :=
  repeat first [ rewrite tb_mod | rewrite tb_div | rewrite tb_mul | rewrite N.lor_spec | rewrite N.land_spec ].

Ltac tb_cases :=
  repeat match goal with
         | |- context [?a <? ?b] => destruct (N.ltb_spec a b)
         | |- context [?a <=? ?b] => destruct (N.leb_spec a b)
         end;
  cbn [andb orb]; try reflexivity; try lia;
  repeat rewrite Bool.orb_false_r; repeat rewrite Bool.andb_true_r;
  try reflexivity; try lia; try (f_equal; lia).

(* lor is addition when the bits are disjoint: a below bit s, b a multiple of 2^s *)
Lemma lor_disjoint_add (a b s : N) : a < 2 ^ s -> N.lor a (b * 2 ^ s) = a + b * 2 ^ s.
Proof.
  intro Ha.
  assert (Hl : N.land a (b * 2 ^ s) = 0).
  { apply N.bits_inj_0. intro i. rewrite N.land_spec.
    rewrite <- (N.mod_small a (2 ^ s)) by exact Ha. tb_norm. tb_cases. }
  rewrite (N.add_nocarry_lxor _ _ Hl). symmetry. apply N.lxor_lor. exact Hl.
Qed.
