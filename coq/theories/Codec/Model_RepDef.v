(* Model of rust/lance-encoding/src/repdef.rs (RepDefBuilder, SerializerContext, RepDefUnraveler,
   CompositeRepDefUnraveler, RepDefSlicer, control word iterator / parser).
   Executable definitions only (+ the chk_* correspondence checkers at the end).

   Conventions: levels, offsets and bytes are [N]; lengths / counters are [nat].
   Level buffers are lists of the allocated length (total_len); the write iterators of the Rust code
   are reversed accumulators that are committed over the spare buffer ([commit]); read iterators are
   lists whose exhaustion is [Panic] (the Rust [unwrap] on [None]).  The model follows the debug build
   (debug_assert and overflow checks panic).  u16 arithmetic on levels is modelled in N without wrap:
   exact as long as the stack needs fewer than 32767 definition levels (hypothesis of the theorems). *)
From LanceV Require Import Common.Base.
Local Open Scope N_scope.

Definition SPECIAL_THRESHOLD : N := 32767.
Definition is_special (d : N) : bool := SPECIAL_THRESHOLD <? d.

(* ---------------------------------------------------------------------------------------------- *)
(* outcome monad                                                                                    *)
Definition bind {A B} (x : outcome A) (f : A -> outcome B) : outcome B :=
  match x with Ok a => f a | Err => Err | Panic => Panic end.
Notation "'do' x <- e ; k" := (bind e (fun x => k)) (at level 200, x name, e at level 100, k at level 200).
Notation "'do' ' p <- e ; k" := (bind e (fun p => k)) (at level 200, p pattern, e at level 100, k at level 200).
Definition assert_ (b : bool) : outcome unit := if b then Ok tt else Panic.

(* ---------------------------------------------------------------------------------------------- *)
(* DefinitionInterpretation                                                                         *)
Inductive meaning := AllValidItem | AllValidList | NullableItem | NullableList | EmptyableList | NullableAndEmptyableList.

Definition num_def_levels (m : meaning) : N :=
  match m with
  | AllValidItem => 0 | AllValidList => 0 | NullableItem => 1 | NullableList => 1 | EmptyableList => 1
  | NullableAndEmptyableList => 2
  end.
Definition m_is_all_valid (m : meaning) : bool :=
  match m with AllValidItem | AllValidList | EmptyableList => true | _ => false end.
Definition m_is_list (m : meaning) : bool :=
  match m with AllValidList | NullableList | EmptyableList | NullableAndEmptyableList => true | _ => false end.
Definition meaning_eqb (a b : meaning) : bool :=
  match a, b with
  | AllValidItem, AllValidItem | AllValidList, AllValidList | NullableItem, NullableItem
  | NullableList, NullableList | EmptyableList, EmptyableList
  | NullableAndEmptyableList, NullableAndEmptyableList => true
  | _, _ => false
  end.

(* ---------------------------------------------------------------------------------------------- *)
(* RawRepDef                                                                                        *)
Inductive raw :=
| ROffsets (offsets : list N) (validity : option (list bool)) (has_empty : bool) (num_values num_specials : nat)
| RValidity (validity : option (list bool)) (num_values : nat)
| RFsl (validity : option (list bool)) (dimension num_values : nat).

Definition is_some {A} (o : option A) : bool := match o with Some _ => true | None => false end.

Definition raw_has_nulls (r : raw) : bool :=
  match r with ROffsets _ v _ _ _ => is_some v | RValidity v _ => is_some v | RFsl v _ _ => is_some v end.
Definition raw_num_values (r : raw) : nat :=
  match r with ROffsets _ _ _ n _ => n | RValidity _ n => n | RFsl _ _ n => n end.
Definition raw_num_specials (r : raw) : nat :=
  match r with ROffsets _ _ _ _ s => s | _ => O end.
Definition raw_max_def (r : raw) : N :=
  match r with
  | ROffsets _ v he _ _ => (if he then 1 else 0) + (if is_some v then 1 else 0)
  | RValidity None _ => 0 | RValidity _ _ => 1
  | RFsl None _ _ => 0 | RFsl _ _ _ => 1
  end.
Definition raw_max_rep (r : raw) : N := match r with ROffsets _ _ _ _ _ => 1 | _ => 0 end.

(* ---------------------------------------------------------------------------------------------- *)
(* RepDefBuilder: the public calls                                                                  *)
Inductive call :=
| CValidity (v : list bool)                              (* add_validity_bitmap *)
| CNoNull (n : nat)                                      (* add_no_null *)
| COffsets (offs : list N) (v : option (list bool))      (* add_offsets (i32 or i64) *)
| CFsl (v : option (list bool)) (dim n : nat).           (* add_fsl *)

Record builder := { b_repdefs : list raw; b_len : option nat }.
Definition builder_default : builder := {| b_repdefs := []; b_len := None |}.

Definition check_validity_len (b : builder) (incoming : nat) : outcome (option nat) :=
  match b_len b with
  | Some len => if Nat.eqb incoming len then Ok (Some len) else Panic
  | None => Ok (Some incoming)
  end.

(* lengths of consecutive offsets: windows(2).map(|w| w[1] - w[0]) (offset buffers are monotone) *)
Fixpoint windows_len (offs : list N) : list N :=
  match offs with
  | a :: ((b :: _) as t) => (b - a) :: windows_len t
  | _ => []
  end.

(* do_add_offsets: the two loops.  State (num_specials, has_empty, has_garbage, last_off, rev normalized) *)
Fixpoint add_offs_valid (lens : list N) (vs : list bool) (sp : nat) (he hg : bool) (last : N) (acc : list N)
  : nat * bool * bool * N * list N :=
  match lens, vs with
  | len :: lens', isv :: vs' =>
      match isv, (len =? 0) with
      | false, is_empty => add_offs_valid lens' vs' (S sp) he (hg || negb is_empty) last (last :: acc)
      | true, true => add_offs_valid lens' vs' (S sp) true hg last (last :: acc)
      | true, false => add_offs_valid lens' vs' sp he hg (last + len) ((last + len) :: acc)
      end
  | _, _ => (sp, he, hg, last, acc)
  end.
Fixpoint add_offs_novalid (lens : list N) (sp : nat) (he : bool) (last : N) (acc : list N) : nat * bool * N * list N :=
  match lens with
  | len :: lens' =>
      if len =? 0 then add_offs_novalid lens' (S sp) true (last + len) ((last + len) :: acc)
      else add_offs_novalid lens' sp he (last + len) ((last + len) :: acc)
  | [] => (sp, he, last, acc)
  end.

(* returns the new builder and has_garbage_values *)
Definition add_offsets (b : builder) (offs : list N) (v : option (list bool)) : outcome (builder * bool) :=
  let lens := windows_len offs in
  let '(sp, he, hg, norm) :=
    match v with
    | Some vs => let '(sp, he, hg, _, acc) := add_offs_valid lens vs O false false 0 [0] in (sp, he, hg, rev acc)
    | None => let '(sp, he, _, acc) := add_offs_novalid lens O false 0 [0] in (sp, he, false, rev acc)
    end in
  (* check_offset_len *)
  do _ <- match b_len b with Some len => assert_ (Nat.eqb (length norm) (len + 1)) | None => Ok tt end;
  let newlen := N.to_nat (last norm 0) in
  Ok ({| b_repdefs := b_repdefs b ++ [ROffsets norm v he (length norm - 1) sp]; b_len := Some newlen |}, hg).

Definition apply_call (b : builder) (c : call) : outcome (builder * bool) :=
  match c with
  | CValidity v =>
      do l <- check_validity_len b (length v);
      Ok ({| b_repdefs := b_repdefs b ++ [RValidity (Some v) (length v)]; b_len := l |}, false)
  | CNoNull n =>
      do l <- check_validity_len b n;
      Ok ({| b_repdefs := b_repdefs b ++ [RValidity None n]; b_len := l |}, false)
  | COffsets offs v => add_offsets b offs v
  | CFsl v dim n =>
      do _ <- match b_len b with Some len => assert_ (Nat.eqb n len) | None => Ok tt end;
      do _ <- match v with Some vs => assert_ (Nat.eqb (length vs) n) | None => Ok tt end;   (* debug_assert *)
      Ok ({| b_repdefs := b_repdefs b ++ [RFsl v dim n]; b_len := Some (n * dim)%nat |}, false)
  end.

(* run a sequence of calls on a fresh builder; also returns the has_garbage flags of the calls *)
Fixpoint apply_calls (b : builder) (cs : list call) (flags : list bool) : outcome (builder * list bool) :=
  match cs with
  | [] => Ok (b, rev flags)
  | c :: cs' => do '(b', g) <- apply_call b c; apply_calls b' cs' (g :: flags)
  end.
Definition build_builder (cs : list call) : outcome (builder * list bool) := apply_calls builder_default cs [].

Definition builder_is_empty (b : builder) : bool :=
  forallb (fun r => match r with RValidity None _ => true | _ => false end) (b_repdefs b).

(* ---------------------------------------------------------------------------------------------- *)
(* concat_layers                                                                                    *)
Inductive layer_kind := KValidity | KFsl | KOffsets.

Definition concat_layers (layers : list raw) : raw :=
  (* first pass *)
  let has_nulls := existsb raw_has_nulls layers in
  let kind := fold_left (fun k l => match l with RValidity _ _ => KValidity | ROffsets _ _ _ _ _ => KOffsets | RFsl _ _ _ => KFsl end) layers KValidity in
  let total_specials := fold_left (fun s l => (s + raw_num_specials l)%nat) layers O in
  let all_dimension := fold_left (fun d l => match l with RFsl _ dim _ => dim | _ => d end) layers O in
  let all_has_empty := existsb (fun l => match l with ROffsets _ _ he _ _ => he | _ => false end) layers in
  let all_num_values := fold_left (fun s l => (s + raw_num_values l)%nat) layers O in
  let shortcut :=
    if has_nulls then None
    else match kind with
         | KValidity => Some (RValidity None all_num_values)
         | KFsl => Some (RFsl None all_dimension all_num_values)
         | KOffsets => None
         end in
  match shortcut with
  | Some r => r
  | None =>
      (* second pass: (validity bits, offsets) *)
      let step (st : list bool * list N) (l : raw) : list bool * list N :=
        let '(vb, offs) := st in
        match l with
        | RValidity (Some v) _ => (vb ++ v, offs)
        | RValidity None n => (vb ++ repeat true n, offs)
        | RFsl (Some v) _ _ => (vb ++ v, offs)
        | RFsl None _ n => (vb ++ repeat true n, offs)
        | ROffsets o (Some v) _ _ _ =>
            let lastv := last offs 0 in (vb ++ v, offs ++ map (fun x => x + lastv) (tl o))
        | ROffsets o None _ n _ =>
            let lastv := last offs 0 in
            ((if has_nulls then vb ++ repeat true n else vb), offs ++ map (fun x => x + lastv) (tl o))
        end in
      let init_offs := match kind with KOffsets => [0] | _ => [] end in
      let '(vb, offs) := fold_left step layers ([], init_offs) in
      let validity := if has_nulls then Some vb else None in
      match kind with
      | KFsl => RFsl validity all_dimension all_num_values
      | KValidity => RValidity validity all_num_values
      | KOffsets => ROffsets offs validity all_has_empty all_num_values total_specials
      end
  end.

(* ---------------------------------------------------------------------------------------------- *)
(* SerializerContext                                                                                *)
Record ctx := {
  c_meaning : list meaning;       (* outer-to-inner, reversed by build *)
  c_rep : list N; c_srep : list N;
  c_def : list N; c_sdef : list N;
  c_cur_rep : N; c_cur_def : N;
  c_len : nat; c_specials : nat }.

Definition zeros (n : nat) : list N := repeat 0 n.
Definition is_nil {A} (l : list A) : bool := match l with [] => true | _ => false end.

Definition ctx_new (len : nat) (max_rep max_def : N) : ctx :=
  {| c_meaning := [];
     c_rep := if 0 <? max_rep then zeros len else [];
     c_srep := if 0 <? max_rep then zeros len else [];
     c_def := if 0 <? max_def then zeros len else [];
     c_sdef := if 0 <? max_def then zeros len else [];
     c_cur_rep := max_rep; c_cur_def := max_def; c_len := O; c_specials := O |}.

(* write iterator over the spare buffer: [w] is the reversed list of written values *)
Definition commit (w : list N) (spare : list N) : outcome (list N) :=
  if Nat.leb (length w) (length spare) then Ok (rev w ++ skipn (length w) spare) else Panic.

Definition checkout_def (c : ctx) (m : meaning) : ctx * N :=
  ({| c_meaning := c_meaning c ++ [m]; c_rep := c_rep c; c_srep := c_srep c; c_def := c_def c; c_sdef := c_sdef c;
      c_cur_rep := c_cur_rep c; c_cur_def := c_cur_def c - num_def_levels m; c_len := c_len c; c_specials := c_specials c |},
   c_cur_def c).

(* let mut def = read.next().unwrap(); while def > T { write(def); def = read.next().unwrap(); passed += 1 } *)
Fixpoint skip_def (dr : list N) (w : list N) (passed : nat) : outcome (N * list N * list N * nat) :=
  match dr with
  | [] => Panic
  | d :: dr' => if is_special d then skip_def dr' (d :: w) (S passed) else Ok (d, dr', w, passed)
  end.

(* while passed < to_pass { write(read.next().unwrap()); passed += 1 } *)
Fixpoint copy_n (n : nat) (r : list N) (w : list N) : outcome (list N * list N) :=
  match n with
  | O => Ok (r, w)
  | S n' => match r with [] => Panic | x :: r' => copy_n n' r' (x :: w) end
  end.

Fixpoint drv_loop (vs : list bool) (nl : N) (dr w : list N) (passed : nat) : outcome (list N * list N * nat) :=
  match vs with
  | [] => Ok (dr, w, passed)
  | v :: vs' =>
      do '(d, dr', w', passed') <- skip_def dr w passed;
      let out := if (d =? 0) && negb v then nl else d in
      drv_loop vs' nl dr' (out :: w') passed'
  end.

Definition do_record_validity (c : ctx) (v : list bool) (nl : N) : outcome ctx :=
  do _ <- assert_ (Nat.leb (length v + c_specials c) (length (c_def c)));
  do _ <- assert_ (Nat.eqb (c_len c) 0 || Nat.eqb (c_len c) (length v + c_specials c));   (* debug_assert, repdef.rs:626 *)
  do '(dr, w, passed) <- drv_loop v nl (c_def c) [] O;
  do '(_, w') <- copy_n (c_specials c - passed) dr w;
  do nd <- commit w' (c_sdef c);
  Ok {| c_meaning := c_meaning c; c_rep := c_rep c; c_srep := c_srep c; c_def := nd; c_sdef := c_def c;
        c_cur_rep := c_cur_rep c; c_cur_def := c_cur_def c; c_len := (length v + c_specials c)%nat; c_specials := c_specials c |}.

(* for _ in 1..len { write 0 } *)
Definition push_zeros (k : N) (w : list N) : list N := zeros (N.to_nat (k - 1)) ++ w.

(* record_offsets, branch without def levels *)
Fixpoint ro_nodef (lens : list N) (rl : N) (rr w : list N) (new_len : nat) : outcome (list N * nat) :=
  match lens with
  | [] => Ok (w, new_len)
  | len :: lens' =>
      if len =? 0 then Panic     (* assert!(len > 0) *)
      else match rr with
           | [] => Panic
           | rep :: rr' =>
               let ll := if rep =? 0 then rl else rep in
               ro_nodef lens' rl rr' (push_zeros len (ll :: w)) (new_len + N.to_nat len)
           end
  end.

(* copy higher-level specials: both def and rep *)
Fixpoint skip_both (dr rr dw rw : list N) (new_len passed : nat)
  : outcome (N * list N * list N * list N * list N * nat * nat) :=
  match dr with
  | [] => Panic
  | d :: dr' =>
      if is_special d then
        match rr with
        | [] => Panic
        | r :: rr' => skip_both dr' rr' (d :: dw) (r :: rw) (S new_len) (S passed)
        end
      else Ok (d, dr', rr, dw, rw, new_len, passed)
  end.

Fixpoint ro_def (lens : list N) (rl el : N) (dr rr dw rw : list N) (new_len passed : nat)
  : outcome (list N * list N * list N * list N * nat * nat) :=
  match lens with
  | [] => Ok (dr, rr, dw, rw, new_len, passed)
  | len :: lens' =>
      do '(d, dr1, rr1, dw1, rw1, nl1, p1) <- skip_both dr rr dw rw new_len passed;
      match rr1 with
      | [] => Panic
      | rep :: rr2 =>
          let ll := if rep =? 0 then rl else rep in
          if (d =? 0) && (0 <? len) then
            ro_def lens' rl el dr1 rr2 (push_zeros len (0 :: dw1)) (push_zeros len (ll :: rw1)) (nl1 + N.to_nat len) p1
          else if d =? 0 then
            ro_def lens' rl el dr1 rr2 ((el + SPECIAL_THRESHOLD) :: dw1) (ll :: rw1) (S nl1) p1
          else
            ro_def lens' rl el dr1 rr2 ((d + SPECIAL_THRESHOLD) :: dw1) (ll :: rw1) (S nl1) p1
      end
  end.

Fixpoint copy_both (n : nat) (dr rr dw rw : list N) : outcome (list N * list N) :=
  match n with
  | O => Ok (dw, rw)
  | S n' => match dr, rr with
            | d :: dr', r :: rr' => copy_both n' dr' rr' (d :: dw) (r :: rw)
            | _, _ => Panic
            end
  end.

Definition set_bufs (c : ctx) (rep srep def sdef : list N) (len sp : nat) : ctx :=
  {| c_meaning := c_meaning c; c_rep := rep; c_srep := srep; c_def := def; c_sdef := sdef;
     c_cur_rep := c_cur_rep c; c_cur_def := c_cur_def c; c_len := len; c_specials := sp |}.

Definition record_offsets (c : ctx) (offsets : list N) (validity : option (list bool)) (has_empty : bool)
           (num_values num_specials : nat) : outcome ctx :=
  let rl := c_cur_rep c in
  let '(c1, nl, el) :=
    match is_some validity, has_empty with
    | true, true => let '(c', level) := checkout_def c NullableAndEmptyableList in (c', level - 1, level)
    | true, false => let '(c', level) := checkout_def c NullableList in (c', level, 0)
    | false, true => let '(c', level) := checkout_def c EmptyableList in (c', 0, level)
    | false, false => let '(c', _) := checkout_def c AllValidList in (c', 0, 0)
    end in
  let c2 := {| c_meaning := c_meaning c1; c_rep := c_rep c1; c_srep := c_srep c1; c_def := c_def c1; c_sdef := c_sdef c1;
               c_cur_rep := c_cur_rep c1 - 1; c_cur_def := c_cur_def c1; c_len := c_len c1; c_specials := c_specials c1 |} in
  do c3 <- match validity with Some v => do_record_validity c2 v nl | None => Ok c2 end;
  let lens := windows_len offsets in
  (* (num_values + specials) - 1 : usize subtraction *)
  do _ <- assert_ (negb (Nat.eqb (num_values + c_specials c3) 0));
  do _ <- assert_ (Nat.leb (num_values + c_specials c3 - 1) (length (c_rep c3)));
  if is_nil (c_def c3) then
    do '(w, new_len) <- ro_nodef lens rl (c_rep c3) [] O;
    do nr <- commit w (c_srep c3);
    Ok (set_bufs c3 nr (c_rep c3) (c_def c3) (c_sdef c3) new_len (c_specials c3 + num_specials))
  else
    do _ <- assert_ (Nat.leb (num_values + c_specials c3 - 1) (length (c_def c3)));
    do '(dr, rr, dw, rw, new_len, passed) <- ro_def lens rl el (c_def c3) (c_rep c3) [] [] O O;
    do '(dw', rw') <- copy_both (c_specials c3 - passed) dr rr dw rw;
    let new_len' := (new_len + (c_specials c3 - passed))%nat in
    do nd <- commit dw' (c_sdef c3);
    do nr <- commit rw' (c_srep c3);
    Ok (set_bufs c3 nr (c_rep c3) nd (c_def c3) new_len' (c_specials c3 + num_specials)).

(* multiply_levels *)
Fixpoint skip_def_only (dr w : list N) : outcome (N * list N * list N) :=
  match dr with
  | [] => Panic
  | d :: dr' => if is_special d then skip_def_only dr' (d :: w) else Ok (d, dr', w)
  end.
Fixpoint mul_def (n : nat) (m : nat) (dr w : list N) : outcome (list N) :=
  match n with
  | O => Ok w
  | S n' => do '(d, dr', w') <- skip_def_only dr w; mul_def n' m dr' (repeat d m ++ w')
  end.
Fixpoint mul_rep (n : nat) (m : nat) (rr w : list N) : outcome (list N) :=
  match n with
  | O => Ok w
  | S n' => match rr with [] => Panic | r :: rr' => mul_rep n' m rr' (repeat r m ++ w) end
  end.
Fixpoint skip_both_m (dr rr dw rw : list N) : outcome (N * list N * list N * list N * list N) :=
  match dr with
  | [] => Panic
  | d :: dr' =>
      if is_special d then
        match rr with [] => Panic | r :: rr' => skip_both_m dr' rr' (d :: dw) (r :: rw) end
      else Ok (d, dr', rr, dw, rw)
  end.
Fixpoint mul_both (n : nat) (m : nat) (dr rr dw rw : list N) : outcome (list N * list N) :=
  match n with
  | O => Ok (dw, rw)
  | S n' =>
      do '(d, dr1, rr1, dw1, rw1) <- skip_both_m dr rr dw rw;
      match rr1 with
      | [] => Panic
      | r :: rr2 => mul_both n' m dr1 rr2 (repeat d m ++ dw1) (repeat r m ++ rw1)
      end
  end.

Definition multiply_levels (c : ctx) (m : nat) : outcome ctx :=
  let old_len := c_len c in
  do _ <- assert_ (Nat.leb (c_specials c) (c_len c));       (* usize underflow of current_len - specials *)
  let new_len := ((c_len c - c_specials c) * m + c_specials c)%nat in
  if is_nil (c_rep c) && is_nil (c_def c) then
    Ok (set_bufs c (c_rep c) (c_srep c) (c_def c) (c_sdef c) new_len (c_specials c))
  else if is_nil (c_rep c) then
    do _ <- assert_ (Nat.leb new_len (length (c_def c)));
    do w <- mul_def old_len m (c_def c) [];
    do nd <- commit w (c_sdef c);
    Ok (set_bufs c (c_srep c) (c_rep c) nd (c_def c) new_len (c_specials c))
  else if is_nil (c_def c) then
    do _ <- assert_ (Nat.leb new_len (length (c_rep c)));
    do w <- mul_rep old_len m (c_rep c) [];
    do nr <- commit w (c_srep c);
    Ok (set_bufs c nr (c_rep c) (c_sdef c) (c_def c) new_len (c_specials c))
  else
    do _ <- assert_ (Nat.leb new_len (length (c_rep c)));
    do _ <- assert_ (Nat.leb new_len (length (c_def c)));
    do '(dw, rw) <- mul_both old_len m (c_def c) (c_rep c) [] [];
    do nd <- commit dw (c_sdef c);
    do nr <- commit rw (c_srep c);
    Ok (set_bufs c nr (c_rep c) nd (c_def c) new_len (c_specials c)).

Definition record_validity_buf (c : ctx) (v : option (list bool)) : outcome ctx :=
  match v with
  | Some vs => let '(c', level) := checkout_def c NullableItem in do_record_validity c' vs level
  | None => Ok (fst (checkout_def c AllValidItem))
  end.

Definition record_fsl (c : ctx) (v : option (list bool)) (dim : nat) : outcome ctx :=
  do c' <- record_validity_buf c v; multiply_levels c' dim.

Definition record_layer (c : ctx) (r : raw) : outcome ctx :=
  match r with
  | RValidity v _ => record_validity_buf c v
  | ROffsets o v he n s => record_offsets c o v he n s
  | RFsl v dim _ => record_fsl c v dim
  end.

Fixpoint record_layers (c : ctx) (rs : list raw) : outcome ctx :=
  match rs with
  | [] => Ok c
  | r :: rs' => do c' <- record_layer c r; record_layers c' rs'
  end.

(* SerializedRepDefs: (rep, def, def_meaning, max_visible_level) *)
Definition serialized := (option (list N) * option (list N) * list meaning * option N)%type.

Fixpoint first_list_pos (ms : list meaning) : option nat :=
  match ms with
  | [] => None
  | m :: ms' => if m_is_list m then Some O else option_map S (first_list_pos ms')
  end.
Definition sum_levels (ms : list meaning) : N := fold_left (fun s m => s + num_def_levels m) ms 0.
Definition max_visible_level (ms : list meaning) : option N :=
  option_map (fun k => sum_levels (firstn k ms)) (first_list_pos ms).

Definition serialized_new (rep def : option (list N)) (ms : list meaning) : serialized :=
  (rep, def, ms, max_visible_level ms).

Definition normalize_specials (def : list N) : list N :=
  map (fun d => if is_special d then d - SPECIAL_THRESHOLD else d) def.

Definition ctx_build (c : ctx) : serialized :=
  if Nat.eqb (c_len c) 0 then serialized_new None None (c_meaning c)
  else
    let def := normalize_specials (c_def c) in
    serialized_new (if is_nil (c_rep c) then None else Some (c_rep c))
                   (if is_nil def then None else Some def)
                   (rev (c_meaning c)).

Definition sumN (l : list N) : N := fold_left N.add l 0.
Definition sumnat (l : list nat) : nat := fold_left Nat.add l O.

(* RepDefBuilder::serialize(builders) *)
Definition serialize (bs : list builder) : outcome serialized :=
  match bs with
  | [] => Panic
  | b0 :: _ =>
      if forallb builder_is_empty bs then
        Ok (None, None, map (fun _ => AllValidItem) (b_repdefs b0), None)
      else
        let num_layers := length (b_repdefs b0) in
        (* builders.iter().map(|b| &b.repdefs[layer_index]) : index panic if a builder is shorter *)
        let column (i : nat) : outcome (list raw) :=
          fold_right (fun b acc => do t <- acc; match nth_error (b_repdefs b) i with Some r => Ok (r :: t) | None => Panic end)
                     (Ok []) bs in
        do combined <- fold_right (fun i acc => do t <- acc; do col <- column i; Ok (concat_layers col :: t))
                                  (Ok []) (seq 0 num_layers);
        do _ <- assert_ (forallb (fun b => Nat.eqb (length (b_repdefs b)) num_layers) bs);   (* debug_assert *)
        match rev combined with
        | [] => Panic                                      (* combined_layers.last().unwrap() *)
        | lastl :: _ =>
            let total_len := (raw_num_values lastl + sumnat (map raw_num_specials combined))%nat in
            let max_rep := sumN (map raw_max_rep combined) in
            let max_def := sumN (map raw_max_def combined) in
            do c <- record_layers (ctx_new total_len max_rep max_def) combined;
            Ok (ctx_build c)
        end
  end.

(* builders given as call sequences *)
Fixpoint build_all (css : list (list call)) : outcome (list builder) :=
  match css with
  | [] => Ok []
  | cs :: t => do '(b, _) <- build_builder cs; do bs <- build_all t; Ok (b :: bs)
  end.
Definition serialize_calls (css : list (list call)) : outcome serialized :=
  do bs <- build_all css; serialize bs.

(* ---------------------------------------------------------------------------------------------- *)
(* RepDefUnraveler                                                                                  *)
Record unr := {
  u_rep : option (list N); u_def : option (list N);
  u_l2r : list N; u_meaning : list meaning;
  u_cdc : N; u_crc : N; u_layer : nat; u_items : nat }.

Fixpoint levels_to_rep_aux (ms : list meaning) (rc : N) : list N :=
  match ms with
  | [] => []
  | m :: ms' =>
      match m with
      | AllValidItem | AllValidList => levels_to_rep_aux ms' rc
      | NullableItem => rc :: levels_to_rep_aux ms' rc
      | NullableList | EmptyableList => (rc + 1) :: levels_to_rep_aux ms' (rc + 1)
      | NullableAndEmptyableList => (rc + 1) :: (rc + 1) :: levels_to_rep_aux ms' (rc + 1)
      end
  end.
Definition levels_to_rep (ms : list meaning) : list N := 0 :: levels_to_rep_aux ms 0.

Definition unr_new (rep def : option (list N)) (ms : list meaning) (items : nat) : unr :=
  {| u_rep := rep; u_def := def; u_l2r := levels_to_rep ms; u_meaning := ms; u_cdc := 0; u_crc := 0;
     u_layer := O; u_items := items |}.

Definition unr_is_all_valid (u : unr) : outcome bool :=
  match nth_error (u_meaning u) (u_layer u) with Some m => Ok (m_is_all_valid m) | None => Panic end.

Definition unr_max_lists (u : unr) : outcome nat :=
  match nth_error (u_meaning u) (u_layer u) with
  | Some NullableItem => Panic                             (* debug_assert *)
  | Some _ => Ok (match u_rep u with Some r => length r | None => O end)
  | None => Panic
  end.

(* max_level += 1 for each NullableItem until the first list-like layer *)
Fixpoint bump_max_level (ms : list meaning) (ml : N) : N :=
  match ms with
  | NullableItem :: ms' => bump_max_level ms' (ml + 1)
  | AllValidItem :: ms' => bump_max_level ms' ml
  | _ => ml
  end.

(* the loop with def levels.  Accumulators reversed: wrep, wdef (written levels), offs, vals. *)
Fixpoint uo_def (rr dr : list N) (nl el ml un : N) (curlen : N) (wr wd offs : list N) (vals : list bool)
  : N * list N * list N * list N * list bool :=
  match rr, dr with
  | r :: rr', d :: dr' =>
      if negb (r =? 0) then
        let wr' := (r - 1) :: wr in
        let wd' := d :: wd in
        if d =? 0 then uo_def rr' dr' nl el ml un (curlen + 1) wr' wd' (curlen :: offs) (true :: vals)
        else if ml <? d then uo_def rr' dr' nl el ml un curlen wr' wd' offs vals
        else if (d =? nl) || (un <? d) then uo_def rr' dr' nl el ml un curlen wr' wd' (curlen :: offs) (false :: vals)
        else if d =? el then uo_def rr' dr' nl el ml un curlen wr' wd' (curlen :: offs) (true :: vals)
        else uo_def rr' dr' nl el ml un (curlen + 1) wr' wd' (curlen :: offs) (true :: vals)
      else uo_def rr' dr' nl el ml un (curlen + 1) wr wd offs vals
  | _, _ => (curlen, wr, wd, offs, vals)
  end.

Fixpoint uo_nodef (rr : list N) (curlen : N) (wr offs : list N) : N * list N * list N :=
  match rr with
  | r :: rr' =>
      if negb (r =? 0) then uo_nodef rr' (curlen + 1) ((r - 1) :: wr) (curlen :: offs)
      else uo_nodef rr' (curlen + 1) wr offs
  | [] => (curlen, wr, offs)
  end.

Definition set_unr (u : unr) (rep def : option (list N)) (cdc crc : N) (layer : nat) : unr :=
  {| u_rep := rep; u_def := def; u_l2r := u_l2r u; u_meaning := u_meaning u; u_cdc := cdc; u_crc := crc;
     u_layer := layer; u_items := u_items u |}.

(* unravel_offsets(&mut offsets, validity): offsets / validity are the caller's accumulators (in order) *)
Definition unravel_offsets (u : unr) (offsets : list N) (validity : option (list bool))
  : outcome (unr * list N * option (list bool)) :=
  match u_rep u with
  | None => Panic
  | Some rep =>
      let valid_level := u_cdc u in
      do '(nl, el, cdc') <-
        match nth_error (u_meaning u) (u_layer u) with
        | Some NullableList => Ok (valid_level + 1, 0, u_cdc u + 1)
        | Some EmptyableList => Ok (0, valid_level + 1, u_cdc u + 1)
        | Some NullableAndEmptyableList => Ok (valid_level + 1, valid_level + 2, u_cdc u + 2)
        | Some AllValidList => Ok (0, 0, u_cdc u)
        | _ => Panic
        end;
      let layer' := S (u_layer u) in
      let ml0 := N.max (N.max nl el) valid_level in
      let un := ml0 in
      let ml := bump_max_level (skipn layer' (u_meaning u)) ml0 in
      let curlen := last offsets 0 in
      let offsets' := removelast offsets in
      let crc' := u_crc u + 1 in
      match u_def u with
      | Some def =>
          do _ <- assert_ (Nat.eqb (length rep) (length def));
          let '(curlen', wr, wd, offs, vals) := uo_def rep def nl el ml un curlen [] [] [] [] in
          let new_offsets := offsets' ++ rev offs ++ [curlen'] in
          let validity' := option_map (fun v => v ++ rev vals) validity in
          Ok (set_unr u (Some (rev wr)) (Some (rev wd)) cdc' crc' layer', new_offsets, validity')
      | None =>
          let '(curlen', wr, offs) := uo_nodef rep curlen [] [] in
          let num_new := length offs in
          let new_offsets := offsets' ++ rev offs ++ [curlen'] in
          (* rep_levels.truncate(offsets.len() - 1): the slice beyond write_idx keeps its old content *)
          let buf := rev wr ++ skipn (length wr) rep in
          let rep' := firstn (length new_offsets - 1) buf in
          let validity' := option_map (fun v => v ++ repeat true num_new) validity in
          Ok (set_unr u (Some rep') None cdc' crc' layer', new_offsets, validity')
      end
  end.

Definition skip_validity (u : unr) : outcome unr :=
  match nth_error (u_meaning u) (u_layer u) with
  | Some AllValidItem => Ok (set_unr u (u_rep u) (u_def u) (u_cdc u) (u_crc u) (S (u_layer u)))
  | _ => Panic                                             (* debug_assert / index *)
  end.

Fixpoint uv_filter (def : list N) (l2r : list N) (crc cdc : N) (acc : list bool) : outcome (list bool) :=
  match def with
  | [] => Ok (rev acc)
  | level :: def' =>
      match nth_error l2r (N.to_nat level) with
      | None => Panic
      | Some r => if r <=? crc then uv_filter def' l2r crc cdc ((level <=? cdc) :: acc)
                  else uv_filter def' l2r crc cdc acc
      end
  end.

Definition unravel_validity (u : unr) (validity : list bool) : outcome (unr * list bool) :=
  match nth_error (u_meaning u) (u_layer u) with
  | None => Panic
  | Some AllValidItem =>
      Ok (set_unr u (u_rep u) (u_def u) (u_cdc u) (u_crc u) (S (u_layer u)), validity ++ repeat true (u_items u))
  | Some _ =>
      match u_def u with
      | None => Panic                                      (* unwrap, repdef.rs:1413 *)
      | Some def =>
          do bits <- uv_filter def (u_l2r u) (u_crc u) (u_cdc u) [];
          Ok (set_unr u (u_rep u) (u_def u) (u_cdc u + 1) (u_crc u) (S (u_layer u)), validity ++ bits)
      end
  end.

Fixpoint decim (dim k : nat) (l : list N) : list N :=
  match l with
  | [] => []
  | x :: t => match k with O => x :: decim dim (dim - 1) t | S k' => decim dim k' t end
  end.

Definition decimate (u : unr) (dim : nat) : outcome unr :=
  match u_rep u with
  | Some _ => Panic                                        (* todo!() *)
  | None =>
      match u_def u with
      | None => Ok u
      | Some def =>
          if Nat.eqb dim 0 then (if is_nil def then Ok u else Panic)   (* dim = 0 never terminates; not generated *)
          else Ok (set_unr u (u_rep u) (Some (decim dim 0 def)) (u_cdc u) (u_crc u) (u_layer u))
      end
  end.

(* ---------------------------------------------------------------------------------------------- *)
(* CompositeRepDefUnraveler                                                                         *)
Fixpoint all_valid_all (us : list unr) : outcome bool :=
  match us with
  | [] => Ok true
  | u :: t => do a <- unr_is_all_valid u; do b <- all_valid_all t; Ok (a && b)
  end.

Fixpoint map_out {A B} (f : A -> outcome B) (l : list A) : outcome (list B) :=
  match l with [] => Ok [] | x :: t => do y <- f x; do ys <- map_out f t; Ok (y :: ys) end.

Fixpoint comp_uv (us : list unr) (acc : list bool) : outcome (list unr * list bool) :=
  match us with
  | [] => Ok ([], acc)
  | u :: t => do '(u', acc') <- unravel_validity u acc; do '(t', acc'') <- comp_uv t acc'; Ok (u' :: t', acc'')
  end.

Definition comp_unravel_validity (us : list unr) : outcome (list unr * option (list bool)) :=
  (* .all() short-circuits: an index panic after a non-all-valid unraveler is not reached *)
  let fix all_sc (us : list unr) : outcome bool :=
    match us with
    | [] => Ok true
    | u :: t => do a <- unr_is_all_valid u; if a then all_sc t else Ok false
    end in
  do av <- all_sc us;
  if av then do us' <- map_out skip_validity us; Ok (us', None)
  else do '(us', bits) <- comp_uv us []; Ok (us', Some bits).

Definition comp_unravel_fsl_validity (us : list unr) (dim : nat) : outcome (list unr * option (list bool)) :=
  do us' <- map_out (fun u => decimate u dim) us; comp_unravel_validity us'.

Fixpoint comp_uo (us : list unr) (offs : list N) (val : option (list bool))
  : outcome (list unr * list N * option (list bool)) :=
  match us with
  | [] => Ok ([], offs, val)
  | u :: t =>
      do '(u', offs', val') <- unravel_offsets u offs val;
      do '(t', offs'', val'') <- comp_uo t offs' val';
      Ok (u' :: t', offs'', val'')
  end.

Definition comp_unravel_offsets (us : list unr) : outcome (list unr * list N * option (list bool)) :=
  (* is_all_valid &= ...; max_num_lists += max_lists() for every unraveler (no short circuit) *)
  do av <- all_valid_all us;
  do _ <- map_out unr_max_lists us;
  comp_uo us [] (if av then None else Some []).

(* Drive a composite through a stack, innermost layer first.  Layer kinds: *)
Inductive ukind := UValidity | UOffsets | UFsl (dim : nat).
(* per layer output: (validity, offsets) *)
Definition layer_out := (option (list bool) * option (list N))%type.

Fixpoint unravel_all (us : list unr) (ks : list ukind) : outcome (list layer_out) :=
  match ks with
  | [] => Ok []
  | UValidity :: ks' =>
      do '(us', v) <- comp_unravel_validity us; do rest <- unravel_all us' ks'; Ok ((v, None) :: rest)
  | UFsl dim :: ks' =>
      do '(us', v) <- comp_unravel_fsl_validity us dim; do rest <- unravel_all us' ks'; Ok ((v, None) :: rest)
  | UOffsets :: ks' =>
      do '(us', o, v) <- comp_unravel_offsets us; do rest <- unravel_all us' ks'; Ok ((v, Some o) :: rest)
  end.

Definition call_kind (c : call) : ukind :=
  match c with CValidity _ | CNoNull _ => UValidity | COffsets _ _ => UOffsets | CFsl _ dim _ => UFsl dim end.
(* the order in which a reader unravels: innermost first *)
Definition kinds_of (cs : list call) : list ukind := rev (map call_kind cs).

(* number of leaf items described by a call sequence (len of the builder at the end) *)
Definition items_of (cs : list call) : outcome nat :=
  do '(b, _) <- build_builder cs; Ok (match b_len b with Some n => n | None => O end).

Definition unr_of_serialized (s : serialized) (items : nat) : unr :=
  let '(rep, def, ms, _) := s in unr_new rep def ms items.

(* serialize one page and unravel it again *)
Definition roundtrip (cs : list call) : outcome (list layer_out) :=
  do s <- serialize_calls [cs];
  do n <- items_of cs;
  unravel_all [unr_of_serialized s n] (kinds_of cs).

(* several pages (each serialized on its own) read back through one composite *)
Fixpoint pages_unrs (pages : list (list call)) : outcome (list unr) :=
  match pages with
  | [] => Ok []
  | cs :: t => do s <- serialize_calls [cs]; do n <- items_of cs; do us <- pages_unrs t; Ok (unr_of_serialized s n :: us)
  end.
Definition roundtrip_pages (pages : list (list call)) : outcome (list layer_out) :=
  match pages with
  | [] => Ok []
  | cs :: _ => do us <- pages_unrs pages; unravel_all us (kinds_of cs)
  end.

(* ---------------------------------------------------------------------------------------------- *)
(* RepDefSlicer (levels are u16, 2 bytes each; we slice in units of levels)                         *)
(* slice_next: returns (number of levels taken) given the remaining def levels *)
Fixpoint slice_scan (def : list N) (mv : N) (to_take taken passed : nat) (fuel : nat) : outcome nat :=
  if Nat.ltb taken to_take then
    match fuel with
    | O => Panic
    | S fuel' =>
        match def with
        | [] => Panic                                      (* def_itr.next().unwrap() *)
        | d :: def' => slice_scan def' mv to_take (if d <=? mv then S taken else taken) (S passed) fuel'
        end
    end
  else Ok passed.

(* one slicer over [levels] of a serialized (rep or def buffer); [ops]: Some n = slice_next(n), None = slice_rest.
   Output: the slices.  slice_with_length panics when out of range. *)
Fixpoint slicer_run (levels : list N) (def : option (list N)) (mvl : option N) (cur : nat) (ops : list (option nat))
  : outcome (list (list N)) :=
  match ops with
  | [] => Ok []
  | None :: ops' =>
      let remaining := (length levels - cur)%nat in
      do _ <- assert_ (Nat.leb cur (length levels));       (* num_levels() - current : usize *)
      do rest <- slicer_run levels def mvl (length levels) ops';
      Ok (firstn remaining (skipn cur levels) :: rest)
  | Some n :: ops' =>
      let plain :=
        do _ <- assert_ (Nat.leb (cur + n) (length levels));
        do rest <- slicer_run levels def mvl (cur + n) ops';
        Ok (firstn n (skipn cur levels) :: rest) in
      match mvl with
      | None => plain
      | Some mv =>
          match def with
          | None => plain
          | Some d =>
              do _ <- assert_ (Nat.leb cur (length d));    (* def[start..] *)
              do passed <- slice_scan (skipn cur d) mv n O O (S (length d));
              do _ <- assert_ (Nat.leb (cur + passed) (length levels));
              do rest <- slicer_run levels def mvl (cur + passed) ops';
              Ok (firstn passed (skipn cur levels) :: rest)
          end
      end
  end.

(* ---------------------------------------------------------------------------------------------- *)
(* Control words                                                                                    *)
(* lance_core::utils::bit::log_2_ceil: number of bits needed (panics on 0) *)
Definition log_2_ceil (v : N) : outcome N := if v =? 0 then Panic else Ok (N.size v).
(* get_mask(width: u16) = (1 << width) - 1 : shift overflow panics for width >= 16 *)
Definition get_mask (w : N) : outcome N := if 16 <=? w then Panic else Ok (2 ^ w - 1).

Inductive cw_kind := CWBinary | CWUnary | CWNilary.
Record cw_iter := {
  cw_kind_ : cw_kind; cw_bytes : N;            (* 1 | 2 | 4 | 0 *)
  cw_rep_mask : N; cw_def_mask : N;            (* binary; unary uses cw_rep_mask as level_mask *)
  cw_def_width : N; cw_max_rep : N; cw_max_vis : N;
  cw_bits_rep : N; cw_bits_def : N }.

Definition word_bytes (tw : N) : N := if tw <=? 8 then 1 else if tw <=? 16 then 2 else 4.

Definition build_cw (has_rep has_def : bool) (max_rep max_def max_vis : N) : outcome cw_iter :=
  do rep_width <- (if max_rep =? 0 then Ok 0 else log_2_ceil max_rep);
  do rep_mask <- (if max_rep =? 0 then Ok 0 else get_mask rep_width);
  do def_width <- (if max_def =? 0 then Ok 0 else log_2_ceil max_def);
  do def_mask <- (if max_def =? 0 then Ok 0 else get_mask def_width);
  let tw := rep_width + def_width in
  match has_rep, has_def with
  | true, true =>
      Ok {| cw_kind_ := CWBinary; cw_bytes := word_bytes tw; cw_rep_mask := rep_mask; cw_def_mask := def_mask;
            cw_def_width := def_width; cw_max_rep := max_rep; cw_max_vis := max_vis;
            cw_bits_rep := rep_width mod 256; cw_bits_def := def_width mod 256 |}
  | true, false =>
      Ok {| cw_kind_ := CWUnary; cw_bytes := word_bytes tw; cw_rep_mask := rep_mask; cw_def_mask := 0;
            cw_def_width := 0; cw_max_rep := max_rep; cw_max_vis := 0;
            cw_bits_rep := tw mod 256; cw_bits_def := 0 |}
  | false, true =>
      Ok {| cw_kind_ := CWUnary; cw_bytes := word_bytes tw; cw_rep_mask := def_mask; cw_def_mask := 0;
            cw_def_width := 0; cw_max_rep := 0; cw_max_vis := 0;
            cw_bits_rep := 0; cw_bits_def := tw mod 256 |}
  | false, false =>
      Ok {| cw_kind_ := CWNilary; cw_bytes := 0; cw_rep_mask := 0; cw_def_mask := 0; cw_def_width := 0;
            cw_max_rep := 0; cw_max_vis := 0; cw_bits_rep := 0; cw_bits_def := 0 |}
  end.

(* little endian bytes of a word *)
Fixpoint le_bytes (n : nat) (x : N) : list N :=
  match n with O => [] | S n' => (x mod 256) :: le_bytes n' (x / 256) end.
Fixpoint from_le (bs : list N) : N :=
  match bs with [] => 0 | b :: t => b + 256 * from_le t end.

(* x << s in a [bits]-wide unsigned type: shift amount >= bits panics (debug), high bits are dropped *)
Definition shl_w (bits x s : N) : outcome N := if bits <=? s then Panic else Ok ((x * 2 ^ s) mod 2 ^ bits).
Definition add_w (bits a b : N) : outcome N := if 2 ^ bits <=? a + b then Panic else Ok (a + b).

Definition desc := (bool * bool * bool)%type.   (* is_new_row, is_visible, is_valid_item *)

(* one append_next of a binary iterator on (rep, def) *)
Definition cw_binary_step (it : cw_iter) (r d : N) : outcome (list N * desc) :=
  let bits := 8 * cw_bytes it in
  (* u8: both operands are cast to u8 before the shift; u16: u16 arithmetic; u32: casts to u32 *)
  let rm := (N.land r (cw_rep_mask it)) mod 2 ^ bits in
  let dm := (N.land d (cw_def_mask it)) mod 2 ^ bits in
  do hi <- shl_w bits rm (cw_def_width it);
  do w <- add_w bits hi dm;
  Ok (le_bytes (N.to_nat (cw_bytes it)) w, (r =? cw_max_rep it, d <=? cw_max_vis it, d =? 0)).

Definition cw_unary_step (it : cw_iter) (x : N) : outcome (list N * desc) :=
  let bytes := cw_bytes it in
  let masked := N.land x (cw_rep_mask it) in
  if bytes =? 1 then
    Ok ([masked mod 256], ((cw_max_rep it =? 0) || (x =? cw_max_rep it), true, (x =? 0) || (cw_bits_def it =? 0)))
  else if bytes =? 2 then
    Ok (le_bytes 2 masked, ((cw_max_rep it =? 0) || (masked =? cw_max_rep it), true, (masked =? 0) || (cw_bits_def it =? 0)))
  else
    Ok (le_bytes 4 masked, ((cw_max_rep it =? 0) || (masked mod 65536 =? cw_max_rep it), true, (masked =? 0) || (cw_bits_def it =? 0))).

(* Run the iterator over its input until it is exhausted, then call append_next once more:
   result = (bytes, descs, outcome of the extra call: true = returned None).
   Unary16's append_next unwraps, so its extra call panics. *)
Fixpoint cw_run_binary (it : cw_iter) (rep def : list N) : outcome (list N * list desc) :=
  match rep, def with
  | r :: rep', d :: def' =>
      do '(bs, ds) <- cw_binary_step it r d;
      do '(bs', ds') <- cw_run_binary it rep' def';
      Ok (bs ++ bs', ds :: ds')
  | _, _ => Ok ([], [])            (* zip stops at the shorter *)
  end.
Fixpoint cw_run_unary (it : cw_iter) (lev : list N) : outcome (list N * list desc) :=
  match lev with
  | x :: lev' =>
      do '(bs, ds) <- cw_unary_step it x;
      do '(bs', ds') <- cw_run_unary it lev';
      Ok (bs ++ bs', ds :: ds')
  | [] => Ok ([], [])
  end.

(* (bytes_per_word, bits_rep, bits_def, has_repetition, bytes, descs, extra call returned None (true) / panicked (false)) *)
Definition cw_result := (N * N * N * bool * list N * list desc * bool)%type.

Definition cw_encode (rep def : option (list N)) (max_rep max_def max_vis : N) (len : nat) : outcome cw_result :=
  do it <- build_cw (is_some rep) (is_some def) max_rep max_def max_vis;
  match rep, def with
  | Some r, Some d =>
      do '(bs, ds) <- cw_run_binary it r d;
      Ok (cw_bytes it, cw_bits_rep it, cw_bits_def it, true, bs, ds, true)
  | Some l, None | None, Some l =>
      do '(bs, ds) <- cw_run_unary it l;
      Ok (cw_bytes it, cw_bits_rep it, cw_bits_def it, 0 <? cw_bits_rep it, bs, ds, negb (cw_bytes it =? 2))
  | None, None =>
      Ok (0, 0, 0, false, [], repeat (true, true, true) len, true)
  end.

(* ControlWordParser *)
Inductive cw_parser :=
| P_BOTH (bytes : N) (shift mask : N) | P_REP (bytes : N) | P_DEF (bytes : N) | P_NIL.

Definition parser_new (bits_rep bits_def : N) : outcome cw_parser :=
  (* u8 addition overflow *)
  do total <- add_w 8 bits_rep bits_def;
  let bytes := word_bytes total in
  match 0 <? bits_rep, 0 <? bits_def with
  | false, false => Ok P_NIL
  | false, true => Ok (P_DEF bytes)
  | true, false => Ok (P_REP bytes)
  | true, true => do m <- get_mask bits_def; Ok (P_BOTH bytes bits_def m)
  end.

Definition parser_bytes (p : cw_parser) : N :=
  match p with P_BOTH b _ _ => b | P_REP b => b | P_DEF b => b | P_NIL => 0 end.
Definition parser_has_rep (p : cw_parser) : bool :=
  match p with P_BOTH _ _ _ | P_REP _ => true | _ => false end.

(* word >> shift in a [bits]-wide type *)
Definition shr_w (bits x s : N) : outcome N := if bits <=? s then Panic else Ok (x / 2 ^ s).

(* parse one word: (rep pushed?, def pushed?) *)
Definition parse_word (p : cw_parser) (src : list N) : outcome (option N * option N) :=
  match p with
  | P_NIL => Ok (None, None)
  | P_BOTH bytes shift mask =>
      do _ <- assert_ (Nat.leb (N.to_nat bytes) (length src));
      let bits := 8 * bytes in
      let word := from_le (firstn (N.to_nat bytes) src) in
      do rep <- shr_w bits word shift;
      let def := N.land word (mask mod 2 ^ bits) in
      Ok (Some (rep mod 65536), Some (def mod 65536))
  | P_REP bytes =>
      do _ <- assert_ (Nat.leb (N.to_nat bytes) (length src));
      Ok (Some (from_le (firstn (N.to_nat bytes) src) mod 65536), None)
  | P_DEF bytes =>
      do _ <- assert_ (Nat.leb (N.to_nat bytes) (length src));
      Ok (None, Some (from_le (firstn (N.to_nat bytes) src) mod 65536))
  end.

Definition parse_desc (p : cw_parser) (src : list N) (max_rep max_vis : N) : outcome desc :=
  match p with
  | P_NIL => Ok (true, true, true)
  | P_BOTH bytes shift mask =>
      do _ <- assert_ (Nat.leb (N.to_nat bytes) (length src));
      let bits := 8 * bytes in
      let word := from_le (firstn (N.to_nat bytes) src) in
      do rep <- shr_w bits word shift;
      let def := N.land word (mask mod 2 ^ bits) in
      Ok (rep mod 65536 =? max_rep, def mod 65536 <=? max_vis, def =? 0)
  | P_REP bytes =>
      do _ <- assert_ (Nat.leb (N.to_nat bytes) (length src));
      Ok (from_le (firstn (N.to_nat bytes) src) mod 65536 =? max_rep, true, true)
  | P_DEF bytes =>
      do _ <- assert_ (Nat.leb (N.to_nat bytes) (length src));
      let w := from_le (firstn (N.to_nat bytes) src) in
      Ok (true, true, if bytes =? 4 then w mod 65536 =? 0 else w =? 0)
  end.

(* parse a whole buffer in chunks of bytes_per_word (chunks_exact) *)
Fixpoint parse_all (p : cw_parser) (src : list N) (max_rep max_vis : N) (fuel : nat)
  : outcome (list N * list N * list desc) :=
  match fuel with
  | O => Ok ([], [], [])
  | S fuel' =>
      let b := N.to_nat (parser_bytes p) in
      if Nat.eqb b 0 then Ok ([], [], [])
      else if Nat.ltb (length src) b then Ok ([], [], [])
      else
        do '(r, d) <- parse_word p src;
        do ds <- parse_desc p src max_rep max_vis;
        do '(rs, dfs, dss) <- parse_all p (skipn b src) max_rep max_vis fuel';
        Ok (match r with Some x => x :: rs | None => rs end, match d with Some x => x :: dfs | None => dfs end, ds :: dss)
  end.

(* ---------------------------------------------------------------------------------------------- *)
(* Correspondence checkers                                                                          *)
Definition meaning_of_N (n : N) : meaning :=
  match n with 0 => AllValidItem | 1 => AllValidList | 2 => NullableItem | 3 => NullableList | 4 => EmptyableList
          | _ => NullableAndEmptyableList end.
Definition meaning_to_N (m : meaning) : N :=
  match m with AllValidItem => 0 | AllValidList => 1 | NullableItem => 2 | NullableList => 3 | EmptyableList => 4
          | NullableAndEmptyableList => 5 end.

Definition lN_eqb := list_eqb N.eqb.
Definition lb_eqb := list_eqb Bool.eqb.
Definition olN_eqb := option_eqb lN_eqb.
Definition olb_eqb := option_eqb lb_eqb.

(* recorded serialized: (rep, def, meaning codes, max_visible) *)
Definition ser_rec := (option (list N) * option (list N) * list N * option N)%type.
Definition ser_eqb (s : serialized) (r : ser_rec) : bool :=
  let '(rep, def, ms, mv) := s in
  let '(rep', def', ms', mv') := r in
  olN_eqb rep rep' && olN_eqb def def' && lN_eqb (map meaning_to_N ms) ms' && option_eqb N.eqb mv mv'.

(* calls as recorded by the harness: (tag, (offsets, (validity, (a, b)))):
   tag 0 = add_validity_bitmap(validity); 1 = add_no_null(a); 2 = add_offsets(offsets, validity);
   3 = add_fsl(validity, dim = a, num_values = b) *)
Definition crec := (N * (list N * (option (list bool) * (N * N))))%type.
Definition call_of_crec (r : crec) : call :=
  let '(tag, (offs, (v, (a, b)))) := r in
  match tag with
  | 0 => CValidity (match v with Some x => x | None => [] end)
  | 1 => CNoNull (N.to_nat a)
  | 2 => COffsets offs v
  | _ => CFsl v (N.to_nat a) (N.to_nat b)
  end.

(* builders -> serialize: impl output = outcome of (has_garbage flags per builder, serialized) *)
Definition chk_serialize (i : list (list crec)) (o : outcome (list (list bool) * ser_rec)) : bool :=
  let css := map (map call_of_crec) i in
  let m :=
    do flags <- map_out (fun cs => do '(_, f) <- build_builder cs; Ok f) css;
    do s <- serialize_calls css;
    Ok (flags, s) in
  match m, o with
  | Ok (f, s), Ok (f', r) => list_eqb lb_eqb f f' && ser_eqb s r
  | Panic, Panic => true
  | Err, Err => true
  | _, _ => false
  end.

Definition layer_out_eqb (a b : layer_out) : bool := olb_eqb (fst a) (fst b) && olN_eqb (snd a) (snd b).

Definition ukind_of_N (k : N * N) : ukind :=
  match fst k with 0 => UValidity | 1 => UOffsets | _ => UFsl (N.to_nat (snd k)) end.

(* unravel: input = (list of unravelers (rep, def, meaning codes, num_items), kinds innermost first) *)
Definition chk_unravel (i : list (option (list N) * option (list N) * list N * N) * list (N * N))
           (o : outcome (list layer_out)) : bool :=
  let '(us, ks) := i in
  let unrs := map (fun '(rep, def, ms, n) => unr_new rep def (map meaning_of_N ms) (N.to_nat n)) us in
  outcome_eqb (list_eqb layer_out_eqb) (unravel_all unrs (map ukind_of_N ks)) o.

(* pages (call sequences) -> serialize each -> composite unravel *)
Definition chk_roundtrip_pages (i : list (list crec)) (o : outcome (list layer_out)) : bool :=
  outcome_eqb (list_eqb layer_out_eqb) (roundtrip_pages (map (map call_of_crec) i)) o.

(* slicer: (levels, def, max_visible_level, ops) -> slices *)
Definition chk_slicer (i : list N * option (list N) * option N * list (option N)) (o : outcome (list (list N))) : bool :=
  let '(levels, def, mvl, ops) := i in
  outcome_eqb (list_eqb lN_eqb) (slicer_run levels def mvl O (map (option_map N.to_nat) ops)) o.

Definition desc_eqb (a b : desc) : bool :=
  let '(a1, a2, a3) := a in let '(b1, b2, b3) := b in Bool.eqb a1 b1 && Bool.eqb a2 b2 && Bool.eqb a3 b3.

Definition cw_result_eqb (a b : cw_result) : bool :=
  let '(a1, a2, a3, a4, a5, a6, a7) := a in
  let '(b1, b2, b3, b4, b5, b6, b7) := b in
  (a1 =? b1) && (a2 =? b2) && (a3 =? b3) && Bool.eqb a4 b4 && lN_eqb a5 b5 && list_eqb desc_eqb a6 b6 && Bool.eqb a7 b7.

(* control word iterator: (rep, def, max_rep, max_def, max_visible, len) *)
Definition chk_cw_encode (i : option (list N) * option (list N) * N * N * N * N) (o : outcome cw_result) : bool :=
  let '(rep, def, mr, md, mv, len) := i in
  outcome_eqb cw_result_eqb (cw_encode rep def mr md mv (N.to_nat len)) o.

(* parser: (bits_rep, bits_def, bytes, max_rep, max_visible) -> (bytes_per_word, has_rep, rep, def, descs) *)
Definition chk_cw_parse (i : N * N * list N * N * N) (o : outcome (N * bool * list N * list N * list desc)) : bool :=
  let '(br, bd, src, mr, mv) := i in
  let m :=
    do p <- parser_new br bd;
    do '(r, d, ds) <- parse_all p src mr mv (S (length src));
    Ok (parser_bytes p, parser_has_rep p, r, d, ds) in
  outcome_eqb (fun a b =>
    let '(a1, a2, a3, a4, a5) := a in let '(b1, b2, b3, b4, b5) := b in
    (a1 =? b1) && Bool.eqb a2 b2 && lN_eqb a3 b3 && lN_eqb a4 b4 && list_eqb desc_eqb a5 b5) m o.
